//! Engine `aiger`: the ASCII (`aag`) and binary (`aig`) AIGER parsers and writers of `flussab-aiger`.
//!
//! Case: `aiger fmt=<aag|aig> ty=<u8|u16|u32|u64|usize> mode=<stream|skip|parse> k=<fault offset|->
//!        ls=<0|1> d=<hex> [x=<expected observation>] [t=<corrupted token line:col:len>] [w=<1|2>]`
//! Observation (also what the Lean driver prints), items joined by `|`:
//!   `H:M:I:L:O:A:B:C:J:F`, then per section item (streaming API, in file order)
//!   `I:<lit>` · `L:<state>:<next>:<0|1|x>` (aag) / `L:<next>:<0|1|x>` (aig) · `O:` `B:` `C:` ·
//!   `JS:<size>` · `J:<lit>` · `F:<lit>` · `A:<out>:<in0>:<in1>` (aag) / `A:<in0>:<in1>` (aig) ·
//!   `S:<kind letter><index>:<name hex>` · `K:none` / `K:<comment hex>`, then
//!   `END`, `E:io`, `E:syn:<line>:<col>` or `E:panic`.
//!   `mode=skip` calls the section transitions without reading the items (header, symbols, comment
//!   only); `mode=m<mask>[.<n>]` reads at most `n` (default: all) items of the sections whose bit is
//!   set in `mask` (bit i = section i of `SECTIONS`: inputs, latches, outputs, bad, constraints,
//!   justice sizes, justice literals, fairness, and gates, symbols) and leaves the others without
//!   reading them; `mode=parse` calls `parse()` and prints `P` followed by the same items, derived from the
//!   returned `Aig` / `OrderedAig` (nothing but the error if it fails).
//!   With `ls=1` (one line per read) every item carries `@<bytes delivered by the source>`, and every
//!   section transition that returned is an item of its own, `T:<section>@<delivered>`.
//!   `w=1|2` marks data produced by the crate's own writer (1: `write_aig` / binary
//!   `write_ordered_aig`, 2: `ascii::Writer::write_ordered_aig`); the Lean driver then also checks
//!   its writer model against `d`; the harness appends `|W:mismatch` when the real writer, given the
//!   parsed value, does not reproduce `d` byte for byte (never for data the writer itself produced).
//! Scale cases (`--opt scale`, gen_aiger.rs): `d` is a compact data field (`common::data_field`),
//!   `cut=<n>` keeps the first `n` bytes of it and `post=<data field>` is appended after the cut (so a
//!   truncation or a corrupted token can sit behind megabytes of well-formed input); with `ls=1`,
//!   `c=<chunk>` sets the reader's chunk size and the source hands out one line per read, a line longer
//!   than the chunk in chunk-sized pieces.  An observation longer than 64 KiB is replaced on both sides
//!   by the digest `D:<items>:<bytes>:<fnv-1a 64 of the text>|<first item>|<last item>|<outcome>`.
//! Oracles: C01 (same observation under every schedule), C03 (expected value `x`; write∘parse on
//! accepted inputs), C04 (fault ⇒ io), C05 (no panic, bounded allocation), C06 (independent reading
//! of what the case's mode returned and, whatever the mode, of what `parse()` returns),
//! C08 (location inside the input / on the corrupted token `t`), C09 (no line pulled beyond the
//! completing one).
use crate::common::*;
use crate::eng_cnf::{line_schedule, schedules, RunObs};
use flussab::text::LineReader;
use flussab::{DeferredReader, DeferredWriter};
use flussab_aiger::aig::{Aig, AndGate, Latch, OrderedAig, OrderedAndGate, OrderedLatch, Symbol, SymbolTarget};
use flussab_aiger::{ascii, binary, InnerParseError, Lit, ParseError};

pub fn err_obs(e: &ParseError) -> String {
    match &**e {
        InnerParseError::IoError(_) => "E:io".into(),
        InnerParseError::SyntaxError(s) => format!("E:syn:{}:{}", s.location.line, s.location.column),
    }
}

pub fn init_str(i: Option<bool>) -> &'static str {
    match i {
        Some(false) => "0",
        Some(true) => "1",
        None => "x",
    }
}

pub fn sym_str(t: SymbolTarget, name: &[u8]) -> String {
    let (k, i) = match t {
        SymbolTarget::Input(i) => ('i', i),
        SymbolTarget::Output(i) => ('o', i),
        SymbolTarget::Latch(i) => ('l', i),
        SymbolTarget::BadStateProperty(i) => ('b', i),
        SymbolTarget::InvariantConstraint(i) => ('c', i),
        SymbolTarget::JusticeProperty(i) => ('j', i),
        SymbolTarget::FairnessConstraint(i) => ('f', i),
    };
    format!("S:{}{}:{}", k, i, hex(name))
}

pub fn comment_str(c: Option<&[u8]>) -> String {
    match c {
        None => "K:none".into(),
        Some(c) => format!("K:{}", hex(c)),
    }
}

#[allow(clippy::too_many_arguments)]
fn header_str(m: usize, i: usize, l: usize, o: usize, a: usize, b: usize, c: usize, j: usize, f: usize) -> String {
    format!("H:{}:{}:{}:{}:{}:{}:{}:{}:{}", m, i, l, o, a, b, c, j, f)
}

/// Canonical items of an `Aig` (the same items the streaming API would have produced).
pub fn aig_items<L: Lit>(a: &Aig<L>) -> Vec<String> {
    let mut v = vec![header_str(
        a.max_var_index, a.inputs.len(), a.latches.len(), a.outputs.len(), a.and_gates.len(),
        a.bad_state_properties.len(), a.invariant_constraints.len(), a.justice_properties.len(),
        a.fairness_constraints.len(),
    )];
    v.extend(a.inputs.iter().map(|l| format!("I:{}", l.code())));
    v.extend(a.latches.iter().map(|l| format!("L:{}:{}:{}", l.state.code(), l.next_state.code(), init_str(l.initialization))));
    mid_items(&mut v, &a.outputs, &a.bad_state_properties, &a.invariant_constraints, &a.justice_properties, &a.fairness_constraints);
    v.extend(a.and_gates.iter().map(|g| format!("A:{}:{}:{}", g.output.code(), g.inputs[0].code(), g.inputs[1].code())));
    v.extend(a.symbols.iter().map(|s| sym_str(s.target, s.name.as_bytes())));
    v.push(comment_str(a.comment.as_ref().map(|c| c.as_bytes())));
    v
}

fn mid_items<L: Lit>(v: &mut Vec<String>, o: &[L], b: &[L], c: &[L], j: &[Vec<L>], f: &[L]) {
    v.extend(o.iter().map(|l| format!("O:{}", l.code())));
    v.extend(b.iter().map(|l| format!("B:{}", l.code())));
    v.extend(c.iter().map(|l| format!("C:{}", l.code())));
    v.extend(j.iter().map(|p| format!("JS:{}", p.len())));
    v.extend(j.iter().flatten().map(|l| format!("J:{}", l.code())));
    v.extend(f.iter().map(|l| format!("F:{}", l.code())));
}

pub fn ordered_items<L: Lit>(a: &OrderedAig<L>) -> Vec<String> {
    let mut v = vec![header_str(
        a.max_var_index, a.input_count, a.latches.len(), a.outputs.len(), a.and_gates.len(),
        a.bad_state_properties.len(), a.invariant_constraints.len(), a.justice_properties.len(),
        a.fairness_constraints.len(),
    )];
    v.extend(a.latches.iter().map(|l| format!("L:{}:{}", l.next_state.code(), init_str(l.initialization))));
    mid_items(&mut v, &a.outputs, &a.bad_state_properties, &a.invariant_constraints, &a.justice_properties, &a.fairness_constraints);
    v.extend(a.and_gates.iter().map(|g| format!("A:{}:{}", g.inputs[0].code(), g.inputs[1].code())));
    v.extend(a.symbols.iter().map(|s| sym_str(s.target, s.name.as_bytes())));
    v.push(comment_str(a.comment.as_ref().map(|c| c.as_bytes())));
    v
}

macro_rules! tr {
    ($items:ident, $e:expr) => {
        match $e {
            Ok(v) => v,
            Err(e) => return RunObs { items: $items, fin: err_obs(&e) },
        }
    };
}

/// `while let Some(x) = next()? { push }`, at most `$lim` items (`0` = the section is left without
/// reading it, `usize::MAX` = drained).
macro_rules! drain_section {
    ($items:ident, $lim:expr, $d:expr, $next:expr, $x:ident => $show:expr) => {{
        let mut taken = 0usize;
        while taken < $lim {
            match tr!($items, $next) {
                Some($x) => { $items.push(($show, $d())); taken += 1; }
                None => break,
            }
        }
    }};
}

/// A section transition returned: with `trans` (line sources, C09) the number of bytes the source
/// has delivered at that moment is observed like an item (`T:<section>@<delivered>`).
macro_rules! transition {
    ($items:ident, $trans:expr, $d:expr, $name:expr, $e:expr) => {{
        let s = tr!($items, $e);
        if $trans { $items.push((format!("T:{}", $name), $d())); }
        s
    }};
}

/// Sections between the latches and the and gates; the streaming types of the two modules have the
/// same method names, so one macro serves both.
macro_rules! mid_sections {
    ($items:ident, $s:ident, $lim:expr, $trans:expr, $d:expr) => {{
        let mut s = transition!($items, $trans, $d, "outputs", $s.outputs());
        drain_section!($items, $lim[2], $d, s.next_output(), x => format!("O:{}", x.code()));
        let mut s = transition!($items, $trans, $d, "bad", s.bad_state_properties());
        drain_section!($items, $lim[3], $d, s.next_bad_state_property(), x => format!("B:{}", x.code()));
        let mut s = transition!($items, $trans, $d, "constraints", s.invariant_constraints());
        drain_section!($items, $lim[4], $d, s.next_invariant_constraint(), x => format!("C:{}", x.code()));
        let mut s = transition!($items, $trans, $d, "justice", s.justice_properties());
        drain_section!($items, $lim[5], $d, s.next_justice_property_size(), x => format!("JS:{}", x));
        let mut s = transition!($items, $trans, $d, "jlits", s.justice_property_local_fairness_constraints());
        drain_section!($items, $lim[6], $d, s.next_justice_property_local_fairness_constraint(), x => format!("J:{}", x.code()));
        let mut s = transition!($items, $trans, $d, "fairness", s.fairness_constraints());
        drain_section!($items, $lim[7], $d, s.next_fairness_constraint(), x => format!("F:{}", x.code()));
        transition!($items, $trans, $d, "gates", s.and_gates())
    }};
}

macro_rules! tail_sections {
    ($items:ident, $s:ident, $lim:expr, $trans:expr, $d:expr) => {{
        let mut s = transition!($items, $trans, $d, "symbols", $s.symbols());
        drain_section!($items, $lim[9], $d, s.next_symbol(), sym => sym_str(sym.target, sym.name.as_bytes()));
        let c = comment_str(tr!($items, s.comment()).map(|c| c.as_bytes()));
        $items.push((c, $d()));
        RunObs { items: $items, fin: "END".into() }
    }};
}

/// Sections of the streaming interface in file order (bit / index of a section in `mode=m<mask>`).
pub const SECTIONS: [&str; 10] = ["inputs", "latches", "outputs", "bad", "constraints", "justice", "jlits", "fairness", "gates", "symbols"];

/// How many items the driver takes from each section before it calls the next transition:
/// `stream` = all of every section, `skip` = none (but the whole symbol table), `m<mask>[.<n>]` =
/// at most `n` (default: all) items of the sections whose bit is set in `mask`, none of the others.
pub fn mode_limits(mode: &str) -> [usize; 10] {
    match mode {
        "stream" => [usize::MAX; 10],
        "skip" => { let mut l = [0; 10]; l[9] = usize::MAX; l }
        m if m.starts_with('m') => {
            let (mask, n) = match m[1..].split_once('.') {
                Some((a, b)) => (a.parse::<usize>().unwrap(), b.parse::<usize>().unwrap()),
                None => (m[1..].parse::<usize>().unwrap(), usize::MAX),
            };
            let mut l = [0; 10];
            for (i, x) in l.iter_mut().enumerate() { if mask >> i & 1 == 1 { *x = n; } }
            l
        }
        _ => [0; 10],
    }
}

fn run_typed<L: Lit + 'static>(fmt: &str, mode: &str, src: SchedSource, chunk: usize, trans: bool) -> RunObs {
    let d = || src.0.borrow().log.len();
    let mut reader = DeferredReader::from_read(src.clone());
    let total = src.0.borrow().data.len();
    crate::eng_cnf::prepare_reader(&mut reader, chunk, total);
    let lim = mode_limits(mode);
    let mut items: Vec<(String, usize)> = vec![];
    if fmt == "aag" {
        let parser = tr!(items, if chunk == crate::eng_cnf::CTOR_FROM_READ {
            ascii::Parser::<L>::from_read(src.clone(), ascii::Config::default())
        } else if chunk == crate::eng_cnf::CTOR_BOXED {
            ascii::Parser::<L>::from_boxed_dyn_read(Box::new(src.clone()), ascii::Config::default())
        } else {
            ascii::Parser::<L>::new(LineReader::new(reader), ascii::Config::default())
        });
        if mode == "parse" {
            let aig = tr!(items, parser.parse());
            items.push(("P".into(), d()));
            items.extend(aig_items(&aig).into_iter().map(|s| (s, d())));
            return RunObs { items, fin: "END".into() };
        }
        let h = parser.header();
        items.push((header_str(h.max_var_index, h.input_count, h.latch_count, h.output_count, h.and_gate_count,
            h.bad_state_property_count, h.invariant_constraint_count, h.justice_property_count, h.fairness_constraint_count), d()));
        let mut s = transition!(items, trans, d, "inputs", parser.inputs());
        drain_section!(items, lim[0], d, s.next_input(), x => format!("I:{}", x.code()));
        let mut s = transition!(items, trans, d, "latches", s.latches());
        drain_section!(items, lim[1], d, s.next_latch(), x => format!("L:{}:{}:{}", x.state.code(), x.next_state.code(), init_str(x.initialization)));
        let mut s = mid_sections!(items, s, lim, trans, d);
        drain_section!(items, lim[8], d, s.next_and_gate(), x => format!("A:{}:{}:{}", x.output.code(), x.inputs[0].code(), x.inputs[1].code()));
        tail_sections!(items, s, lim, trans, d)
    } else {
        let parser = tr!(items, if chunk == crate::eng_cnf::CTOR_FROM_READ {
            binary::Parser::<L>::from_read(src.clone(), binary::Config::default())
        } else if chunk == crate::eng_cnf::CTOR_BOXED {
            binary::Parser::<L>::from_boxed_dyn_read(Box::new(src.clone()), binary::Config::default())
        } else {
            binary::Parser::<L>::new(LineReader::new(reader), binary::Config::default())
        });
        if mode == "parse" {
            let aig = tr!(items, parser.parse());
            items.push(("P".into(), d()));
            items.extend(ordered_items(&aig).into_iter().map(|s| (s, d())));
            return RunObs { items, fin: "END".into() };
        }
        let h = parser.header();
        items.push((header_str(h.max_var_index, h.input_count, h.latch_count, h.output_count, h.and_gate_count,
            h.bad_state_property_count, h.invariant_constraint_count, h.justice_property_count, h.fairness_constraint_count), d()));
        let mut s = transition!(items, trans, d, "latches", parser.latches());
        drain_section!(items, lim[1], d, s.next_latch(), x => format!("L:{}:{}", x.next_state.code(), init_str(x.initialization)));
        let mut s = mid_sections!(items, s, lim, trans, d);
        drain_section!(items, lim[8], d, s.next_and_gate(), x => format!("A:{}:{}", x.inputs[0].code(), x.inputs[1].code()));
        tail_sections!(items, s, lim, trans, d)
    }
}

/// A user-defined literal type with an arbitrary `MAX_CODE` that enforces the trait's contract:
/// `from_code` must never see a code above `MAX_CODE` (the built-in types all have an odd
/// `MAX_CODE = 2^k - 1`; the trait allows any).
#[derive(Clone, Copy, PartialEq, Eq, Hash, Debug)]
pub struct Chk<const M: usize>(usize);

impl<const M: usize> Lit for Chk<M> {
    const MAX_CODE: usize = M;
    fn from_code(code: usize) -> Self {
        assert!(code <= M, "from_code({}) beyond MAX_CODE {}", code, M);
        Chk(code)
    }
    fn code(self) -> usize {
        self.0
    }
}

/// The document parsed with the checked literal type whose (even) `MAX_CODE` is `m2`.
pub fn run_parser_chk(fmt: &str, mode: &str, src: SchedSource, m2: usize) -> Option<RunObs> {
    let r = catch(|| match m2 {
        2 => run_typed::<Chk<2>>(fmt, mode, src.clone(), 16384, false),
        4 => run_typed::<Chk<4>>(fmt, mode, src.clone(), 16384, false),
        6 => run_typed::<Chk<6>>(fmt, mode, src.clone(), 16384, false),
        8 => run_typed::<Chk<8>>(fmt, mode, src.clone(), 16384, false),
        10 => run_typed::<Chk<10>>(fmt, mode, src.clone(), 16384, false),
        12 => run_typed::<Chk<12>>(fmt, mode, src.clone(), 16384, false),
        14 => run_typed::<Chk<14>>(fmt, mode, src.clone(), 16384, false),
        16 => run_typed::<Chk<16>>(fmt, mode, src.clone(), 16384, false),
        18 => run_typed::<Chk<18>>(fmt, mode, src.clone(), 16384, false),
        20 => run_typed::<Chk<20>>(fmt, mode, src.clone(), 16384, false),
        22 => run_typed::<Chk<22>>(fmt, mode, src.clone(), 16384, false),
        24 => run_typed::<Chk<24>>(fmt, mode, src.clone(), 16384, false),
        26 => run_typed::<Chk<26>>(fmt, mode, src.clone(), 16384, false),
        28 => run_typed::<Chk<28>>(fmt, mode, src.clone(), 16384, false),
        30 => run_typed::<Chk<30>>(fmt, mode, src.clone(), 16384, false),
        32 => run_typed::<Chk<32>>(fmt, mode, src.clone(), 16384, false),
        _ => RunObs { items: vec![], fin: "SKIP".into() },
    });
    match r {
        Some(o) if o.fin == "SKIP" => None,
        Some(o) => Some(o),
        None => Some(RunObs { items: vec![], fin: "E:panic".into() }),
    }
}

pub fn run_parser(fmt: &str, ty: &str, mode: &str, src: SchedSource, chunk: usize) -> RunObs {
    run_parser_t(fmt, ty, mode, src, chunk, false)
}

/// As `run_parser`; with `trans` every section transition is observed as a pseudo-item.
pub fn run_parser_t(fmt: &str, ty: &str, mode: &str, src: SchedSource, chunk: usize, trans: bool) -> RunObs {
    let r = catch(|| match ty {
        "u8" => run_typed::<u8>(fmt, mode, src.clone(), chunk, trans),
        "u16" => run_typed::<u16>(fmt, mode, src.clone(), chunk, trans),
        "u32" => run_typed::<u32>(fmt, mode, src.clone(), chunk, trans),
        "u64" => run_typed::<u64>(fmt, mode, src.clone(), chunk, trans),
        "usize" => run_typed::<usize>(fmt, mode, src.clone(), chunk, trans),
        _ => panic!("bad type"),
    });
    r.unwrap_or(RunObs { items: vec![], fin: "E:panic".into() })
}

// ------------------------------------------------------------------ whole-file API, writers (C03, C05)

/// `parse()` over a plain slice, with the peak heap growth it caused.
fn parse_probe_typed<L: Lit>(fmt: &str, data: &[u8]) -> (Option<Vec<String>>, usize, usize) {
    let base = heap_mark();
    if fmt == "aag" {
        let r = ascii::Parser::<L>::from_read(data, ascii::Config::default()).and_then(|p| p.parse());
        let (peak, largest) = heap_peak_since(base);
        (r.ok().map(|a| aig_items(&a)), peak, largest)
    } else {
        let r = binary::Parser::<L>::from_read(data, binary::Config::default()).and_then(|p| p.parse());
        let (peak, largest) = heap_peak_since(base);
        (r.ok().map(|a| ordered_items(&a)), peak, largest)
    }
}

/// parse → write with the crate's writer(s) → parse again; returns (first, [(writer name, second)]).
#[allow(clippy::type_complexity)]
fn rewrite_typed<L: Lit>(fmt: &str, data: &[u8], w: u8) -> Option<(Vec<String>, Vec<(&'static str, Option<Vec<String>>)>, bool)> {
    // (writer, the value read back) for the writers whose output reads back differently; an entry
    // per writer would hold a copy of the whole value, which at scale is hundreds of megabytes
    let mut res = vec![];
    let mut same = true;
    if fmt == "aag" {
        let a = ascii::Parser::<L>::from_read(data, ascii::Config::default()).and_then(|p| p.parse()).ok()?;
        let mut out: Vec<u8> = vec![];
        {
            let mut w = DeferredWriter::from_write(&mut out);
            ascii::Writer::<L>::new(&mut w).write_aig(&a);
            use std::io::Write;
            w.flush().ok()?;
        }
        if w == 1 { same = out == data; }
        if out.len() <= 1 << 16 {
            let mut twice: Vec<u8> = vec![];
            {
                let mut w = DeferredWriter::from_write(&mut twice);
                let wr = ascii::Writer::<L>::new(&mut w);
                wr.write_aig(&a);
                wr.write_aig(&a);
                use std::io::Write;
                w.flush().ok()?;
            }
            if twice.len() != 2 * out.len() || twice[..out.len()] != out[..] || twice[out.len()..] != out[..] {
                let back = ascii::Parser::<L>::from_read(&twice[out.len().min(twice.len())..], ascii::Config::default()).and_then(|p| p.parse()).ok();
                res.push(("ascii::Writer reused for a second document: write_aig", back.map(|b| aig_items(&b))));
            }
        }
        let b = ascii::Parser::<L>::from_read(&out[..], ascii::Config::default()).and_then(|p| p.parse()).ok();
        drop(out);
        let first = aig_items(&a);
        let second = b.map(|b| aig_items(&b));
        if second.as_ref() != Some(&first) { res.push(("ascii::write_aig", second)); }
        Some((first, res, same))
    } else {
        let a = binary::Parser::<L>::from_read(data, binary::Config::default()).and_then(|p| p.parse()).ok()?;
        let mut out: Vec<u8> = vec![];
        {
            let mut w = binary::Writer::<L>::new(DeferredWriter::from_write(&mut out));
            w.write_ordered_aig(&a);
            use std::io::Write;
            w.writer.flush().ok()?;
        }
        if w == 1 { same = out == data; }
        // the same writer object used for two documents in a row: the second document's bytes
        // must be what a fresh writer emits (the writer carries a running literal counter)
        if out.len() <= 1 << 16 {
            let mut twice: Vec<u8> = vec![];
            {
                let mut w = binary::Writer::<L>::new(DeferredWriter::from_write(&mut twice));
                w.write_ordered_aig(&a);
                w.write_ordered_aig(&a);
                use std::io::Write;
                w.writer.flush().ok()?;
            }
            if twice.len() != 2 * out.len() || twice[..out.len()] != out[..] || twice[out.len()..] != out[..] {
                let back = binary::Parser::<L>::from_read(&twice[out.len().min(twice.len())..], binary::Config::default()).and_then(|p| p.parse()).ok();
                res.push(("binary::Writer reused for a second document: write_ordered_aig", back.map(|b| ordered_items(&b))));
            }
        }
        let b = binary::Parser::<L>::from_read(&out[..], binary::Config::default()).and_then(|p| p.parse()).ok();
        drop(out);
        let first = ordered_items(&a);
        let second = b.map(|b| ordered_items(&b));
        if second.as_ref() != Some(&first) { res.push(("binary::write_ordered_aig", second)); }
        // the ordered circuit through the ASCII writer must read back as `Aig::from(ordered)`;
        // only for small input counts (the ASCII form lists every input)
        if a.input_count <= 64 {
            let mut out: Vec<u8> = vec![];
            {
                let mut w = DeferredWriter::from_write(&mut out);
                ascii::Writer::<L>::new(&mut w).write_ordered_aig(&a);
                use std::io::Write;
                w.flush().ok()?;
            }
            let b = ascii::Parser::<L>::from_read(&out[..], ascii::Config::default()).and_then(|p| p.parse()).ok();
            let want = aig_items(&Aig::from(a.clone()));
            match b.map(|b| aig_items(&b)) {
                Some(got) if got == want => {}
                other => res.push(("ascii::write_ordered_aig", other)),
            }
        }
        Some((first, res, same))
    }
}

macro_rules! by_type {
    ($ty:expr, $f:ident, $($arg:expr),*) => {
        match $ty {
            "u8" => $f::<u8>($($arg),*),
            "u16" => $f::<u16>($($arg),*),
            "u32" => $f::<u32>($($arg),*),
            "u64" => $f::<u64>($($arg),*),
            _ => $f::<usize>($($arg),*),
        }
    };
}

// ------------------------------------------------------------------ independent reading (C06, C08, C09)

pub fn max_code(ty: &str) -> u128 {
    match ty {
        "u8" => u8::MAX as u128,
        "u16" => u16::MAX as u128,
        "u32" => u32::MAX as u128,
        _ => u64::MAX as u128,
    }
}

/// A numeral as the independent reader sees it: canonical decimal (no sign, no leading zero).
fn numeral(tok: &[u8]) -> Result<u128, String> {
    if tok.is_empty() || !tok.iter().all(|b| b.is_ascii_digit()) {
        return Err(format!("not a numeral: {:?}", String::from_utf8_lossy(tok)));
    }
    if tok.len() > 1 && tok[0] == b'0' {
        return Err("leading zero".into());
    }
    if tok.len() > 30 {
        return Err("numeral beyond 10^30".into());
    }
    Ok(std::str::from_utf8(tok).unwrap().parse::<u128>().unwrap())
}

/// What the independent reader found: items in file order with the offset one past their last byte.
pub struct RefDoc {
    pub items: Vec<(String, usize)>,
}

struct Cur<'a> {
    d: &'a [u8],
    p: usize,
}

impl<'a> Cur<'a> {
    /// Next text line (without its newline); the newline is required.
    fn line(&mut self) -> Result<&'a [u8], String> {
        match self.d[self.p..].iter().position(|b| *b == b'\n') {
            Some(n) => {
                let l = &self.d[self.p..self.p + n];
                self.p += n + 1;
                Ok(l)
            }
            None => Err("missing newline".into()),
        }
    }
    fn nums(&mut self) -> Result<Vec<u128>, String> {
        self.line()?.split(|b| *b == b' ').map(numeral).collect()
    }
    fn varint(&mut self) -> Result<u128, String> {
        let mut v: u128 = 0;
        let mut shift = 0;
        loop {
            let b = *self.d.get(self.p).ok_or("varint cut by end of file")?;
            self.p += 1;
            if shift >= 70 {
                return Err("varint longer than 10 bytes".into());
            }
            v |= ((b & 0x7f) as u128) << shift;
            shift += 7;
            if b & 0x80 == 0 {
                return Ok(v);
            }
        }
    }
}

/// Strict independent reading of a complete AIGER file.  `Err` = not a well-formed file.
pub fn reference_read(fmt: &str, ty: &str, data: &[u8]) -> Result<RefDoc, String> {
    let bin = fmt == "aig";
    let mut c = Cur { d: data, p: 0 };
    let hl = c.line()?;
    let toks: Vec<&[u8]> = hl.split(|b| *b == b' ').collect();
    if toks[0] != fmt.as_bytes() {
        return Err("bad magic".into());
    }
    if toks.len() < 6 || toks.len() > 10 {
        return Err(format!("{} header fields", toks.len() - 1));
    }
    let mut h: Vec<u128> = toks[1..].iter().map(|t| numeral(t)).collect::<Result<_, _>>()?;
    h.resize(9, 0);
    let (m, ni, nl, no, na, nb, nc, nj, nf) = (h[0], h[1], h[2], h[3], h[4], h[5], h[6], h[7], h[8]);
    if h.iter().any(|x| *x > u64::MAX as u128) {
        return Err("header count beyond usize".into());
    }
    let maxlit = 2 * m + 1;
    if maxlit > max_code(ty) {
        return Err(format!("C06:accepted maximum variable index {} beyond the literal type", m));
    }
    if ni + nl + na > m {
        return Err(format!("C06:accepted I+L+A = {} > M = {}", ni + nl + na, m));
    }
    let mut items: Vec<(String, usize)> = vec![(format!("H:{}", h.iter().map(|x| x.to_string()).collect::<Vec<_>>().join(":")), c.p)];
    let lit = |x: u128, defining: bool| -> Result<u128, String> {
        if x > maxlit {
            return Err(format!("C06:accepted literal {} > 2M+1 = {}", x, maxlit));
        }
        if defining && (x == 0 || x % 2 == 1) {
            return Err(format!("C06:accepted defined literal {} (odd or constant)", x));
        }
        Ok(x)
    };
    let init = |n: &[u128], at: usize, state: u128| -> Result<&'static str, String> {
        match n.get(at) {
            None => Ok("0"),
            Some(0) => Ok("0"),
            Some(1) => Ok("1"),
            Some(x) if *x == state => { lit(*x, false)?; Ok("x") }
            Some(x) => Err(format!("C06:accepted latch initialization {} (state {})", x, state)),
        }
    };
    if !bin {
        for _ in 0..ni {
            let n = c.nums()?;
            if n.len() != 1 { return Err("input line".into()); }
            items.push((format!("I:{}", lit(n[0], true)?), c.p));
        }
    }
    for i in 0..nl {
        let n = c.nums()?;
        if bin {
            if n.is_empty() || n.len() > 2 { return Err("latch line".into()); }
            let state = 2 * (ni + 1 + i);
            items.push((format!("L:{}:{}", lit(n[0], false)?, init(&n, 1, state)?), c.p));
        } else {
            if n.len() < 2 || n.len() > 3 { return Err("latch line".into()); }
            items.push((format!("L:{}:{}:{}", lit(n[0], true)?, lit(n[1], false)?, init(&n, 2, n[0])?), c.p));
        }
    }
    for (tag, count) in [("O", no), ("B", nb), ("C", nc)] {
        for _ in 0..count {
            let n = c.nums()?;
            if n.len() != 1 { return Err("literal line".into()); }
            items.push((format!("{}:{}", tag, lit(n[0], false)?), c.p));
        }
    }
    let mut total: u128 = 0;
    for _ in 0..nj {
        let n = c.nums()?;
        if n.len() != 1 { return Err("justice size line".into()); }
        total += n[0];
        items.push((format!("JS:{}", n[0]), c.p));
    }
    if total > u64::MAX as u128 {
        return Err("C06:accepted justice sizes summing beyond usize".into());
    }
    for (tag, count) in [("J", total), ("F", nf)] {
        for _ in 0..count {
            let n = c.nums()?;
            if n.len() != 1 { return Err("literal line".into()); }
            items.push((format!("{}:{}", tag, lit(n[0], false)?), c.p));
        }
    }
    for i in 0..na {
        if bin {
            let lhs = 2 * (ni + nl + 1 + i);
            let d0 = c.varint()?;
            let d1 = c.varint()?;
            if d0 > lhs { return Err(format!("C06:accepted delta {} > gate literal {}", d0, lhs)); }
            if d1 > lhs - d0 { return Err(format!("C06:accepted delta {} > first input {}", d1, lhs - d0)); }
            items.push((format!("A:{}:{}", lhs - d0, lhs - d0 - d1), c.p));
        } else {
            let n = c.nums()?;
            if n.len() != 3 { return Err("and gate line".into()); }
            items.push((format!("A:{}:{}:{}", lit(n[0], true)?, lit(n[1], false)?, lit(n[2], false)?), c.p));
        }
    }
    // symbol table and comment
    loop {
        if c.p == data.len() {
            items.push(("K:none".into(), c.p));
            break;
        }
        let l = c.line()?;
        if l == b"c" {
            let rest = &data[c.p..];
            if std::str::from_utf8(rest).is_err() { return Err("comment is not UTF-8".into()); }
            let body = match rest.split_last() {
                None => rest,
                Some((b'\n', body)) => body,
                Some(_) => return Err("comment without final newline".into()),
            };
            items.push((format!("K:{}", hex(body)), data.len()));
            break;
        }
        let sp = l.iter().position(|b| *b == b' ').ok_or("symbol line without space")?;
        if sp == 0 { return Err("symbol line starting with a space".into()); }
        let (k, idx) = (l[0], numeral(&l[1..sp])?);
        let count = match k {
            b'i' => ni, b'o' => no, b'l' => nl, b'b' => nb, b'c' => nc, b'j' => nj, b'f' => nf,
            _ => return Err("unknown symbol kind".into()),
        };
        if idx >= count {
            return Err(format!("C06:accepted symbol {}{} but that section has {} entries", k as char, idx, count));
        }
        let name = &l[sp + 1..];
        if std::str::from_utf8(name).is_err() { return Err("symbol name is not UTF-8".into()); }
        items.push((format!("S:{}{}:{}", k as char, idx, hex(name)), c.p));
    }
    Ok(RefDoc { items })
}

/// Lines of the input for C08.  Text files: `\n`-split.  Binary files: the and-gate block is the
/// continuation of the line that starts where the block starts (DESIGN §4 C08); the block is located
/// from the header counts and the justice sizes, its end with the varint decoder.
pub fn c08_lines(fmt: &str, data: &[u8]) -> Vec<(usize, usize)> {
    // (start, end exclusive of the newline)
    let mut block: Option<(usize, usize)> = None;
    if fmt == "aig" {
        block = locate_block(data);
    }
    let mut lines = vec![];
    let mut start = 0;
    let mut i = 0;
    while i < data.len() {
        if let Some((bs, be)) = block {
            if i == bs && be > bs {
                // jump over the block: its bytes are not line structure
                i = be;
                continue;
            }
        }
        if data[i] == b'\n' {
            lines.push((start, i));
            start = i + 1;
        }
        i += 1;
    }
    if start < data.len() || block.map(|(bs, be)| bs == start && be > bs).unwrap_or(false) {
        lines.push((start, data.len()));
    }
    lines
}

fn locate_block(data: &[u8]) -> Option<(usize, usize)> {
    let mut c = Cur { d: data, p: 0 };
    let hl = c.line().ok()?;
    let toks: Vec<&[u8]> = hl.split(|b| *b == b' ').collect();
    if toks.len() < 6 || toks[0] != b"aig" { return None; }
    let mut h: Vec<u128> = toks[1..].iter().map(|t| numeral(t)).collect::<Result<_, _>>().ok()?;
    h.resize(9, 0);
    let mut lines = h[2] + h[3] + h[5] + h[6];
    for _ in 0..lines { c.line().ok()?; }
    lines = 0;
    for _ in 0..h[7] {
        let n = c.nums().ok()?;
        if n.len() != 1 { return None; }
        lines += n[0];
    }
    lines += h[8];
    for _ in 0..lines { c.line().ok()?; }
    let start = c.p;
    for _ in 0..2 * h[4] {
        if c.varint().is_err() {
            return Some((start, data.len()));
        }
    }
    Some((start, c.p))
}

// ------------------------------------------------------------------ the case runner

pub struct Case {
    pub fmt: String,
    pub ty: String,
    pub mode: String,
    pub k: Option<usize>,
    pub ls: bool,
    pub data: Vec<u8>,
    pub expect: Option<String>,
    pub tok: Option<(usize, usize, usize)>,
    pub w: u8,
    /// scale cases: the `d` field as written (compact segments), `cut=`, `post=` (as written), `c=`
    pub dtext: Option<String>,
    pub cut: Option<usize>,
    pub post: Option<String>,
    pub chunk: Option<usize>,
}

impl Case {
    pub fn parse(line: &str) -> Case {
        let (_, f) = Fields::parse(line);
        Case {
            fmt: f.get("fmt").into(),
            ty: f.get("ty").into(),
            mode: f.get("mode").into(),
            k: match f.get("k") { "-" => None, s => Some(s.parse().unwrap()) },
            ls: f.opt("ls") == Some("1"),
            data: {
                let mut d = data_field(f.get("d"));
                if let Some(n) = f.opt("cut") { d.truncate(n.parse().unwrap()); }
                if let Some(p) = f.opt("post") { d.extend(data_field(p)); }
                d
            },
            expect: f.opt("x").map(|s| s.to_string()),
            tok: f.opt("t").map(|s| {
                let v: Vec<usize> = s.split(':').map(|x| x.parse().unwrap()).collect();
                (v[0], v[1], v[2])
            }),
            w: f.opt("w").map(|s| s.parse().unwrap()).unwrap_or(0),
            dtext: None,
            cut: f.opt("cut").map(|s| s.parse().unwrap()),
            post: f.opt("post").map(|s| s.to_string()),
            chunk: f.opt("c").map(|s| s.parse().unwrap()),
        }
    }
    pub fn line(&self) -> String {
        format!(
            "aiger fmt={} ty={} mode={} k={} ls={} d={}{}{}{}{}{}{}",
            self.fmt, self.ty, self.mode,
            match self.k { Some(k) => k.to_string(), None => "-".into() },
            self.ls as u8,
            match &self.dtext { Some(t) => t.clone(), None => hex(&self.data) },
            match self.cut { Some(n) => format!(" cut={}", n), None => String::new() },
            match &self.post { Some(p) => format!(" post={}", p), None => String::new() },
            match self.chunk { Some(n) => format!(" c={}", n), None => String::new() },
            match &self.expect { Some(x) => format!(" x={}", x), None => String::new() },
            match &self.tok { Some((l, c, n)) => format!(" t={}:{}:{}", l, c, n), None => String::new() },
            if self.w != 0 { format!(" w={}", self.w) } else { String::new() },
        )
    }
}

/// Inputs longer than this get the reduced schedule set of `big_schedules`.
const BIG: usize = 1 << 16;

/// Observations longer than 64 KiB are replaced by a digest (same formula in `Driver/EngAiger.lean`).
pub fn digest(text: String) -> String {
    if text.len() <= 65536 {
        return text;
    }
    let mut h: u64 = 0xcbf29ce484222325;
    for b in text.as_bytes() {
        h ^= *b as u64;
        h = h.wrapping_mul(0x100000001b3);
    }
    let parts: Vec<&str> = text.split('|').collect();
    let n = parts.len() - 1;
    let item = |i: usize| if n == 0 { "-".to_string() } else { clip(parts[i]) };
    format!("D:{}:{}:{:016x}|{}|{}|{}", n, text.len(), h, item(0), item(n.saturating_sub(1)), parts[n])
}

/// At most 200 bytes of an item or observation, for messages and digests.
pub fn clip(s: &str) -> String {
    if s.len() <= 200 { s.to_string() } else { format!("{}..({} bytes)", &s[..200], s.len()) }
}

/// One line per read; a line longer than `chunk` (the size of every read request the reader
/// makes) in pieces of `chunk` bytes.
pub fn piece_schedule(data: &[u8], chunk: usize) -> Vec<Ev> {
    let mut ev = vec![];
    let mut n = 0;
    for b in data {
        n += 1;
        if *b == b'\n' || n == chunk {
            ev.push(Ev::Give(n));
            n = 0;
        }
    }
    if n > 0 {
        ev.push(Ev::Give(n));
    }
    ev
}

/// The schedules a big input is parsed under: one read request per chunk with the default chunk
/// size, byte by byte, a random small-chunk schedule with interruptions, and a chunk size from the
/// scale sizes with random short reads.
pub fn big_schedules(rng: &mut Rng, len: usize) -> Vec<(String, Vec<Ev>, usize)> {
    let mut v: Vec<(String, Vec<Ev>, usize)> = vec![
        ("one-shot".into(), vec![], 16384),
        ("1-byte".into(), vec![], 1),
    ];
    let chunk = *rng.pick(&[2usize, 3, 7, 8, 9, 16, 4096]);
    let mut s = vec![];
    let mut given = 0;
    while given < len + 2 {
        if rng.chance(1, 6) { s.push(Ev::Intr); }
        let n = rng.range(1, 12) as usize;
        given += n.min(chunk);
        s.push(Ev::Give(n));
    }
    v.push((format!("random-c{}", chunk), s, chunk));
    let sizes = scale_sizes(10, 21);
    let chunk = *rng.pick(&sizes);
    let mut s = vec![];
    let mut given = 0;
    while given < len + 2 {
        if rng.chance(1, 8) { s.push(Ev::Intr); }
        let n = match rng.below(4) { 0 => chunk, 1 => rng.range(1, 64) as usize, _ => rng.range(1, chunk as u64) as usize };
        given += n;
        s.push(Ev::Give(n));
    }
    v.push((format!("scale-c{}", chunk), s, chunk));
    v
}

fn raw_line_end(data: &[u8], p: usize) -> usize {
    match data[p.min(data.len())..].iter().position(|b| *b == b'\n') {
        Some(n) => p + n + 1,
        None => data.len(),
    }
}

pub fn run_case(line: &str) -> (String, Vec<String>) {
    let c = Case::parse(line);
    let mut fails: Vec<String> = vec![];
    let delivered: Vec<u8> = match c.k { Some(k) => c.data[..k.min(c.data.len())].to_vec(), None => c.data.clone() };
    let fault = c.k.is_some();
    let mk = |sched: Vec<Ev>| SchedSource::new(delivered.clone(), fault, sched);

    if c.ls {
        // C09: one line per read (a line longer than the chunk in chunk-sized pieces)
        let chunk = c.chunk.unwrap_or(16384);
        let sched = if c.chunk.is_some() { piece_schedule(&delivered, chunk) } else { line_schedule(&delivered) };
        let obs = run_parser_t(&c.fmt, &c.ty, &c.mode, mk(sched), chunk, true);
        if obs.fin == "E:panic" {
            fails.push("C05:parser panicked".into());
        }
        if !fault && c.mode != "parse" {
            if let Ok(rd) = reference_read(&c.fmt, &c.ty, &delivered) {
                // section of an item by its tag: header -1, then the index in `SECTIONS`, comment 10
                let sec = |item: &str| -> i32 {
                    match item.split(':').next().unwrap_or("") {
                        "H" => -1, "I" => 0, "L" => 1, "O" => 2, "B" => 3, "C" => 4, "JS" => 5, "J" => 6, "F" => 7, "A" => 8, "S" => 9,
                        _ => 10,
                    }
                };
                // end of the last item of the text in front of section i (at least the header)
                let mut before = [0usize; 11];
                for (it, end) in &rd.items {
                    let s = sec(it);
                    for (i, b) in before.iter_mut().enumerate() { if s < i as i32 { *b = *end; } }
                }
                // `lim` is the end of the line that contains byte `from`; it stays valid for every
                // later byte before `lim` (one scan per line, not per item)
                let (mut from, mut lim) = (0usize, 0usize);
                let mut reported = 0;
                // items handed out are, section by section, a prefix of the section's items in the
                // text: `r` walks the text's items
                let mut r = 0usize;
                for (i, (item, d)) in obs.items.iter().enumerate() {
                    if item.starts_with("K:") { continue; }
                    let (end, what) = if let Some(name) = item.strip_prefix("T:") {
                        match SECTIONS.iter().position(|s| *s == name) { Some(si) => (before[si], true), None => continue }
                    } else {
                        let tag = sec(item);
                        while r < rd.items.len() && sec(&rd.items[r].0) != tag { r += 1; }
                        match rd.items.get(r) { Some((_, end)) => { r += 1; (*end, false) } None => continue }
                    };
                    let p = end.saturating_sub(1);
                    if !(lim > 0 && p >= from && p < lim) {
                        from = p;
                        lim = raw_line_end(&delivered, p);
                    }
                    if *d > lim && reported < 8 {
                        reported += 1;
                        if what {
                            fails.push(format!("C09:section transition {} ({}) returned after {} bytes were pulled, the line that completes the sections in front of it ends at {}", i, clip(item), d, lim));
                        } else {
                            fails.push(format!("C09:item {} ({}) returned after {} bytes were pulled, the line that completes it ends at {}", i, clip(item), d, lim));
                        }
                    }
                }
            }
        }
        return (digest(obs.text(true)), fails);
    }

    // ---- C01: every schedule gives the same observation
    let mut rng = Rng::new(delivered.len() as u64 * 31 + delivered.first().copied().unwrap_or(0) as u64);
    let scheds = if delivered.len() > BIG { big_schedules(&mut rng, delivered.len()) } else { schedules(&mut rng, delivered.len()) };
    let mut base = run_parser(&c.fmt, &c.ty, &c.mode, mk(scheds[0].1.clone()), scheds[0].2);
    let base_text = base.text(false);
    let mut variant_note = String::new();
    let free: Option<RunObs> = if fault { Some(run_parser(&c.fmt, &c.ty, &c.mode, SchedSource::new(c.data.clone(), false, vec![]), 16384)) } else { None };
    for (name, ev, chunk) in scheds.iter().skip(1) {
        let o = run_parser(&c.fmt, &c.ty, &c.mode, mk(ev.clone()), *chunk).text(false);
        if fault && name.starts_with("sniff") {
            if o.ends_with("E:panic") {
                fails.push(format!("C05:parser panicked under schedule {}", name));
            }
            if c.mode != "parse" {
                fails.extend(crate::eng_cnf::fault_variant_oracle(&format!("|VARIANT:{}={}", name, o), &free.as_ref().unwrap().text(false)));
            }
            continue;
        }
        if o != base_text {
            fails.push(format!("C01:result depends on the read schedule: one-shot={} {}={}", clip(&base_text), name, clip(&o)));
            variant_note = format!("|VARIANT:{}={}", name, o.chars().take(160).collect::<String>());
            {
                let vfin = o.rsplit('|').next().unwrap_or("");
                if vfin.starts_with("E:syn:") && base.fin.starts_with("E:syn:") && vfin != base.fin {
                    fails.push(format!("C08:error location depends on how the bytes arrive: one-shot {} but {} {}", base.fin, name, vfin));
                }
            }
            // the line/column oracle of the text formats applies to ASCII AIGER only
            fails.extend(crate::eng_cnf::variant_oracles(&delivered, fault, name, &o, c.expect.as_ref(), c.tok, c.fmt == "aag"));
            break;
        }
    }
    // ---- C05: no panic, allocation bounded by the input size
    if base.fin == "E:panic" {
        fails.push("C05:parser panicked".into());
    }
    // ---- C05 / C06 with a user-defined literal type: the header's maximum variable index M
    // decides which codes the parser will accept; with MAX_CODE = 2M (even) the largest code 2M+1
    // must be refused by the header check, never handed to `from_code`
    if delivered.len() <= 4096 {
        let m: Option<usize> = delivered.split(|b| *b == b' ' || *b == b'\n').nth(1)
            .and_then(|t| std::str::from_utf8(t).ok()).and_then(|t| t.parse().ok());
        if let Some(m) = m.filter(|m| *m <= 64) {
            for m2 in [2 * m, 2 * m + 2] {
                if let Some(o) = run_parser_chk(&c.fmt, &c.mode, mk(vec![]), m2) {
                    if o.fin == "E:panic" {
                        fails.push(format!("C05:parser panicked with a literal type whose MAX_CODE is {} (from_code beyond MAX_CODE, or another panic)", m2));
                    }
                }
            }
        }
    }
    if !fault {
        match catch(|| by_type!(c.ty.as_str(), parse_probe_typed, &c.fmt, &delivered)) {
            None => fails.push("C05:parse() panicked".into()),
            Some((_, peak, largest)) => {
                let budget = 64 * delivered.len() + (1 << 20);
                if peak > budget {
                    fails.push(format!("C05:parse() of {} bytes allocated {} bytes at peak (largest request {}), budget {}", delivered.len(), peak, largest, budget));
                }
            }
        }
    }
    // ---- C04: a failing source ends in an I/O error (or the fault-free run's own syntax error)
    if fault {
        let free = free.unwrap();
        if c.mode != "parse" {
            fails.extend(crate::eng_cnf::fault_variant_oracle(&variant_note, &free.text(false)));
        }
        let n = base.items.len();
        let prefix_ok = (0..n).all(|i| i < free.items.len() && free.items[i].0 == base.items[i].0);
        if base.fin == "END" {
            fails.push("C04:source failed but the input was reported as completely parsed".into());
        } else if base.fin.starts_with("E:syn") && !(base.fin == free.fin && prefix_ok && free.items.len() == n) {
            fails.push(format!("C04:syntax error {} reported for data that ends where the source failed (fault-free run: {})", base.fin, clip(&free.text(false))));
        } else if !prefix_ok {
            fails.push(format!("C04:item handed out before the I/O error differs from the fault-free run: {} vs {}", clip(&base_text), clip(&free.text(false))));
        }
    }
    // ---- C08: error location designates a position inside the input
    if let Some(rest) = base.fin.strip_prefix("E:syn:") {
        let (l, col) = rest.split_once(':').unwrap();
        let (l, col): (usize, usize) = (l.parse().unwrap(), col.parse().unwrap());
        let lines = c08_lines(&c.fmt, &delivered);
        let len_of = |l: usize| if l <= lines.len() { lines[l - 1].1 - lines[l - 1].0 } else { 0 };
        if l < 1 || l > lines.len() + 1 {
            fails.push(format!("C08:error line {} outside 1..={}", l, lines.len() + 1));
        } else if col < 1 || col > len_of(l) + 1 {
            fails.push(format!("C08:error column {} outside 1..={} of line {}", col, len_of(l) + 1, l));
        }
        if let Some((tl, tc, tn)) = c.tok {
            if l != tl || col < tc || col > tc + tn {
                fails.push(format!("C08:error at {}:{} but the corrupted token is at {}:{}..{}", l, col, tl, tc, tc + tn));
            }
        }
    } else if c.tok.is_some() && !fault && base.fin == "END" {
        fails.push(format!("C08:corrupted token at {:?} was accepted", c.tok.unwrap()));
    }
    // ---- C03: the value that was written
    if let Some(x) = &c.expect {
        if !fault && &base_text != x {
            fails.push(format!("C03:parsed {} but the written value is {}", clip(&base_text), clip(x)));
        }
    }
    // ---- C06: independent reading of accepted inputs
    let mut wmis = false;
    if !fault && base.fin == "END" {
        let mut text_items: Option<Vec<String>> = None;
        match reference_read(&c.fmt, &c.ty, &delivered) {
            Err(why) => {
                if why.starts_with("C06:") { fails.push(why); } else {
                    fails.push(format!("C06:accepted input that the independent reader rejects ({})", why));
                }
            }
            Ok(rd) => {
                let want: Vec<&str> = rd.items.iter().map(|(s, _)| s.as_str()).collect();
                let got: Vec<&str> = base.items.iter().map(|(s, _)| s.as_str()).filter(|s| *s != "P").collect();
                let cmp_ok = match c.mode.as_str() {
                    "skip" => got.iter().all(|g| want.contains(g)) && got.first() == want.first(),
                    _ => got == want,
                };
                if !cmp_ok {
                    if got.len() + want.len() > 64 {
                        // scale: the counts, and the first index at which the two lists differ
                        let at = got.iter().zip(want.iter()).position(|(g, w)| g != w).unwrap_or(got.len().min(want.len()));
                        fails.push(format!("C06:returned {} items but the text has {}, first difference at item {}: returned {:?}, text {:?}",
                            got.len(), want.len(), at, got.get(at).map(|s| clip(s)), want.get(at).map(|s| clip(s))));
                    } else {
                        fails.push(format!("C06:returned items {:?} differ from the text {:?}", got, want));
                    }
                }
                text_items = Some(rd.items.into_iter().map(|(s, _)| s).collect());
            }
        }
        // ---- C03 converse: parse(write(parse(t))) = parse(t)
        base.items = Vec::new(); // not needed any more; at scale it is hundreds of megabytes
        match catch(|| by_type!(c.ty.as_str(), rewrite_typed, &c.fmt, &delivered, c.w)) {
            None => fails.push("C03:writing the parsed value back panicked".into()),
            Some(None) => fails.push("C03:parse() rejects what the streaming API accepted".into()),
            Some(Some((first, again, same_bytes))) => {
                // whatever the mode of the case: the value `parse()` returns is what the text says
                if let Some(want) = &text_items {
                    if c.mode != "parse" && &first != want {
                        let at = first.iter().zip(want.iter()).position(|(g, w)| g != w).unwrap_or(first.len().min(want.len()));
                        fails.push(format!("C06:parse() returned {} items but the text has {}, first difference at item {}: returned {:?}, text {:?}",
                            first.len(), want.len(), at, first.get(at).map(|s| clip(s)), want.get(at).map(|s| clip(s))));
                    }
                }
                for (w, second) in again {
                    {
                        if first.len() > 64 {
                            let n2 = second.as_ref().map(|v| v.len());
                            let at = second.as_ref().and_then(|v| v.iter().zip(first.iter()).position(|(a, b)| a != b));
                            fails.push(format!("C03:parse({}(parse(t))) has {:?} items but parse(t) has {}, first difference at item {:?}", w, n2, first.len(), at));
                        } else {
                            fails.push(format!("C03:parse({}(parse(t))) = {:?} but parse(t) = {:?}", w, second, first));
                        }
                    }
                }
                wmis = !same_bytes;
            }
        }
    }
    let mut text = digest(base_text);
    if wmis { text.push_str("|W:mismatch"); }
    text.push_str(&variant_note);
    (text, fails)
}

// ------------------------------------------------------------------ building values for the generators

/// An abstract circuit, independent of the literal type (codes as `u64`).
#[derive(Clone, Debug, Default)]
pub struct Circ {
    pub m: u64,
    /// aag: the input literals; aig: only the length counts (see `input_count`)
    pub inputs: Vec<u64>,
    /// aig with huge input counts
    pub input_count: u64,
    pub latches: Vec<(u64, u64, Option<bool>)>,
    pub outputs: Vec<u64>,
    pub bad: Vec<u64>,
    pub constraints: Vec<u64>,
    pub justice: Vec<Vec<u64>>,
    pub fairness: Vec<u64>,
    /// (out, in0, in1); out unused for aig
    pub gates: Vec<(u64, u64, u64)>,
    pub symbols: Vec<(char, u64, String)>,
    pub comment: Option<String>,
}

fn target(k: char, i: usize) -> SymbolTarget {
    match k {
        'i' => SymbolTarget::Input(i),
        'o' => SymbolTarget::Output(i),
        'l' => SymbolTarget::Latch(i),
        'b' => SymbolTarget::BadStateProperty(i),
        'c' => SymbolTarget::InvariantConstraint(i),
        'j' => SymbolTarget::JusticeProperty(i),
        _ => SymbolTarget::FairnessConstraint(i),
    }
}

fn to_aig<L: Lit>(c: &Circ) -> Aig<L> {
    let l = |x: &u64| L::from_code(*x as usize);
    Aig {
        max_var_index: c.m as usize,
        inputs: c.inputs.iter().map(l).collect(),
        latches: c.latches.iter().map(|(s, n, i)| Latch { state: l(s), next_state: l(n), initialization: *i }).collect(),
        outputs: c.outputs.iter().map(l).collect(),
        bad_state_properties: c.bad.iter().map(l).collect(),
        invariant_constraints: c.constraints.iter().map(l).collect(),
        justice_properties: c.justice.iter().map(|j| j.iter().map(l).collect()).collect(),
        fairness_constraints: c.fairness.iter().map(l).collect(),
        and_gates: c.gates.iter().map(|(o, a, b)| AndGate { inputs: [l(a), l(b)], output: l(o) }).collect(),
        symbols: c.symbols.iter().map(|(k, i, n)| Symbol { target: target(*k, *i as usize), name: n.clone().into() }).collect(),
        comment: c.comment.clone(),
    }
}

fn to_ordered<L: Lit>(c: &Circ) -> OrderedAig<L> {
    let l = |x: &u64| L::from_code(*x as usize);
    OrderedAig {
        max_var_index: c.m as usize,
        input_count: c.input_count as usize,
        latches: c.latches.iter().map(|(_, n, i)| OrderedLatch { next_state: l(n), initialization: *i }).collect(),
        outputs: c.outputs.iter().map(l).collect(),
        bad_state_properties: c.bad.iter().map(l).collect(),
        invariant_constraints: c.constraints.iter().map(l).collect(),
        justice_properties: c.justice.iter().map(|j| j.iter().map(l).collect()).collect(),
        fairness_constraints: c.fairness.iter().map(l).collect(),
        and_gates: c.gates.iter().map(|(_, a, b)| OrderedAndGate { inputs: [l(a), l(b)] }).collect(),
        symbols: c.symbols.iter().map(|(k, i, n)| Symbol { target: target(*k, *i as usize), name: n.clone().into() }).collect(),
        comment: c.comment.clone(),
    }
}

fn write_typed<L: Lit>(c: &Circ, which: u8) -> Vec<u8> {
    use std::io::Write;
    let mut out: Vec<u8> = vec![];
    match which {
        0 => {
            let mut w = DeferredWriter::from_write(&mut out);
            ascii::Writer::<L>::new(&mut w).write_aig(&to_aig::<L>(c));
            w.flush().unwrap();
        }
        1 => {
            let mut w = binary::Writer::<L>::new(DeferredWriter::from_write(&mut out));
            w.write_ordered_aig(&to_ordered::<L>(c));
            w.writer.flush().unwrap();
        }
        _ => {
            let mut w = DeferredWriter::from_write(&mut out);
            ascii::Writer::<L>::new(&mut w).write_ordered_aig(&to_ordered::<L>(c));
            w.flush().unwrap();
        }
    }
    out
}

/// Bytes the crate's writers produce for `c`: `which` = 0 `ascii::write_aig`, 1
/// `binary::write_ordered_aig`, 2 `ascii::write_ordered_aig`.  `None` = the writer panicked.
pub fn write_real(c: &Circ, ty: &str, which: u8) -> Option<Vec<u8>> {
    catch(|| by_type!(ty, write_typed, c, which))
}
