//! Case generators for engine `cnf`: abstract values rendered through a layout grammar
//! (C07, C03), the crate's own writers (C03), mutations and arbitrary bytes (C01, C05, C06),
//! single-token corruptions with known position (C08), faults (C04), line sources (C09);
//! junk tokens (`junk_run`: a run of one byte value, every value, length around the small source
//! constants) where a token is expected, in `corrupt` (known position) and `mutate`.
use crate::common::*;
use crate::eng_cnf::Case;
use flussab::DeferredWriter;
use flussab_cnf::{cnf, gcnf, wcnf};

pub const TYPES: &[(&str, i64)] = &[
    ("i8", i8::MAX as i64),
    ("i16", i16::MAX as i64),
    ("i32", i32::MAX as i64),
    ("i64", i64::MAX),
    ("isize", i64::MAX),
];

#[derive(Clone, Debug)]
pub struct Doc {
    pub fmt: &'static str,
    pub header: Option<(u64, u64, u64)>,
    pub clauses: Vec<(u64, Vec<i64>)>,
}

impl Doc {
    pub fn expected(&self) -> String {
        let mut v = vec![];
        v.push(match self.header {
            None => "H:-".to_string(),
            Some((a, b, c)) => {
                if self.fmt == "cnf" { format!("H:{}:{}", a, b) } else { format!("H:{}:{}:{}", a, b, c) }
            }
        });
        for (t, l) in &self.clauses {
            v.push(format!(
                "C:{}:{}",
                t,
                if l.is_empty() { "-".into() } else { l.iter().map(|x| x.to_string()).collect::<Vec<_>>().join(",") }
            ));
        }
        crate::eng_cnf::obs_text(&v, "END")
    }
}

fn rand_lit(rng: &mut Rng, max: i64) -> i64 {
    let m = match rng.below(6) {
        0 => max,
        1 => 1,
        2 => max - (rng.below(3) as i64).min(max - 1),
        _ => 1 + (rng.next() % (max.min(1 << 40) as u64)) as i64,
    };
    if rng.chance(1, 2) { -m } else { m }
}

pub fn gen_doc(rng: &mut Rng, fmt: &'static str, tmax: i64, cfg: bool) -> Doc {
    let n = match rng.below(6) { 0 => 0, 1 => 1, _ => rng.range(0, 8) } as usize;
    // a declared variable count limits the literals unless the header is ignored
    let declared_vars: Option<i64> = if rng.chance(2, 3) {
        Some(match rng.below(4) { 0 => 0, 1 => tmax, _ => 1 + (rng.next() % (tmax.min(1000) as u64)) as i64 })
    } else {
        None
    };
    let lim = match declared_vars {
        Some(v) if v != 0 && !cfg => v,
        _ => tmax,
    };
    let groups: u64 = match rng.below(3) { 0 => 0, 1 => rng.range(1, 5), _ => u64::MAX };
    let mut clauses = vec![];
    for _ in 0..n {
        let len = match rng.below(5) { 0 => 0, 1 => 1, _ => rng.range(0, 6) } as usize;
        let lits: Vec<i64> = (0..len).map(|_| rand_lit(rng, lim)).collect();
        let tag = match fmt {
            "wcnf" => match rng.below(4) { 0 => 0, 1 => u64::MAX, _ => rng.next() >> rng.range(0, 63) },
            "gcnf" => {
                let glim = if groups != 0 && !cfg { groups } else { u64::MAX };
                match rng.below(3) { 0 => 0, 1 => glim, _ => rng.next() % glim.max(1) }
            }
            _ => 0,
        };
        clauses.push((tag, lits));
    }
    let header = declared_vars.map(|v| {
        let cc = if rng.chance(1, 3) { 0 } else if cfg && rng.chance(1, 3) { rng.range(0, 9) } else { n as u64 };
        let extra = match fmt { "wcnf" => rng.next() >> rng.range(0, 63), "gcnf" => groups, _ => 0 };
        (v as u64, cc, extra)
    });
    Doc { fmt, header, clauses }
}

/// Text with token spans: (line, column, length) of every number token, 1-based.
pub struct Rendered {
    pub bytes: Vec<u8>,
    pub tokens: Vec<(usize, usize, usize, TokKind)>,
    pub choices: u32,
}

#[derive(Clone, Copy, Debug, PartialEq)]
pub enum TokKind { Lit, Zero, VarCount, ClauseCount, Extra, Tag }

struct Out<'r> {
    b: Vec<u8>,
    line: usize,
    col: usize,
    toks: Vec<(usize, usize, usize, TokKind)>,
    rng: &'r mut Rng,
    plain: bool,
    choices: u32,
}

impl<'r> Out<'r> {
    fn put(&mut self, s: &[u8]) {
        for &c in s {
            self.b.push(c);
            if c == b'\n' { self.line += 1; self.col = 1; } else { self.col += 1; }
        }
    }
    fn choice(&mut self, bit: u32, num: u64, den: u64) -> bool {
        if self.plain { return false; }
        let r = self.rng.chance(num, den);
        if r { self.choices |= 1 << bit; }
        r
    }
    fn blank(&mut self) {
        if self.choice(0, 1, 4) {
            let n = self.rng.range(1, 3);
            for _ in 0..n { let c = if self.rng.chance(1, 3) { b'\t' } else { b' ' }; self.put(&[c]); }
        } else {
            self.put(b" ");
        }
    }
    fn opt_blank(&mut self, bit: u32) {
        if self.choice(bit, 1, 5) { self.blank(); }
    }
    fn eol(&mut self) {
        if self.choice(1, 1, 5) { self.put(b"\r\n"); } else { self.put(b"\n"); }
    }
    fn junk_lines(&mut self, bit: u32) {
        while self.choice(bit, 1, 5) {
            if self.rng.chance(1, 2) {
                // comment line, optionally indented
                self.opt_blank(2);
                self.put(b"c");
                if self.rng.chance(1, 2) {
                    let n = self.rng.range(0, 8);
                    for _ in 0..n { let c = *self.rng.pick(b" 0p-1x\tc\r"); self.put(&[c]); }
                } else {
                    // any byte but the line end may follow the `c`
                    let t = free_text(self.rng, b"\n", 40);
                    self.put(&t);
                }
                self.put(b"\n");
            } else {
                self.opt_blank(3);
                self.eol();
            }
        }
    }
    fn numeral(&mut self, v: i128, kind: TokKind) {
        let mut s = String::new();
        if v < 0 { s.push('-'); }
        if self.choice(4, 1, 8) { for _ in 0..self.rng.range(1, 3) { s.push('0'); } }
        s.push_str(&v.unsigned_abs().to_string());
        self.toks.push((self.line, self.col, s.len(), kind));
        self.put(s.as_bytes());
    }
    fn zero(&mut self) {
        let s: &[u8] = if self.choice(5, 1, 8) { if self.rng.chance(1, 2) { b"-0" } else { b"00" } } else { b"0" };
        self.toks.push((self.line, self.col, s.len(), TokKind::Zero));
        self.put(s);
    }
    /// separator inside a clause: blanks, or a line break with optional junk
    fn sep(&mut self) {
        if self.choice(6, 1, 6) {
            self.opt_blank(7);
            self.eol();
            self.junk_lines(8);
            self.opt_blank(9);
        } else {
            self.blank();
        }
    }
}

pub fn render(rng: &mut Rng, doc: &Doc, plain: bool) -> Rendered {
    let mut o = Out { b: vec![], line: 1, col: 1, toks: vec![], rng, plain, choices: 0 };
    o.opt_blank(10);
    o.junk_lines(11);
    if let Some((v, c, x)) = doc.header {
        o.put(b"p"); o.blank();
        o.put(doc.fmt.as_bytes()); o.blank();
        o.numeral(v as i128, TokKind::VarCount); o.blank();
        o.numeral(c as i128, TokKind::ClauseCount);
        if doc.fmt != "cnf" { o.blank(); o.numeral(x as i128, TokKind::Extra); }
        o.opt_blank(12);
        o.eol();
    }
    let n = doc.clauses.len();
    for (i, (tag, lits)) in doc.clauses.iter().enumerate() {
        o.opt_blank(13);
        o.junk_lines(14);
        o.opt_blank(13);
        match doc.fmt {
            "wcnf" => { o.numeral(*tag as i128, TokKind::Tag); o.sep(); }
            "gcnf" => {
                // the token span covers the braces
                let (l0, c0) = (o.line, o.col);
                o.put(b"{");
                o.numeral(*tag as i128, TokKind::Tag);
                o.put(b"}");
                let last = o.toks.len() - 1;
                o.toks[last] = (l0, c0, o.toks[last].2 + 2, TokKind::Tag);
                if o.choice(15, 1, 4) { o.sep(); } else { o.put(b" "); }
            }
            _ => {}
        }
        for l in lits { o.numeral(*l as i128, TokKind::Lit); o.sep(); }
        o.zero();
        o.opt_blank(16);
        if i + 1 == n && o.choice(17, 1, 4) {
            // missing final newline
        } else {
            o.eol();
        }
    }
    if n > 0 && o.b.last() == Some(&b'\n') {
        o.junk_lines(18);
        o.opt_blank(19);
    }
    let (choices, b, toks) = (o.choices, o.b, o.toks);
    Rendered { bytes: b, tokens: toks, choices }
}

pub fn write_real(doc: &Doc, ty: &str) -> Vec<u8> {
    let mut out: Vec<u8> = vec![];
    {
        let mut w = DeferredWriter::from_write(&mut out);
        if let Some((v, c, x)) = doc.header {
            match doc.fmt {
                "cnf" => cnf::write_header(&mut w, cnf::Header { var_count: v as usize, clause_count: c as usize }),
                "wcnf" => wcnf::write_header(&mut w, wcnf::Header { var_count: v as usize, clause_count: c as usize, top_weight: x }),
                _ => gcnf::write_header(&mut w, gcnf::Header { var_count: v as usize, clause_count: c as usize, group_count: x as usize }),
            }
        }
        for (tag, lits) in &doc.clauses {
            macro_rules! wr {
                ($t:ty) => {{
                    let l: Vec<$t> = lits.iter().map(|x| *x as $t).collect();
                    match doc.fmt {
                        "cnf" => cnf::write_clause(&mut w, &l),
                        "wcnf" => wcnf::write_clause(&mut w, *tag, &l),
                        _ => gcnf::write_clause(&mut w, *tag as usize, &l),
                    }
                }};
            }
            match ty { "i8" => wr!(i8), "i16" => wr!(i16), "i32" => wr!(i32), "i64" => wr!(i64), _ => wr!(isize) }
        }
        use std::io::Write;
        let _ = w.flush();
    }
    out
}

// ------------------------------------------------------------------ solver logs

pub fn gen_log(rng: &mut Rng, tmax: i64, ignore_unknown: bool) -> (Vec<u8>, String) {
    let status = rng.below(4); // 0 none, 1 sat, 2 unsat, 3 unknown
    let with_assignment = rng.chance(2, 3);
    let lits: Vec<i64> = if with_assignment { (0..rng.range(0, 7)).map(|_| rand_lit(rng, tmax)).collect() } else { vec![] };
    let mut lines: Vec<Vec<u8>> = vec![];
    let comment = |rng: &mut Rng| -> Vec<u8> {
        let mut l = b"c ".to_vec();
        if rng.chance(1, 2) {
            for _ in 0..rng.range(0, 6) { l.push(*rng.pick(b"abc 01-vs")); }
        } else {
            l.extend(free_text(rng, b"\n", 40));
        }
        l
    };
    let unknown = |rng: &mut Rng| -> Vec<u8> {
        match rng.below(4) {
            0 => b"".to_vec(),
            1 => b"c".to_vec(),
            2 => {
                // an ignored line: any first byte that does not open a known line kind
                let mut l = vec![*rng.pick(b"xqXz#%\x80\xff\x8a09-")];
                l.extend(free_text(rng, b"\n", 40));
                l
            }
            _ => b"vv 1 0".to_vec(),
        }
    };
    let status_line: Option<Vec<u8>> = match status {
        1 => Some(b"s SATISFIABLE".to_vec()),
        2 => Some(b"s UNSATISFIABLE".to_vec()),
        3 => Some(b"s UNKNOWN".to_vec()),
        _ => None,
    };
    let mut vlines: Vec<Vec<u8>> = vec![];
    if with_assignment {
        let mut cur = b"v ".to_vec();
        for l in &lits {
            if rng.chance(1, 4) {
                // split the value lines here (possibly leaving an empty "v " line)
                vlines.push(std::mem::replace(&mut cur, b"v ".to_vec()));
            }
            if rng.chance(1, 6) { cur.extend_from_slice(b"  "); }
            cur.extend_from_slice(l.to_string().as_bytes());
            cur.push(b' ');
        }
        if rng.chance(1, 4) { vlines.push(std::mem::replace(&mut cur, b"v ".to_vec())); }
        cur.extend_from_slice(b"0");
        if rng.chance(1, 4) { cur.push(b' '); }
        vlines.push(cur);
    }
    let status_first = rng.chance(1, 2);
    let mut body: Vec<Vec<u8>> = vec![];
    if status_first { if let Some(s) = &status_line { body.push(s.clone()); } }
    body.extend(vlines);
    if !status_first { if let Some(s) = &status_line { body.push(s.clone()); } }
    for l in body {
        while rng.chance(1, 4) { lines.push(comment(rng)); }
        if ignore_unknown { while rng.chance(1, 5) { lines.push(unknown(rng)); } }
        lines.push(l);
    }
    while rng.chance(1, 4) { lines.push(comment(rng)); }
    let mut bytes = vec![];
    let n = lines.len();
    for (i, l) in lines.into_iter().enumerate() {
        bytes.extend_from_slice(&l);
        if i + 1 == n && rng.chance(1, 4) { break; }
        if rng.chance(1, 6) { bytes.extend_from_slice(b"\r\n"); } else { bytes.push(b'\n'); }
    }
    let exp = format!(
        "S:{}|A:{}|END",
        match status { 1 => "sat", 2 => "unsat", _ => "none" },
        if lits.is_empty() { "-".into() } else { lits.iter().map(|x| x.to_string()).collect::<Vec<_>>().join(",") }
    );
    (bytes, exp)
}

// ------------------------------------------------------------------ mutation / corruption

/// Numerals that a wrapping accumulator would map to a small value: `m * 2^bits ± small`,
/// either sign, 20..45 digits (the "no wrap-around" clause of C06).
pub fn wrap_class_numeral(rng: &mut Rng, big_only: bool) -> Vec<u8> {
    // decimal multiplication of a big number held as digits
    fn mul_small(d: &mut Vec<u8>, m: u32) {
        let mut carry = 0u32;
        for x in d.iter_mut().rev() {
            let v = (*x as u32) * m + carry;
            *x = (v % 10) as u8;
            carry = v / 10;
        }
        while carry > 0 {
            d.insert(0, (carry % 10) as u8);
            carry /= 10;
        }
    }
    fn add_small(d: &mut Vec<u8>, a: u32) {
        let mut carry = a;
        for x in d.iter_mut().rev() {
            let v = *x as u32 + carry;
            *x = (v % 10) as u8;
            carry = v / 10;
            if carry == 0 { break; }
        }
        while carry > 0 {
            d.insert(0, (carry % 10) as u8);
            carry /= 10;
        }
    }
    let bits = if big_only { *rng.pick(&[64u32, 64, 128]) } else { *rng.pick(&[8u32, 16, 32, 63, 64, 64, 64, 128]) };
    let mut d = vec![1u8];
    for _ in 0..bits { mul_small(&mut d, 2); }
    mul_small(&mut d, rng.range(1, 40) as u32);
    if rng.chance(1, 3) { mul_small(&mut d, 10); }
    add_small(&mut d, rng.below(9) as u32);
    let mut s: Vec<u8> = vec![];
    if rng.chance(1, 2) { s.push(b'-'); }
    s.extend(d.iter().map(|x| b'0' + x));
    s
}

fn extreme_numeral(rng: &mut Rng) -> Vec<u8> {
    if rng.chance(1, 3) {
        return wrap_class_numeral(rng, false);
    }
    match rng.below(7) {
        0 => b"18446744073709551615".to_vec(),
        1 => b"18446744073709551616".to_vec(),
        2 => b"9223372036854775807".to_vec(),
        3 => b"-9223372036854775808".to_vec(),
        4 => b"9223372036854775808".to_vec(),
        5 => (0..30).map(|_| b'0' + rng.below(10) as u8).collect(),
        _ => {
            let k = rng.range(1, 64);
            let v = (1u128 << k) as i128 + rng.range(0, 2) as i128 - 1;
            let mut s = v.to_string();
            if rng.chance(1, 3) { s.insert(0, '-'); }
            s.into_bytes()
        }
    }
}

/// Lengths for a junk token: the neighbourhood `c-1, c, c+1, c+4, 2c` of every SMALL constant
/// (`<= 4096`) of the current source (`common::source_consts`: a cap on the bytes quoted in an
/// error message, a window or word size, … whatever the code compares a length against), plus the
/// word sizes.  The scale families do the same for the large constants.
pub fn junk_lengths() -> &'static Vec<Vec<usize>> {
    static L: std::sync::OnceLock<Vec<Vec<usize>>> = std::sync::OnceLock::new();
    L.get_or_init(|| {
        let mut cs: Vec<u64> = source_consts().into_iter().filter(|&c| c >= 1 && c <= 4096).collect();
        cs.extend([1, 2, 7, 8, 16, 64]);
        cs.sort();
        cs.dedup();
        cs.iter().map(|&c| { let c = c as usize; vec![(c - 1).max(1), c, c + 1, c + 4, 2 * c] }).collect()
    })
}

/// A junk token: a run of ONE byte value.  Every value 0..=255 occurs; the weight is on the
/// classes a byte-classifying loop tells apart (UTF-8 continuation bytes 0x80..=0xbf, lead bytes
/// 0xc0.., 0xff, NUL, digits, the sign) and on the borders between them.  The length comes from
/// `junk_lengths`.
pub fn junk_run(rng: &mut Rng) -> Vec<u8> {
    let b: u8 = match rng.below(12) {
        0 | 1 | 2 => 0x80 + rng.below(0x40) as u8,
        3 | 4 => 0xc0 + rng.below(0x38) as u8,
        5 => *rng.pick(&[0xffu8, 0xff, 0xfe, 0xf8, 0xfb]),
        6 => 0,
        7 => b'0' + rng.below(10) as u8,
        8 => b'-',
        9 => *rng.pick(&[0x7fu8, 0x80, 0xbf, 0xc0, 0xc1, 0xc2, 0xdf, 0xe0, 0xef, 0xf0, 0xf4, 0xf5, 0xf7, 0xf8, 0x1f, 0x21, 0x2f, 0x3a]),
        _ => rng.below(256) as u8,
    };
    let around = rng.pick(junk_lengths());
    let n = *rng.pick(around);
    vec![b; n]
}

/// Offsets at which a token can start: the start of the input, and after every blank / line end.
pub fn token_starts(b: &[u8]) -> Vec<usize> {
    std::iter::once(0)
        .chain(b.iter().enumerate().filter(|(_, c)| matches!(**c, b' ' | b'\t' | b'\n' | b'\r')).map(|(i, _)| i + 1))
        .collect()
}

/// Insert a junk token into a document: at a token start (so that it is what the parser finds
/// where it expects a token), glued to what follows or set off by a blank; sometimes anywhere.
pub fn insert_junk(rng: &mut Rng, b: &mut Vec<u8>) {
    let mut run = junk_run(rng);
    let at = if rng.chance(1, 5) { rng.range(0, b.len() as u64) as usize } else { *rng.pick(&token_starts(b)) };
    if rng.chance(1, 2) {
        run.push(*rng.pick(b"  \n\t"));
    }
    b.splice(at..at, run);
}

pub fn mutate(rng: &mut Rng, mut b: Vec<u8>) -> Vec<u8> {
    // a literal of the current source (keyword, magic prefix …) spliced into the otherwise
    // unchanged document, half of the time as the only change
    if rng.chance(1, 4) {
        splice_literal(rng, &mut b);
        if rng.chance(1, 2) {
            return b;
        }
    }
    // a junk token (a run of one byte value, length around the small source constants) where a
    // token is expected, half of the time as the only change
    if rng.chance(1, 8) {
        insert_junk(rng, &mut b);
        if rng.chance(1, 2) {
            return b;
        }
    }
    for _ in 0..rng.range(1, 3) {
        let len = b.len();
        match rng.below(8) {
            0 if len > 0 => { let i = rng.below(len as u64) as usize; b[i] = *rng.pick(b" \t\r\n0123456789-pcx{}\xff\x00wgnf"); }
            1 if len > 0 => { let i = rng.below(len as u64) as usize; b.remove(i); }
            2 => { let i = rng.range(0, len as u64) as usize; b.insert(i, *rng.pick(b" \n0-19c{}\r")); }
            3 if len > 0 => { let i = rng.below(len as u64) as usize; b.truncate(i); }
            4 => { let i = rng.range(0, len as u64) as usize; let e = extreme_numeral(rng); b.splice(i..i, e); }
            5 if len > 1 => {
                let i = rng.below(len as u64) as usize;
                let j = (i + rng.range(1, 6) as usize).min(len);
                let dup: Vec<u8> = b[i..j].to_vec();
                b.splice(j..j, dup);
            }
            6 if rng.chance(1, 3) => {
                // a long garbage token around the 60-byte cap of the error-message scanner
                let i = rng.range(0, len as u64) as usize;
                let n = rng.range(55, 70) as usize;
                let tok: Vec<u8> = (0..n).map(|_| *rng.pick(b"xyz01-")).collect();
                b.splice(i..i, tok);
            }
            _ => { let i = rng.range(0, len as u64) as usize; b.insert(i, rng.next() as u8); }
        }
    }
    b
}

fn arbitrary(rng: &mut Rng) -> Vec<u8> {
    let n = rng.range(0, 40);
    let alpha: &[u8] = if rng.chance(1, 2) { b"pcnf 01-\n\n \t\rwg{}9sSvAT" } else { b"\x00\xff abc\n123" };
    (0..n).map(|_| if rng.chance(1, 20) { rng.next() as u8 } else { *rng.pick(alpha) }).collect()
}

/// One case line.  `opt` selects the family: layout | rt | mutate | arbitrary | corrupt | fault | ls | log | scale
pub fn gen_case(rng: &mut Rng, opt: &str, _thorough: bool) -> String {
    let (ty, tmax) = *rng.pick(TYPES);
    let cfg = rng.chance(1, 3);
    let family = if (opt.is_empty() || opt == "mix" || opt.contains("layout")) && rng.chance(1, 1200) {
        // a document larger than two default chunks: refill / realign at the sizes real files have
        "long"
    } else if opt.is_empty() || opt == "mix" {
        *rng.pick(&["layout", "layout", "rt", "mutate", "mutate", "arbitrary", "corrupt", "fault", "log", "logmut"])
    } else {
        let fams: Vec<&str> = opt.split('+').collect();
        *rng.pick(&fams)
    };
    let fmt: &'static str = *rng.pick(&["cnf", "cnf", "wcnf", "gcnf"]);
    let mut case = Case { fmt: fmt.into(), ty: ty.into(), cfg, k: None, ls: false, lsb: false, data: vec![], expect: None, tok: None, ns: None };
    match family {
        "layout" => {
            let doc = gen_doc(rng, fmt, tmax, cfg);
            let r = render(rng, &doc, false);
            case.data = r.bytes;
            case.expect = Some(doc.expected());
        }
        "rt" => {
            let doc = gen_doc(rng, fmt, tmax, cfg);
            case.data = write_real(&doc, ty);
            case.expect = Some(doc.expected());
        }
        "long" => {
            // 40..70 KB: ~3000 clauses, full layout grammar; optionally one corrupted literal near
            // the end (error located through the mark after several realigns)
            let mut doc = gen_doc(rng, fmt, tmax, true);
            doc.header = None;
            let n = rng.range(2500, 4000) as usize;
            doc.clauses = (0..n).map(|_| {
                let len = rng.range(0, 5) as usize;
                (if fmt == "cnf" { 0 } else { rng.below(1000) }, (0..len).map(|_| rand_lit(rng, tmax)).collect())
            }).collect();
            let plain = rng.chance(1, 2);
            let r = render(rng, &doc, plain);
            if rng.chance(1, 2) {
                case.data = r.bytes;
                case.expect = Some(doc.expected());
            } else {
                let lits: Vec<&(usize, usize, usize, TokKind)> = r.tokens.iter().filter(|t| t.3 == TokKind::Lit && t.0 > r.tokens.last().unwrap().0 / 2).collect();
                if let Some(&&(l, c, nlen, _)) = lits.get(rng.below(lits.len().max(1) as u64) as usize) {
                    let mut off = 0; let mut line = 1;
                    while line < l { if r.bytes[off] == b'\n' { line += 1; } off += 1; }
                    off += c - 1;
                    let repl = b"99999999999999999999999".to_vec();
                    let mut b = r.bytes.clone();
                    b.splice(off..off + nlen, repl.clone());
                    case.data = b;
                    case.tok = Some((l, c, repl.len()));
                } else {
                    case.data = r.bytes;
                }
            }
            case.cfg = true;
        }
        "mutate" => {
            let doc = gen_doc(rng, fmt, tmax, cfg);
            let plain = rng.chance(1, 2);
            let r = render(rng, &doc, plain);
            case.data = mutate(rng, r.bytes);
        }
        "dict" => {
            // a valid document with one literal of the current source spliced in
            let doc = gen_doc(rng, fmt, tmax, cfg);
            let r = render(rng, &doc, true);
            let mut b = r.bytes;
            dict_splice(rng, &mut b);
            case.data = b;
        }
        "arbitrary" => {
            case.data = arbitrary(rng);
        }
        "corrupt" => {
            // a plain rendering (one statement per line, single spaces) with one number token replaced
            let mut doc = gen_doc(rng, fmt, tmax, false);
            if doc.clauses.is_empty() { doc.clauses.push((0, vec![1])); }
            // half of the time the full layout grammar (clauses split over lines, junk, CRLF …)
            let plain = rng.chance(1, 2);
            let r = render(rng, &doc, plain);
            let cands: Vec<&(usize, usize, usize, TokKind)> = r.tokens.iter().collect();
            let &(l, c, n, kind) = *rng.pick(&cands);
            // byte offset of the token
            let mut off = 0; let mut line = 1;
            while line < l { if r.bytes[off] == b'\n' { line += 1; } off += 1; }
            off += c - 1;
            let repl: Vec<u8> = match (kind, rng.below(4)) {
                (_, 3) => wrap_class_numeral(rng, true),
                (TokKind::Lit, 0) => {
                    // out of range for the literal type / the declared variable count
                    let lim = match doc.header { Some((v, _, _)) if v != 0 => v as i128, _ => tmax as i128 };
                    ((lim + 1) * if rng.chance(1, 2) { -1 } else { 1 }).to_string().into_bytes()
                }
                (_, 1) => b"99999999999999999999999".to_vec(),
                _ => match kind { TokKind::Zero => b"x".to_vec(), _ => b"1x".to_vec() },
            };
            let mut b = r.bytes.clone();
            if rng.chance(1, 5) {
                // the token replaced by a junk run, or a junk run glued to its front: the error
                // is on the junk (no claim where the run reads as blanks, digits, a sign in
                // front of a numeral, or opens a comment / header line)
                let run = junk_run(rng);
                let glued = rng.chance(1, 3);
                let jb = run[0];
                let no_claim = matches!(jb, b' ' | b'\t' | b'\n' | b'\r' | b'c' | b'p') || jb.is_ascii_digit() || (jb == b'-' && glued);
                let span = if glued { run.len() + n } else { run.len() };
                if glued { b.splice(off..off, run); } else { b.splice(off..off + n, run); }
                case.data = b;
                case.tok = if no_claim { None } else { Some((l, c, span)) };
            } else {
                b.splice(off..off + n, repl.clone());
                case.data = b;
                case.tok = Some((l, c, repl.len()));
            }
        }
        "fault" => {
            let doc = gen_doc(rng, fmt, tmax, cfg);
            let plain = rng.chance(1, 2);
            let r = render(rng, &doc, plain);
            let data = if rng.chance(1, 4) { mutate(rng, r.bytes) } else { r.bytes };
            case.k = Some(rng.range(0, data.len() as u64) as usize);
            case.data = data;
        }
        "ls" => {
            let doc = gen_doc(rng, fmt, tmax, cfg);
            let r = render(rng, &doc, false);
            case.data = r.bytes;
            case.ls = true;
            case.lsb = rng.chance(1, 3);
        }
        "log" | "logmut" | "logfault" => {
            case.fmt = "log".into();
            let (b, exp) = gen_log(rng, tmax, cfg);
            if family == "log" {
                case.data = b;
                case.expect = Some(exp);
            } else if family == "logmut" {
                case.data = mutate(rng, b);
            } else {
                case.k = Some(rng.range(0, b.len() as u64) as usize);
                case.data = b;
            }
        }
        "scale" => return scale_case(rng, _thorough),
        _ => panic!("unknown family {}", family),
    }
    case.line()
}

/// Every fault offset of one document (C04 thorough): returns several case lines.
pub fn fault_sweep(rng: &mut Rng) -> Vec<String> {
    let (ty, tmax) = *rng.pick(TYPES);
    let fmt: &'static str = *rng.pick(&["cnf", "wcnf", "gcnf"]);
    let cfg = rng.chance(1, 3);
    let doc = gen_doc(rng, fmt, tmax, cfg);
    let r = render(rng, &doc, false);
    (0..=r.bytes.len())
        .map(|k| Case { fmt: fmt.into(), ty: ty.into(), cfg, k: Some(k), ls: false, lsb: false, data: r.bytes.clone(), expect: None, tok: None, ns: None }.line())
        .collect()
}

// ------------------------------------------------------------------ scale family (`--opt scale`)
//
// Every size-like dimension of the DIMACS / solver-log input is taken beyond 2^20: runs of blank
// lines / comment lines / blanks at every place the grammar allows them (before the header, after
// it, between clauses, inside an open clause, after a weight / group, after the last clause),
// long comment lines, wide clauses, many clauses, clauses spread over many lines, long digit runs
// (leading zeros, overflowing numerals) in every numeric field, header counts at the type limits,
// clause starts at a fixed stride.  Sizes come from `common::scale_sizes` (around powers of two
// and around every integer constant of the current source).  Each layout is used in five modes:
// valid (`x=` expected value), syntax error right after / one statement after the scaled element
// (`t=` exact token position), I/O fault at an offset inside / around it (`k=`), one line per read
// (`ls=1`).  Documents with more items than the model's per-item fuel computation can take carry
// `big=1` (implementation-side oracles only).
use std::sync::atomic::{AtomicUsize, Ordering};
use std::sync::OnceLock;

#[derive(Clone, Copy, PartialEq, Debug)]
enum Mode { V, E1, E2, F, Ls }

/// Data-field builder that tracks offset / line / column without expanding the runs.
struct Sb { segs: Vec<String>, pend: Vec<u8>, line: usize, col: usize, off: usize }

impl Sb {
    fn new() -> Sb { Sb { segs: vec![], pend: vec![], line: 1, col: 1, off: 0 } }
    fn track(&mut self, b: &[u8]) {
        for &c in b {
            self.off += 1;
            if c == b'\n' { self.line += 1; self.col = 1; } else { self.col += 1; }
        }
    }
    fn lit(&mut self, b: &[u8]) { self.pend.extend_from_slice(b); self.track(b); }
    fn flush(&mut self) {
        if !self.pend.is_empty() { self.segs.push(hex(&self.pend)); self.pend.clear(); }
    }
    fn rep(&mut self, count: usize, unit: &[u8]) {
        if count == 0 || unit.is_empty() { return; }
        if count * unit.len() < 48 {
            for _ in 0..count { self.lit(unit); }
            return;
        }
        self.flush();
        self.segs.push(format!("r{}.{}", count, hex(unit)));
        let nl = unit.iter().filter(|&&c| c == b'\n').count();
        self.off += count * unit.len();
        if nl == 0 {
            self.col += count * unit.len();
        } else {
            self.line += count * nl;
            self.col = unit.len() - unit.iter().rposition(|&c| c == b'\n').unwrap();
        }
    }
    fn nums(&mut self, count: usize, start: usize, step: usize, pre: &[u8], suf: &[u8]) {
        if count == 0 { return; }
        self.flush();
        let seg = format!("n{}.{}.{}.{}.{}", count, start, step, hex(pre), hex(suf));
        let bytes = data_field(&seg);
        self.track(&bytes);
        self.segs.push(seg);
    }
    fn spec(&mut self) -> String {
        self.flush();
        if self.segs.is_empty() { "-".into() } else { self.segs.join("+") }
    }
}

/// A scale document under construction: text, expected items, the syntax error to inject.
struct Sd {
    sb: Sb,
    fmt: &'static str,
    hdr: String,
    items: Vec<String>,
    /// token to put in place of a good one at an injection point after the scaled element
    bad: Option<Vec<u8>>,
    skip: usize,
    tail: Vec<u8>,
    armed: bool,
    tok: Option<(usize, usize, usize)>,
    dead: bool,
    scaled: (usize, usize),
    eol: &'static [u8],
}

impl Sd {
    fn lit(&mut self, b: &[u8]) { if !self.dead { self.sb.lit(b); } }
    fn nl(&mut self) { let e = self.eol; self.lit(e); }
    /// the scaled element: a run
    fn srep(&mut self, n: usize, unit: &[u8]) {
        if self.dead { return; }
        let s = self.sb.off;
        self.sb.rep(n, unit);
        self.scaled = (s, self.sb.off);
        self.armed = true;
    }
    /// the scaled element: a sequence of numerals
    fn snums(&mut self, n: usize, start: usize, step: usize, pre: &[u8], suf: &[u8]) {
        if self.dead { return; }
        let s = self.sb.off;
        self.sb.nums(n, start, step, pre, suf);
        self.scaled = (s, self.sb.off);
        self.armed = true;
    }
    fn item(&mut self, s: String) { if !self.dead { self.items.push(s); } }
    /// A token position (possibly the empty token at the end of a line / of the input): the place
    /// where a syntax error can be injected once the scaled element has been written.
    fn tok(&mut self, good: &[u8]) {
        if self.dead { return; }
        if self.armed {
            if let Some(b) = self.bad.clone() {
                if self.skip == 0 {
                    self.tok = Some((self.sb.line, self.sb.col, b.len()));
                    self.sb.lit(&b);
                    if !b.is_empty() { let t = self.tail.clone(); self.sb.lit(&t); }
                    self.dead = true;
                    self.bad = None;
                    return;
                }
                self.skip -= 1;
            }
        }
        self.sb.lit(good);
    }
    /// The whole numeral token is the error (overflowing digit run): `pre` ++ run ++ `suf`.
    fn bad_run(&mut self, pre: &[u8], n: usize, unit: &[u8], suf: &[u8]) {
        if self.dead { return; }
        let (l, c, s) = (self.sb.line, self.sb.col, self.sb.off);
        self.sb.lit(pre);
        let s0 = self.sb.off;
        self.sb.rep(n, unit);
        self.scaled = (s0, self.sb.off);
        self.sb.lit(suf);
        self.tok = Some((l, c, self.sb.off - s));
        let t = self.tail.clone();
        self.sb.lit(&t);
        self.dead = true;
        self.bad = None;
    }
    fn tag_tok(&self, tag: u64) -> Option<Vec<u8>> {
        match self.fmt {
            "wcnf" => Some(tag.to_string().into_bytes()),
            "gcnf" => Some(format!("{{{}}}", tag).into_bytes()),
            _ => None,
        }
    }
    fn tag_val(&self, tag: u64) -> u64 { if self.fmt == "cnf" { 0 } else { tag } }
    /// Tokens of a clause: [tag] lits… 0
    fn clause_toks(&self, tag: u64, lits: &[i64]) -> Vec<Vec<u8>> {
        let mut v: Vec<Vec<u8>> = vec![];
        if let Some(t) = self.tag_tok(tag) { v.push(t); }
        v.extend(lits.iter().map(|l| l.to_string().into_bytes()));
        v.push(b"0".to_vec());
        v
    }
    fn clause_item(&self, tag: u64, lits: &[i64]) -> String {
        format!("C:{}:{}", self.tag_val(tag), if lits.is_empty() { "-".into() } else { lits.iter().map(|x| x.to_string()).collect::<Vec<_>>().join(",") })
    }
    /// A clause on one line; `gap = Some((i, n, unit))` puts the scaled blank run after token `i`.
    fn clause(&mut self, tag: u64, lits: &[i64], gap: Option<(usize, usize, &[u8])>) {
        let toks = self.clause_toks(tag, lits);
        for (i, t) in toks.iter().enumerate() {
            self.tok(t);
            match gap {
                Some((g, n, unit)) if g == i => {
                    self.srep(n, unit);
                    if i + 1 == toks.len() { self.tok(b""); }
                }
                _ => { if i + 1 < toks.len() { self.lit(b" "); } }
            }
        }
        self.nl();
        let it = self.clause_item(tag, lits);
        self.item(it);
    }
    /// Header line with the given numeric fields; same `gap` convention (token 0 = `p`, 1 = format).
    fn header(&mut self, fields: &[u64], gap: Option<(usize, usize, &[u8])>) {
        let mut toks: Vec<Vec<u8>> = vec![b"p".to_vec(), self.fmt.as_bytes().to_vec()];
        toks.extend(fields.iter().map(|f| f.to_string().into_bytes()));
        for (i, t) in toks.iter().enumerate() {
            self.tok(t);
            match gap {
                Some((g, n, unit)) if g == i => {
                    self.srep(n, unit);
                    if i + 1 == toks.len() { self.tok(b""); }
                }
                _ => { if i + 1 < toks.len() { self.lit(b" "); } }
            }
        }
        self.nl();
        if !self.dead {
            self.hdr = format!("H:{}", fields.iter().map(|f| f.to_string()).collect::<Vec<_>>().join(":"));
        }
    }
}

/// What a scale dimension is: name, smallest / largest size exponent (quick, thorough), the item
/// count above which the model is skipped (`big=1`), the modes it is used in (first = the mode of
/// the largest case).
struct Dim {
    name: &'static str,
    /// size exponents: smallest, largest in the quick tier, largest in the thorough tier
    lo: u32, hi_q: u32, hi_t: u32,
    /// item count above which the model is skipped (`big=1`), per tier
    thr_q: usize, thr_t: usize,
    /// relative cost of one unit in the model (medium-size cases are scaled down by it)
    w: usize,
    modes: &'static [Mode],
}

impl Dim {
    fn thr(&self, thorough: bool) -> usize { if thorough { self.thr_t } else { self.thr_q } }
    fn hi(&self, thorough: bool) -> u32 { if thorough { self.hi_t } else { self.hi_q } }
}

const NO_THR: usize = usize::MAX;
use Mode::*;
const fn dim(name: &'static str, w: usize, modes: &'static [Mode]) -> Dim {
    Dim { name, lo: 10, hi_q: 20, hi_t: 21, thr_q: NO_THR, thr_t: NO_THR, w, modes }
}
const DIMS: &[Dim] = &[
    dim("lines-open", 1, &[V, E1, F, Ls, E2]),
    dim("lines-tag", 1, &[E2, V, F, Ls, E1]),
    dim("lines-pre", 1, &[E2, V, F, Ls, E1]),
    dim("lines-mid", 1, &[Ls, E2, V, F, E1]),
    dim("lines-end", 1, &[V, E1, F, Ls]),
    dim("clines-top", 1, &[E2, V, F, Ls, E1]),
    dim("clines-open", 1, &[E1, V, F, Ls, E2]),
    dim("ws-lead", 1, &[E1, V, F, E2]),
    dim("ws-hdr", 1, &[E1, V, F, E2]),
    dim("ws-lits", 1, &[E2, E1, V, F]),
    dim("ws-trail", 1, &[E1, V, F, E2]),
    dim("cmt-long", 1, &[E2, V, F, E1]),
    dim("wide", 8, &[V, E1, F, E2]),
    Dim { name: "wide-lines", lo: 8, hi_q: 18, hi_t: 21, thr_q: (1 << 16) + 64, thr_t: (1 << 20) + 64, w: 1, modes: &[V, E1, F, Ls, E2] },
    Dim { name: "many", lo: 8, hi_q: 20, hi_t: 21, thr_q: (1 << 16) + 64, thr_t: (1 << 19) + 64, w: 1, modes: &[V, E1, F, Ls, E2] },
    Dim { name: "stride", lo: 10, hi_q: 16, hi_t: 16, thr_q: NO_THR, thr_t: NO_THR, w: 16, modes: &[V, E1, F] },
    dim("zeros", 4, &[V, E1, F, E2]),
    Dim { name: "digits-bad", lo: 10, hi_q: 19, hi_t: 21, thr_q: NO_THR, thr_t: NO_THR, w: 4, modes: &[E1, F] },
    dim("log-clines", 2, &[E1, V, F, Ls]),
    dim("log-cmt-long", 1, &[V, E1, F]),
    Dim { name: "log-wide", lo: 10, hi_q: 18, hi_t: 21, thr_q: (1 << 16) + 64, thr_t: NO_THR, w: 8, modes: &[V, E1, F] },
    Dim { name: "log-vlines", lo: 8, hi_q: 18, hi_t: 21, thr_q: (1 << 16) + 64, thr_t: (1 << 20) + 64, w: 1, modes: &[V, E1, F, Ls] },
    Dim { name: "log-skip-lines", lo: 8, hi_q: 20, hi_t: 21, thr_q: NO_THR, thr_t: NO_THR, w: 1, modes: &[V, E1, F, Ls] },
    dim("log-skip-long", 1, &[V, E1, F]),
    dim("log-ws", 1, &[E1, V, F]),
    Dim { name: "log-zeros", lo: 10, hi_q: 17, hi_t: 21, thr_q: NO_THR, thr_t: NO_THR, w: 4, modes: &[V, E1, F] },
];

/// The order in which (dimension, size, mode) combinations are generated:
///  A.  every dimension at its largest size (and, where the model is skipped above a threshold,
///      at the largest model-checked size), in its first mode;
///  B.  every dimension at a medium size m * (2^e + 1) in each of its other modes;
///  C.  every dimension at every size derived from a source constant `c` (modes rotate):
///      first c-1, c, c+1, then c+8, c+9, 2c, 2c+1, then 3(c+1), 5(c+1), 4c+4, each group in a
///      fixed pseudo-random order;
///  P.  every dimension at every remaining size of `scale_sizes` (around the powers of two);
///  then (index beyond the plan) random dimension / size / mode.
/// `--n` cuts this list: the quick tier reaches into C, the thorough tier goes through P.
/// Largest-size cases whose native stack use could grow with the run (everything inside an
/// open clause): generated last (`--n` is read from the command line), so that a case that
/// kills the process does not hide the others from tools that pipe all cases to one `vh run`.
const DEEP: &[&str] = &["lines-open", "lines-tag", "clines-open", "wide-lines"];
/// Largest-size cases in fault mode (I/O error beyond 1 MiB), in addition to the first modes.
const FAULT_MAX: &[&str] = &["ws-lits", "cmt-long", "log-cmt-long"];

struct Plan { main: Vec<(usize, usize, Mode)>, deep: Vec<(usize, usize, Mode)>, a_len: usize }

fn scale_plan(thorough: bool) -> &'static Plan {
    static Q: OnceLock<Plan> = OnceLock::new();
    static T: OnceLock<Plan> = OnceLock::new();
    (if thorough { &T } else { &Q }).get_or_init(|| {
        let mut plan: Vec<(usize, usize, Mode)> = vec![];
        let mut deep: Vec<(usize, usize, Mode)> = vec![];
        let sizes: Vec<Vec<usize>> = DIMS.iter().map(|d| scale_sizes(d.lo, d.hi(thorough))).collect();
        for (i, d) in DIMS.iter().enumerate() {
            let to = if DEEP.contains(&d.name) { &mut deep } else { &mut plan };
            to.push((i, *sizes[i].last().unwrap(), d.modes[0]));
            if d.thr(thorough) != NO_THR {
                if let Some(s) = sizes[i].iter().rev().find(|&&s| s <= d.thr(thorough)) { to.push((i, *s, d.modes[0])); }
            }
        }
        for (i, d) in DIMS.iter().enumerate() {
            if FAULT_MAX.contains(&d.name) { plan.push((i, *sizes[i].last().unwrap() - 1, F)); }
        }
        let a_len = plan.len();
        for (i, d) in DIMS.iter().enumerate() {
            let cap = d.thr(thorough).min((1 << if thorough { 18 } else { 15 }) / d.w);
            // medium sizes are exact multiples m * (2^e + 1): periodic effects (a flush / refill
            // every 2^e bytes or items) line up with the end of the scaled element
            let top = usize::BITS - 1 - cap.leading_zeros();
            for (j, m) in d.modes.iter().enumerate().skip(1) {
                let mult = [1usize, 2, 3, 5, 7][(i + j) % 5];
                let mut e = top.saturating_sub(1 + (j as u32 % 3)).max(4);
                while e > 4 && mult * ((1usize << e) + 1) > cap { e -= 1; }
                plan.push((i, mult * ((1usize << e) + 1), *m));
            }
        }
        let mut seen: std::collections::HashSet<(usize, usize)> = plan.iter().chain(deep.iter()).map(|p| (p.0, p.1)).collect();
        let mut r = Rng::new(0x5ca1e);
        let mut shuffle_in = |plan: &mut Vec<(usize, usize, Mode)>, mut c: Vec<(usize, usize, Mode)>| {
            for i in (1..c.len()).rev() { let j = r.below(i as u64 + 1) as usize; c.swap(i, j); }
            plan.extend(c);
        };
        let consts = source_consts();
        for tier in 0..3 {
            let mut c = vec![];
            for (i, d) in DIMS.iter().enumerate() {
                let (lo, hi) = (1usize << d.lo, (1usize << d.hi(thorough)) + 64);
                let mut j = 0;
                for &k in consts.iter().filter(|&&k| k >= lo as u64 && k <= hi as u64) {
                    let k = k as usize;
                    let derived: Vec<usize> = match tier { 0 => vec![k - 1, k, k + 1], 1 => vec![k + 8, k + 9, 2 * k, 2 * k + 1], _ => vec![3 * (k + 1), 5 * (k + 1), 4 * k + 4] };
                    for s in derived {
                        if s >= lo && s <= hi && seen.insert((i, s)) {
                            c.push((i, s, d.modes[(i + j + tier) % d.modes.len()]));
                            j += 1;
                        }
                    }
                }
            }
            shuffle_in(&mut plan, c);
        }
        let mut c = vec![];
        for (i, d) in DIMS.iter().enumerate() {
            for (j, &s) in sizes[i].iter().enumerate() {
                if seen.insert((i, s)) { c.push((i, s, d.modes[(i + j) % d.modes.len()])); }
            }
        }
        shuffle_in(&mut plan, c);
        Plan { main: plan, deep, a_len }
    })
}

fn cli_n() -> Option<usize> {
    let a: Vec<String> = std::env::args().collect();
    a.iter().position(|x| x == "--n").and_then(|i| a.get(i + 1)).and_then(|s| s.parse().ok())
}

static SCALE_IDX: AtomicUsize = AtomicUsize::new(0);

fn pick_ty(rng: &mut Rng, need: i64) -> (&'static str, i64) {
    let ok: Vec<(&str, i64)> = TYPES.iter().copied().filter(|t| t.1 >= need).collect();
    *rng.pick(&ok)
}

const LINE_UNITS: &[&[u8]] = &[b"\n", b"\n", b"\r\n", b" \n", b"\t \n", b"c\n", b"\nc x\n", b"\n\n\nc\n"];
const CLINE_UNITS: &[&[u8]] = &[b"c\n", b"c\n", b"c x\n", b"c\r\n", b"c 1 0\n", b"cc\n", b"c\n \n"];
const WS_UNITS: &[&[u8]] = &[b" ", b" ", b"\t", b" \t", b"\t  "];
const FILL_UNITS: &[&[u8]] = &[b" ", b"x", b"\t", b"c", b"0 ", b"\r", b"\xc3\xa9", b"\xff", b"p cnf "];

/// One scale case line.
pub fn scale_case(rng: &mut Rng, thorough: bool) -> String {
    let idx = SCALE_IDX.fetch_add(1, Ordering::Relaxed);
    let plan = scale_plan(thorough);
    let nd = plan.deep.len();
    // the deep cases take the last `nd` indices of the run (right after the other largest-size
    // cases if the number of cases is unknown or too small)
    let first_deep = match cli_n() { Some(t) if t >= plan.a_len + nd => t - nd, _ => plan.a_len };
    let first_deep = first_deep.max(plan.a_len);
    let is_deep = idx >= first_deep && idx < first_deep + nd;
    let main_idx = if idx < first_deep { idx } else { idx - nd };
    let slot: Option<(usize, usize, Mode)> = if is_deep { Some(plan.deep[idx - first_deep]) } else { plan.main.get(main_idx).copied() };
    // the largest-size cases use the plainest units (cheapest per unit)
    let at_max = is_deep || main_idx < plan.a_len;
    let (di, n, mode) = if let Some(s) = slot {
        s
    } else {
        let di = rng.below(DIMS.len() as u64) as usize;
        let d = &DIMS[di];
        // sizes: a power-of-two class first (so that small and large sizes are equally likely)
        let hi = d.hi(thorough);
        let k = rng.range(d.lo as u64, hi as u64) as u32;
        let around = scale_sizes(k.max(d.lo + 1) - 1, k);
        let n = match rng.below(5) {
            0 => rng.range(1 << d.lo, 1 << k) as usize,
            1 => { let e = rng.range(d.lo.saturating_sub(4).max(4) as u64, k as u64) as u32; ((1usize << k) >> e).max(1) * ((1usize << e) + 1) }
            _ => *rng.pick(&around),
        };
        // keep the random tail cheap: the big sizes are the planned part
        let n = if !thorough && n > (1 << 18) && rng.chance(3, 4) { n >> 3 } else { n };
        (di, n.max(1), *rng.pick(d.modes))
    };
    build_scale(rng, di, n, mode, at_max, thorough)
}

fn build_scale(rng: &mut Rng, di: usize, n: usize, mode: Mode, plain_units: bool, thorough: bool) -> String {
    let dim = &DIMS[di];
    let name = dim.name;
    let is_log = name.starts_with("log-");
    let fmt: &'static str = if is_log {
        "log"
    } else if name == "lines-tag" {
        *rng.pick(&["wcnf", "gcnf"])
    } else {
        *rng.pick(&["cnf", "cnf", "wcnf", "gcnf"])
    };
    let need: i64 = match name {
        "wide" | "wide-lines" | "many" | "log-wide" | "log-vlines" => n as i64 + 8,
        _ => 3,
    };
    // sequences of distinct numerals need a type that holds them; repeated ones fit every type
    let distinct = rng.chance(1, 2) && need <= i32::MAX as i64 && !plain_units;
    let (ty, tmax) = if distinct { pick_ty(rng, need) } else { *rng.pick(TYPES) };
    let distinct = distinct && tmax >= need;
    let mut cfg = rng.chance(1, 3);
    let bad: Option<Vec<u8>> = match mode {
        E1 | E2 => Some(match rng.below(7) {
            0 => b"x".to_vec(),
            1 => b"1x".to_vec(),
            2 => b"99999999999999999999999".to_vec(),
            3 => b"-x".to_vec(),
            4 => b"-".to_vec(),
            5 => vec![],
            _ => rng.pick(&[&b"}"[..], b"{", b"\xff", b"0x", b"--1", b"1.5"]).to_vec(),
        }),
        _ => None,
    };
    let tail: Vec<u8> = rng.pick(&[&b""[..], b"\n", b" 0\n", b" 1 0\n"]).to_vec();
    let mut d = Sd {
        sb: Sb::new(), fmt, hdr: "H:-".into(), items: vec![], bad, skip: if mode == E2 { rng.range(1, 3) as usize } else { 0 }, tail,
        armed: false, tok: None, dead: false, scaled: (0, 0),
        eol: if rng.chance(1, 5) { b"\r\n" } else { b"\n" },
    };
    let unit_of = |rng: &mut Rng, units: &[&'static [u8]]| -> &'static [u8] { if plain_units { units[0] } else { *rng.pick(units) } };
    let ws = unit_of(rng, WS_UNITS);
    // header fields for a document of `nc` clauses whose literals are bounded by `maxlit`
    let hdr_fields = |rng: &mut Rng, cfg: bool, nc: usize, maxlit: i64| -> Vec<u64> {
        let vars = match rng.below(4) { 0 => 0, 1 => tmax as u64, 2 => maxlit as u64, _ => (maxlit as u64 + rng.below(5)).min(tmax as u64) };
        let vars = if cfg && rng.chance(1, 2) { rng.range(0, tmax as u64) } else { vars };
        let count = if cfg { *rng.pick(&[0, nc as u64, u64::MAX, u64::MAX - 1, 1 << 32, (1 << 63) - 1, nc as u64 + 1, 1]) } else if rng.chance(1, 3) { 0 } else { nc as u64 };
        let mut f = vec![vars, count];
        match fmt {
            "wcnf" => f.push(*rng.pick(&[0, 1, u64::MAX, 1 << 63, 9])),
            "gcnf" => f.push(if cfg { *rng.pick(&[0, 1, 2, u64::MAX]) } else { *rng.pick(&[0, 2, 5, u64::MAX, u64::MAX - 1]) }),
            _ => {}
        }
        f
    };
    let tag: u64 = match fmt { "wcnf" => *rng.pick(&[7, 0, u64::MAX, 1 << 63]), "gcnf" => *rng.pick(&[2, 0, 1]), _ => 0 };
    let with_hdr = rng.chance(2, 3);
    let mut big = false;

    match name {
        "lines-open" | "lines-tag" | "lines-pre" | "lines-mid" | "lines-end" | "clines-top" | "clines-open" | "cmt-long" => {
            let pos = match name {
                "lines-pre" => 0, "lines-mid" => 1 + rng.below(2) as usize, "lines-open" | "clines-open" => 3, "lines-tag" => 4, "lines-end" => 5,
                "clines-top" => *rng.pick(&[0usize, 1, 2, 5]),
                _ => if fmt == "cnf" { *rng.pick(&[0usize, 1, 2, 3, 5]) } else { rng.below(6) as usize },
            };
            let pos = if pos == 4 && fmt == "cnf" { 3 } else { pos };
            let unit: &[u8] = if name.starts_with("clines") { unit_of(rng, CLINE_UNITS) } else { unit_of(rng, LINE_UNITS) };
            let fill = unit_of(rng, FILL_UNITS);
            let long_comment = name == "cmt-long";
            let unterminated = long_comment && pos == 5 && rng.chance(1, 2);
            let run = |d: &mut Sd| {
                if long_comment {
                    d.lit(b"c");
                    d.srep(n, fill);
                    if !unterminated { d.lit(b"\n"); }
                } else {
                    d.srep(n, unit);
                }
            };
            let nc = 3;
            let h = hdr_fields(rng, cfg, nc, 3);
            let indent = rng.chance(1, 4);
            if pos == 0 { run(&mut d); }
            if with_hdr || pos == 1 { d.header(&h, None); }
            if pos == 1 { run(&mut d); }
            // first clause
            match pos {
                3 => {
                    if let Some(t) = d.tag_tok(tag) { d.tok(&t); d.lit(b" "); }
                    d.tok(b"1"); d.lit(b" "); d.tok(b"-2"); d.nl();
                    run(&mut d);
                    if indent { d.lit(b" \t"); }
                    d.tok(b"3"); d.lit(b" "); d.tok(b"0"); d.nl();
                    let it = d.clause_item(tag, &[1, -2, 3]); d.item(it);
                }
                4 => {
                    let t = d.tag_tok(tag).unwrap();
                    d.tok(&t); d.nl();
                    run(&mut d);
                    if indent { d.lit(b"  "); }
                    d.tok(b"1"); d.lit(b" "); d.tok(b"-2"); d.lit(b" "); d.tok(b"0"); d.nl();
                    let it = d.clause_item(tag, &[1, -2]); d.item(it);
                }
                _ => d.clause(tag, &[1, -2], None),
            }
            if pos == 2 { run(&mut d); if indent { d.lit(b"\t"); } }
            d.clause(tag, &[3], None);
            d.clause(1, &[], None);
            if pos == 5 { run(&mut d); if indent && !unterminated { d.lit(b" "); } d.tok(b""); }
        }
        "ws-lead" | "ws-hdr" | "ws-lits" | "ws-trail" => {
            let h = hdr_fields(rng, cfg, 2, 3);
            let nf = h.len() + 2;
            let sub = match name {
                "ws-lead" => rng.below(4),
                "ws-hdr" => 4 + rng.below(4),
                "ws-lits" => if fmt == "cnf" { *rng.pick(&[8u64, 10]) } else { 8 + rng.below(3) },
                _ => 11 + rng.below(4),
            };
            // header (with its gap where the scaled run is inside it)
            match sub {
                0 => { d.srep(n, ws); d.header(&h, None); }
                2 => { d.srep(n, ws); d.tok(b""); d.nl(); d.header(&h, None); }
                4 => d.header(&h, Some((0, n, ws))),
                5 => d.header(&h, Some((1, n, ws))),
                6 => d.header(&h, Some((2 + rng.below(nf as u64 - 3) as usize, n, ws))),
                7 => d.header(&h, Some((nf - 1, n, ws))),
                _ => { if with_hdr { d.header(&h, None); } }
            }
            let ntok = d.clause_toks(tag, &[1, -2, 3]).len();
            match sub {
                1 => { d.srep(n, ws); d.clause(tag, &[1, -2, 3], None); }
                3 | 14 => {
                    if let Some(t) = d.tag_tok(tag) { d.tok(&t); d.lit(b" "); }
                    d.tok(b"1"); d.lit(b" "); d.tok(b"-2");
                    if sub == 14 { d.srep(n, ws); d.tok(b""); }
                    d.nl();
                    if sub == 3 { d.srep(n, ws); }
                    d.tok(b"3"); d.lit(b" "); d.tok(b"0"); d.nl();
                    let it = d.clause_item(tag, &[1, -2, 3]); d.item(it);
                }
                8 => { let g = ntok - 4 + rng.below(2) as usize; d.clause(tag, &[1, -2, 3], Some((g, n, ws))); }
                9 => d.clause(tag, &[1, -2, 3], Some((0, n, ws))),
                10 => d.clause(tag, &[1, -2, 3], Some((ntok - 2, n, ws))),
                11 => d.clause(tag, &[1, -2, 3], Some((ntok - 1, n, ws))),
                _ => d.clause(tag, &[1, -2, 3], None),
            }
            match sub {
                12 => {
                    // last clause without line end, blanks up to the end of the input
                    let toks = d.clause_toks(tag, &[-3]);
                    for (i, t) in toks.iter().enumerate() { d.tok(t); if i + 1 < toks.len() { d.lit(b" "); } }
                    d.srep(n, ws); d.tok(b"");
                    let it = d.clause_item(tag, &[-3]); d.item(it);
                }
                13 => { d.clause(tag, &[-3], None); d.srep(n, ws); d.tok(b""); }
                _ => d.clause(tag, &[-3], None),
            }
        }
        "wide" | "wide-lines" | "many" | "stride" => {
            let lines = name == "wide-lines";
            let sep: &[u8] = if lines { if d.eol.len() == 2 && rng.chance(1, 2) { b"\r\n" } else { b"\n" } } else { ws };
            big = n > dim.thr(thorough);
            match name {
                "wide" | "wide-lines" => {
                    let kind = if distinct { rng.below(2) } else if plain_units { 2 } else { 2 + rng.below(3) };
                    let maxlit = if distinct { n as i64 } else { 12 };
                    let h = hdr_fields(rng, cfg, 2, maxlit);
                    if with_hdr { d.header(&h, None); }
                    if let Some(t) = d.tag_tok(tag) { d.tok(&t); d.lit(b" "); }
                    let mut lits = String::new();
                    let push = |lits: &mut String, s: &str| { if !lits.is_empty() { lits.push(','); } lits.push_str(s); };
                    match kind {
                        0 => { d.snums(n, 1, 1, b"", sep); for i in 1..=n { push(&mut lits, &i.to_string()); } }
                        1 => { d.snums(n, 1, 1, b"-", sep); for i in 1..=n { push(&mut lits, &format!("-{}", i)); } }
                        2 => { let u = [b"1", sep].concat(); d.srep(n, &u); for _ in 0..n { push(&mut lits, "1"); } }
                        3 => { let u = [b"-1", sep].concat(); d.srep(n, &u); for _ in 0..n { push(&mut lits, "-1"); } }
                        _ => { let u = [b"12", sep, b"-7", sep].concat(); d.srep(n.div_ceil(2), &u); for _ in 0..n.div_ceil(2) { push(&mut lits, "12"); push(&mut lits, "-7"); } }
                    }
                    d.tok(b"0"); d.nl();
                    d.item(format!("C:{}:{}", d.tag_val(tag), lits));
                    d.clause(tag, &[-1, 1], None);
                }
                "many" => {
                    let kind = if distinct { 0 } else if plain_units { 1 } else { 1 + rng.below(3) };
                    let maxlit = if distinct { n as i64 } else { 3 };
                    let h = hdr_fields(rng, cfg, n + 1, maxlit);
                    if with_hdr { d.header(&h, None); }
                    let pre: Vec<u8> = match d.tag_tok(tag) { Some(mut t) => { t.push(b' '); t } None => vec![] };
                    let tv = d.tag_val(tag);
                    let suf = [&b" 0"[..], d.eol].concat();
                    match kind {
                        0 => { d.snums(n, 1, 1, &pre, &suf); if !d.dead { d.items.extend((1..=n).map(|i| format!("C:{}:{}", tv, i))); } }
                        1 => { let u = [&pre[..], b"-1 0", d.eol].concat(); d.srep(n, &u); if !d.dead { d.items.extend((0..n).map(|_| format!("C:{}:-1", tv))); } }
                        2 => { let u = [&pre[..], b"0", d.eol].concat(); d.srep(n, &u); if !d.dead { d.items.extend((0..n).map(|_| format!("C:{}:-", tv))); } }
                        _ => { let u = [&pre[..], b"-3", d.eol, b"c", d.eol, b" 2 0 ", d.eol].concat(); d.srep(n, &u); if !d.dead { d.items.extend((0..n).map(|_| format!("C:{}:-3,2", tv))); } }
                    }
                    d.clause(tag, &[-1, 1], None);
                    d.tok(b"");
                }
                _ => {
                    // clause starts at a fixed stride of `n` bytes
                    let h = hdr_fields(rng, cfg, 0, 3);
                    let toks = d.clause_toks(tag, &[1, -2, 3]);
                    let body: Vec<u8> = toks.join(&b" "[..]);
                    let l = n.max(body.len() + 4);
                    let unit: Vec<u8> = match rng.below(3) {
                        0 => [&body[..], &vec![b' '; l - body.len() - 1], b"\n"].concat(),
                        1 => [&body[..], b"\nc", &vec![b'x'; l - body.len() - 3], b"\n"].concat(),
                        _ => [&vec![b' '; l - body.len() - 1][..], &body, b"\n"].concat(),
                    };
                    let m = ((1usize << if thorough { 20 } else { 18 }) / l).clamp(3, 128);
                    let mut h = h; h[1] = if cfg || rng.chance(1, 2) { 0 } else { m as u64 + 1 };
                    if with_hdr { d.header(&h, None); }
                    d.srep(m, &unit);
                    let it = d.clause_item(tag, &[1, -2, 3]);
                    if !d.dead { d.items.extend((0..m).map(|_| it.clone())); }
                    d.clause(tag, &[-3], None);
                }
            }
        }
        "zeros" | "digits-bad" => {
            // a numeral with a long digit run in one of the numeric fields
            let isbad = name == "digits-bad";
            let h = hdr_fields(rng, cfg, 2, 3);
            let nh = h.len();
            let place = match rng.below(if fmt == "cnf" { 6 } else { 7 }) { 0 => 0, 1 => 1 + rng.below(nh as u64) as usize, 2 => 4, 3 => 5, 4 => 6, 5 => 7, _ => 8 };
            // 0: no header, first literal; 1..=3: header field; 4: first literal; 5: middle literal (negative); 6: last literal; 7: terminator; 8: tag
            let run = |d: &mut Sd, rng: &mut Rng, neg: bool, digits: &[u8], open: &[u8], close: &[u8]| {
                let sign: &[u8] = if neg { b"-" } else { b"" };
                if isbad {
                    match rng.below(3) {
                        0 => d.bad_run(&[open, sign].concat(), n, b"9", close),
                        1 => d.bad_run(&[open, sign, b"1"].concat(), n, b"0", close),
                        _ => d.bad_run(&[open, sign].concat(), n.div_ceil(2), b"10", &[digits, close].concat()),
                    }
                } else {
                    d.lit(&[open, sign].concat());
                    d.srep(n, b"0");
                    d.lit(&[digits, close].concat());
                }
            };
            if place >= 1 && place <= 3 {
                let mut toks: Vec<Vec<u8>> = vec![b"p".to_vec(), fmt.as_bytes().to_vec()];
                toks.extend(h.iter().map(|f| f.to_string().into_bytes()));
                for (i, t) in toks.iter().enumerate() {
                    if i == place + 1 { run(&mut d, rng, false, t, b"", b""); } else { d.tok(t); }
                    if i + 1 < toks.len() { d.lit(b" "); }
                }
                d.nl();
                if !d.dead { d.hdr = format!("H:{}", h.iter().map(|f| f.to_string()).collect::<Vec<_>>().join(":")); }
            } else if place != 0 && with_hdr {
                d.header(&h, None);
            }
            let lits = [1i64, -2, 3];
            let toks = d.clause_toks(tag, &lits);
            let t0 = toks.len() - 4; // index of the first literal
            let target = match place { 0 | 4 => Some(t0), 5 => Some(t0 + 1), 6 => Some(t0 + 2), 7 => Some(t0 + 3), 8 => Some(0), _ => None };
            for (i, t) in toks.iter().enumerate() {
                if Some(i) == target {
                    if place == 8 && fmt == "gcnf" {
                        run(&mut d, rng, false, &t[1..t.len() - 1], b"{", b"}");
                    } else if t[0] == b'-' {
                        run(&mut d, rng, true, &t[1..], b"", b"");
                    } else if place == 7 {
                        let neg = rng.chance(1, 3);
                        run(&mut d, rng, neg, b"", b"", b"");
                    } else {
                        run(&mut d, rng, false, t, b"", b"");
                    }
                } else {
                    d.tok(t);
                }
                if i + 1 < toks.len() { d.lit(b" "); }
            }
            d.nl();
            let it = d.clause_item(tag, &lits); d.item(it);
            d.clause(tag, &[-3], None);
        }
        _ => {
            // ---- solver log
            let pos = rng.below(4) as usize; // 0 start, 1 between status and values, 2 between value lines, 3 end
            let pos = if matches!(mode, E1 | E2) && pos == 3 { 2 } else { pos };
            let status = rng.below(4);
            let status_first = rng.chance(1, 2) || status == 0;
            let sline: &[u8] = match status { 1 => b"s SATISFIABLE", 2 => b"s UNSATISFIABLE", 3 => b"s UNKNOWN", _ => b"" };
            let cunit: &[u8] = unit_of(rng, &[b"c \n", b"c x\n", b"c \r\n", b"c  c\n", b"c v 1 0\n"]);
            let sunit: &[u8] = unit_of(rng, &[b"\n", b"x\n", b"c\n", b"vv 1\n", b"\r\n", b"s\n", b" v 1 0\n"]);
            let fill = unit_of(rng, FILL_UNITS);
            if name == "log-skip-lines" || name == "log-skip-long" { cfg = true; }
            big = n > dim.thr(thorough);
            let mut lits = String::new();
            let push = |lits: &mut String, s: &str| { if !lits.is_empty() { lits.push(','); } lits.push_str(s); };
            let run = |d: &mut Sd| match name {
                "log-clines" => d.srep(n, cunit),
                "log-cmt-long" => { d.lit(b"c "); d.srep(n, fill); d.lit(b"\n"); }
                "log-skip-lines" => d.srep(n, sunit),
                "log-skip-long" => { d.lit(b"x"); d.srep(n, fill); d.lit(b"\n"); }
                _ => {}
            };
            if pos == 0 { run(&mut d); }
            if status_first && status != 0 { d.lit(sline); d.nl(); }
            if pos == 1 { run(&mut d); }
            d.lit(b"v ");
            match name {
                "log-ws" if rng.chance(1, 3) => { d.srep(n, ws); d.tok(b"1"); }
                "log-zeros" if rng.chance(1, 2) => {
                    if rng.chance(1, 3) { d.bad_run(b"", n, b"9", b""); } else { d.srep(n, b"0"); d.lit(b"1"); }
                }
                _ => d.tok(b"1"),
            }
            push(&mut lits, "1");
            d.lit(b" ");
            match name {
                "log-wide" => {
                    if distinct { d.snums(n, 2, 1, b"", ws); for i in 0..n { push(&mut lits, &(i + 2).to_string()); } }
                    else { let u = [b"-1", ws].concat(); d.srep(n, &u); for _ in 0..n { push(&mut lits, "-1"); } }
                }
                "log-vlines" => {
                    d.nl();
                    if distinct { d.snums(n, 2, 1, b"v ", b"\n"); for i in 0..n { push(&mut lits, &(i + 2).to_string()); } }
                    else if plain_units { d.srep(n, b"v 1\n"); for _ in 0..n { push(&mut lits, "1"); } }
                    else { d.srep(n, b"v 1 -1\n"); for _ in 0..n { push(&mut lits, "1"); push(&mut lits, "-1"); } }
                    d.lit(b"v ");
                }
                "log-ws" if !d.armed && rng.chance(1, 2) => { d.srep(n, ws); }
                _ => {}
            }
            d.tok(b"-2"); push(&mut lits, "-2");
            if pos == 2 { d.nl(); run(&mut d); d.lit(b"v "); } else { d.lit(b" "); }
            if name == "log-zeros" && !d.armed {
                let neg = rng.chance(1, 2);
                if neg { d.lit(b"-"); }
                d.srep(n, b"0"); d.lit(b"3");
                push(&mut lits, if neg { "-3" } else { "3" });
            } else {
                d.tok(b"3"); push(&mut lits, "3");
            }
            d.lit(b" ");
            d.tok(b"0");
            if name == "log-ws" && !d.armed { d.srep(n, ws); d.tok(b""); }
            d.nl();
            if !status_first { d.lit(sline); d.nl(); }
            if pos == 3 { run(&mut d); }
            if !d.dead {
                d.items = vec![format!("S:{}", match status { 1 => "sat", 2 => "unsat", _ => "none" }), format!("A:{}", lits)];
            }
        }
    }

    // ---- the case line
    let injected = d.tok.is_some();
    let len = d.sb.off;
    let (s0, s1) = d.scaled;
    let mut line = format!("cnf fmt={} ty={} cfg={}", fmt, ty, cfg as u8);
    let k = if mode == F {
        let cands: Vec<usize> = [s0, s0 + 1, (s0 + s1) / 2, s1.saturating_sub(1), s1, s1 + 1, len.saturating_sub(1), len, s0 + rng.below((s1 - s0).max(1) as u64) as usize]
            .iter().copied().filter(|&k| k <= len && (!plain_units || k + 1 >= s1)).collect();
        Some(*rng.pick(&cands))
    } else {
        None
    };
    line.push_str(&format!(" k={}", match k { Some(k) => k.to_string(), None => "-".into() }));
    line.push_str(&format!(" ls={}", (mode == Ls) as u8));
    line.push_str(&format!(" d={}", d.sb.spec()));
    if !injected && !d.dead && k.is_none() && mode != Ls {
        let hdr_item = if is_log { vec![] } else { vec![d.hdr.clone()] };
        let items: Vec<String> = hdr_item.into_iter().chain(d.items.iter().cloned()).collect();
        line.push_str(&format!(" x={}", crate::eng_cnf::obs_text(&items, "END")));
    }
    if let Some((l, c, t)) = d.tok {
        line.push_str(&format!(" t={}:{}:{}", l, c, t));
    }
    if big { line.push_str(" big=1"); }
    if big && n > (1 << 19) { line.push_str(" ns=2"); }
    line.push_str(&format!(" dim={} n={}", name, n));
    line
}
