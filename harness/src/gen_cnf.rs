//! Case generators for engine `cnf`: abstract values rendered through a layout grammar
//! (C07, C03), the crate's own writers (C03), mutations and arbitrary bytes (C01, C05, C06),
//! single-token corruptions with known position (C08), faults (C04), line sources (C09).
use crate::common::*;
use crate::eng_cnf::Case;
use flussab::DeferredWriter;
use flussab_cnf::{cnf, gcnf, wcnf};

pub const TYPES: &[(&str, i64)] = &[
    ("i8", i8::MAX as i64),
    ("i16", i16::MAX as i64),
    ("i32", i32::MAX as i64),
    ("i64", i64::MAX),
    ("isize", i64::MAX),
];

#[derive(Clone, Debug)]
pub struct Doc {
    pub fmt: &'static str,
    pub header: Option<(u64, u64, u64)>,
    pub clauses: Vec<(u64, Vec<i64>)>,
}

impl Doc {
    pub fn expected(&self) -> String {
        let mut v = vec![];
        v.push(match self.header {
            None => "H:-".to_string(),
            Some((a, b, c)) => {
                if self.fmt == "cnf" { format!("H:{}:{}", a, b) } else { format!("H:{}:{}:{}", a, b, c) }
            }
        });
        for (t, l) in &self.clauses {
            v.push(format!(
                "C:{}:{}",
                t,
                if l.is_empty() { "-".into() } else { l.iter().map(|x| x.to_string()).collect::<Vec<_>>().join(",") }
            ));
        }
        crate::eng_cnf::obs_text(&v, "END")
    }
}

fn rand_lit(rng: &mut Rng, max: i64) -> i64 {
    let m = match rng.below(6) {
        0 => max,
        1 => 1,
        2 => max - (rng.below(3) as i64).min(max - 1),
        _ => 1 + (rng.next() % (max.min(1 << 40) as u64)) as i64,
    };
    if rng.chance(1, 2) { -m } else { m }
}

pub fn gen_doc(rng: &mut Rng, fmt: &'static str, tmax: i64, cfg: bool) -> Doc {
    let n = match rng.below(6) { 0 => 0, 1 => 1, _ => rng.range(0, 8) } as usize;
    // a declared variable count limits the literals unless the header is ignored
    let declared_vars: Option<i64> = if rng.chance(2, 3) {
        Some(match rng.below(4) { 0 => 0, 1 => tmax, _ => 1 + (rng.next() % (tmax.min(1000) as u64)) as i64 })
    } else {
        None
    };
    let lim = match declared_vars {
        Some(v) if v != 0 && !cfg => v,
        _ => tmax,
    };
    let groups: u64 = match rng.below(3) { 0 => 0, 1 => rng.range(1, 5), _ => u64::MAX };
    let mut clauses = vec![];
    for _ in 0..n {
        let len = match rng.below(5) { 0 => 0, 1 => 1, _ => rng.range(0, 6) } as usize;
        let lits: Vec<i64> = (0..len).map(|_| rand_lit(rng, lim)).collect();
        let tag = match fmt {
            "wcnf" => match rng.below(4) { 0 => 0, 1 => u64::MAX, _ => rng.next() >> rng.range(0, 63) },
            "gcnf" => {
                let glim = if groups != 0 && !cfg { groups } else { u64::MAX };
                match rng.below(3) { 0 => 0, 1 => glim, _ => rng.next() % glim.max(1) }
            }
            _ => 0,
        };
        clauses.push((tag, lits));
    }
    let header = declared_vars.map(|v| {
        let cc = if rng.chance(1, 3) { 0 } else if cfg && rng.chance(1, 3) { rng.range(0, 9) } else { n as u64 };
        let extra = match fmt { "wcnf" => rng.next() >> rng.range(0, 63), "gcnf" => groups, _ => 0 };
        (v as u64, cc, extra)
    });
    Doc { fmt, header, clauses }
}

/// Text with token spans: (line, column, length) of every number token, 1-based.
pub struct Rendered {
    pub bytes: Vec<u8>,
    pub tokens: Vec<(usize, usize, usize, TokKind)>,
    pub choices: u32,
}

#[derive(Clone, Copy, Debug, PartialEq)]
pub enum TokKind { Lit, Zero, VarCount, ClauseCount, Extra, Tag }

struct Out<'r> {
    b: Vec<u8>,
    line: usize,
    col: usize,
    toks: Vec<(usize, usize, usize, TokKind)>,
    rng: &'r mut Rng,
    plain: bool,
    choices: u32,
}

impl<'r> Out<'r> {
    fn put(&mut self, s: &[u8]) {
        for &c in s {
            self.b.push(c);
            if c == b'\n' { self.line += 1; self.col = 1; } else { self.col += 1; }
        }
    }
    fn choice(&mut self, bit: u32, num: u64, den: u64) -> bool {
        if self.plain { return false; }
        let r = self.rng.chance(num, den);
        if r { self.choices |= 1 << bit; }
        r
    }
    fn blank(&mut self) {
        if self.choice(0, 1, 4) {
            let n = self.rng.range(1, 3);
            for _ in 0..n { let c = if self.rng.chance(1, 3) { b'\t' } else { b' ' }; self.put(&[c]); }
        } else {
            self.put(b" ");
        }
    }
    fn opt_blank(&mut self, bit: u32) {
        if self.choice(bit, 1, 5) { self.blank(); }
    }
    fn eol(&mut self) {
        if self.choice(1, 1, 5) { self.put(b"\r\n"); } else { self.put(b"\n"); }
    }
    fn junk_lines(&mut self, bit: u32) {
        while self.choice(bit, 1, 5) {
            if self.rng.chance(1, 2) {
                // comment line, optionally indented
                self.opt_blank(2);
                let n = self.rng.range(0, 8);
                self.put(b"c");
                for _ in 0..n { let c = *self.rng.pick(b" 0p-1x\tc\r"); self.put(&[c]); }
                self.put(b"\n");
            } else {
                self.opt_blank(3);
                self.eol();
            }
        }
    }
    fn numeral(&mut self, v: i128, kind: TokKind) {
        let mut s = String::new();
        if v < 0 { s.push('-'); }
        if self.choice(4, 1, 8) { for _ in 0..self.rng.range(1, 3) { s.push('0'); } }
        s.push_str(&v.unsigned_abs().to_string());
        self.toks.push((self.line, self.col, s.len(), kind));
        self.put(s.as_bytes());
    }
    fn zero(&mut self) {
        let s: &[u8] = if self.choice(5, 1, 8) { if self.rng.chance(1, 2) { b"-0" } else { b"00" } } else { b"0" };
        self.toks.push((self.line, self.col, s.len(), TokKind::Zero));
        self.put(s);
    }
    /// separator inside a clause: blanks, or a line break with optional junk
    fn sep(&mut self) {
        if self.choice(6, 1, 6) {
            self.opt_blank(7);
            self.eol();
            self.junk_lines(8);
            self.opt_blank(9);
        } else {
            self.blank();
        }
    }
}

pub fn render(rng: &mut Rng, doc: &Doc, plain: bool) -> Rendered {
    let mut o = Out { b: vec![], line: 1, col: 1, toks: vec![], rng, plain, choices: 0 };
    o.opt_blank(10);
    o.junk_lines(11);
    if let Some((v, c, x)) = doc.header {
        o.put(b"p"); o.blank();
        o.put(doc.fmt.as_bytes()); o.blank();
        o.numeral(v as i128, TokKind::VarCount); o.blank();
        o.numeral(c as i128, TokKind::ClauseCount);
        if doc.fmt != "cnf" { o.blank(); o.numeral(x as i128, TokKind::Extra); }
        o.opt_blank(12);
        o.eol();
    }
    let n = doc.clauses.len();
    for (i, (tag, lits)) in doc.clauses.iter().enumerate() {
        o.opt_blank(13);
        o.junk_lines(14);
        o.opt_blank(13);
        match doc.fmt {
            "wcnf" => { o.numeral(*tag as i128, TokKind::Tag); o.sep(); }
            "gcnf" => {
                // the token span covers the braces
                let (l0, c0) = (o.line, o.col);
                o.put(b"{");
                o.numeral(*tag as i128, TokKind::Tag);
                o.put(b"}");
                let last = o.toks.len() - 1;
                o.toks[last] = (l0, c0, o.toks[last].2 + 2, TokKind::Tag);
                if o.choice(15, 1, 4) { o.sep(); } else { o.put(b" "); }
            }
            _ => {}
        }
        for l in lits { o.numeral(*l as i128, TokKind::Lit); o.sep(); }
        o.zero();
        o.opt_blank(16);
        if i + 1 == n && o.choice(17, 1, 4) {
            // missing final newline
        } else {
            o.eol();
        }
    }
    if n > 0 && o.b.last() == Some(&b'\n') {
        o.junk_lines(18);
        o.opt_blank(19);
    }
    let (choices, b, toks) = (o.choices, o.b, o.toks);
    Rendered { bytes: b, tokens: toks, choices }
}

pub fn write_real(doc: &Doc, ty: &str) -> Vec<u8> {
    let mut out: Vec<u8> = vec![];
    {
        let mut w = DeferredWriter::from_write(&mut out);
        if let Some((v, c, x)) = doc.header {
            match doc.fmt {
                "cnf" => cnf::write_header(&mut w, cnf::Header { var_count: v as usize, clause_count: c as usize }),
                "wcnf" => wcnf::write_header(&mut w, wcnf::Header { var_count: v as usize, clause_count: c as usize, top_weight: x }),
                _ => gcnf::write_header(&mut w, gcnf::Header { var_count: v as usize, clause_count: c as usize, group_count: x as usize }),
            }
        }
        for (tag, lits) in &doc.clauses {
            macro_rules! wr {
                ($t:ty) => {{
                    let l: Vec<$t> = lits.iter().map(|x| *x as $t).collect();
                    match doc.fmt {
                        "cnf" => cnf::write_clause(&mut w, &l),
                        "wcnf" => wcnf::write_clause(&mut w, *tag, &l),
                        _ => gcnf::write_clause(&mut w, *tag as usize, &l),
                    }
                }};
            }
            match ty { "i8" => wr!(i8), "i16" => wr!(i16), "i32" => wr!(i32), "i64" => wr!(i64), _ => wr!(isize) }
        }
        use std::io::Write;
        let _ = w.flush();
    }
    out
}

// ------------------------------------------------------------------ solver logs

pub fn gen_log(rng: &mut Rng, tmax: i64, ignore_unknown: bool) -> (Vec<u8>, String) {
    let status = rng.below(4); // 0 none, 1 sat, 2 unsat, 3 unknown
    let with_assignment = rng.chance(2, 3);
    let lits: Vec<i64> = if with_assignment { (0..rng.range(0, 7)).map(|_| rand_lit(rng, tmax)).collect() } else { vec![] };
    let mut lines: Vec<Vec<u8>> = vec![];
    let comment = |rng: &mut Rng| -> Vec<u8> {
        let mut l = b"c ".to_vec();
        for _ in 0..rng.range(0, 6) { l.push(*rng.pick(b"abc 01-vs")); }
        l
    };
    let unknown = |rng: &mut Rng| -> Vec<u8> {
        match rng.below(4) {
            0 => b"".to_vec(),
            1 => b"c".to_vec(),
            2 => b"x yz".to_vec(),
            _ => b"vv 1 0".to_vec(),
        }
    };
    let status_line: Option<Vec<u8>> = match status {
        1 => Some(b"s SATISFIABLE".to_vec()),
        2 => Some(b"s UNSATISFIABLE".to_vec()),
        3 => Some(b"s UNKNOWN".to_vec()),
        _ => None,
    };
    let mut vlines: Vec<Vec<u8>> = vec![];
    if with_assignment {
        let mut cur = b"v ".to_vec();
        for l in &lits {
            if rng.chance(1, 4) {
                // split the value lines here (possibly leaving an empty "v " line)
                vlines.push(std::mem::replace(&mut cur, b"v ".to_vec()));
            }
            if rng.chance(1, 6) { cur.extend_from_slice(b"  "); }
            cur.extend_from_slice(l.to_string().as_bytes());
            cur.push(b' ');
        }
        if rng.chance(1, 4) { vlines.push(std::mem::replace(&mut cur, b"v ".to_vec())); }
        cur.extend_from_slice(b"0");
        if rng.chance(1, 4) { cur.push(b' '); }
        vlines.push(cur);
    }
    let status_first = rng.chance(1, 2);
    let mut body: Vec<Vec<u8>> = vec![];
    if status_first { if let Some(s) = &status_line { body.push(s.clone()); } }
    body.extend(vlines);
    if !status_first { if let Some(s) = &status_line { body.push(s.clone()); } }
    for l in body {
        while rng.chance(1, 4) { lines.push(comment(rng)); }
        if ignore_unknown { while rng.chance(1, 5) { lines.push(unknown(rng)); } }
        lines.push(l);
    }
    while rng.chance(1, 4) { lines.push(comment(rng)); }
    let mut bytes = vec![];
    let n = lines.len();
    for (i, l) in lines.into_iter().enumerate() {
        bytes.extend_from_slice(&l);
        if i + 1 == n && rng.chance(1, 4) { break; }
        if rng.chance(1, 6) { bytes.extend_from_slice(b"\r\n"); } else { bytes.push(b'\n'); }
    }
    let exp = format!(
        "S:{}|A:{}|END",
        match status { 1 => "sat", 2 => "unsat", _ => "none" },
        if lits.is_empty() { "-".into() } else { lits.iter().map(|x| x.to_string()).collect::<Vec<_>>().join(",") }
    );
    (bytes, exp)
}

// ------------------------------------------------------------------ mutation / corruption

/// Numerals that a wrapping accumulator would map to a small value: `m * 2^bits ± small`,
/// either sign, 20..45 digits (the "no wrap-around" clause of C06).
pub fn wrap_class_numeral(rng: &mut Rng, big_only: bool) -> Vec<u8> {
    // decimal multiplication of a big number held as digits
    fn mul_small(d: &mut Vec<u8>, m: u32) {
        let mut carry = 0u32;
        for x in d.iter_mut().rev() {
            let v = (*x as u32) * m + carry;
            *x = (v % 10) as u8;
            carry = v / 10;
        }
        while carry > 0 {
            d.insert(0, (carry % 10) as u8);
            carry /= 10;
        }
    }
    fn add_small(d: &mut Vec<u8>, a: u32) {
        let mut carry = a;
        for x in d.iter_mut().rev() {
            let v = *x as u32 + carry;
            *x = (v % 10) as u8;
            carry = v / 10;
            if carry == 0 { break; }
        }
        while carry > 0 {
            d.insert(0, (carry % 10) as u8);
            carry /= 10;
        }
    }
    let bits = if big_only { *rng.pick(&[64u32, 64, 128]) } else { *rng.pick(&[8u32, 16, 32, 63, 64, 64, 64, 128]) };
    let mut d = vec![1u8];
    for _ in 0..bits { mul_small(&mut d, 2); }
    mul_small(&mut d, rng.range(1, 40) as u32);
    if rng.chance(1, 3) { mul_small(&mut d, 10); }
    add_small(&mut d, rng.below(9) as u32);
    let mut s: Vec<u8> = vec![];
    if rng.chance(1, 2) { s.push(b'-'); }
    s.extend(d.iter().map(|x| b'0' + x));
    s
}

fn extreme_numeral(rng: &mut Rng) -> Vec<u8> {
    if rng.chance(1, 3) {
        return wrap_class_numeral(rng, false);
    }
    match rng.below(7) {
        0 => b"18446744073709551615".to_vec(),
        1 => b"18446744073709551616".to_vec(),
        2 => b"9223372036854775807".to_vec(),
        3 => b"-9223372036854775808".to_vec(),
        4 => b"9223372036854775808".to_vec(),
        5 => (0..30).map(|_| b'0' + rng.below(10) as u8).collect(),
        _ => {
            let k = rng.range(1, 64);
            let v = (1u128 << k) as i128 + rng.range(0, 2) as i128 - 1;
            let mut s = v.to_string();
            if rng.chance(1, 3) { s.insert(0, '-'); }
            s.into_bytes()
        }
    }
}

pub fn mutate(rng: &mut Rng, mut b: Vec<u8>) -> Vec<u8> {
    for _ in 0..rng.range(1, 3) {
        let len = b.len();
        match rng.below(8) {
            0 if len > 0 => { let i = rng.below(len as u64) as usize; b[i] = *rng.pick(b" \t\r\n0123456789-pcx{}\xff\x00wgnf"); }
            1 if len > 0 => { let i = rng.below(len as u64) as usize; b.remove(i); }
            2 => { let i = rng.range(0, len as u64) as usize; b.insert(i, *rng.pick(b" \n0-19c{}\r")); }
            3 if len > 0 => { let i = rng.below(len as u64) as usize; b.truncate(i); }
            4 => { let i = rng.range(0, len as u64) as usize; let e = extreme_numeral(rng); b.splice(i..i, e); }
            5 if len > 1 => {
                let i = rng.below(len as u64) as usize;
                let j = (i + rng.range(1, 6) as usize).min(len);
                let dup: Vec<u8> = b[i..j].to_vec();
                b.splice(j..j, dup);
            }
            6 if rng.chance(1, 3) => {
                // a long garbage token around the 60-byte cap of the error-message scanner
                let i = rng.range(0, len as u64) as usize;
                let n = rng.range(55, 70) as usize;
                let tok: Vec<u8> = (0..n).map(|_| *rng.pick(b"xyz01-")).collect();
                b.splice(i..i, tok);
            }
            _ => { let i = rng.range(0, len as u64) as usize; b.insert(i, rng.next() as u8); }
        }
    }
    b
}

fn arbitrary(rng: &mut Rng) -> Vec<u8> {
    let n = rng.range(0, 40);
    let alpha: &[u8] = if rng.chance(1, 2) { b"pcnf 01-\n\n \t\rwg{}9sSvAT" } else { b"\x00\xff abc\n123" };
    (0..n).map(|_| if rng.chance(1, 20) { rng.next() as u8 } else { *rng.pick(alpha) }).collect()
}

/// One case line.  `opt` selects the family: layout | rt | mutate | arbitrary | corrupt | fault | ls | log
pub fn gen_case(rng: &mut Rng, opt: &str, _thorough: bool) -> String {
    let (ty, tmax) = *rng.pick(TYPES);
    let cfg = rng.chance(1, 3);
    let family = if (opt.is_empty() || opt == "mix" || opt.contains("layout")) && rng.chance(1, 1200) {
        // a document larger than two default chunks: refill / realign at the sizes real files have
        "long"
    } else if opt.is_empty() || opt == "mix" {
        *rng.pick(&["layout", "layout", "rt", "mutate", "mutate", "arbitrary", "corrupt", "fault", "log", "logmut"])
    } else {
        let fams: Vec<&str> = opt.split('+').collect();
        *rng.pick(&fams)
    };
    let fmt: &'static str = *rng.pick(&["cnf", "cnf", "wcnf", "gcnf"]);
    let mut case = Case { fmt: fmt.into(), ty: ty.into(), cfg, k: None, ls: false, data: vec![], expect: None, tok: None };
    match family {
        "layout" => {
            let doc = gen_doc(rng, fmt, tmax, cfg);
            let r = render(rng, &doc, false);
            case.data = r.bytes;
            case.expect = Some(doc.expected());
        }
        "rt" => {
            let doc = gen_doc(rng, fmt, tmax, cfg);
            case.data = write_real(&doc, ty);
            case.expect = Some(doc.expected());
        }
        "long" => {
            // 40..70 KB: ~3000 clauses, full layout grammar; optionally one corrupted literal near
            // the end (error located through the mark after several realigns)
            let mut doc = gen_doc(rng, fmt, tmax, true);
            doc.header = None;
            let n = rng.range(2500, 4000) as usize;
            doc.clauses = (0..n).map(|_| {
                let len = rng.range(0, 5) as usize;
                (if fmt == "cnf" { 0 } else { rng.below(1000) }, (0..len).map(|_| rand_lit(rng, tmax)).collect())
            }).collect();
            let plain = rng.chance(1, 2);
            let r = render(rng, &doc, plain);
            if rng.chance(1, 2) {
                case.data = r.bytes;
                case.expect = Some(doc.expected());
            } else {
                let lits: Vec<&(usize, usize, usize, TokKind)> = r.tokens.iter().filter(|t| t.3 == TokKind::Lit && t.0 > r.tokens.last().unwrap().0 / 2).collect();
                if let Some(&&(l, c, nlen, _)) = lits.get(rng.below(lits.len().max(1) as u64) as usize) {
                    let mut off = 0; let mut line = 1;
                    while line < l { if r.bytes[off] == b'\n' { line += 1; } off += 1; }
                    off += c - 1;
                    let repl = b"99999999999999999999999".to_vec();
                    let mut b = r.bytes.clone();
                    b.splice(off..off + nlen, repl.clone());
                    case.data = b;
                    case.tok = Some((l, c, repl.len()));
                } else {
                    case.data = r.bytes;
                }
            }
            case.cfg = true;
        }
        "mutate" => {
            let doc = gen_doc(rng, fmt, tmax, cfg);
            let plain = rng.chance(1, 2);
            let r = render(rng, &doc, plain);
            case.data = mutate(rng, r.bytes);
        }
        "arbitrary" => {
            case.data = arbitrary(rng);
        }
        "corrupt" => {
            // a plain rendering (one statement per line, single spaces) with one number token replaced
            let mut doc = gen_doc(rng, fmt, tmax, false);
            if doc.clauses.is_empty() { doc.clauses.push((0, vec![1])); }
            // half of the time the full layout grammar (clauses split over lines, junk, CRLF …)
            let plain = rng.chance(1, 2);
            let r = render(rng, &doc, plain);
            let cands: Vec<&(usize, usize, usize, TokKind)> = r.tokens.iter().collect();
            let &(l, c, n, kind) = *rng.pick(&cands);
            // byte offset of the token
            let mut off = 0; let mut line = 1;
            while line < l { if r.bytes[off] == b'\n' { line += 1; } off += 1; }
            off += c - 1;
            let repl: Vec<u8> = match (kind, rng.below(4)) {
                (_, 3) => wrap_class_numeral(rng, true),
                (TokKind::Lit, 0) => {
                    // out of range for the literal type / the declared variable count
                    let lim = match doc.header { Some((v, _, _)) if v != 0 => v as i128, _ => tmax as i128 };
                    ((lim + 1) * if rng.chance(1, 2) { -1 } else { 1 }).to_string().into_bytes()
                }
                (_, 1) => b"99999999999999999999999".to_vec(),
                _ => match kind { TokKind::Zero => b"x".to_vec(), _ => b"1x".to_vec() },
            };
            let mut b = r.bytes.clone();
            b.splice(off..off + n, repl.clone());
            case.data = b;
            case.tok = Some((l, c, repl.len()));
        }
        "fault" => {
            let doc = gen_doc(rng, fmt, tmax, cfg);
            let plain = rng.chance(1, 2);
            let r = render(rng, &doc, plain);
            let data = if rng.chance(1, 4) { mutate(rng, r.bytes) } else { r.bytes };
            case.k = Some(rng.range(0, data.len() as u64) as usize);
            case.data = data;
        }
        "ls" => {
            let doc = gen_doc(rng, fmt, tmax, cfg);
            let r = render(rng, &doc, false);
            case.data = r.bytes;
            case.ls = true;
        }
        "log" | "logmut" | "logfault" => {
            case.fmt = "log".into();
            let (b, exp) = gen_log(rng, tmax, cfg);
            if family == "log" {
                case.data = b;
                case.expect = Some(exp);
            } else if family == "logmut" {
                case.data = mutate(rng, b);
            } else {
                case.k = Some(rng.range(0, b.len() as u64) as usize);
                case.data = b;
            }
        }
        _ => panic!("unknown family {}", family),
    }
    case.line()
}

/// Every fault offset of one document (C04 thorough): returns several case lines.
pub fn fault_sweep(rng: &mut Rng) -> Vec<String> {
    let (ty, tmax) = *rng.pick(TYPES);
    let fmt: &'static str = *rng.pick(&["cnf", "wcnf", "gcnf"]);
    let cfg = rng.chance(1, 3);
    let doc = gen_doc(rng, fmt, tmax, cfg);
    let r = render(rng, &doc, false);
    (0..=r.bytes.len())
        .map(|k| Case { fmt: fmt.into(), ty: ty.into(), cfg, k: Some(k), ls: false, data: r.bytes.clone(), expect: None, tok: None }.line())
        .collect()
}
