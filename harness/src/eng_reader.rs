//! Engine `reader`: operation histories on the real `DeferredReader` (C02, C09 reader part, C14
//! reader part).  One case = source bytes + fault flag + read schedule + op list.
//! Schedule tokens: g<n> give at most n, i Interrupted, l<x> over-report `len + 1 + x`, L<n>
//! over-report the absolute count n (up to usize::MAX), p<x> fill the slice and panic.
//! Numeric arguments of ops are full-width (`ra18446744073709551615`); `common::limit_value` feeds
//! every op that takes a number with values at the limits of usize.  Only the chunk size is never
//! USED at such a value (no refill happens under it): `2 * chunk_size` overflows / one chunk is not
//! allocatable, the original code panics (debug) or aborts on allocation (release) there.
use crate::common::*;
use flussab::DeferredReader;
use std::io::{BufRead, BufReader, Cursor, Read};

#[derive(Clone, Copy, Debug)]
pub enum Op {
    Rq(usize),
    Ra(usize),
    Rm,
    Ad(usize),
    Ab(usize),
    Sm,
    Sp(u64),
    Sc(usize),
    Ck,
}

pub fn fmt_ops(ops: &[Op]) -> String {
    if ops.is_empty() {
        return "-".into();
    }
    ops.iter()
        .map(|o| match o {
            Op::Rq(n) => format!("rq{}", n),
            Op::Ra(n) => format!("ra{}", n),
            Op::Rm => "rm".into(),
            Op::Ad(n) => format!("ad{}", n),
            Op::Ab(n) => format!("ab{}", n),
            Op::Sm => "sm".into(),
            Op::Sp(p) => format!("sp{}", p),
            Op::Sc(c) => format!("sc{}", c),
            Op::Ck => "ck".into(),
        })
        .collect::<Vec<_>>()
        .join(",")
}

pub fn parse_ops(s: &str) -> Vec<Op> {
    if s == "-" {
        return vec![];
    }
    s.split(',')
        .map(|t| {
            let (k, v) = t.split_at(2);
            match k {
                "rq" => Op::Rq(v.parse().unwrap()),
                "ra" => Op::Ra(v.parse().unwrap()),
                "rm" => Op::Rm,
                "ad" => Op::Ad(v.parse().unwrap()),
                "ab" => Op::Ab(v.parse().unwrap()),
                "sm" => Op::Sm,
                "sp" => Op::Sp(v.parse().unwrap()),
                "sc" => Op::Sc(v.parse().unwrap()),
                "ck" => Op::Ck,
                _ => panic!("bad op {}", t),
            }
        })
        .collect()
}

pub struct Case {
    pub chunk: usize,
    pub fault: bool,
    pub pre: Vec<u8>,
    pub pre_consumed: usize,
    pub data: Vec<u8>,
    /// `g<len>.<seed>` when the data is generated rather than spelled out
    pub data_spec: Option<String>,
    /// same for the pre-buffered bytes
    pub pre_spec: Option<String>,
    /// `big=1`: implementation-side oracles only
    pub big: bool,
    pub sched: Vec<Ev>,
    pub ops: Vec<Op>,
}

impl Case {
    pub fn line(&self) -> String {
        format!(
            "reader c={} f={} pre={} m={} d={} s={} o={}{}",
            self.chunk,
            self.fault as u8,
            match &self.pre_spec { Some(g) => g.clone(), None => hex(&self.pre) },
            self.pre_consumed,
            match &self.data_spec { Some(g) => g.clone(), None => hex(&self.data) },
            fmt_sched(&self.sched),
            fmt_ops(&self.ops),
            if self.big { " big=1" } else { "" }
        )
    }
    pub fn parse(line: &str) -> Case {
        let (_, f) = Fields::parse(line);
        Case {
            chunk: f.num("c"),
            fault: f.num("f") == 1,
            pre: data_field(f.get("pre")),
            pre_consumed: f.num("m"),
            data: data_field(f.get("d")),
            data_spec: if f.get("d").starts_with('g') { Some(f.get("d").to_string()) } else { None },
            pre_spec: if f.get("pre").starts_with('g') { Some(f.get("pre").to_string()) } else { None },
            big: f.opt("big") == Some("1"),
            sched: parse_sched(f.get("s")),
            ops: parse_ops(f.get("o")),
        }
    }
}

/// A live reader plus the reference bookkeeping of the oracle.
pub struct Live<'a> {
    pub r: DeferredReader<'a>,
    pub src: SchedSource,
    /// honest stream = pre ++ src.log
    pub pre: Vec<u8>,
    pub cursor: usize,
    pub mark: u64,
    pub taken: bool,
    pub total_len: usize,
    /// the chunk size the reader currently has (for the read-count oracle)
    pub chunk_now: usize,
    /// largest chunk size and largest request so far (C10: what the buffer may be sized by)
    pub max_chunk: usize,
    pub max_req: usize,
    /// `vh gen`: case line up to the ops field, and the ops executed so far
    pub trace_head: String,
    pub trace_ops: Vec<Op>,
    pub fails: Vec<String>,
    /// the reader exposed a window larger than everything ever delivered: no further call is
    /// made on it (any call could read wild memory); the remaining ops are reported as `dead`
    pub dead: bool,
}

impl<'a> Live<'a> {
    pub fn new(c: &Case) -> Live<'a> {
        let src = SchedSource::new(c.data.clone(), c.fault, c.sched.clone());
        let mut r = if c.pre.is_empty() && c.pre_consumed == 0 {
            // both constructors of a plain `Read` (the model does not distinguish them)
            if (c.data.len() + c.ops.len() + c.chunk) % 2 == 1 {
                DeferredReader::from_boxed_dyn_read(Box::new(src.clone()))
            } else {
                DeferredReader::from_read(src.clone())
            }
        } else {
            // a BufReader that already holds `pre` and from which `m` bytes were consumed
            let mut head = vec![0xEEu8; c.pre_consumed];
            head.extend_from_slice(&c.pre);
            let cap = head.len().max(1);
            let mut br = BufReader::with_capacity(cap, Cursor::new(head).chain(src.clone()));
            let _ = br.fill_buf();
            br.consume(c.pre_consumed);
            DeferredReader::from_buf_reader(br)
        };
        r.set_chunk_size(c.chunk);
        Live {
            r,
            src,
            pre: c.pre.clone(),
            cursor: 0,
            mark: 0,
            taken: false,
            total_len: c.pre.len() + c.data.len(),
            chunk_now: c.chunk,
            max_chunk: c.chunk,
            max_req: c.pre.len() + c.pre_consumed,
            trace_head: c.line().split(" o=").next().unwrap_or("").to_string(),
            trace_ops: vec![],
            fails: vec![],
            dead: false,
        }
    }

    /// honest stream = pre ++ src.log; the helpers below look at it in place (it is several MiB
    /// in the scale family and is consulted after every op)
    fn stream_len(&self) -> usize {
        self.pre.len() + self.src.0.borrow().log.len()
    }

    fn stream_byte(&self, i: usize) -> Option<u8> {
        if i < self.pre.len() {
            Some(self.pre[i])
        } else {
            self.src.0.borrow().log.get(i - self.pre.len()).copied()
        }
    }

    /// `stream[from .. from + w.len()] == w` (false if the stream is shorter)
    fn stream_has_at(&self, from: usize, w: &[u8]) -> bool {
        let s = self.src.0.borrow();
        let (pl, end) = (self.pre.len(), from + w.len());
        if end > pl + s.log.len() {
            return false;
        }
        let in_pre = pl.saturating_sub(from).min(w.len());
        (in_pre == 0 || self.pre[from..from + in_pre] == w[..in_pre])
            && (in_pre == w.len() || s.log[from + in_pre - pl..end - pl] == w[in_pre..])
    }

    /// The number of successful reads a request needs that wants `target` bytes buffered, given
    /// what the source is scheduled to deliver per call: every refill is one successful read and
    /// the request stops refilling as soon as it is satisfied (C09).  `None`: not predictable here
    /// (bytes of a `BufReader` still pending, a lying source ahead).
    fn reads_needed(&self, target: usize) -> Option<usize> {
        let s = self.src.0.borrow();
        if !(self.pre.is_empty() || s.calls > 0) {
            return None;
        }
        if self.r.is_complete() {
            return Some(0);
        }
        let mut have = self.r.buf_len();
        let mut remaining = s.data.len() - s.off;
        let mut prod = 0;
        let mut it = s.sched.iter();
        while have < target {
            let d = match it.next() {
                Some(Ev::Intr) => continue,
                Some(Ev::Lie(_)) | Some(Ev::LieAbs(_)) | Some(Ev::Panic(_)) => return None,
                Some(Ev::Give(g)) => (*g).max(1).min(self.chunk_now).min(remaining),
                None => self.chunk_now.min(remaining),
            };
            prod += 1;
            if d == 0 {
                break;
            }
            have += d;
            remaining -= d;
        }
        Some(prod)
    }

    /// Record an oracle failure; the message starts with the property it falsifies.
    fn fail(&mut self, i: usize, msg: String) {
        let prop = if msg.starts_with("C10 ") {
            "C10"
        } else if msg.contains("called the source") || msg.contains("successful reads") || msg.contains("source called after") {
            "C09"
        } else if msg.contains("did not panic") || msg.contains("exceeds all data") || msg.contains("panicking call") || msg.contains("over-report") {
            "C14"
        } else {
            "C02"
        };
        if self.fails.len() < 4 {
            self.fails.push(format!("{}:op{}:{}", prop, i, msg));
        }
    }

    /// Apply one op to the real reader; returns the observation string and records oracle
    /// failures.
    pub fn step(&mut self, i: usize, op: Op) -> String {
        if GEN_MODE.load(std::sync::atomic::Ordering::Relaxed) {
            if let Some(path) = trace_file() {
                self.trace_ops.push(op);
                let _ = std::fs::write(path, format!("{} o={}\n", self.trace_head, fmt_ops(&self.trace_ops)));
            }
        }
        if self.dead {
            return "dead".into();
        }
        let len_before = self.r.buf_len();
        let lies_before = self.src.0.borrow().lies;
        let calls_before = self.src.0.borrow().calls;
        let prod_before = self.src.0.borrow().productive_calls;
        let complete_before = self.r.is_complete();
        let win_before: Option<Vec<u8>> = if len_before <= self.total_len {
            catch(|| self.r.buf().to_vec())
        } else {
            None
        };
        match op {
            Op::Rq(n) => self.max_req = self.max_req.max(n.min(self.total_len + 1)),
            Op::Ra(k) => self.max_req = self.max_req.max(k.saturating_add(1).min(self.total_len + 1)),
            Op::Sc(c) => self.max_chunk = self.max_chunk.max(c),
            _ => {}
        }
        let heap0 = heap_mark();
        let needed = match op {
            Op::Rq(n) => self.reads_needed(n),
            Op::Ra(k) => self.reads_needed(k.saturating_add(1)),
            _ => None,
        };
        let res: String = match op {
            Op::Rq(n) => match catch(|| self.r.request(n).len()) {
                Some(b) => {
                    if b < n && !self.r.is_complete() {
                        self.fail(i, format!("request({}) fell short ({}) but not complete", n, b));
                    }
                    if n <= len_before && self.src.0.borrow().calls != calls_before {
                        self.fail(i, "request satisfied by buffered data called the source".into());
                    }
                    let prod = self.src.0.borrow().productive_calls - prod_before;
                    if let Some(e) = needed {
                        if prod != e {
                            self.fail(i, format!("request({}) made {} successful reads, {} needed", n, prod, e));
                        }
                    }
                    "ok".into()
                }
                None => "panic".into(),
            },
            // `request_byte()` is `request_byte_at_offset(0)` in the model: every other `ra0` goes
            // through that entry point
            Op::Ra(k) => match catch(|| if k == 0 && i % 2 == 1 { self.r.request_byte() } else { self.r.request_byte_at_offset(k) }) {
                Some(Some(b)) => {
                    if self.cursor.checked_add(k).and_then(|p| self.stream_byte(p)) != Some(b) {
                        self.fail(i, format!("request_byte_at_offset({}) = {} differs from stream", k, b));
                    }
                    let prod = self.src.0.borrow().productive_calls - prod_before;
                    if let Some(e) = needed {
                        if prod != e {
                            self.fail(i, format!("request_byte_at_offset({}) made {} successful reads, {} needed", k, prod, e));
                        }
                    }
                    if k < len_before && self.src.0.borrow().calls != calls_before {
                        self.fail(i, "byte request satisfied by buffered data called the source".into());
                    }
                    format!("some:{}", b)
                }
                Some(None) => {
                    if !(self.r.is_complete() && self.r.buf_len() <= k) {
                        self.fail(i, format!("request_byte_at_offset({}) = None but data not exhausted", k));
                    }
                    "none".into()
                }
                None => "panic".into(),
            },
            Op::Rm => match catch(|| self.r.request_more()) {
                Some(b) => {
                    let prod = self.src.0.borrow().productive_calls - prod_before;
                    if b != !complete_before {
                        self.fail(i, format!("request_more returned {} with complete={}", b, complete_before));
                    }
                    // the pre-buffered bytes of a BufReader are served without touching the source
                    let served_from_pre = self.src.0.borrow().calls == calls_before;
                    if b && prod != 1 && !served_from_pre {
                        self.fail(i, format!("request_more made {} successful reads", prod));
                    }
                    if !b && self.src.0.borrow().calls != calls_before {
                        self.fail(i, "request_more on a complete reader called the source".into());
                    }
                    if b { "t".into() } else { "f".into() }
                }
                None => "panic".into(),
            },
            Op::Ad(n) => match catch(|| self.r.advance(n)) {
                Some(()) => {
                    if n > len_before {
                        self.fail(i, format!("advance({}) beyond {} did not panic", n, len_before));
                    }
                    self.cursor = self.cursor.wrapping_add(n);
                    "ok".into()
                }
                None => {
                    if n <= len_before {
                        self.fail(i, format!("advance({}) within {} panicked", n, len_before));
                    }
                    "panic".into()
                }
            },
            Op::Ab(n) => match catch(|| self.r.advance_with_buf(n).to_vec()) {
                Some(b) => {
                    if n > len_before {
                        self.fail(i, format!("advance_with_buf({}) beyond {} did not panic", n, len_before));
                    } else if b.len() != n || !self.stream_has_at(self.cursor, &b) {
                        // (the bytes were delivered before the call: the log only grows)
                        self.fail(i, format!("advance_with_buf({}) returned wrong bytes", n));
                    }
                    self.cursor = self.cursor.wrapping_add(n);
                    winhex(&b)
                }
                None => {
                    if n <= len_before {
                        self.fail(i, format!("advance_with_buf({}) within {} panicked", n, len_before));
                    }
                    "panic".into()
                }
            },
            Op::Sm => {
                self.r.set_mark();
                self.mark = self.cursor as u64;
                "ok".into()
            }
            Op::Sp(p) => {
                self.r.set_mark_to_position(p as usize);
                self.mark = p;
                "ok".into()
            }
            Op::Sc(c) => {
                self.r.set_chunk_size(c);
                self.chunk_now = c;
                "ok".into()
            }
            Op::Ck => {
                let had = self.r.io_error().is_some();
                match self.r.check_io_error() {
                    Err(_) => {
                        if !had {
                            self.fail(i, "check_io_error Err without parked error".into());
                        }
                        self.taken = true;
                        "err".into()
                    }
                    Ok(()) => {
                        if had {
                            self.fail(i, "check_io_error Ok with parked error".into());
                        }
                        "ok".into()
                    }
                }
            }
        };
        // ---- C10: what one call allocates is bounded by chunk size and the largest request, not
        // by the bytes already processed (buffer length <= 3 chunk + look-ahead, capacity <= 2x)
        let (_, largest) = heap_peak_since(heap0);
        // coarse on purpose (Vec capacity doubling, cursor up to 2 chunks + one window behind the
        // buffer start): a leak grows with the position and passes any such constant factor
        let bound = self.max_chunk.saturating_mul(16).saturating_add(self.max_req.saturating_mul(8)).saturating_add(4096);
        if largest > bound {
            self.fail(i, format!("C10 one call allocated {} bytes at once (chunk <= {}, largest request/pre-buffer {}, bound {})", largest, self.max_chunk, self.max_req, bound));
        }
        // ---- a `read` that reports more than its slice holds (or panics) must end the call in a
        // panic (C14: the count is not trusted, whatever its value); a source that keeps the `Read`
        // contract never makes a request panic (C02), whatever the argument.  (A chunk size near
        // usize::MAX is outside this: `2 * chunk_size` and the buffer size are not representable.)
        let lies_now = self.src.0.borrow().lies;
        if lies_now != lies_before && res != "panic" {
            self.fail(i, format!("the source's over-report / panic did not panic the call ({:?} returned {})", op, res));
        }
        if lies_now == lies_before && res == "panic" && matches!(op, Op::Rq(_) | Op::Ra(_) | Op::Rm) && self.chunk_now < (1 << 40) {
            self.fail(i, format!("{:?} panicked although the source kept the Read contract", op));
        }
        // ---- observation + state oracle ----
        let blen = self.r.buf_len();
        // `buf()` itself may panic (debug assertion) once the reader's invariant is broken
        // (not with a window beyond everything delivered: building that slice is already UB; the
        // case fails just below)
        match catch(|| blen > self.total_len || self.r.buf_ptr() == self.r.buf().as_ptr()) {
            Some(true) => {}
            Some(false) => self.fail(i, "buf_ptr() exceeds all data: it is not the start of buf()".into()),
            None => self.fail(i, "buf() panicked: the window exceeds all data the buffer holds".into()),
        }
        let stream_len = self.stream_len();
        let window: Option<Vec<u8>> = if blen <= self.total_len {
            catch(|| self.r.buf().to_vec())
        } else {
            None
        };
        match &window {
            None => {
                self.dead = true;
                self.fail(i, format!("buf_len {} exceeds all data ever delivered", blen))
            }
            Some(w) => {
                // Until the inner source is called for the first time the reader may hold only
                // part of the bytes taken over from the BufReader; afterwards it must hold
                // everything delivered and not yet consumed.
                let inner_called = self.src.0.borrow().calls > 0;
                let ok = stream_len >= self.cursor
                    && (!inner_called || stream_len - self.cursor == w.len())
                    && self.stream_has_at(self.cursor, w);
                if !ok {
                    self.fail(i, "window differs from delivered stream behind the cursor".into());
                }
            }
        }
        if res == "panic" {
            if let (Some(a), Some(b)) = (&win_before, &window) {
                // a panicking call must leave the exposed slice alone (C14); a lying source may
                // only be noticed after the buffer was resized, never after the window changed
                // (a request loop may have completed honest refills before the lie was met, so
                // there the old window must be a prefix of the new one)
                let looped = matches!(op, Op::Rq(_) | Op::Ra(_));
                if (looped && !b.starts_with(a)) || (!looped && a != b) {
                    self.fail(i, "window changed by a panicking call".into());
                }
            }
        }
        if self.r.position() != self.cursor {
            let p = self.r.position();
            self.fail(i, format!("position {} != bytes advanced {}", p, self.cursor));
        }
        if self.r.mark() as u64 != self.mark {
            let m = self.r.mark();
            self.fail(i, format!("mark {} != {}", m, self.mark));
        }
        let (ended, after_end, calls, fault) = {
            let s = self.src.0.borrow();
            (s.ended, s.after_end, s.calls, s.fault)
        };
        if self.r.is_complete() != ended {
            self.fail(i, format!("is_complete {} but source ended {}", self.r.is_complete(), ended));
        }
        if self.r.is_at_end() != (self.r.is_complete() && blen == 0) {
            self.fail(i, "is_at_end inconsistent".into());
        }
        if self.r.io_error().is_some() != (fault && ended && !self.taken) {
            self.fail(i, "io_error flag wrong".into());
        }
        if after_end != 0 {
            self.fail(i, "source called after it reported end/error".into());
        }
        format!(
            "{}|{}|{}|{}|{}{}{}|{}|{}",
            res,
            match &window {
                Some(w) => winhex(w),
                None => format!("BROKEN{}", blen),
            },
            self.r.position(),
            self.r.mark(),
            self.r.is_complete() as u8,
            self.r.is_at_end() as u8,
            self.r.io_error().is_some() as u8,
            calls,
            after_end
        )
    }
}

/// Window text: hex when short, `#<len>:<fnv-1a 64>` otherwise (keeps big-buffer cases small).
fn winhex(w: &[u8]) -> String {
    if w.len() <= 64 {
        return hex(w);
    }
    let mut h: u64 = 0xcbf29ce484222325;
    for b in w {
        h ^= *b as u64;
        h = h.wrapping_mul(0x100000001b3);
    }
    format!("#{}:{:016x}", w.len(), h)
}

pub fn run_case(c: &Case) -> (String, Vec<String>) {
    let mut live = Live::new(c);
    let mut out = Vec::with_capacity(c.ops.len());
    for (i, &op) in c.ops.iter().enumerate() {
        out.push(live.step(i, op));
    }
    (out.join(";"), live.fails)
}

/// Large inputs with the realistic chunk sizes (the default 16 KiB included): refill, realign
/// (cursor beyond 2 chunks) and shrink at the sizes real parsing runs at.
pub fn gen_big_case(rng: &mut Rng) -> Case {
    let chunk = *rng.pick(&[512usize, 4096, 16384, 16384]);
    let len = rng.range(3 * chunk as u64, 12 * chunk as u64) as usize;
    let seed = rng.below(1000) as usize;
    let spec = format!("g{}.{}", len, seed);
    let data = data_field(&spec);
    let fault = rng.chance(1, 3);
    let mut sched = vec![];
    let style = rng.below(3);
    for _ in 0..rng.range(0, 40) {
        sched.push(if rng.chance(1, 10) { Ev::Intr } else {
            match style { 0 => Ev::Give(chunk), 1 => Ev::Give(rng.range(1, chunk as u64) as usize), _ => Ev::Give(rng.range(chunk as u64 / 2, 2 * chunk as u64) as usize) }
        });
    }
    let mut case = Case { chunk, fault, pre: vec![], pre_consumed: 0, data, data_spec: Some(spec), pre_spec: None, big: false, sched, ops: vec![] };
    let mut live = Live::new(&case);
    for i in 0..rng.range(10, 60) {
        let blen = live.r.buf_len();
        let op = match rng.below(12) {
            0..=2 => Op::Rq(blen + rng.range(1, 2 * chunk as u64) as usize),
            3 => Op::Ra(blen + rng.below(chunk as u64) as usize),
            4 => Op::Rm,
            5..=8 => {
                // consume most of what is buffered: drives pos_in_buf beyond 2 chunks
                let n = if rng.chance(2, 3) { blen } else { rng.range(0, blen as u64) as usize };
                if rng.chance(1, 4) { Op::Ab(n.min(64)) } else { Op::Ad(n) }
            }
            9 => Op::Sm,
            10 => Op::Sc(*rng.pick(&[512usize, 4096, 16384])),
            _ => Op::Ck,
        };
        case.ops.push(op);
        live.step(i as usize, op);
    }
    case
}

/// An over-reporting `read`: the count it claims is drawn from every magnitude class — just above
/// the slice, twice the slice, 2^32, 2^63, and `usize::MAX - k` for small `k` and for `k` around
/// `near` (a guess of the reader's current fill / cursor, so that `position + count` lands on both
/// sides of the wrap).
pub fn lie_event(rng: &mut Rng, chunk: usize, near: usize) -> Ev {
    let small = rng.below(3) as usize;
    let (chunk, near) = (chunk.min(1 << 40), near.min(1 << 40));
    match rng.below(12) {
        0..=2 => Ev::Lie(small),
        3 => Ev::Lie(chunk.saturating_sub(1) + small),
        4 => Ev::Lie((1usize << 32) - 2 + small),
        5 => Ev::LieAbs((1usize << 63) - 1 + small),
        6 => Ev::LieAbs(1usize << rng.range(8, 62)),
        7 | 8 => Ev::LieAbs(usize::MAX - small),
        9 => Ev::LieAbs(usize::MAX - rng.below(40) as usize),
        10 => Ev::LieAbs(usize::MAX - (near + small).saturating_sub(1)),
        _ => Ev::LieAbs(usize::MAX - rng.below(2 * near as u64 + 8) as usize),
    }
}

impl<'a> Live<'a> {
    /// Make the NEXT call of the inner source the event `ev` (generator only): the event is put
    /// at the front of the live schedule and at the matching place of the case's schedule.
    pub fn inject_next(&mut self, case_sched: &mut Vec<Ev>, ev: Ev) {
        let mut s = self.src.0.borrow_mut();
        if s.sched.is_empty() {
            // calls made after the schedule ran out took the default behaviour (as much as fits);
            // write them down as explicit events, so that `ev` is met by the same call in a replay
            // (not if that takes a long list: then nothing is injected)
            if s.calls > case_sched.len() + 64 {
                return;
            }
            while case_sched.len() < s.calls {
                case_sched.push(Ev::Give(1 << 40));
            }
        }
        let at = case_sched.len() - s.sched.len().min(case_sched.len());
        s.sched.push_front(ev);
        case_sched.insert(at, ev);
    }
}

pub fn gen_case(rng: &mut Rng, with_lies: bool, thorough: bool) -> Case {
    if crate::eng_scan::cli_opt_has("scale") {
        return gen_scale(rng, thorough);
    }
    if !with_lies && rng.chance(1, 100) {
        return gen_big_case(rng);
    }
    let chunk = *rng.pick(&[1usize, 1, 2, 2, 3, 4, 5, 7, 8, 9, 16, 16384]);
    let maxlen = if thorough { 400 } else { 120 };
    let len = match rng.below(10) {
        0 => 0,
        1 => rng.range(1, 3),
        _ => rng.range(0, maxlen),
    } as usize;
    let data: Vec<u8> = (0..len).map(|_| rng.next() as u8).collect();
    let fault = rng.chance(1, 3);
    let (pre, pre_consumed) = if rng.chance(1, 5) {
        let n = rng.range(0, 8) as usize;
        ((0..n).map(|_| rng.next() as u8).collect(), rng.range(0, 3) as usize)
    } else {
        (vec![], 0)
    };
    let sched_len = match rng.below(4) {
        0 => 0,
        _ => rng.range(0, 80),
    };
    let style = rng.below(4);
    let mut sched = vec![];
    for _ in 0..sched_len {
        let e = if rng.chance(1, 8) {
            Ev::Intr
        } else if with_lies && rng.chance(1, 25) {
            if rng.chance(1, 2) {
                let near = rng.below(len as u64 + 2) as usize;
                lie_event(rng, chunk, near)
            } else {
                Ev::Panic(rng.below(3) as usize)
            }
        } else {
            match style {
                0 => Ev::Give(1),
                1 => Ev::Give(rng.range(1, 4) as usize),
                _ => Ev::Give(rng.range(1, 20) as usize),
            }
        };
        sched.push(e);
    }
    let mut case = Case {
        chunk,
        fault,
        pre,
        pre_consumed,
        data,
        data_spec: None,
        pre_spec: None,
        big: false,
        sched,
        ops: vec![],
    };
    let mut live = Live::new(&case);
    let nops = rng.range(1, if thorough { 120 } else { 60 });
    let mut chunk_now = chunk;
    // one case in six draws the numeric argument of every sixth op from the limits of usize
    // (`limit_value`): every operation that takes a number meets usize::MAX, 2^63, 2^32 … ± 1
    let limits = rng.chance(1, 6);
    let mut i = 0;
    let mut step = |live: &mut Live, case: &mut Case, op: Op| {
        case.ops.push(op);
        live.step(case.ops.len() - 1, op);
    };
    for _ in 0..nops {
        let blen = live.r.buf_len();
        if with_lies && rng.chance(1, 25) {
            // the next read over-reports by an amount chosen against the CURRENT state: with
            // `usize::MAX - k`, k around the buffered length / the cursor / their sum
            let near = (*rng.pick(&[blen, live.cursor, live.cursor.saturating_add(blen), blen.saturating_add(chunk_now)])).min(1 << 40);
            let ev = lie_event(rng, chunk_now, near);
            live.inject_next(&mut case.sched, ev);
        }
        let op = match rng.below(20) {
            0..=3 => {
                let n = match rng.below(4) {
                    0 => blen + rng.below(3) as usize,
                    1 => rng.range(0, 5) as usize,
                    2 => blen + chunk_now.min(40) + rng.below(3) as usize,
                    _ => rng.range(0, 50) as usize,
                };
                Op::Rq(n)
            }
            4..=6 => {
                let k = match rng.below(3) {
                    0 => blen.saturating_sub(1) + rng.below(3) as usize,
                    1 => rng.below(4) as usize,
                    _ => rng.below(40) as usize,
                };
                Op::Ra(k)
            }
            7..=8 => Op::Rm,
            9..=13 => {
                // mostly legal advances, weighted towards consuming everything (drives realign)
                let n = if with_lies && rng.chance(1, 6) || rng.chance(1, 40) {
                    blen + 1 + rng.below(3) as usize
                } else if rng.chance(1, 2) {
                    blen
                } else {
                    rng.range(0, blen as u64) as usize
                };
                if rng.chance(1, 3) {
                    Op::Ab(n)
                } else {
                    Op::Ad(n)
                }
            }
            14 => Op::Sm,
            15 => {
                if rng.chance(1, 4) {
                    Op::Sp(rng.next())
                } else {
                    Op::Sp(rng.below(200))
                }
            }
            16 => {
                let c = *rng.pick(&[1usize, 2, 3, 5, 8, 13, 64]);
                chunk_now = c;
                Op::Sc(c)
            }
            17 => Op::Ck,
            _ => Op::Rq(blen + 1),
        };
        // a huge usize::MAX-ish advance exercises the overflow test
        let op = if rng.chance(1, 200) {
            Op::Ad(usize::MAX - rng.below(3) as usize)
        } else {
            op
        };
        let op = if limits && rng.chance(1, 6) {
            let v = limit_value(rng);
            match op {
                Op::Rq(_) => Op::Rq(v),
                Op::Ra(_) => Op::Ra(v),
                Op::Ad(_) => Op::Ad(v),
                Op::Ab(_) => Op::Ab(v),
                Op::Sp(_) => Op::Sp(v as u64),
                Op::Sc(_) => {
                    // A chunk size of that magnitude cannot be used for a refill (`2 * chunk_size`
                    // overflows, or the buffer of one chunk is not allocatable: the process would
                    // abort in the original code as well).  It is set, a few calls that need no
                    // refill are made under it, and a usable size is set again; on a reader that is
                    // complete (no refill ever again) it stays.
                    step(&mut live, &mut case, Op::Sc(v));
                    for _ in 0..rng.range(0, 3) {
                        let blen = live.r.buf_len();
                        let o = match rng.below(7) {
                            0 => Op::Rq(rng.range(0, blen as u64) as usize),
                            1 if blen > 0 => Op::Ra(rng.below(blen as u64) as usize),
                            2 => Op::Ad(rng.range(0, blen as u64 + 1) as usize),
                            3 => Op::Ab(rng.range(0, blen as u64 + 1) as usize),
                            4 => Op::Sp(limit_value(rng) as u64),
                            5 => Op::Ck,
                            _ => Op::Sm,
                        };
                        step(&mut live, &mut case, o);
                    }
                    if live.r.is_complete() && rng.chance(1, 2) {
                        chunk_now = v;
                        Op::Rm
                    } else {
                        chunk_now = *rng.pick(&[1usize, 2, 3, 5, 8, 13, 64]);
                        Op::Sc(chunk_now)
                    }
                }
                o => o,
            }
        } else {
            op
        };
        step(&mut live, &mut case, op);
        i += 1;
    }
    let _ = i;
    case
}

// ------------------------------------------------------------------ scale family (`--opt scale`)

use crate::eng_scan::{scale_plan, ScaleDim};

static SCALE_IDX: std::sync::atomic::AtomicUsize = std::sync::atomic::AtomicUsize::new(0);
static SCALE_PLAN: std::sync::OnceLock<Vec<(usize, usize, bool)>> = std::sync::OnceLock::new();

const D_POS: usize = 0; // stream position reached by streaming (small buffer), then short reads
const D_BULK: usize = 1; // bytes asked for by one request (the buffer grows to that size)
const D_PRE: usize = 2; // bytes taken over from a BufReader
const D_CHUNK: usize = 3; // configured chunk size
const D_END: usize = 4; // offset of the end of input / of the I/O error
const D_READS: usize = 5; // number of refills made by one request
const D_SLIDE: usize = 6; // bytes streamed by a sliding-window caller (`request(W); advance(r)`, W - r > chunk)

pub fn gen_scale(rng: &mut Rng, thorough: bool) -> Case {
    let idx = SCALE_IDX.fetch_add(1, std::sync::atomic::Ordering::Relaxed);
    let plan = SCALE_PLAN.get_or_init(|| {
        // model cost: a refill is a handful of passes over the whole buffer list
        let dims = [
            ScaleDim::new(10, 20, 22, 16, 1).rest_big(),
            ScaleDim::new(10, 20, 22, 16, 1).rest_big(),
            ScaleDim::new(10, 20, 21, 16, 1).rest_big(),
            ScaleDim::new(10, 20, 21, 16, 1).rest_big(),
            ScaleDim::new(10, 20, 22, 16, 1).rest_big(),
            ScaleDim::new(10, 20, 21, 11, 1).model_max((1 << 12) + 64, (1 << 13) + 64).rest_big(),
            ScaleDim::new(10, 17, 20, 13, 1).rest_big(),
        ];
        scale_plan(&mut rng.fork(), &dims, thorough)
    });
    if idx == 0 && std::env::var("VH_SCALE_INFO").is_ok() {
        eprintln!("reader scale plan: {} cases per pass", plan.len());
    }
    let (dim, size, big) = plan[idx % plan.len()];
    let mut case = gen_scale_case(rng, dim, size);
    case.big = big;
    case
}

/// read-schedule events of an interactive / pipe source: short reads, a few `Interrupted`
fn short_events(rng: &mut Rng, chunk: usize, n: usize) -> Vec<Ev> {
    let style = rng.below(4);
    // `--opt scale+lies` (C14): now and then the source reports more bytes than it was given room for
    let lies = crate::eng_scan::cli_opt_has("lies");
    (0..n)
        .map(|_| {
            if rng.chance(1, 8) {
                Ev::Intr
            } else if lies && rng.chance(1, 10) {
                if rng.chance(1, 2) {
                    let near = *rng.pick(&[chunk, 2 * chunk, 3 * chunk + 1, 1 << 20, 80]);
                    lie_event(rng, chunk, near)
                } else {
                    Ev::Panic(rng.below(3) as usize)
                }
            } else {
                Ev::Give(match style {
                    0 => 1,
                    1 => rng.range(1, 80) as usize,
                    2 => *rng.pick(&[1usize, 2, chunk / 2 + 1, chunk.saturating_sub(1).max(1)]),
                    _ => rng.range(1, chunk.max(2) as u64 - 1) as usize,
                })
            }
        })
        .collect()
}

/// A few requests, refills, advances under whatever schedule is left: the part of a scale case
/// where the number of reads per refill, the window and the bookkeeping are looked at.
fn probe(rng: &mut Rng, live: &mut Live, sched: &mut Vec<Ev>, ops: &mut Vec<Op>, n: usize, sizes: &[usize]) {
    let lies = crate::eng_scan::cli_opt_has("lies");
    for _ in 0..n {
        let blen = live.r.buf_len();
        let c = live.chunk_now;
        if lies && rng.chance(1, 8) {
            // an over-report sized against the state reached at scale (`usize::MAX - k`, k around
            // the buffered length / the position / the chunk size)
            let near = *rng.pick(&[blen, live.cursor, live.cursor.saturating_add(blen), blen.saturating_add(c), 2 * c]);
            let ev = lie_event(rng, c, near);
            live.inject_next(sched, ev);
        }
        let op = match rng.below(24) {
            0..=5 => Op::Rm,
            6..=10 => Op::Rq(blen + *rng.pick(&[1usize, 1, 2, 17, c.saturating_sub(1), c, c + 1])),
            11 | 12 => Op::Ra(blen + *rng.pick(&[0usize, 0, 1, c])),
            13 => Op::Rq(*rng.pick(&[0usize, blen, blen / 2])),
            14 | 15 => Op::Ad(*rng.pick(&[blen, blen, blen / 2, blen.min(1)])),
            16 | 17 => Op::Ab(blen.min(*rng.pick(&[1usize, 64, 1000, usize::MAX]))),
            18 => Op::Sm,
            19 => Op::Ck,
            20 => Op::Sc(*rng.pick(&[1usize, 16, 512, 4096, 16384])),
            21 => Op::Sc((*rng.pick(sizes)).min(1 << 17)),
            22 => if rng.chance(1, 3) { Op::Ad(blen + 1) } else { Op::Ra(blen) },
            _ => Op::Sp(if rng.chance(1, 2) { *rng.pick(sizes) as u64 } else { live.cursor as u64 }),
        };
        // numeric arguments at the limits of usize (not the chunk size: a refill would need a
        // buffer of that size)
        let op = if rng.chance(1, 12) {
            let v = limit_value(rng);
            match op {
                Op::Rq(_) => Op::Rq(v),
                Op::Ra(_) => Op::Ra(v),
                Op::Ad(_) => Op::Ad(v),
                Op::Ab(_) => Op::Ab(v),
                Op::Sp(_) => Op::Sp(v as u64),
                o => o,
            }
        } else {
            op
        };
        ops.push(op);
        live.step(ops.len() - 1, op);
    }
}

/// stream through the input: one request of about a chunk, then everything buffered is consumed
fn stream_through(rng: &mut Rng, live: &mut Live, ops: &mut Vec<Op>, upto: usize, max_iter: usize) {
    let mut push = |live: &mut Live, ops: &mut Vec<Op>, op: Op| {
        ops.push(op);
        live.step(ops.len() - 1, op);
    };
    for _ in 0..max_iter {
        if live.cursor >= upto || live.r.is_at_end() {
            break;
        }
        let c = live.chunk_now;
        let blen = live.r.buf_len();
        match rng.below(10) {
            0 => push(live, ops, Op::Rm),
            1 => push(live, ops, Op::Ra(blen + c - 1)),
            _ => push(live, ops, Op::Rq(blen + c)),
        }
        let blen = live.r.buf_len();
        let take = blen.min(upto - live.cursor);
        match rng.below(12) {
            0 => {
                push(live, ops, Op::Ab(take.min(64)));
                push(live, ops, Op::Ad(take - take.min(64)));
            }
            1 => push(live, ops, Op::Ab(take)),
            2 => {
                push(live, ops, Op::Ad(take / 2));
                push(live, ops, Op::Sm);
                push(live, ops, Op::Ad(take - take / 2));
            }
            _ => push(live, ops, Op::Ad(take)),
        }
    }
}

fn gen_scale_case(rng: &mut Rng, dim: usize, size: usize) -> Case {
    let sizes = scale_sizes(10, 21);
    let seed = rng.below(1000) as usize;
    let gspec = |len: usize, seed: usize| -> Option<String> { if len == 0 { None } else { Some(format!("g{}.{}", len, seed)) } };
    // a chunk size with which `total` bytes are at most `max_reads` full reads
    let chunk_for = |rng: &mut Rng, total: usize, max_reads: usize| -> usize {
        let c = match rng.below(8) {
            0..=2 => 16 << 10,
            3 => 4096,
            4 => 64 << 10,
            5 => 1000,
            6 => (*rng.pick(&sizes)).min(1 << 17),
            _ => rng.range(512, 40000) as usize,
        };
        c.max(total / max_reads + 1)
    };
    let mut case = Case { chunk: 16 << 10, fault: rng.chance(1, 3), pre: vec![], pre_consumed: 0, data: vec![], data_spec: None, pre_spec: None, big: false, sched: vec![], ops: vec![] };
    let set_data = |case: &mut Case, len: usize| {
        case.data_spec = gspec(len, seed);
        case.data = case.data_spec.as_ref().map(|s| data_field(s)).unwrap_or_default();
    };
    match dim {
        D_POS => {
            // `size` bytes are consumed with exactly one full read per iteration; what follows
            // arrives in short reads
            let c = chunk_for(rng, size, 120);
            case.chunk = c;
            let (q, r) = (size / c, size % c);
            let tr = rng.range(0, 4 * c as u64) as usize;
            let tail = *rng.pick(&[0usize, 1, c / 2, 3 * c + 17, tr, 200]);
            set_data(&mut case, size + tail);
            for _ in 0..q + (r > 0) as usize {
                if rng.chance(1, 16) {
                    case.sched.push(Ev::Intr);
                }
                case.sched.push(Ev::Give(c));
            }
            case.sched.extend(short_events(rng, c, 40));
            let mut live = Live::new(&case);
            let mut ops = vec![];
            let mut push = |live: &mut Live, ops: &mut Vec<Op>, op: Op| {
                ops.push(op);
                live.step(ops.len() - 1, op);
            };
            let mark_at = if rng.chance(1, 2) { rng.below(q as u64 + 1) as usize } else { usize::MAX };
            // in a third of the cases the whole stream is pulled through `request_more` alone (no
            // `request*` call ever needs a refill of its own)
            let rm_only = rng.chance(1, 3);
            for i in 0..q {
                if i == mark_at {
                    push(&mut live, &mut ops, if rng.chance(1, 3) { Op::Sp(*rng.pick(&sizes) as u64) } else { Op::Sm });
                }
                match if rm_only { 0 } else { rng.below(10) } {
                    0 => {
                        push(&mut live, &mut ops, Op::Rm);
                        push(&mut live, &mut ops, Op::Ad(c));
                    }
                    1 => {
                        push(&mut live, &mut ops, Op::Ra(c - 1));
                        push(&mut live, &mut ops, Op::Ab(c));
                    }
                    2 => {
                        push(&mut live, &mut ops, Op::Rq(c));
                        push(&mut live, &mut ops, Op::Ad(c / 2));
                        push(&mut live, &mut ops, Op::Ad(c - c / 2));
                    }
                    _ => {
                        push(&mut live, &mut ops, Op::Rq(c));
                        push(&mut live, &mut ops, Op::Ad(c));
                    }
                }
            }
            if r > 0 {
                push(&mut live, &mut ops, Op::Rq(r));
                push(&mut live, &mut ops, Op::Ad(r));
            }
            let n = rng.range(8, 16) as usize;
            probe(rng, &mut live, &mut case.sched, &mut ops, n, &sizes);
            case.ops = ops;
        }
        D_SLIDE => {
            // a caller that always keeps W bytes of look-ahead and consumes r of them per step; W - r is
            // (k - 1) chunks and a bit, so every refill finds more than k - 1 chunks still unread.  The
            // buffer (C10) has to stay within a few chunks + W however many bytes have gone through.
            let c = *rng.pick(&[1usize, 16, 100, 512, 4096]);
            case.chunk = c;
            let k = *rng.pick(&[1usize, 2, 3, 5, 9]);
            let r = (*rng.pick(&[1usize, c / 2 + 1, c, 3 * c, 64])).max(size / 3000 + 1);
            let w = r + (k - 1) * c + *rng.pick(&[0usize, 1, c / 2, 7]);
            let steps = size / r;
            set_data(&mut case, size + w);
            let n_ev = rng.below(30) as usize;
            case.sched = short_events(rng, c, n_ev);
            let mut ops = Vec::with_capacity(2 * steps + 2);
            let mark_at = if rng.chance(1, 3) { rng.below(steps as u64 + 1) as usize } else { usize::MAX };
            for i in 0..steps {
                if i == mark_at {
                    ops.push(Op::Sm);
                }
                ops.push(if rng.chance(1, 50) { Op::Ra(w - 1) } else { Op::Rq(w) });
                ops.push(Op::Ad(r));
            }
            ops.push(Op::Rq(w));
            case.ops = ops;
        }
        D_BULK => {
            // one request of `size` bytes in 1..4 reads, most of it consumed, a small chunk size
            // from then on (realign and shrink at that buffer size), short reads
            let q = *rng.pick(&[1usize, 1, 2, 3, 4]);
            let c = match rng.below(4) {
                0 if q == 1 => size + *rng.pick(&[1usize, 9, size]),
                _ => (size + q - 1) / q,
            };
            case.chunk = c;
            let tail = *rng.pick(&[0usize, 1, 100, 5000, c.min(70000)]);
            set_data(&mut case, size + tail);
            for _ in 0..q {
                case.sched.push(Ev::Give(c));
            }
            case.sched.extend(short_events(rng, 512, 30));
            let mut live = Live::new(&case);
            let mut ops = vec![];
            let mut push = |live: &mut Live, ops: &mut Vec<Op>, op: Op| {
                ops.push(op);
                live.step(ops.len() - 1, op);
            };
            if rng.chance(1, 3) {
                push(&mut live, &mut ops, Op::Ra(size - 1));
            } else {
                push(&mut live, &mut ops, Op::Rq(size));
            }
            if rng.chance(1, 2) {
                push(&mut live, &mut ops, Op::Sm);
            }
            let blen = live.r.buf_len();
            let keep = *rng.pick(&[0usize, 1, 64, blen / 2, 5]).min(&blen);
            if rng.chance(1, 3) {
                push(&mut live, &mut ops, Op::Ab((blen - keep).min(64)));
                push(&mut live, &mut ops, Op::Ad(blen - keep - (blen - keep).min(64)));
            } else if rng.chance(1, 4) {
                push(&mut live, &mut ops, Op::Ab(blen - keep));
            } else {
                push(&mut live, &mut ops, Op::Ad(blen - keep));
            }
            push(&mut live, &mut ops, Op::Sc(*rng.pick(&[16usize, 512, 4096, 16384])));
            let n = rng.range(5, 9) as usize;
            probe(rng, &mut live, &mut case.sched, &mut ops, n, &sizes);
            case.ops = ops;
        }
        D_PRE => {
            // a BufReader that holds `size` unread bytes (and has handed out `m` before)
            case.pre_spec = gspec(size, seed + 1);
            case.pre = data_field(case.pre_spec.as_ref().unwrap());
            case.pre_consumed = *rng.pick(&[0usize, 0, 1, 7, 100, size.min(1 << 16)]);
            let bulk = rng.chance(1, 3);
            let c = if bulk { *rng.pick(&[size + 1, size, size / 2 + 1, size / 3 + 1]) } else { chunk_for(rng, size, 120) };
            case.chunk = c;
            let dlen = *rng.pick(&[0usize, 1, c.min(50000), 3 * c.min(20000) + 5]);
            set_data(&mut case, dlen);
            let ne = rng.range(0, 12) as usize;
            case.sched = short_events(rng, c, ne);
            let mut live = Live::new(&case);
            let mut ops = vec![];
            if bulk {
                for op in [Op::Rq(size + dlen.min(5)), Op::Ab(64), Op::Sm] {
                    ops.push(op);
                    live.step(ops.len() - 1, op);
                }
                let blen = live.r.buf_len();
                let op = Op::Ad(blen - blen.min(3));
                ops.push(op);
                live.step(ops.len() - 1, op);
            } else {
                stream_through(rng, &mut live, &mut ops, size + dlen, 130);
            }
            let n = rng.range(4, 8) as usize;
            probe(rng, &mut live, &mut case.sched, &mut ops, n, &sizes);
            case.ops = ops;
        }
        D_CHUNK => {
            let c = size;
            case.chunk = if rng.chance(1, 2) { c } else { 16 << 10 };
            let dlen = *rng.pick(&[c - 1, c, c + 1, 2 * c + 1, c / 2, 3, 3 * c]).min(&((1 << 21) + 64).max(c + 1));
            set_data(&mut case, dlen);
            case.sched = match rng.below(3) {
                0 => vec![],
                1 => vec![Ev::Give(c - 1), Ev::Give(1), Ev::Give(c), Ev::Give(c + 1)],
                _ => short_events(rng, c, 6),
            };
            let mut live = Live::new(&case);
            let mut ops = vec![];
            let mut push = |live: &mut Live, ops: &mut Vec<Op>, op: Op| {
                ops.push(op);
                live.step(ops.len() - 1, op);
            };
            if case.chunk != c {
                push(&mut live, &mut ops, Op::Rq(1));
                push(&mut live, &mut ops, Op::Sc(c));
            }
            push(&mut live, &mut ops, Op::Rq(1));
            push(&mut live, &mut ops, Op::Ra(c - 1));
            push(&mut live, &mut ops, Op::Rq(c + 1));
            let blen = live.r.buf_len();
            push(&mut live, &mut ops, Op::Ad(blen / 2));
            push(&mut live, &mut ops, Op::Rm);
            let blen = live.r.buf_len();
            push(&mut live, &mut ops, Op::Ad(blen));
            let n = rng.range(4, 8) as usize;
            probe(rng, &mut live, &mut case.sched, &mut ops, n, &sizes);
            case.ops = ops;
        }
        D_END => {
            // the input ends (or fails) at offset `size`
            case.fault = rng.chance(1, 2);
            let c = chunk_for(rng, size, 100);
            case.chunk = c;
            set_data(&mut case, size);
            // mostly full reads, some short ones
            for _ in 0..rng.range(0, 30) {
                case.sched.push(if rng.chance(1, 4) { Ev::Give(rng.range(1, c as u64) as usize) } else if rng.chance(1, 10) { Ev::Intr } else { Ev::Give(c) });
            }
            let mut live = Live::new(&case);
            let mut ops = vec![];
            let stop = size - *rng.pick(&[0usize, 0, 1, 10]).min(&size);
            stream_through(rng, &mut live, &mut ops, stop, 140);
            let mut push = |live: &mut Live, ops: &mut Vec<Op>, op: Op| {
                ops.push(op);
                live.step(ops.len() - 1, op);
            };
            let blen = live.r.buf_len();
            push(&mut live, &mut ops, Op::Rq(blen + c + 1));
            let blen = live.r.buf_len();
            push(&mut live, &mut ops, Op::Ra(blen));
            push(&mut live, &mut ops, Op::Rm);
            push(&mut live, &mut ops, Op::Ck);
            push(&mut live, &mut ops, Op::Ck);
            push(&mut live, &mut ops, Op::Ab(blen.min(64)));
            let blen = live.r.buf_len();
            push(&mut live, &mut ops, Op::Ad(blen));
            push(&mut live, &mut ops, Op::Ad(1));
            push(&mut live, &mut ops, Op::Rq(5));
            push(&mut live, &mut ops, Op::Rm);
            case.ops = ops;
        }
        _ => {
            // D_READS: one request that takes `size` refills
            let c = *rng.pick(&[1usize, 1, 2, 3]);
            case.chunk = c;
            let tail = *rng.pick(&[0usize, 1, 50]);
            set_data(&mut case, size * c + tail);
            let mut live = Live::new(&case);
            let mut ops = vec![];
            let mut push = |live: &mut Live, ops: &mut Vec<Op>, op: Op| {
                ops.push(op);
                live.step(ops.len() - 1, op);
            };
            if rng.chance(1, 3) {
                push(&mut live, &mut ops, Op::Ra(size * c - 1));
            } else {
                push(&mut live, &mut ops, Op::Rq(size * c));
            }
            let blen = live.r.buf_len();
            push(&mut live, &mut ops, Op::Ad(blen - blen.min(*rng.pick(&[0usize, 1, 9]))));
            let n = rng.range(4, 8) as usize;
            probe(rng, &mut live, &mut case.sched, &mut ops, n, &sizes);
            case.ops = ops;
        }
    }
    case
}
