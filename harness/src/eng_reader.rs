//! Engine `reader`: operation histories on the real `DeferredReader` (C02, C09 reader part, C14
//! reader part).  One case = source bytes + fault flag + read schedule + op list.
use crate::common::*;
use flussab::DeferredReader;
use std::io::{BufRead, BufReader, Cursor, Read};

#[derive(Clone, Copy, Debug)]
pub enum Op {
    Rq(usize),
    Ra(usize),
    Rm,
    Ad(usize),
    Ab(usize),
    Sm,
    Sp(u64),
    Sc(usize),
    Ck,
}

pub fn fmt_ops(ops: &[Op]) -> String {
    if ops.is_empty() {
        return "-".into();
    }
    ops.iter()
        .map(|o| match o {
            Op::Rq(n) => format!("rq{}", n),
            Op::Ra(n) => format!("ra{}", n),
            Op::Rm => "rm".into(),
            Op::Ad(n) => format!("ad{}", n),
            Op::Ab(n) => format!("ab{}", n),
            Op::Sm => "sm".into(),
            Op::Sp(p) => format!("sp{}", p),
            Op::Sc(c) => format!("sc{}", c),
            Op::Ck => "ck".into(),
        })
        .collect::<Vec<_>>()
        .join(",")
}

pub fn parse_ops(s: &str) -> Vec<Op> {
    if s == "-" {
        return vec![];
    }
    s.split(',')
        .map(|t| {
            let (k, v) = t.split_at(2);
            match k {
                "rq" => Op::Rq(v.parse().unwrap()),
                "ra" => Op::Ra(v.parse().unwrap()),
                "rm" => Op::Rm,
                "ad" => Op::Ad(v.parse().unwrap()),
                "ab" => Op::Ab(v.parse().unwrap()),
                "sm" => Op::Sm,
                "sp" => Op::Sp(v.parse().unwrap()),
                "sc" => Op::Sc(v.parse().unwrap()),
                "ck" => Op::Ck,
                _ => panic!("bad op {}", t),
            }
        })
        .collect()
}

pub struct Case {
    pub chunk: usize,
    pub fault: bool,
    pub pre: Vec<u8>,
    pub pre_consumed: usize,
    pub data: Vec<u8>,
    /// `g<len>.<seed>` when the data is generated rather than spelled out
    pub data_spec: Option<String>,
    pub sched: Vec<Ev>,
    pub ops: Vec<Op>,
}

impl Case {
    pub fn line(&self) -> String {
        format!(
            "reader c={} f={} pre={} m={} d={} s={} o={}",
            self.chunk,
            self.fault as u8,
            hex(&self.pre),
            self.pre_consumed,
            match &self.data_spec { Some(g) => g.clone(), None => hex(&self.data) },
            fmt_sched(&self.sched),
            fmt_ops(&self.ops)
        )
    }
    pub fn parse(line: &str) -> Case {
        let (_, f) = Fields::parse(line);
        Case {
            chunk: f.num("c"),
            fault: f.num("f") == 1,
            pre: data_field(f.get("pre")),
            pre_consumed: f.num("m"),
            data: data_field(f.get("d")),
            data_spec: if f.get("d").starts_with('g') { Some(f.get("d").to_string()) } else { None },
            sched: parse_sched(f.get("s")),
            ops: parse_ops(f.get("o")),
        }
    }
}

/// A live reader plus the reference bookkeeping of the oracle.
pub struct Live<'a> {
    pub r: DeferredReader<'a>,
    pub src: SchedSource,
    /// honest stream = pre ++ src.log
    pub pre: Vec<u8>,
    pub cursor: usize,
    pub mark: u64,
    pub taken: bool,
    pub total_len: usize,
    pub fails: Vec<String>,
}

impl<'a> Live<'a> {
    pub fn new(c: &Case) -> Live<'a> {
        let src = SchedSource::new(c.data.clone(), c.fault, c.sched.clone());
        let mut r = if c.pre.is_empty() && c.pre_consumed == 0 {
            DeferredReader::from_read(src.clone())
        } else {
            // a BufReader that already holds `pre` and from which `m` bytes were consumed
            let mut head = vec![0xEEu8; c.pre_consumed];
            head.extend_from_slice(&c.pre);
            let cap = head.len().max(1);
            let mut br = BufReader::with_capacity(cap, Cursor::new(head).chain(src.clone()));
            let _ = br.fill_buf();
            br.consume(c.pre_consumed);
            DeferredReader::from_buf_reader(br)
        };
        r.set_chunk_size(c.chunk);
        Live {
            r,
            src,
            pre: c.pre.clone(),
            cursor: 0,
            mark: 0,
            taken: false,
            total_len: c.pre.len() + c.data.len(),
            fails: vec![],
        }
    }

    fn stream(&self) -> Vec<u8> {
        let mut v = self.pre.clone();
        v.extend_from_slice(&self.src.0.borrow().log);
        v
    }

    /// Record an oracle failure; the message starts with the property it falsifies.
    fn fail(&mut self, i: usize, msg: String) {
        let prop = if msg.contains("called the source") || msg.contains("successful reads") || msg.contains("source called after") {
            "C09"
        } else if msg.contains("did not panic") || msg.contains("exceeds all data") || msg.contains("panicking call") {
            "C14"
        } else {
            "C02"
        };
        if self.fails.len() < 4 {
            self.fails.push(format!("{}:op{}:{}", prop, i, msg));
        }
    }

    /// Apply one op to the real reader; returns the observation string and records oracle
    /// failures.
    pub fn step(&mut self, i: usize, op: Op) -> String {
        let len_before = self.r.buf_len();
        let calls_before = self.src.0.borrow().calls;
        let prod_before = self.src.0.borrow().productive_calls;
        let complete_before = self.r.is_complete();
        let win_before: Option<Vec<u8>> = if len_before <= self.total_len {
            Some(self.r.buf().to_vec())
        } else {
            None
        };
        let stream_before = self.stream();
        let res: String = match op {
            Op::Rq(n) => match catch(|| self.r.request(n).to_vec()) {
                Some(b) => {
                    if b.len() < n && !self.r.is_complete() {
                        self.fail(i, format!("request({}) fell short ({}) but not complete", n, b.len()));
                    }
                    if n <= len_before && self.src.0.borrow().calls != calls_before {
                        self.fail(i, "request satisfied by buffered data called the source".into());
                    }
                    "ok".into()
                }
                None => "panic".into(),
            },
            Op::Ra(k) => match catch(|| self.r.request_byte_at_offset(k)) {
                Some(Some(b)) => {
                    let s = self.stream();
                    if s.get(self.cursor + k) != Some(&b) {
                        self.fail(i, format!("request_byte_at_offset({}) = {} differs from stream", k, b));
                    }
                    if k < len_before && self.src.0.borrow().calls != calls_before {
                        self.fail(i, "byte request satisfied by buffered data called the source".into());
                    }
                    format!("some:{}", b)
                }
                Some(None) => {
                    if !(self.r.is_complete() && self.r.buf_len() <= k) {
                        self.fail(i, format!("request_byte_at_offset({}) = None but data not exhausted", k));
                    }
                    "none".into()
                }
                None => "panic".into(),
            },
            Op::Rm => match catch(|| self.r.request_more()) {
                Some(b) => {
                    let prod = self.src.0.borrow().productive_calls - prod_before;
                    if b != !complete_before {
                        self.fail(i, format!("request_more returned {} with complete={}", b, complete_before));
                    }
                    // the pre-buffered bytes of a BufReader are served without touching the source
                    let served_from_pre = self.src.0.borrow().calls == calls_before;
                    if b && prod != 1 && !served_from_pre {
                        self.fail(i, format!("request_more made {} successful reads", prod));
                    }
                    if !b && self.src.0.borrow().calls != calls_before {
                        self.fail(i, "request_more on a complete reader called the source".into());
                    }
                    if b { "t".into() } else { "f".into() }
                }
                None => "panic".into(),
            },
            Op::Ad(n) => match catch(|| self.r.advance(n)) {
                Some(()) => {
                    if n > len_before {
                        self.fail(i, format!("advance({}) beyond {} did not panic", n, len_before));
                    }
                    self.cursor += n;
                    "ok".into()
                }
                None => {
                    if n <= len_before {
                        self.fail(i, format!("advance({}) within {} panicked", n, len_before));
                    }
                    "panic".into()
                }
            },
            Op::Ab(n) => match catch(|| self.r.advance_with_buf(n).to_vec()) {
                Some(b) => {
                    if n > len_before {
                        self.fail(i, format!("advance_with_buf({}) beyond {} did not panic", n, len_before));
                    } else if stream_before.get(self.cursor..self.cursor + n) != Some(&b[..]) {
                        self.fail(i, format!("advance_with_buf({}) returned wrong bytes", n));
                    }
                    self.cursor += n;
                    hex(&b)
                }
                None => {
                    if n <= len_before {
                        self.fail(i, format!("advance_with_buf({}) within {} panicked", n, len_before));
                    }
                    "panic".into()
                }
            },
            Op::Sm => {
                self.r.set_mark();
                self.mark = self.cursor as u64;
                "ok".into()
            }
            Op::Sp(p) => {
                self.r.set_mark_to_position(p as usize);
                self.mark = p;
                "ok".into()
            }
            Op::Sc(c) => {
                self.r.set_chunk_size(c);
                "ok".into()
            }
            Op::Ck => {
                let had = self.r.io_error().is_some();
                match self.r.check_io_error() {
                    Err(_) => {
                        if !had {
                            self.fail(i, "check_io_error Err without parked error".into());
                        }
                        self.taken = true;
                        "err".into()
                    }
                    Ok(()) => {
                        if had {
                            self.fail(i, "check_io_error Ok with parked error".into());
                        }
                        "ok".into()
                    }
                }
            }
        };
        // ---- observation + state oracle ----
        let blen = self.r.buf_len();
        let stream = self.stream();
        let window: Option<Vec<u8>> = if blen <= self.total_len {
            Some(self.r.buf().to_vec())
        } else {
            None
        };
        match &window {
            None => self.fail(i, format!("buf_len {} exceeds all data ever delivered", blen)),
            Some(w) => {
                // Until the inner source is called for the first time the reader may hold only
                // part of the bytes taken over from the BufReader; afterwards it must hold
                // everything delivered and not yet consumed.
                let inner_called = self.src.0.borrow().calls > 0;
                let ok = stream.len() >= self.cursor
                    && if inner_called {
                        &stream[self.cursor..] == &w[..]
                    } else {
                        stream[self.cursor..].starts_with(&w[..])
                    };
                if !ok {
                    self.fail(i, "window differs from delivered stream behind the cursor".into());
                }
            }
        }
        if res == "panic" {
            if let (Some(a), Some(b)) = (&win_before, &window) {
                // a panicking call must leave the exposed slice alone (C14); a lying source may
                // only be noticed after the buffer was resized, never after the window changed
                // (a request loop may have completed honest refills before the lie was met, so
                // there the old window must be a prefix of the new one)
                let looped = matches!(op, Op::Rq(_) | Op::Ra(_));
                if (looped && !b.starts_with(a)) || (!looped && a != b) {
                    self.fail(i, "window changed by a panicking call".into());
                }
            }
        }
        if self.r.position() != self.cursor {
            let p = self.r.position();
            self.fail(i, format!("position {} != bytes advanced {}", p, self.cursor));
        }
        if self.r.mark() as u64 != self.mark {
            let m = self.r.mark();
            self.fail(i, format!("mark {} != {}", m, self.mark));
        }
        let (ended, after_end, calls, fault) = {
            let s = self.src.0.borrow();
            (s.ended, s.after_end, s.calls, s.fault)
        };
        if self.r.is_complete() != ended {
            self.fail(i, format!("is_complete {} but source ended {}", self.r.is_complete(), ended));
        }
        if self.r.is_at_end() != (self.r.is_complete() && blen == 0) {
            self.fail(i, "is_at_end inconsistent".into());
        }
        if self.r.io_error().is_some() != (fault && ended && !self.taken) {
            self.fail(i, "io_error flag wrong".into());
        }
        if after_end != 0 {
            self.fail(i, "source called after it reported end/error".into());
        }
        format!(
            "{}|{}|{}|{}|{}{}{}|{}|{}",
            res,
            match &window {
                Some(w) => winhex(w),
                None => format!("BROKEN{}", blen),
            },
            self.r.position(),
            self.r.mark(),
            self.r.is_complete() as u8,
            self.r.is_at_end() as u8,
            self.r.io_error().is_some() as u8,
            calls,
            after_end
        )
    }
}

/// Window text: hex when short, `#<len>:<fnv-1a 64>` otherwise (keeps big-buffer cases small).
fn winhex(w: &[u8]) -> String {
    if w.len() <= 64 {
        return hex(w);
    }
    let mut h: u64 = 0xcbf29ce484222325;
    for b in w {
        h ^= *b as u64;
        h = h.wrapping_mul(0x100000001b3);
    }
    format!("#{}:{:016x}", w.len(), h)
}

pub fn run_case(c: &Case) -> (String, Vec<String>) {
    let mut live = Live::new(c);
    let mut out = Vec::with_capacity(c.ops.len());
    for (i, &op) in c.ops.iter().enumerate() {
        out.push(live.step(i, op));
    }
    (out.join(";"), live.fails)
}

/// Large inputs with the realistic chunk sizes (the default 16 KiB included): refill, realign
/// (cursor beyond 2 chunks) and shrink at the sizes real parsing runs at.
pub fn gen_big_case(rng: &mut Rng) -> Case {
    let chunk = *rng.pick(&[512usize, 4096, 16384, 16384]);
    let len = rng.range(3 * chunk as u64, 12 * chunk as u64) as usize;
    let seed = rng.below(1000) as usize;
    let spec = format!("g{}.{}", len, seed);
    let data = data_field(&spec);
    let fault = rng.chance(1, 3);
    let mut sched = vec![];
    let style = rng.below(3);
    for _ in 0..rng.range(0, 40) {
        sched.push(if rng.chance(1, 10) { Ev::Intr } else {
            match style { 0 => Ev::Give(chunk), 1 => Ev::Give(rng.range(1, chunk as u64) as usize), _ => Ev::Give(rng.range(chunk as u64 / 2, 2 * chunk as u64) as usize) }
        });
    }
    let mut case = Case { chunk, fault, pre: vec![], pre_consumed: 0, data, data_spec: Some(spec), sched, ops: vec![] };
    let mut live = Live::new(&case);
    for i in 0..rng.range(10, 60) {
        let blen = live.r.buf_len();
        let op = match rng.below(12) {
            0..=2 => Op::Rq(blen + rng.range(1, 2 * chunk as u64) as usize),
            3 => Op::Ra(blen + rng.below(chunk as u64) as usize),
            4 => Op::Rm,
            5..=8 => {
                // consume most of what is buffered: drives pos_in_buf beyond 2 chunks
                let n = if rng.chance(2, 3) { blen } else { rng.range(0, blen as u64) as usize };
                if rng.chance(1, 4) { Op::Ab(n.min(64)) } else { Op::Ad(n) }
            }
            9 => Op::Sm,
            10 => Op::Sc(*rng.pick(&[512usize, 4096, 16384])),
            _ => Op::Ck,
        };
        case.ops.push(op);
        live.step(i as usize, op);
    }
    case
}

pub fn gen_case(rng: &mut Rng, with_lies: bool, thorough: bool) -> Case {
    if !with_lies && rng.chance(1, 100) {
        return gen_big_case(rng);
    }
    let chunk = *rng.pick(&[1usize, 1, 2, 2, 3, 4, 5, 7, 8, 9, 16, 16384]);
    let maxlen = if thorough { 400 } else { 120 };
    let len = match rng.below(10) {
        0 => 0,
        1 => rng.range(1, 3),
        _ => rng.range(0, maxlen),
    } as usize;
    let data: Vec<u8> = (0..len).map(|_| rng.next() as u8).collect();
    let fault = rng.chance(1, 3);
    let (pre, pre_consumed) = if rng.chance(1, 5) {
        let n = rng.range(0, 8) as usize;
        ((0..n).map(|_| rng.next() as u8).collect(), rng.range(0, 3) as usize)
    } else {
        (vec![], 0)
    };
    let sched_len = match rng.below(4) {
        0 => 0,
        _ => rng.range(0, 80),
    };
    let style = rng.below(4);
    let mut sched = vec![];
    for _ in 0..sched_len {
        let e = if rng.chance(1, 8) {
            Ev::Intr
        } else if with_lies && rng.chance(1, 25) {
            Ev::Lie(rng.below(3) as usize)
        } else {
            match style {
                0 => Ev::Give(1),
                1 => Ev::Give(rng.range(1, 4) as usize),
                _ => Ev::Give(rng.range(1, 20) as usize),
            }
        };
        sched.push(e);
    }
    let mut case = Case {
        chunk,
        fault,
        pre,
        pre_consumed,
        data,
        data_spec: None,
        sched,
        ops: vec![],
    };
    let mut live = Live::new(&case);
    let nops = rng.range(1, if thorough { 120 } else { 60 });
    let mut chunk_now = chunk;
    for i in 0..nops {
        let blen = live.r.buf_len();
        let op = match rng.below(20) {
            0..=3 => {
                let n = match rng.below(4) {
                    0 => blen + rng.below(3) as usize,
                    1 => rng.range(0, 5) as usize,
                    2 => blen + chunk_now.min(40) + rng.below(3) as usize,
                    _ => rng.range(0, 50) as usize,
                };
                Op::Rq(n)
            }
            4..=6 => {
                let k = match rng.below(3) {
                    0 => blen.saturating_sub(1) + rng.below(3) as usize,
                    1 => rng.below(4) as usize,
                    _ => rng.below(40) as usize,
                };
                Op::Ra(k)
            }
            7..=8 => Op::Rm,
            9..=13 => {
                // mostly legal advances, weighted towards consuming everything (drives realign)
                let n = if with_lies && rng.chance(1, 6) || rng.chance(1, 40) {
                    blen + 1 + rng.below(3) as usize
                } else if rng.chance(1, 2) {
                    blen
                } else {
                    rng.range(0, blen as u64) as usize
                };
                if rng.chance(1, 3) {
                    Op::Ab(n)
                } else {
                    Op::Ad(n)
                }
            }
            14 => Op::Sm,
            15 => {
                if rng.chance(1, 4) {
                    Op::Sp(rng.next())
                } else {
                    Op::Sp(rng.below(200))
                }
            }
            16 => {
                let c = *rng.pick(&[1usize, 2, 3, 5, 8, 13, 64]);
                chunk_now = c;
                Op::Sc(c)
            }
            17 => Op::Ck,
            _ => Op::Rq(blen + 1),
        };
        // a huge usize::MAX-ish advance exercises the overflow test
        let op = if rng.chance(1, 200) {
            Op::Ad(usize::MAX - rng.below(3) as usize)
        } else {
            op
        };
        case.ops.push(op);
        live.step(i as usize, op);
    }
    case
}
