//! Shared infrastructure: PRNG, hex, the scheduled source, panic capture.
use std::cell::RefCell;
use std::collections::VecDeque;
use std::io::{self, Read};
use std::panic::{catch_unwind, AssertUnwindSafe};
use std::rc::Rc;

/// splitmix64 — every random choice of a run derives from one state.
#[derive(Clone)]
pub struct Rng(pub u64);

impl Rng {
    pub fn new(seed: u64) -> Self {
        Rng(seed.wrapping_mul(0x9E3779B97F4A7C15) ^ 0xD1B54A32D192ED03)
    }
    pub fn next(&mut self) -> u64 {
        self.0 = self.0.wrapping_add(0x9E3779B97F4A7C15);
        let mut z = self.0;
        z = (z ^ (z >> 30)).wrapping_mul(0xBF58476D1CE4E5B9);
        z = (z ^ (z >> 27)).wrapping_mul(0x94D049BB133111EB);
        z ^ (z >> 31)
    }
    /// uniform in 0..n (n > 0)
    pub fn below(&mut self, n: u64) -> u64 {
        self.next() % n
    }
    pub fn range(&mut self, lo: u64, hi: u64) -> u64 {
        lo + self.below(hi - lo + 1)
    }
    pub fn chance(&mut self, num: u64, den: u64) -> bool {
        self.below(den) < num
    }
    pub fn pick<'a, T>(&mut self, xs: &'a [T]) -> &'a T {
        &xs[self.below(xs.len() as u64) as usize]
    }
    pub fn fork(&mut self) -> Rng {
        Rng(self.next())
    }
}

pub fn hex(bytes: &[u8]) -> String {
    if bytes.is_empty() {
        return "-".to_string();
    }
    let mut s = String::with_capacity(bytes.len() * 2);
    for b in bytes {
        s.push_str(&format!("{:02x}", b));
    }
    s
}

pub fn unhex(s: &str) -> Vec<u8> {
    if s == "-" {
        return vec![];
    }
    let b = s.as_bytes();
    (0..b.len() / 2)
        .map(|i| u8::from_str_radix(std::str::from_utf8(&b[2 * i..2 * i + 2]).unwrap(), 16).unwrap())
        .collect()
}

#[derive(Clone, Copy, Debug, PartialEq, Eq)]
pub enum Ev {
    Give(usize),
    Intr,
    Lie(usize),
}

pub fn fmt_sched(s: &[Ev]) -> String {
    if s.is_empty() {
        return "-".into();
    }
    s.iter()
        .map(|e| match e {
            Ev::Give(n) => format!("g{}", n),
            Ev::Intr => "i".to_string(),
            Ev::Lie(n) => format!("l{}", n),
        })
        .collect::<Vec<_>>()
        .join(",")
}

pub fn parse_sched(s: &str) -> Vec<Ev> {
    if s == "-" {
        return vec![];
    }
    s.split(',')
        .map(|t| match t.as_bytes()[0] {
            b'g' => Ev::Give(t[1..].parse().unwrap()),
            b'i' => Ev::Intr,
            b'l' => Ev::Lie(t[1..].parse().unwrap()),
            _ => panic!("bad sched {}", t),
        })
        .collect()
}

/// State of a scheduled source, shared with the harness so it can be inspected while the reader
/// owns the `Read` object.  Mirrors `Flussab.Source` in the Lean model.
#[derive(Default, Debug)]
pub struct SrcState {
    pub data: Vec<u8>,
    pub off: usize,
    pub fault: bool,
    pub sched: VecDeque<Ev>,
    pub calls: usize,
    pub ended: bool,
    pub after_end: usize,
    /// everything handed out honestly, in order
    pub log: Vec<u8>,
    pub lied: bool,
    /// number of calls that returned data / eof / error (not Interrupted)
    pub productive_calls: usize,
}

#[derive(Clone)]
pub struct SchedSource(pub Rc<RefCell<SrcState>>);

impl SchedSource {
    pub fn new(data: Vec<u8>, fault: bool, sched: Vec<Ev>) -> Self {
        SchedSource(Rc::new(RefCell::new(SrcState {
            data,
            fault,
            sched: sched.into(),
            ..Default::default()
        })))
    }
}

impl Read for SchedSource {
    fn read(&mut self, buf: &mut [u8]) -> io::Result<usize> {
        let mut s = self.0.borrow_mut();
        let cap = buf.len();
        s.calls += 1;
        if s.ended {
            s.after_end += 1;
        }
        let remaining = s.data.len() - s.off;
        let n = match s.sched.pop_front() {
            Some(Ev::Intr) => return Err(io::Error::new(io::ErrorKind::Interrupted, "intr")),
            Some(Ev::Lie(x)) => {
                let k = cap.min(remaining);
                let off = s.off;
                buf[..k].copy_from_slice(&s.data[off..off + k]);
                s.off += k;
                s.lied = true;
                s.productive_calls += 1;
                return Ok(cap + 1 + x);
            }
            Some(Ev::Give(n)) => n.max(1),
            None => cap,
        };
        s.productive_calls += 1;
        let k = n.min(cap).min(remaining);
        if k == 0 {
            if remaining == 0 {
                s.ended = true;
                if s.fault {
                    // any non-Interrupted kind is a terminal failure; vary it per case so that code
                    // treating one particular kind specially (UnexpectedEof, WouldBlock, …) is seen
                    const KINDS: &[io::ErrorKind] = &[
                        io::ErrorKind::Other,
                        io::ErrorKind::UnexpectedEof,
                        io::ErrorKind::BrokenPipe,
                        io::ErrorKind::WouldBlock,
                        io::ErrorKind::TimedOut,
                        io::ErrorKind::InvalidData,
                        io::ErrorKind::ConnectionReset,
                        io::ErrorKind::WriteZero,
                    ];
                    let kind = KINDS[(s.data.len() + s.data.first().copied().unwrap_or(0) as usize) % KINDS.len()];
                    return Err(io::Error::new(kind, "fault"));
                }
            }
            return Ok(0);
        }
        let off = s.off;
        buf[..k].copy_from_slice(&s.data[off..off + k]);
        s.off += k;
        let (a, b) = (off, off + k);
        let chunk: Vec<u8> = s.data[a..b].to_vec();
        s.log.extend_from_slice(&chunk);
        Ok(k)
    }
}

/// Run `f`, turning a panic into `None`.
pub fn catch<T>(f: impl FnOnce() -> T) -> Option<T> {
    catch_unwind(AssertUnwindSafe(f)).ok()
}

pub fn silence_panics() {
    if std::env::var("VH_SHOW_PANICS").is_err() {
        std::panic::set_hook(Box::new(|_| {}));
    }
}

/// `key=value` fields of a case line (after the engine name).
pub struct Fields<'a>(pub Vec<(&'a str, &'a str)>);

impl<'a> Fields<'a> {
    pub fn parse(line: &'a str) -> (&'a str, Fields<'a>) {
        let mut it = line.split(' ');
        let name = it.next().unwrap_or("");
        let v = it
            .filter(|t| !t.is_empty())
            .map(|t| match t.find('=') {
                Some(i) => (&t[..i], &t[i + 1..]),
                None => (t, ""),
            })
            .collect();
        (name, Fields(v))
    }
    pub fn get(&self, k: &str) -> &'a str {
        self.0
            .iter()
            .find(|(a, _)| *a == k)
            .map(|(_, b)| *b)
            .unwrap_or_else(|| panic!("missing field {}", k))
    }
    pub fn opt(&self, k: &str) -> Option<&'a str> {
        self.0.iter().find(|(a, _)| *a == k).map(|(_, b)| *b)
    }
    pub fn num(&self, k: &str) -> usize {
        self.get(k).parse().unwrap()
    }
}

// ------------------------------------------------------------------ counting allocator (C05, C10)

use std::alloc::{GlobalAlloc, Layout, System};
use std::sync::atomic::{AtomicUsize, Ordering};

pub struct CountingAlloc;

static LIVE: AtomicUsize = AtomicUsize::new(0);
static PEAK: AtomicUsize = AtomicUsize::new(0);
static LARGEST: AtomicUsize = AtomicUsize::new(0);

unsafe impl GlobalAlloc for CountingAlloc {
    unsafe fn alloc(&self, layout: Layout) -> *mut u8 {
        let p = System.alloc(layout);
        if !p.is_null() {
            let now = LIVE.fetch_add(layout.size(), Ordering::Relaxed) + layout.size();
            PEAK.fetch_max(now, Ordering::Relaxed);
            LARGEST.fetch_max(layout.size(), Ordering::Relaxed);
        }
        p
    }
    unsafe fn dealloc(&self, ptr: *mut u8, layout: Layout) {
        System.dealloc(ptr, layout);
        LIVE.fetch_sub(layout.size(), Ordering::Relaxed);
    }
    unsafe fn realloc(&self, ptr: *mut u8, layout: Layout, new_size: usize) -> *mut u8 {
        let p = System.realloc(ptr, layout, new_size);
        if !p.is_null() {
            if new_size >= layout.size() {
                let d = new_size - layout.size();
                let now = LIVE.fetch_add(d, Ordering::Relaxed) + d;
                PEAK.fetch_max(now, Ordering::Relaxed);
            } else {
                LIVE.fetch_sub(layout.size() - new_size, Ordering::Relaxed);
            }
            LARGEST.fetch_max(new_size, Ordering::Relaxed);
        }
        p
    }
}

#[global_allocator]
static GLOBAL: CountingAlloc = CountingAlloc;

/// Bytes currently allocated by the whole harness process.
pub fn heap_live() -> usize {
    LIVE.load(Ordering::Relaxed)
}

/// Start a measurement: the peak is reset to the current live size; returns that baseline.
pub fn heap_mark() -> usize {
    let live = LIVE.load(Ordering::Relaxed);
    PEAK.store(live, Ordering::Relaxed);
    LARGEST.store(0, Ordering::Relaxed);
    live
}

/// Peak live bytes above the baseline since `heap_mark`, and the largest single request.
pub fn heap_peak_since(baseline: usize) -> (usize, usize) {
    (PEAK.load(Ordering::Relaxed).saturating_sub(baseline), LARGEST.load(Ordering::Relaxed))
}
