//! Case generators for engine `aiger`: abstract circuits written by the crate's own writers (C03)
//! or rendered by an independent renderer with the format's few layout choices (header length,
//! explicit latch reset, padded varints), mutations, arbitrary bytes, UTF-8 edge cases, extreme
//! numerals / huge declared counts (C05, C06), single-token corruptions with known position (C08),
//! faults (C04), line sources (C09); `scale`: documents in which every size-like dimension goes
//! beyond 2^20 (see the section at the end of this file).
//! Two dimensions run through `huge`, `mutate` and `corrupt`: groups of two or three counts that
//! are fine one by one and whose SUM sits at / next to / beyond a limit (`wrap_tuple`: header
//! fields, justice sizes, numbers of one line, gate deltas; in `corrupt` with the place where the
//! text must be refused, computed by plain arithmetic), and junk tokens that are a run of one byte
//! value of every class with lengths around the small constants of the source (`junk_run`).
//! Line-source cases walk the sections in every way (`ls_mode`: all items, none, a subset of the
//! sections, only the first few items of a section).
use crate::common::*;
use crate::eng_aiger::{write_real, Case, Circ};

pub const TYPES: &[(&str, u64)] = &[
    ("u8", u8::MAX as u64),
    ("u16", u16::MAX as u64),
    ("u32", u32::MAX as u64),
    ("u64", u64::MAX),
    ("usize", u64::MAX),
];

const NAMES: &[&str] = &["", "x", "in 0", "n\u{e4}me", "\u{65e5}\u{672c}", "a b  c", "\u{1f600}x", "c", "0", "i0 y", "\u{7ff}\u{800}\u{ffff}\u{10000}\u{10ffff}"];
const COMMENTS: &[&str] = &["", "hello", "two\nlines", "trailing\n", "\u{fc}n\u{ef}\n\n", "\n", "c\nnested c", "\u{10ffff}"];

fn small(rng: &mut Rng) -> u64 {
    match rng.below(4) { 0 => 0, 1 => 1, _ => rng.range(0, 4) }
}

fn rand_lit(rng: &mut Rng, m: u64, defined: &[u64]) -> u64 {
    let max = 2 * m as u128 + 1;
    let v: u128 = match rng.below(7) {
        0 => 0,
        1 => 1,
        2 => max,
        3 => max - 1,
        4 | 5 if !defined.is_empty() => (*rng.pick(defined) as u128) ^ (rng.below(2) as u128),
        _ => (rng.next() as u128) % (max + 1),
    };
    v.min(max) as u64
}

/// A well-formed circuit for the given format and literal type.
pub fn gen_circ(rng: &mut Rng, bin: bool, maxcode: u64) -> Circ {
    let mmax = (maxcode - 1) / 2;
    let mut ni = small(rng);
    let nl = small(rng);
    let na = small(rng);
    let mut huge_inputs = false;
    if bin && maxcode == u64::MAX && rng.chance(1, 3) {
        // large input counts give large first deltas: every varint length 1..=10
        ni = match rng.below(4) {
            0 => (1u64 << 62) - rng.below(3),
            1 => mmax - nl - na,
            _ => 1u64 << rng.range(3, 62),
        };
        huge_inputs = true;
    } else if bin && rng.chance(1, 4) {
        ni = rng.range(0, (mmax - nl - na).min(100_000));
        huge_inputs = ni > 64;
    }
    let defined = ni + nl + na;
    let m = match rng.below(3) {
        0 => defined,
        1 => mmax,
        _ => defined + rng.range(0, 5).min(mmax - defined),
    };
    // variables of the defined literals
    let mut vars: Vec<u64> = vec![];
    if bin {
        vars = (1..=if huge_inputs { 0 } else { ni }).collect();
        vars.extend(ni + 1..=ni + nl + na);
    } else {
        let mut cands: Vec<u64> = (1..=m.min(defined + 3)).collect();
        for d in 0..(defined + 3).min(m) {
            if m - d > defined + 3 { cands.push(m - d); }
        }
        for i in (1..cands.len()).rev() {
            let j = rng.below(i as u64 + 1) as usize;
            cands.swap(i, j);
        }
        vars.extend(cands.into_iter().take(defined as usize));
    }
    let lits: Vec<u64> = vars.iter().map(|v| v * 2).collect();
    let mut c = Circ { m, input_count: ni, ..Default::default() };
    if !bin {
        c.inputs = lits[..ni as usize].to_vec();
    }
    let base = if bin { if huge_inputs { 0 } else { ni as usize } } else { ni as usize };
    for i in 0..nl as usize {
        let state = if bin { 2 * (ni + 1 + i as u64) } else { lits[base + i] };
        let init = match rng.below(3) { 0 => Some(false), 1 => Some(true), _ => None };
        c.latches.push((state, rand_lit(rng, m, &lits), init));
    }
    for i in 0..na as usize {
        if bin {
            let lhs = 2 * (ni + nl + 1 + i as u64);
            // a delta exactly at (or next to) a 7-bit group boundary: 2^(7j) + {-1, 0, 1}
            let boundary = |rng: &mut Rng, max: u64| -> Option<u64> {
                let j = rng.range(1, 9) as u32;
                let d = (1u64 << (7 * j)).wrapping_add(rng.range(0, 2)).wrapping_sub(1);
                if d <= max { Some(d) } else { None }
            };
            let in0 = match rng.below(8) {
                0 => lhs,
                1 => lhs - 1,
                2 => lhs - 2,
                3 => rng.below(4).min(lhs),
                4 | 5 => match boundary(rng, lhs) { Some(d) => lhs - d, None => rng.next() % (lhs + 1) },
                _ => rng.next() % (lhs + 1),
            };
            let in1 = match rng.below(6) {
                0 => in0,
                1 => 0,
                2 | 3 => match boundary(rng, in0) { Some(d) => in0 - d, None => rng.next() % (in0 + 1) },
                _ => rng.next() % (in0 + 1),
            };
            // sometimes hand the pair over unordered: the writer sorts it
            if rng.chance(1, 4) { c.gates.push((lhs, in1, in0)); } else { c.gates.push((lhs, in0, in1)); }
        } else {
            c.gates.push((lits[base + nl as usize + i], rand_lit(rng, m, &lits), rand_lit(rng, m, &lits)));
        }
    }
    for _ in 0..small(rng) { c.outputs.push(rand_lit(rng, m, &lits)); }
    if rng.chance(1, 2) {
        for _ in 0..small(rng) { c.bad.push(rand_lit(rng, m, &lits)); }
        for _ in 0..small(rng) { c.constraints.push(rand_lit(rng, m, &lits)); }
        for _ in 0..small(rng) {
            let n = small(rng);
            c.justice.push((0..n).map(|_| rand_lit(rng, m, &lits)).collect());
        }
        for _ in 0..small(rng) { c.fairness.push(rand_lit(rng, m, &lits)); }
    }
    let counts = [('i', ni), ('o', c.outputs.len() as u64), ('l', nl), ('b', c.bad.len() as u64),
        ('c', c.constraints.len() as u64), ('j', c.justice.len() as u64), ('f', c.fairness.len() as u64)];
    for (k, n) in counts {
        if n == 0 { continue; }
        if rng.chance(1, 2) { c.symbols.push((k, 0, rng.pick(NAMES).to_string())); }
        if rng.chance(1, 2) { c.symbols.push((k, n - 1, rng.pick(NAMES).to_string())); }
        if n > 2 && rng.chance(1, 4) { c.symbols.push((k, rng.range(1, n - 2), rng.pick(NAMES).to_string())); }
    }
    for i in (1..c.symbols.len()).rev() {
        let j = rng.below(i as u64 + 1) as usize;
        c.symbols.swap(i, j);
    }
    if rng.chance(1, 2) { c.comment = Some(rng.pick(COMMENTS).to_string()); }
    c
}

fn init_s(i: Option<bool>) -> &'static str {
    match i { Some(false) => "0", Some(true) => "1", None => "x" }
}

/// Expected observation of a well-formed circuit (computed from the abstract value, not by parsing).
pub fn expected(c: &Circ, bin: bool, mode: &str) -> String {
    let ni = if bin { c.input_count } else { c.inputs.len() as u64 };
    let mut v = vec![format!("H:{}:{}:{}:{}:{}:{}:{}:{}:{}", c.m, ni, c.latches.len(), c.outputs.len(), c.gates.len(),
        c.bad.len(), c.constraints.len(), c.justice.len(), c.fairness.len())];
    if mode != "skip" {
        if !bin { v.extend(c.inputs.iter().map(|l| format!("I:{}", l))); }
        for (s, n, i) in &c.latches {
            v.push(if bin { format!("L:{}:{}", n, init_s(*i)) } else { format!("L:{}:{}:{}", s, n, init_s(*i)) });
        }
        v.extend(c.outputs.iter().map(|l| format!("O:{}", l)));
        v.extend(c.bad.iter().map(|l| format!("B:{}", l)));
        v.extend(c.constraints.iter().map(|l| format!("C:{}", l)));
        v.extend(c.justice.iter().map(|j| format!("JS:{}", j.len())));
        v.extend(c.justice.iter().flatten().map(|l| format!("J:{}", l)));
        v.extend(c.fairness.iter().map(|l| format!("F:{}", l)));
        for (o, a, b) in &c.gates {
            v.push(if bin { format!("A:{}:{}", a.max(b), a.min(b)) } else { format!("A:{}:{}:{}", o, a, b) });
        }
    }
    v.extend(c.symbols.iter().map(|(k, i, n)| format!("S:{}{}:{}", k, i, hex(n.as_bytes()))));
    v.push(match &c.comment { None => "K:none".into(), Some(s) => format!("K:{}", hex(s.as_bytes())) });
    v.push("END".into());
    if mode == "parse" { v.insert(0, "P".into()); }
    v.join("|")
}

/// The circuit `Aig::from(ordered)` / `ascii::write_ordered_aig` sees: explicit inputs and outputs.
fn explicit(c: &Circ) -> Circ {
    let mut e = c.clone();
    e.inputs = (1..=c.input_count).map(|i| 2 * i).collect();
    e
}

#[derive(Clone, Copy, Debug, PartialEq)]
pub enum TokKind { Header(usize), DefLit, Lit, Init(u64), JusticeSize, SymIndex(u64), Delta(u64) }

pub struct Tok { pub off: usize, pub len: usize, pub line: usize, pub col: usize, pub kind: TokKind }

pub struct Rendered { pub bytes: Vec<u8>, pub toks: Vec<Tok> }

struct Out { b: Vec<u8>, line: usize, line_start: usize, toks: Vec<Tok> }

impl Out {
    fn text(&mut self, s: &[u8]) {
        for &ch in s {
            self.b.push(ch);
            if ch == b'\n' { self.line += 1; self.line_start = self.b.len(); }
        }
    }
    fn raw(&mut self, s: &[u8]) { self.b.extend_from_slice(s); }
    fn tok(&mut self, s: &[u8], kind: TokKind, raw: bool) {
        self.toks.push(Tok { off: self.b.len(), len: s.len(), line: self.line, col: self.b.len() - self.line_start + 1, kind });
        if raw { self.raw(s) } else { self.text(s) }
    }
    fn num(&mut self, n: u64, kind: TokKind) { self.tok(n.to_string().as_bytes(), kind, false); }
}

pub fn varint(mut v: u128, pad_to: usize) -> Vec<u8> {
    let mut out = vec![];
    loop {
        let b = (v & 0x7f) as u8;
        v >>= 7;
        if v == 0 { out.push(b); break; }
        out.push(b | 0x80);
    }
    while out.len() < pad_to {
        let n = out.len();
        out[n - 1] |= 0x80;
        out.push(0);
    }
    out
}

/// Independent renderer; `plain` = the canonical choices the crate's writer makes.
pub fn render(rng: &mut Rng, c: &Circ, bin: bool, plain: bool) -> Rendered {
    let mut o = Out { b: vec![], line: 1, line_start: 0, toks: vec![] };
    let ni = if bin { c.input_count } else { c.inputs.len() as u64 };
    let h = [c.m, ni, c.latches.len() as u64, c.outputs.len() as u64, c.gates.len() as u64, c.bad.len() as u64,
        c.constraints.len() as u64, c.justice.len() as u64, c.fairness.len() as u64];
    let mut need = 9;
    while need > 5 && h[need - 1] == 0 { need -= 1; }
    let fields = if plain { need } else { rng.range(need as u64, 9) as usize };
    o.text(if bin { b"aig" } else { b"aag" });
    for (i, f) in h.iter().enumerate().take(fields) {
        o.text(b" ");
        o.num(*f, TokKind::Header(i));
    }
    o.text(b"\n");
    if !bin {
        for l in &c.inputs { o.num(*l, TokKind::DefLit); o.text(b"\n"); }
    }
    for (s, n, i) in &c.latches {
        if !bin { o.num(*s, TokKind::DefLit); o.text(b" "); }
        o.num(*n, TokKind::Lit);
        match i {
            Some(true) => { o.text(b" "); o.num(1, TokKind::Init(*s)); }
            Some(false) => if !plain && rng.chance(1, 2) { o.text(b" "); o.num(0, TokKind::Init(*s)); },
            None => { o.text(b" "); o.num(*s, TokKind::Init(*s)); }
        }
        o.text(b"\n");
    }
    for l in c.outputs.iter().chain(&c.bad).chain(&c.constraints) { o.num(*l, TokKind::Lit); o.text(b"\n"); }
    for j in &c.justice { o.num(j.len() as u64, TokKind::JusticeSize); o.text(b"\n"); }
    for l in c.justice.iter().flatten().chain(&c.fairness) { o.num(*l, TokKind::Lit); o.text(b"\n"); }
    for (out, a, b) in &c.gates {
        if bin {
            let (a, b) = (*a.max(b), *a.min(b));
            for (delta, from) in [(out - a, *out), (a - b, a)] {
                let enc = varint(delta as u128, 0);
                let pad = if plain || !rng.chance(1, 4) { 0 } else { rng.range(enc.len() as u64, 10) as usize };
                o.tok(&varint(delta as u128, pad), TokKind::Delta(from), true);
            }
        } else {
            o.num(*out, TokKind::DefLit); o.text(b" ");
            o.num(*a, TokKind::Lit); o.text(b" ");
            o.num(*b, TokKind::Lit); o.text(b"\n");
        }
    }
    let counts = |k: char| -> u64 {
        match k { 'i' => ni, 'o' => h[3], 'l' => h[2], 'b' => h[5], 'c' => h[6], 'j' => h[7], _ => h[8] }
    };
    for (k, i, name) in &c.symbols {
        o.text(&[*k as u8]);
        o.num(*i, TokKind::SymIndex(counts(*k)));
        o.text(b" ");
        // a name is not line structure the corruption catalogue addresses, but it moves the line on
        o.text(name.as_bytes());
        o.text(b"\n");
    }
    if let Some(cm) = &c.comment {
        o.text(b"c\n");
        o.raw(cm.as_bytes());
        o.raw(b"\n");
    }
    Rendered { bytes: o.b, toks: o.toks }
}

const EXTREME: &[&str] = &[
    "0", "1", "00", "01", "007", "127", "128", "254", "255", "256", "32767", "65534", "65535", "65536",
    "2147483647", "4294967294", "4294967295", "4294967296", "9223372036854775806", "9223372036854775807",
    "9223372036854775808", "18446744073709551614", "18446744073709551615", "18446744073709551616",
    "99999999999999999999", "123456789012345678901234567890", "1x", "-1", "+1", "",
];

const BAD_UTF8: &[&[u8]] = &[
    b"\xff", b"\x80", b"\xbf", b"\xc0\x80", b"\xc0\xaf", b"\xc1\xbf", b"\xc2", b"\xc2\x80", b"\xc2\x7f", b"\xdf\xbf", b"\xdf\xc0",
    b"\xe0\x9f\xbf", b"\xe0\xa0\x80", b"\xe0\xa0", b"\xe0", b"\xe1\x80\x80", b"\xe1\x80", b"\xec\xbf\xbf",
    b"\xed\x9f\xbf", b"\xed\xa0\x80", b"\xed\xbf\xbf", b"\xee\x80\x80", b"\xef\xbf\xbf", b"\xef\xbf", b"\xe2\x82\x28",
    b"\xf0\x8f\xbf\xbf", b"\xf0\x90\x80\x80", b"\xf0\x90\x80", b"\xf0\x90", b"\xf0", b"\xf1\x80\x80\x80", b"\xf3\xbf\xbf\xbf",
    b"\xf4\x8f\xbf\xbf", b"\xf4\x90\x80\x80", b"\xf5\x80\x80\x80", b"\xf8\x88\x80\x80\x80", b"\xf0\x28\x8c\xbc", b"\xf0\x90\x28\xbc",
    b"\xf0\x90\x8c\x28", b"ok\xe2\x82\xacok", b"a\xcc\x81",
];

/// Numbers that are harmless one by one and whose sum (hence some partial sum, in some order) lands
/// exactly at, next to or beyond a boundary: `limits` are inclusive limits the caller knows of
/// (`usize::MAX`, the maximum variable index, the type's largest code …); the sum is
/// `limit + 1 + {-2, -1, 0, 1, small, anything below 2^16}`, also around 2^63 / 2^32 / 2^16 / 2^8.
/// Every part is at most `u64::MAX` (a numeral the scanner accepts), parts may be 0, 1, a half, the
/// smallest / largest value that still leaves the others in range.
pub fn wrap_tuple(rng: &mut Rng, k: usize, limits: &[u128]) -> Vec<u128> {
    let cap = u64::MAX as u128;
    let limit: u128 = match rng.below(8) {
        0 => (1u128 << *rng.pick(&[63u32, 32, 16, 8])) - 1,
        1 | 2 => cap,
        _ => *rng.pick(limits),
    };
    let t: u128 = match rng.below(8) {
        0 => limit.saturating_sub(1),
        1 => limit,
        2 | 3 => limit + 1,
        4 => limit + 2,
        5 => limit + 1 + rng.range(2, 9) as u128,
        6 => limit + 1 + rng.below(1 << 16) as u128,
        _ => limit + 1 + (rng.next() as u128) % (limit + 1),
    }
    .min(k as u128 * cap);
    let mut parts: Vec<u128> = vec![];
    let mut rest = t;
    for i in 0..k - 1 {
        let after = (k - 1 - i) as u128;
        let lo = rest.saturating_sub(after * cap);
        let hi = rest.min(cap);
        let c = [lo, hi, lo + 1, hi.saturating_sub(1), rest / 2, rest / (after + 1), 1, 2, rng.below(9) as u128, 1u128 << 63,
            lo + (rng.next() as u128) % (hi - lo + 1)];
        let fit: Vec<u128> = c.iter().copied().filter(|x| *x >= lo && *x <= hi).collect();
        let a = *rng.pick(&fit);
        parts.push(a);
        rest -= a;
    }
    parts.push(rest);
    if rng.chance(1, 2) {
        for i in (1..parts.len()).rev() {
            let j = rng.below(i as u64 + 1) as usize;
            parts.swap(i, j);
        }
    }
    parts
}

/// A junk token: a run of ONE byte value — any of the 256, weighted to UTF-8 continuation bytes
/// (0x80..=0xbf), lead bytes (0xc0..), 0xff and 0x00 — whose length is 1..200 or sits around a small
/// integer constant of the current source (`c-1, c, c+1, c+4, 2c` for every constant up to 4096):
/// code that walks over, copies or cuts "the offending token" sees every length next to its own
/// limits with bytes of every class.
pub fn junk_run(rng: &mut Rng) -> Vec<u8> {
    let b: u8 = match rng.below(10) {
        0..=2 => rng.range(0x80, 0xbf) as u8,
        3 | 4 => rng.range(0xc0, 0xff) as u8,
        5 => 0xff,
        6 => 0x00,
        _ => rng.below(256) as u8,
    };
    let n = if rng.chance(1, 3) { rng.range(1, 200) } else {
        let cs: Vec<u64> = source_consts().into_iter().filter(|c| *c >= 1 && *c <= 4096).collect();
        if cs.is_empty() { rng.range(1, 200) } else {
            let c = *rng.pick(&cs);
            match rng.below(5) { 0 => c - 1, 1 => c, 2 => c + 1, 3 => c + 4, _ => 2 * c }.max(1)
        }
    };
    vec![b; n as usize]
}

/// Where a header `aag|aig M I L O A [B C J F]` with these field values is refused: the index of
/// the first field that exceeds its limit (M: the literal type's; I, L, A: what is left of M; the
/// other counts: `usize`).  Plain arithmetic on unbounded numbers.
fn header_violation(f: &[u128], mmax: u64) -> Option<usize> {
    let mut left: u128 = 0;
    for (i, v) in f.iter().enumerate() {
        match i {
            0 => { if *v > mmax as u128 { return Some(0); } left = *v; }
            1 | 2 | 4 => { if *v > left { return Some(i); } left -= *v; }
            _ => { if *v > u64::MAX as u128 { return Some(i); } }
        }
    }
    None
}

fn numeral_spans(b: &[u8]) -> Vec<(usize, usize)> {
    let mut v = vec![];
    let mut i = 0;
    while i < b.len() {
        if b[i].is_ascii_digit() {
            let s = i;
            while i < b.len() && b[i].is_ascii_digit() { i += 1; }
            v.push((s, i));
        } else {
            i += 1;
        }
    }
    v
}

pub fn mutate(rng: &mut Rng, mut b: Vec<u8>) -> Vec<u8> {
    // a literal of the current source (keyword, magic prefix …) spliced into the otherwise
    // unchanged document, half of the time as the only change
    if rng.chance(1, 4) {
        splice_literal(rng, &mut b);
        if rng.chance(1, 2) {
            return b;
        }
    }
    let n = rng.range(1, 3);
    for _ in 0..n {
        match rng.below(14) {
            0 if !b.is_empty() => { let i = rng.below(b.len() as u64) as usize; b[i] ^= 1 << rng.below(8); }
            1 if !b.is_empty() => { let i = rng.below(b.len() as u64) as usize; b.remove(i); }
            2 => { let i = rng.below(b.len() as u64 + 1) as usize; b.insert(i, *rng.pick(b" \n\t\r0129acijx\x80\xff\x00")); }
            3 if !b.is_empty() => { let i = rng.below(b.len() as u64 + 1) as usize; b.truncate(i); }
            4 | 5 | 6 => {
                let sp = numeral_spans(&b);
                if !sp.is_empty() {
                    let (s, e) = *rng.pick(&sp);
                    let r: Vec<u8> = if rng.chance(1, 4) {
                        let k = rng.range(1, 65) as u32;
                        let v = (1u128 << k) + rng.below(3) as u128 - 1;
                        v.to_string().into_bytes()
                    } else {
                        rng.pick(EXTREME).as_bytes().to_vec()
                    };
                    b.splice(s..e, r);
                }
            }
            7 => {
                // duplicate or drop a line
                let nl: Vec<usize> = b.iter().enumerate().filter(|(_, x)| **x == b'\n').map(|(i, _)| i).collect();
                if nl.len() >= 2 {
                    let i = rng.below(nl.len() as u64 - 1) as usize;
                    let (s, e) = (nl[i] + 1, nl[i + 1] + 1);
                    let l: Vec<u8> = b[s..e].to_vec();
                    if rng.chance(1, 2) { b.splice(s..s, l); } else { b.drain(s..e); }
                }
            }
            8 => { let i = rng.below(b.len() as u64 + 1) as usize; let x = (*rng.pick(BAD_UTF8)).to_vec(); b.splice(i..i, x); }
            9 => {
                // over-long / overflowing varint somewhere
                let i = rng.below(b.len() as u64 + 1) as usize;
                let x: Vec<u8> = match rng.below(4) {
                    0 => vec![0x80; 10].into_iter().chain([0x00]).collect(),
                    1 => vec![0xff; 9].into_iter().chain([0x02]).collect(),
                    2 => vec![0xff; 9].into_iter().chain([0x01]).collect(),
                    _ => vec![0x80, 0x80, 0x00],
                };
                b.splice(i..i, x);
            }
            10 | 11 => {
                // two or three numerals (neighbours: the fields of one header, the sizes of one
                // section, the numbers of one line; or anywhere) whose sum wraps
                let sp = numeral_spans(&b);
                let k = rng.range(2, 3) as usize;
                if sp.len() >= k {
                    let idx: Vec<usize> = if rng.chance(3, 4) {
                        let i = rng.below((sp.len() - k + 1) as u64) as usize;
                        (i..i + k).collect()
                    } else {
                        let mut v: Vec<usize> = (0..sp.len()).collect();
                        for i in (1..v.len()).rev() { let j = rng.below(i as u64 + 1) as usize; v.swap(i, j); }
                        v.truncate(k);
                        v.sort();
                        v
                    };
                    let first: u128 = std::str::from_utf8(&b[sp[0].0..sp[0].1]).ok().and_then(|t| t.parse().ok()).unwrap_or(0);
                    let t = wrap_tuple(rng, k, &[u64::MAX as u128, first, 2 * first + 1]);
                    for (j, i) in idx.iter().enumerate().rev() {
                        let (s0, e0) = sp[*i];
                        b.splice(s0..e0, t[j].to_string().into_bytes());
                    }
                }
            }
            12 => {
                // a junk token (a run of one byte value): in place of a numeral, at the start or the
                // end of a line, anywhere
                let run = junk_run(rng);
                let sp = numeral_spans(&b);
                match rng.below(4) {
                    0 if !sp.is_empty() => { let (s0, e0) = *rng.pick(&sp); b.splice(s0..e0, run); }
                    1 => {
                        let starts: Vec<usize> = std::iter::once(0).chain(b.iter().enumerate().filter(|(_, c)| **c == b'\n').map(|(i, _)| i + 1)).collect();
                        let at = *rng.pick(&starts);
                        b.splice(at..at, run);
                    }
                    2 => {
                        let ends: Vec<usize> = b.iter().enumerate().filter(|(_, c)| **c == b'\n').map(|(i, _)| i).chain(std::iter::once(b.len())).collect();
                        let at = *rng.pick(&ends);
                        b.splice(at..at, run);
                    }
                    _ => { let at = rng.below(b.len() as u64 + 1) as usize; b.splice(at..at, run); }
                }
            }
            _ => { let tails: &[&[u8]] = &[b"\n", b"c\n", b"c\nx", b"i0 x\n", b"c", b"\n\n"]; b.extend_from_slice(*rng.pick(tails)); }
        }
    }
    b
}

fn arbitrary(rng: &mut Rng, bin: bool) -> Vec<u8> {
    let mut b: Vec<u8> = vec![];
    if rng.chance(3, 4) { b.extend_from_slice(if bin { b"aig" } else { b"aag" }); }
    let n = rng.range(0, 40);
    let alpha: &[u8] = if rng.chance(1, 2) { b"0123456789 \n  \n01c" } else { b"0123456789 \n\t\rabcijlof\x80\xff\x00\x02" };
    for _ in 0..n {
        if rng.chance(1, 10) { b.push(rng.next() as u8); } else { b.push(*rng.pick(alpha)); }
    }
    b
}

/// Declared counts that are harmless one by one and wrap when added up: in two or three fields of
/// the header (any of M I L O A B C J F), as the sizes of the justice properties (followed by no
/// literal, a few, or exactly as many as the wrapped sum), as the numbers of a latch / gate line or
/// the deltas of a binary gate.
fn huge_sums(rng: &mut Rng, bin: bool, maxcode: u64) -> Vec<u8> {
    let mmax = (maxcode - 1) / 2;
    let magic = if bin { "aig" } else { "aag" };
    let lim = [u64::MAX as u128, mmax as u128, maxcode as u128];
    let k = rng.range(2, 3) as usize;
    let lit_lines = |rng: &mut Rng, b: &mut Vec<u8>, n: u64, m: u64| {
        for _ in 0..n { b.extend_from_slice(format!("{}\n", rng.below(2 * m.min(3) + 2)).as_bytes()); }
    };
    match rng.below(4) {
        0 => {
            // header fields
            let nf = rng.range(5, 9) as usize;
            let mut f: Vec<u128> = vec![0; nf];
            f[0] = *rng.pick(&[mmax as u128, mmax as u128, 0, 1, 3]);
            let t = wrap_tuple(rng, k, &[lim[0], f[0], lim[1], lim[2]]);
            let mut pos: Vec<usize> = (0..nf).collect();
            for i in (1..pos.len()).rev() { let j = rng.below(i as u64 + 1) as usize; pos.swap(i, j); }
            // mostly not the M field: the other limits depend on it
            if pos[..k].contains(&0) && rng.chance(3, 4) { pos.retain(|p| *p != 0); }
            pos.truncate(k);
            if rng.chance(1, 2) { pos.sort(); }
            for (p, v) in pos.iter().zip(t.iter()) { f[*p] = *v; }
            let mut b = format!("{} {}\n", magic, f.iter().map(|x| x.to_string()).collect::<Vec<_>>().join(" ")).into_bytes();
            let n = rng.below(4);
            lit_lines(rng, &mut b, n, f[0].min(3) as u64);
            b
        }
        1 | 2 => {
            // justice sizes: J properties, the tuple somewhere among their sizes
            let m = *rng.pick(&[0u64, 1, 3, mmax]);
            let extra = rng.below(3) as usize;
            let t = wrap_tuple(rng, k, &[lim[0], lim[0], lim[1], lim[2]]);
            let mut sizes: Vec<u128> = t.clone();
            for _ in 0..extra {
                let at = rng.below(sizes.len() as u64 + 1) as usize;
                sizes.insert(at, rng.below(3) as u128);
            }
            let nf = rng.below(3);
            let mut b = format!("{} {} 0 0 0 0 0 0 {}{}\n", magic, m, sizes.len(), if nf > 0 || rng.chance(1, 2) { format!(" {}", nf) } else { String::new() }).into_bytes();
            for x in &sizes { b.extend_from_slice(format!("{}\n", x).as_bytes()); }
            let total: u128 = sizes.iter().sum();
            let wrapped = (total % (1u128 << 64)) as u64;
            let n = match rng.below(4) {
                0 => 0,
                1 | 2 if wrapped <= 64 => wrapped + nf,
                _ => rng.below(6),
            };
            lit_lines(rng, &mut b, n, m);
            if rng.chance(1, 4) { b.extend_from_slice(b"c\n"); }
            b
        }
        _ => {
            // one latch or gate whose numbers / deltas are the tuple
            let t = wrap_tuple(rng, k, &[lim[0], lim[2], lim[2], 2 * mmax as u128]);
            let latch = rng.chance(1, 2);
            let mut b = format!("{} {} {} {} 0 {}\n", magic, mmax, if bin { mmax - 1 } else { 0 }, latch as u8, !latch as u8).into_bytes();
            if bin && !latch {
                for x in &t { b.extend_from_slice(&varint(*x, 0)); }
            } else {
                b.extend_from_slice(format!("{}\n", t.iter().map(|x| x.to_string()).collect::<Vec<_>>().join(" ")).as_bytes());
            }
            b
        }
    }
}

fn huge(rng: &mut Rng, bin: bool, maxcode: u64) -> Vec<u8> {
    if rng.chance(2, 5) { return huge_sums(rng, bin, maxcode); }
    let big = ["18446744073709551615", "18446744073709551614", "9223372036854775807", "9223372036854775806",
        "1099511627776", "4294967296", "1000000000", "16777216"];
    let mmax = (maxcode - 1) / 2;
    let mut f: Vec<String> = vec![mmax.to_string(), "0".into(), "0".into(), "0".into(), "0".into()];
    for _ in 0..rng.range(0, 4) { f.push("0".into()); }
    match rng.below(6) {
        0 => { f[1] = mmax.to_string(); }
        1 => { f[1] = (mmax - 1).to_string(); f[2] = "1".into(); }
        2 => { f[1] = (mmax - 1).to_string(); f[4] = "1".into(); }
        3 => { f[2] = mmax.to_string(); }
        4 => { f[4] = mmax.to_string(); }
        _ => {}
    }
    let n = rng.range(1, 3);
    for _ in 0..n {
        let i = rng.below(f.len() as u64) as usize;
        if i != 0 || rng.chance(1, 4) { f[i] = rng.pick(&big).to_string(); }
    }
    let mut b = format!("{} {}\n", if bin { "aig" } else { "aag" }, f.join(" ")).into_bytes();
    let body: &[&[u8]] = &[b"", b"0\n", b"2\n", b"0\n0\n", b"2 0\n", b"\x02\x02", b"18446744073709551615\n", b"0\n18446744073709551615\n1\n", b"2 3 2\n", b"c\n"];
    for _ in 0..rng.range(0, 3) { b.extend_from_slice(*rng.pick(body)); }
    b
}

/// How a line-source case walks through the sections: every item of every section (`stream`), no
/// item at all (`skip`), or a mix: a random subset of the sections is read (completely, or at most
/// the first 1..3 items of each), the others are left by calling the next transition right away.
pub fn ls_mode(rng: &mut Rng) -> String {
    match rng.below(8) {
        0..=2 => "stream".into(),
        3 => "skip".into(),
        _ => {
            let mask = match rng.below(4) {
                // all but one section / one section only / anything
                0 => 1023 & !(1u64 << rng.below(10)),
                1 => 1u64 << rng.below(10),
                _ => rng.below(1024),
            };
            if rng.chance(1, 3) { format!("m{}.{}", mask, rng.range(1, 3)) } else { format!("m{}", mask) }
        }
    }
}

/// One case line.  `opt` selects the family:
/// rt | layout | mutate | arbitrary | utf8 | huge | corrupt | fault | ls | scale[:valid|:err|:fault|:ls]
pub fn gen_case(rng: &mut Rng, opt: &str, thorough: bool) -> String {
    let (ty, maxcode) = *rng.pick(TYPES);
    let family = if opt.is_empty() || opt == "mix" {
        *rng.pick(&["rt", "rt", "layout", "layout", "mutate", "mutate", "arbitrary", "utf8", "huge", "corrupt", "fault", "ls"])
    } else {
        let fams: Vec<&str> = opt.split('+').collect();
        *rng.pick(&fams)
    };
    let bin = rng.chance(1, 2);
    let mode = match rng.below(10) { 0 | 1 => "parse", 2 => "skip", _ => "stream" };
    let mut case = Case {
        fmt: if bin { "aig" } else { "aag" }.into(), ty: ty.into(), mode: mode.into(),
        k: None, ls: false, data: vec![], expect: None, tok: None, w: 0,
        dtext: None, cut: None, post: None, chunk: None,
    };
    let circ = gen_circ(rng, bin, maxcode);
    match family {
        "rt" => {
            if bin && circ.input_count <= 16 && rng.chance(1, 4) {
                // the ordered circuit through the ASCII writer
                case.fmt = "aag".into();
                case.w = 2;
                case.data = write_real(&circ, ty, 2).expect("ascii writer panicked");
                let mut e = explicit(&circ);
                e.gates = circ.gates.clone();
                case.expect = Some(expected(&e, false, mode));
            } else {
                case.w = 1;
                case.data = write_real(&circ, ty, if bin { 1 } else { 0 }).expect("writer panicked");
                case.expect = Some(expected(&circ, bin, mode));
            }
        }
        "layout" => {
            case.data = render(rng, &circ, bin, false).bytes;
            case.expect = Some(expected(&circ, bin, mode));
        }
        "mutate" => {
            let plain = rng.chance(1, 2);
            let r = render(rng, &circ, bin, plain);
            case.data = mutate(rng, r.bytes);
        }
        "dict" => {
            let r = render(rng, &circ, bin, true);
            let mut b = r.bytes;
            dict_splice(rng, &mut b);
            case.data = b;
        }
        "arbitrary" => {
            case.data = arbitrary(rng, bin);
        }
        "huge" => {
            case.data = huge(rng, bin, maxcode);
        }
        "utf8" => {
            // byte strings from the UTF-8 edge pool as symbol names and comment
            let mut c = circ.clone();
            if c.outputs.is_empty() { c.outputs.push(0); }
            c.symbols = vec![('o', 0, "@@1".into()), ('o', 0, "@@2".into())];
            c.comment = if rng.chance(1, 2) { Some("@@3".into()) } else { None };
            let mut b = render(rng, &c, bin, true).bytes;
            for marker in [&b"@@1"[..], b"@@2", b"@@3"] {
                if let Some(p) = b.windows(3).position(|w| w == marker) {
                    let mut r: Vec<u8> = vec![];
                    for _ in 0..rng.range(0, 3) {
                        match rng.below(3) {
                            0 => r.extend_from_slice(rng.pick(NAMES).as_bytes()),
                            1 => r.extend_from_slice(*rng.pick(BAD_UTF8)),
                            _ => r.push(rng.range(0x20, 0xff) as u8),
                        }
                    }
                    if marker == b"@@3" && rng.chance(1, 3) { r.extend_from_slice(b"\nmore"); }
                    b.splice(p..p + 3, r);
                }
            }
            if c.comment.is_some() && rng.chance(1, 4) { b.pop(); }
            case.data = b;
        }
        "corrupt" => {
            let mut c = circ.clone();
            if c.outputs.is_empty() { c.outputs.push(0); }
            let variant = rng.below(6);
            if variant == 0 && c.justice.len() < 2 {
                // the sums variant wants several justice properties
                while c.justice.len() < 2 + rng.below(2) as usize {
                    let n = small(rng);
                    let m = c.m;
                    c.justice.push((0..n).map(|_| rand_lit(rng, m, &[])).collect());
                }
            }
            let r = render(rng, &c, bin, true);
            let mmax = (maxcode - 1) / 2;
            if variant == 0 {
                // several count tokens at once: numbers that are fine one by one and whose running
                // sum crosses a limit (the sizes of the justice properties against `usize`, the
                // header's I, L, A against M, any fields of the header).  Where the text must be
                // refused follows from plain arithmetic on the numbers.
                let k = rng.range(2, 3) as usize;
                let js: Vec<usize> = (0..r.toks.len()).filter(|i| r.toks[*i].kind == TokKind::JusticeSize).collect();
                let hs: Vec<usize> = (0..r.toks.len()).filter(|i| matches!(r.toks[*i].kind, TokKind::Header(_))).collect();
                let num = |i: usize| -> u128 { std::str::from_utf8(&r.bytes[r.toks[i].off..r.toks[i].off + r.toks[i].len]).unwrap().parse().unwrap() };
                let mut repl: Vec<(usize, u128)> = vec![]; // (token index, new value)
                let mut bad: Option<usize> = None; // token index at which the text must be refused
                if js.len() >= k && rng.chance(1, 2) {
                    let at = rng.below((js.len() - k + 1) as u64) as usize;
                    let t = wrap_tuple(rng, k, &[u64::MAX as u128]);
                    for j in 0..k { repl.push((js[at + j], t[j])); }
                    let mut total: u128 = 0;
                    for i in &js {
                        let v = repl.iter().find(|(ti, _)| ti == i).map(|(_, v)| *v).unwrap_or_else(|| num(*i));
                        if total + v > u64::MAX as u128 { bad = Some(*i); break; }
                        total += v;
                    }
                } else {
                    let group: Vec<usize> = match rng.below(3) {
                        0 => hs.iter().copied().filter(|i| matches!(r.toks[*i].kind, TokKind::Header(1) | TokKind::Header(2) | TokKind::Header(4))).collect(),
                        1 => hs.iter().copied().filter(|i| !matches!(r.toks[*i].kind, TokKind::Header(0))).collect(),
                        _ => hs.clone(),
                    };
                    let mut pick = group.clone();
                    for i in (1..pick.len()).rev() { let j = rng.below(i as u64 + 1) as usize; pick.swap(i, j); }
                    pick.truncate(k);
                    let t = wrap_tuple(rng, pick.len().max(2), &[c.m as u128, c.m as u128, u64::MAX as u128, mmax as u128]);
                    for (j, i) in pick.iter().enumerate() { repl.push((*i, t[j])); }
                    let vals: Vec<u128> = hs.iter().map(|i| repl.iter().find(|(ti, _)| ti == i).map(|(_, v)| *v).unwrap_or_else(|| num(*i))).collect();
                    bad = header_violation(&vals, mmax).map(|fi| hs[fi]);
                }
                let mut b = r.bytes.clone();
                repl.sort();
                for (i, v) in repl.iter().rev() {
                    let t = &r.toks[*i];
                    b.splice(t.off..t.off + t.len, v.to_string().into_bytes());
                }
                if let Some(bi) = bad {
                    let t = &r.toks[bi];
                    // replaced tokens in front of it on the same line move it
                    let shift: isize = repl.iter().filter(|(i, _)| *i < bi && r.toks[*i].line == t.line)
                        .map(|(i, v)| v.to_string().len() as isize - r.toks[*i].len as isize).sum();
                    let len = repl.iter().find(|(i, _)| *i == bi).map(|(_, v)| v.to_string().len()).unwrap_or(t.len);
                    case.tok = Some((t.line, (t.col as isize + shift) as usize, len));
                }
                case.data = b;
                return case.line();
            }
            if variant == 1 {
                // a junk token in place of a token: the text must be refused right there
                let t = rng.pick(&r.toks);
                let run = junk_run(rng);
                let mut b = r.bytes.clone();
                b.splice(t.off..t.off + t.len, run.clone());
                case.data = b;
                let structural = run[0].is_ascii_digit() || matches!(run[0], b' ' | b'\n' | b'\r' | b'\t');
                if !matches!(t.kind, TokKind::Delta(_)) && !structural {
                    case.tok = Some((t.line, t.col, 0));
                }
                return case.line();
            }
            let t = rng.pick(&r.toks);
            let old = &r.bytes[t.off..t.off + t.len];
            let ni = if bin { c.input_count } else { c.inputs.len() as u64 };
            let overflow = || b"99999999999999999999999".to_vec();
            let repl: Vec<u8> = match (t.kind, rng.below(4)) {
                (TokKind::Delta(from), 0) => varint(from as u128 + 1, 0),
                (TokKind::Delta(_), 1) => vec![0x80; 10],
                (TokKind::Delta(_), 2) => {
                    if rng.chance(1, 2) {
                        vec![0xff, 0xff, 0xff, 0xff, 0xff, 0xff, 0xff, 0xff, 0xff, 0x02]
                    } else {
                        // wrap class: the true delta plus h * 2^64 — a decoder that drops the bits
                        // shifted out of the tenth byte would read the valid delta back
                        let mut v: u128 = 0;
                        for (i, byte) in old.iter().enumerate() { v |= ((byte & 0x7f) as u128) << (7 * i); }
                        varint(v + ((rng.range(1, 63) as u128) << 64), 0)
                    }
                }
                (TokKind::Delta(from), _) => varint(from as u128 + 1 + rng.below(1000) as u128, 0),
                (_, 0) => overflow(),
                (_, 1) => if rng.chance(1, 2) { b"x".to_vec() } else { [old, b"x"].concat() },
                (TokKind::JusticeSize, _) => [b"0", old].concat(),
                (_, 2) => [b"0", old].concat(),
                (TokKind::Header(0), _) => (mmax as u128 + 1).to_string().into_bytes(),
                (TokKind::Header(1), _) => (c.m as u128 + 1).to_string().into_bytes(),
                (TokKind::Header(2), _) => ((c.m - ni) as u128 + 1).to_string().into_bytes(),
                (TokKind::Header(4), _) => ((c.m - ni - c.latches.len() as u64) as u128 + 1).to_string().into_bytes(),
                (TokKind::Header(_), _) => overflow(),
                (TokKind::DefLit, _) => if rng.chance(1, 2) { b"0".to_vec() } else {
                    let v: u64 = std::str::from_utf8(old).unwrap().parse().unwrap();
                    (v + 1).to_string().into_bytes()
                },
                (TokKind::Lit, _) => (2 * c.m as u128 + 2).to_string().into_bytes(),
                (TokKind::Init(state), _) => (state as u128 + 2).to_string().into_bytes(),
                (TokKind::SymIndex(count), _) => (count as u128 + rng.below(2) as u128).to_string().into_bytes(),
            };
            let mut b = r.bytes.clone();
            b.splice(t.off..t.off + t.len, repl.clone());
            case.data = b;
            case.tok = Some((t.line, t.col, repl.len()));
        }
        "fault" => {
            let plain = rng.chance(1, 2);
            let r = render(rng, &circ, bin, plain);
            let data = if rng.chance(1, 4) { mutate(rng, r.bytes) } else { r.bytes };
            case.k = Some(rng.range(0, data.len() as u64) as usize);
            case.data = data;
        }
        "ls" => {
            let r = render(rng, &circ, bin, false);
            case.data = if rng.chance(1, 4) { mutate(rng, r.bytes) } else { r.bytes };
            case.ls = true;
            case.mode = ls_mode(rng);
            // one byte per read in a third of the cases: `@<delivered>` is then exactly how far
            // the parser looked
            if rng.chance(1, 3) { case.chunk = Some(1); }
        }
        f if f.starts_with("scale") => return gen_scale(rng, f, thorough),
        _ => panic!("unknown family {}", family),
    }
    case.line()
}

/// Every fault offset of one document (C04 thorough): returns several case lines.
pub fn fault_sweep(rng: &mut Rng) -> Vec<String> {
    let (ty, maxcode) = *rng.pick(TYPES);
    let bin = rng.chance(1, 2);
    let mode = if rng.chance(1, 4) { "parse" } else { "stream" };
    let circ = gen_circ(rng, bin, maxcode);
    let r = render(rng, &circ, bin, false);
    (0..=r.bytes.len())
        .map(|k| Case {
            fmt: if bin { "aig" } else { "aag" }.into(), ty: ty.into(), mode: mode.into(), k: Some(k), ls: false,
            data: r.bytes.clone(), expect: None, tok: None, w: 0,
            dtext: None, cut: None, post: None, chunk: None,
        }.line())
        .collect()
}

// ------------------------------------------------------------------ scale family (`--opt scale`)
//
// Every size-like dimension of an AIGER file is taken beyond 2^20: the number of entries of each
// section (inputs, latches, outputs, bad, constraints, justice properties, literals of one justice
// property, fairness, and gates, symbols), the length of a symbol name and of the comment, the
// byte position of everything that follows (long numerals make 40-byte lines, so a position beyond
// 1 MiB needs only ~30k items), the length of a run of one byte class in front of an error, the
// value of the counters (M, I up to the literal type's limit, multi-byte deltas).  Sizes come from
// `common::scale_sizes` (around powers of two and around every integer constant of the source).
// A document is a short list of data-field segments, so a 4 MiB case is a line of ~200 bytes.
//
// One case = one well-formed document in which several dimensions have a scale size (one
// "primary" dimension, rotating over (format, section), may get a size > 2^17 when the running
// item budget allows) + a tail event: none (valid; modes stream / parse / skip, `w=1`), `cut`
// (truncated), corrupt (`cut` + `post`: a bad token or a run of spaces / digits / zeros /
// newlines / 0x80 at a token start, with the exact location in `t`), `k` (io fault), `ls=1`
// (one line per read, chunk `c`).  Tail positions are mostly near the end of the document.

use std::collections::HashSet;
use std::sync::Mutex;

#[derive(Clone, Copy, PartialEq, Eq, Hash, Debug)]
enum Dim { Inputs, Latches, Outputs, Bad, Constraints, JusticeCount, JusticeSize, Fairness, Gates, Symbols, Name, Comment }

/// (binary, dimension) pairs whose size is a number of items; the primary dimension rotates over these.
const ITEM_DIMS: &[(bool, Dim)] = &[
    (true, Dim::Gates), (false, Dim::Outputs), (false, Dim::Gates), (true, Dim::Latches), (false, Dim::Inputs),
    (true, Dim::Fairness), (false, Dim::JusticeSize), (true, Dim::Symbols), (false, Dim::Latches), (true, Dim::Bad),
    (false, Dim::JusticeCount), (true, Dim::Outputs), (false, Dim::Constraints), (true, Dim::JusticeSize),
    (false, Dim::Symbols), (true, Dim::Constraints), (false, Dim::Fairness), (true, Dim::JusticeCount), (false, Dim::Bad),
];

/// Sizes up to this are "cheap": several dimensions of one case may have one.
const CHEAP: usize = 1 << 17;

struct ScaleState {
    index: usize,
    spent: usize,
    big_slots: usize,
    seen: HashSet<(bool, Dim, usize)>,
    /// candidate sizes in order of preference: (size, derived from a source constant)
    cheap: Vec<usize>,
    big: Vec<usize>,
    all: Vec<usize>,
}

static SCALE: Mutex<Option<ScaleState>> = Mutex::new(None);

fn scale_state_new() -> ScaleState {
    let mut all = scale_sizes(10, 21);
    let hi = (1u128 << 21) + 64;
    // exact multiples of 2^k + 1 (something that happens every 2^k + 1 items happens 2, 3, 5 times)
    for k in 10u32..=20 {
        for mult in [2usize, 3, 5] {
            let x = mult * ((1usize << k) + 1);
            if (x as u128) <= hi && !all.contains(&x) { all.push(x); }
        }
    }
    all.sort();
    // sizes derived from a source constant, with the rank of the derivation: just above the
    // constant first, then one period more, the constant itself, ...
    let mut ranked: Vec<(usize, usize)> = vec![];
    for c in source_consts() {
        let c = c as u128;
        let d = [c + 1, 2 * c + 1, c, c + 8, c.saturating_sub(1), c + 9, 2 * c, 3 * (c + 1), 4 * c + 4, 5 * (c + 1)];
        for (rank, x) in d.iter().enumerate() {
            if *x >= 1024 && *x <= hi && all.contains(&(*x as usize)) {
                ranked.push((rank, *x as usize));
            }
        }
    }
    ranked.sort();
    let mut pref: Vec<usize> = vec![];
    for (_, x) in &ranked {
        if !pref.contains(x) { pref.push(*x); }
    }
    // then around the powers of two: just beyond 2^20, just beyond 2^21, then the other sizes
    // around the two, then downwards
    for off in [1isize, 9, 0, -1, 3, 8] {
        for k in [20u32, 21] {
            let x = ((1isize << k) + off) as usize;
            if all.contains(&x) && !pref.contains(&x) { pref.push(x); }
        }
    }
    for k in [19u32, 18, 17, 16, 15, 14, 13, 12, 11, 10] {
        let p = 1usize << k;
        for x in [p + 1, p + 9, p, p - 1, p + 3, p + 8] {
            if all.contains(&x) && !pref.contains(&x) { pref.push(x); }
        }
    }
    for x in &all {
        if !pref.contains(x) { pref.push(*x); }
    }
    ScaleState {
        index: 0, spent: 0, big_slots: 0, seen: HashSet::new(),
        cheap: pref.iter().copied().filter(|x| *x <= CHEAP).collect(),
        big: pref.iter().copied().filter(|x| *x > CHEAP).collect(),
        all,
    }
}

/// A document under construction: compact field text and expanded bytes side by side.
struct Doc { segs: Vec<String>, lit: Vec<u8>, bytes: Vec<u8> }

impl Doc {
    fn new() -> Doc { Doc { segs: vec![], lit: vec![], bytes: vec![] } }
    fn flush(&mut self) {
        if !self.lit.is_empty() {
            self.segs.push(compact_field(&self.lit));
            self.lit.clear();
        }
    }
    fn text(&mut self, b: &[u8]) {
        self.lit.extend_from_slice(b);
        self.bytes.extend_from_slice(b);
    }
    fn rep(&mut self, count: usize, pat: &[u8]) {
        if count == 0 || pat.is_empty() { return; }
        if count * pat.len() <= 48 {
            for _ in 0..count { self.text(pat); }
            return;
        }
        self.flush();
        self.segs.push(format!("r{}.{}", count, hex(pat)));
        for _ in 0..count { self.bytes.extend_from_slice(pat); }
    }
    fn nums(&mut self, count: usize, start: u64, step: u64, pre: &[u8], suf: &[u8]) {
        if count == 0 { return; }
        self.flush();
        self.segs.push(format!("n{}.{}.{}.{}.{}", count, start, step, hex(pre), hex(suf)));
        for i in 0..count as u64 {
            self.bytes.extend_from_slice(pre);
            self.bytes.extend_from_slice((start + i * step).to_string().as_bytes());
            self.bytes.extend_from_slice(suf);
        }
    }
    fn field(&mut self) -> String {
        self.flush();
        if self.segs.is_empty() { "-".into() } else { self.segs.join("+") }
    }
}

/// The next size for `(bin, dim)` from the cheap / big list that this dimension has not had yet
/// and that is at most `cap`; when all have been seen (and one time in six), a random one from the
/// list or a random size in between.
fn next_size(st: &ScaleState, rng: &mut Rng, bin: bool, dim: Dim, big: bool, cap: usize) -> Option<usize> {
    let list = if big { &st.big } else { &st.cheap };
    let fit: Vec<usize> = list.iter().copied().filter(|x| *x <= cap).collect();
    if fit.is_empty() { return None; }
    Some(match fit.iter().find(|x| !st.seen.contains(&(bin, dim, **x))) {
        Some(x) if !rng.chance(1, 6) => *x,
        _ => {
            if rng.chance(1, 2) { *rng.pick(&fit) } else {
                // a size in between, log-uniform
                let lo = *fit.iter().min().unwrap() as f64;
                let hi = *fit.iter().max().unwrap() as f64;
                let u = rng.below(1 << 20) as f64 / (1u64 << 20) as f64;
                (lo * (hi / lo).powf(u)) as usize
            }
        }
    })
}

const SCALE_NAMES: &[&str] = &["x", "", "a b", "n\u{e4}me", "in 0", "\u{65e5}\u{672c}", "c", "i0 y"];
const NAME_PATS: &[&str] = &["a", "ab ", " ", "\u{e4}", "\u{20ac}", "\u{1f600}", "x\u{7ff}y"];
const COMMENT_PATS: &[&str] = &["x", "\n", "line\n", "c\n", "\u{20ac}", "\u{10ffff}\n", "a b\tc "];
const ALL_DIMS: [Dim; 12] = [Dim::Inputs, Dim::Latches, Dim::Outputs, Dim::Bad, Dim::Constraints, Dim::JusticeCount,
    Dim::JusticeSize, Dim::Fairness, Dim::Gates, Dim::Symbols, Dim::Name, Dim::Comment];

/// What a scale document looks like, before it is rendered.
#[derive(Clone)]
struct Plan {
    bin: bool,
    maxcode: u64,
    size: std::collections::HashMap<Dim, u64>,
    /// literals at the top of the type's range: long numerals, wide lines, multi-byte deltas
    wide: bool,
    primary: Dim,
    /// a long symbol name comes first in the symbol table: the other symbols, the comment and the
    /// tail event sit behind it (a stream position beyond 1 MiB that costs few items)
    late: bool,
    /// a big slot: short lines (small constant literals) in the bulk sections
    lean: bool,
}

struct Built {
    d: Doc,
    /// estimated cost of the case in microseconds of model time (the implementation is cheaper)
    cost: usize,
    canonical: bool,
    block: Option<(usize, usize, usize)>, // (start, end, bytes per gate) of the binary and-gate block
    block_line: usize,
    sym_start: usize,
    /// end of the long name's line when it comes first, start of the comment (or end of file)
    name_end: usize,
    tail_start: usize,
    /// a symbol kind that exists, with the number of entries of its section
    kind: Option<(char, u64)>,
    nl: u64, na: u64, nj: u64, js: u64,
}

/// Render a plan.  All random choices come from `rng` (the caller passes a copy of the same state
/// when it renders a plan again with smaller sizes).
fn build_scale(plan: &Plan, rng: &mut Rng, all_sizes: &[usize]) -> Built {
    let (bin, maxcode, size, wide) = (plan.bin, plan.maxcode, &plan.size, plan.wide);
    let pdim = plan.primary;
    let mmax = (maxcode - 1) / 2;
    let js = size[&Dim::JusticeSize];
    let nj = if js > 0 && size[&Dim::JusticeCount] == 0 { 1 } else { size[&Dim::JusticeCount] };
    // the other justice properties: 0, 1 or 2 literals each (fewer when there are many)
    let jc: u64 = if nj > (1 << 20) + 64 { 0 } else if nj > 4096 { rng.below(2) } else { rng.below(3) };
    let (mut nl, no, nb, nc, nf, mut na) = (size[&Dim::Latches], size[&Dim::Outputs], size[&Dim::Bad], size[&Dim::Constraints], size[&Dim::Fairness], size[&Dim::Gates]);
    let mut ni = if bin { 0 } else { size[&Dim::Inputs] };
    // small literal types: the sections that define variables must fit (the type limit is the scale)
    while ni as u128 + nl as u128 + na as u128 > mmax as u128 {
        if pdim != Dim::Gates && na > 0 { na /= 2; } else if pdim != Dim::Latches && nl > 0 { nl /= 2; } else if pdim != Dim::Inputs && ni > 0 { ni /= 2; }
        else if na > mmax { na = mmax; } else if nl > mmax { nl = mmax; } else if ni > mmax { ni = mmax; } else if na > 0 { na -= 1; } else if nl > 0 { nl -= 1; } else { ni -= 1; }
    }
    let used = ni + nl + na;
    let mut v0: u64 = 0; // aag: variables v0+1.. are the defined ones
    if bin {
        // the input count is only a number in the header: small, a scale size, or close to the type limit
        let room_i = mmax - nl - na;
        ni = match rng.below(4) {
            0 => rng.below(3).min(room_i),
            1 => (*rng.pick(all_sizes) as u64).min(room_i),
            _ if wide => room_i - rng.below(4).min(room_i),
            _ => rng.range(0, 70).min(room_i),
        };
    } else if wide {
        v0 = mmax - used - rng.below(3).min(mmax - used);
    }
    let defined = if bin { ni + nl + na } else { v0 + used };
    let m = if wide { mmax - rng.below(2).min(mmax - defined) } else {
        match rng.below(3) { 0 => defined, _ => defined + rng.below(5).min(mmax - defined) }
    };
    let maxlit: u128 = 2 * m as u128 + 1;
    let fixed_lit = |rng: &mut Rng| -> u64 {
        let c: [u128; 6] = [0, 1, maxlit, maxlit - 1, 2, 3];
        (*rng.pick(&c)).min(maxlit) as u64
    };
    let mut canonical = true;

    let mut d = Doc::new();
    let need_sym = size[&Dim::Symbols] > 0 || size[&Dim::Name] > 0;
    let no = if need_sym && ni + nl + no + nb + nc + nj + nf == 0 { 1 } else { no };
    let h = [m, ni, nl, no, na, nb, nc, nj, nf];
    let mut need = 9;
    while need > 5 && h[need - 1] == 0 { need -= 1; }
    let fields = if rng.chance(1, 5) { canonical = need == 9; 9 } else { need };
    d.text(if bin { b"aig" } else { b"aag" });
    for f in h.iter().take(fields) { d.text(format!(" {}", f).as_bytes()); }
    d.text(b"\n");
    // inputs
    if !bin {
        d.nums(ni as usize, (v0 + 1).wrapping_mul(2), 2, b"", b"\n");
    }
    // latches
    {
        let next = fixed_lit(rng);
        let first_state = if bin { (ni + 1).wrapping_mul(2) } else { (v0 + ni + 1).wrapping_mul(2) };
        let init = if plan.lean { rng.below(2) } else { rng.below(4) };
        if bin {
            match init {
                0 => d.rep(nl as usize, format!("{}\n", next).as_bytes()),
                1 => d.rep(nl as usize, format!("{} 1\n", next).as_bytes()),
                2 => { if nl > 0 { canonical = false; } d.rep(nl as usize, format!("{} 0\n", next).as_bytes()) }
                // uninitialised: the latch's own literal
                _ => d.nums(nl as usize, first_state, 2, format!("{} ", next).as_bytes(), b"\n"),
            }
        } else {
            match init {
                0 | 3 => d.nums(nl as usize, first_state, 2, b"", format!(" {}\n", next).as_bytes()),
                1 => d.nums(nl as usize, first_state, 2, b"", format!(" {} 1\n", next).as_bytes()),
                _ => { if nl > 0 { canonical = false; } d.nums(nl as usize, first_state, 2, b"", format!(" {} 0\n", next).as_bytes()) }
            }
        }
    }
    // outputs, bad, constraints, justice literals, fairness: one literal per line
    let lit_section = |d: &mut Doc, rng: &mut Rng, count: u64| {
        if count > 0 && !plan.lean && rng.chance(1, 2) && (count as u128 - 1) <= maxlit {
            // increasing literals, ending at the largest one half of the time
            let start = if wide || rng.chance(1, 2) { (maxlit - (count as u128 - 1)) as u64 } else { 0 };
            d.nums(count as usize, start, 1, b"", b"\n");
        } else {
            let l = if wide { (maxlit - rng.below(2) as u128) as u64 } else { fixed_lit(rng) };
            d.rep(count as usize, format!("{}\n", l).as_bytes());
        }
    };
    lit_section(&mut d, rng, no);
    lit_section(&mut d, rng, nb);
    lit_section(&mut d, rng, nc);
    // justice: sizes, then literals
    let mut jtotal: u64 = 0;
    if nj > 0 {
        if js > 0 {
            let special_first = rng.chance(1, 2);
            if special_first { d.text(format!("{}\n", js).as_bytes()); }
            d.rep(nj as usize - 1, format!("{}\n", jc).as_bytes());
            if !special_first { d.text(format!("{}\n", js).as_bytes()); }
            jtotal = js + (nj - 1) * jc;
        } else {
            d.rep(nj as usize, format!("{}\n", jc).as_bytes());
            jtotal = nj * jc;
        }
    }
    lit_section(&mut d, rng, jtotal);
    lit_section(&mut d, rng, nf);
    // and gates
    let mut block: Option<(usize, usize, usize)> = None;
    let block_line = d.bytes.iter().filter(|b| **b == b'\n').count() + 1;
    if bin {
        let lhs0 = (ni + nl + 1).wrapping_mul(2); // only used when there are gates
        // constant deltas: valid for the first gate, hence for all
        let pick_delta = |rng: &mut Rng, max: u64| -> u64 {
            let v = match rng.below(8) {
                0 => 0, 1 => 1, 2 | 3 => 2, 4 => 10, 5 if wide => max,
                _ if wide => { let j = rng.range(1, 9) as u32; (1u64 << (7 * j).min(63)).wrapping_add(rng.range(0, 2)).wrapping_sub(1) }
                _ => rng.below(128),
            };
            v.min(max)
        };
        let d0 = pick_delta(rng, lhs0);
        let d1 = pick_delta(rng, lhs0 - d0);
        let pad = |rng: &mut Rng, v: u64| -> Vec<u8> {
            let enc = varint(v as u128, 0);
            if wide && rng.chance(1, 4) { varint(v as u128, rng.range(enc.len() as u64, 10) as usize) } else { enc }
        };
        let (e0, e1) = (pad(rng, d0), pad(rng, d1));
        if na > 0 && (e0 != varint(d0 as u128, 0) || e1 != varint(d1 as u128, 0)) { canonical = false; }
        let gate = [e0, e1].concat();
        let b0 = d.bytes.len();
        d.rep(na as usize, &gate);
        block = Some((b0, d.bytes.len(), gate.len()));
    } else {
        let (a, b) = if wide { ((maxlit - 1) as u64, maxlit as u64) } else { (fixed_lit(rng), fixed_lit(rng)) };
        d.nums(na as usize, (v0 + ni + nl + 1).wrapping_mul(2), 2, b"", format!(" {} {}\n", a, b).as_bytes());
    }
    let sym_start = d.bytes.len();
    // symbols
    let kinds: Vec<(char, u64)> = [('i', ni), ('l', nl), ('o', no), ('b', nb), ('c', nc), ('j', nj), ('f', nf)]
        .into_iter().filter(|(_, n)| *n > 0).collect();
    let ns = if plan.late { size[&Dim::Symbols].max(3) } else { size[&Dim::Symbols] };
    let name_len = size[&Dim::Name] as usize;
    let long_name = |d: &mut Doc, rng: &mut Rng| {
        if name_len > 0 && !kinds.is_empty() {
            let (k, n) = *rng.pick(&kinds);
            d.text(format!("{}{} ", k, if rng.chance(1, 2) { n - 1 } else { 0 }).as_bytes());
            let pat = rng.pick(NAME_PATS).as_bytes();
            d.rep(name_len.div_ceil(pat.len()), pat);
            d.text(b"\n");
        }
    };
    let name_first = rng.chance(1, 2) || plan.late;
    if name_first { long_name(&mut d, rng); }
    let name_end = d.bytes.len();
    let mut nsyms = 0;
    if ns > 0 && !kinds.is_empty() {
        let (k, n) = *rng.pick(&kinds);
        let nm = *rng.pick(SCALE_NAMES);
        if n >= ns && rng.chance(2, 3) {
            d.nums(ns as usize, 0, 1, &[k as u8], format!(" {}\n", nm).as_bytes());
        } else {
            d.rep(ns as usize, format!("{}{} {}\n", k, n - 1, nm).as_bytes());
        }
        nsyms = ns;
    }
    if !name_first { long_name(&mut d, rng); }
    let tail_start = d.bytes.len();
    // comment
    let clen = size[&Dim::Comment] as usize;
    if clen > 0 || rng.chance(1, 4) {
        d.text(b"c\n");
        let pat = rng.pick(COMMENT_PATS).as_bytes();
        d.rep(clen.div_ceil(pat.len()), pat);
        if rng.chance(1, 2) { d.text(b"tail"); }
        d.text(b"\n");
    }
    let items = (ni * (!bin as u64) + nl + no + nb + nc + nj + jtotal + nf + na + nsyms) as usize;
    // measured on the Lean model (whole quick run, an otherwise busy machine): ~1 us per byte of
    // numerals / deltas, ~1 us per item, ~0.3 us per byte of a name or comment
    let cheap_bytes = name_len + (d.bytes.len() - tail_start);
    let cost = (d.bytes.len() - cheap_bytes.min(d.bytes.len())) + items + cheap_bytes / 3;
    let kind = kinds.first().copied();
    Built { d, cost, canonical, block, block_line, sym_start, name_end, tail_start, kind, nl, na, nj, js }
}

pub fn gen_scale(rng: &mut Rng, opt: &str, thorough: bool) -> String {
    let mut guard = SCALE.lock().unwrap();
    if guard.is_none() { *guard = Some(scale_state_new()); }
    let st = guard.as_mut().unwrap();
    let index = st.index;
    st.index += 1;

    // ---- tail event and mode
    let tails: &[&str] = match opt {
        "scale:valid" => &["valid"],
        "scale:err" => &["corrupt", "cut", "corrupt"],
        "scale:fault" => &["fault"],
        "scale:ls" => &["ls"],
        _ => &["valid", "valid", "valid", "ls", "ls", "corrupt", "corrupt", "cut", "fault", "fault"],
    };
    // Budget, in estimated microseconds of model time: `avg` per case.  An ordinary case uses at
    // most half of it; the rest accumulates in a pool (which starts with ten cases' worth: room for
    // one document with more than 2^20 items right away).  The (format, section) pairs take turns
    // at the pool: as soon as it covers the next size beyond 2^17 that the pair at the front has not
    // had yet (2^20 + 1 first; capped per case at `cap`), the case becomes a "big slot" for it.
    let avg: usize = if thorough { 1_000_000 } else { 400_000 };
    let cap: usize = if thorough { 20_000_000 } else { 5_000_000 };
    let room = (avg * (index + 10)).saturating_sub(st.spent);
    let (bbin, bdim) = ITEM_DIMS[st.big_slots % ITEM_DIMS.len()];
    // rough cost per item of a section (bytes per line + 1)
    let per_item = |bin: bool, d: Dim| -> usize {
        match (bin, d) {
            (false, Dim::Inputs) => 9, (false, Dim::Latches) => 12, (true, Dim::Latches) => 5,
            (false, Dim::Gates) => 13, (true, Dim::Gates) => 3, (_, Dim::Symbols) => 7, (_, Dim::JusticeCount) => 6,
            _ => 3,
        }
    };
    let big_size: Option<usize> = st.big.iter().copied()
        .filter(|x| !st.seen.contains(&(bbin, bdim, *x)) && per_item(bbin, bdim) * x <= cap)
        .next()
        .or_else(|| st.big.iter().copied().find(|x| per_item(bbin, bdim) * x <= cap));
    let big_slot = match big_size { Some(x) => room >= per_item(bbin, bdim) * x * 11 / 10, None => false };
    let (bin, pdim) = if big_slot { (bbin, bdim) } else { ITEM_DIMS[(index * 7 + index / ITEM_DIMS.len()) % ITEM_DIMS.len()] };
    // big slots walk through the tail events and modes so that few of them cover all
    let tail: &str = if big_slot { tails[(st.big_slots * 3) % tails.len()] } else { *rng.pick(tails) };
    let mut mode: String = if tail == "ls" {
        // big slots: the fully streamed walk (the one that visits every item beyond the size)
        if big_slot { "stream".into() } else { ls_mode(rng) }
    } else if big_slot {
        ["stream", "parse", "skip", "stream"][st.big_slots % 4].into()
    } else {
        match rng.below(10) { 0..=2 => "parse", 3 | 4 => "skip", _ => "stream" }.into()
    };
    if big_slot { st.big_slots += 1; }
    let target = if big_slot { room.max(avg) } else { avg / 2 };

    // ---- literal type (a big slot for a section that defines variables needs a type with room)
    let is_var = |d: Dim| matches!(d, Dim::Inputs | Dim::Latches | Dim::Gates);
    let (ty, maxcode) = match rng.below(10) {
        0 | 1 if big_slot && is_var(pdim) => TYPES[2],
        0 => TYPES[0], 1 => TYPES[1], 2..=4 => TYPES[2], 5..=7 => TYPES[3], _ => TYPES[4],
    };
    let mmax = (maxcode - 1) / 2;

    // ---- sizes of the dimensions
    let hi = (1usize << 21) + 64;
    let late = tail != "valid" && rng.chance(1, if tail == "ls" { 2 } else { 3 });
    let mut plan = Plan { bin, maxcode, size: Default::default(), wide: !big_slot && rng.chance(1, 2), primary: pdim, late, lean: big_slot };
    for d in ALL_DIMS { plan.size.insert(d, small(rng)); }
    for d in [Dim::JusticeSize, Dim::Name, Dim::Comment] { plan.size.insert(d, 0); }
    let var_cap = |d: Dim| if is_var(d) { (mmax.min(hi as u64)) as usize } else { hi };
    let mut scaled: Vec<Dim> = vec![];
    {
        let s = if big_slot { big_size } else {
            next_size(st, rng, bin, pdim, false, var_cap(pdim))
        };
        // small literal types: the type limit is the scale
        let s = s.or(if is_var(pdim) { Some((mmax - rng.below(3)) as usize) } else { None });
        if let Some(s) = s { plan.size.insert(pdim, s as u64); }
    }
    let mut order: Vec<Dim> = ALL_DIMS.iter().copied().filter(|d| *d != pdim && !(bin && *d == Dim::Inputs)).collect();
    for i in (1..order.len()).rev() {
        let j = rng.below(i as u64 + 1) as usize;
        order.swap(i, j);
    }
    for d in order {
        if !rng.chance(1, 2) { continue; }
        // a big slot spends its budget on the primary dimension
        if big_slot && !matches!(d, Dim::Name | Dim::Comment) { continue; }
        let bigone = matches!(d, Dim::Name | Dim::Comment) && rng.chance(1, 3);
        if let Some(s) = next_size(st, rng, bin, d, bigone, var_cap(d)) {
            plan.size.insert(d, s as u64);
            scaled.push(d);
        }
    }
    if late {
        // the long name: a size beyond 2^17 this dimension has not had yet
        if let Some(s) = next_size(st, rng, bin, Dim::Name, true, hi) { plan.size.insert(Dim::Name, s as u64); }
        scaled.retain(|d| *d != Dim::Name);
    }
    // render; while the estimated cost exceeds the target: narrow numerals, then drop secondary
    // scale sizes, then take the primary dimension down
    let rng0 = rng.fork();
    let mut built = build_scale(&plan, &mut rng0.clone(), &st.all);
    let mut guard_n = 0;
    while built.cost > target && guard_n < 40 {
        guard_n += 1;
        if plan.wide && built.cost > 2 * target {
            plan.wide = false;
        } else if let Some(d) = scaled.pop() {
            plan.size.insert(d, small(rng));
        } else if plan.wide {
            plan.wide = false;
        } else if big_slot {
            // the size was chosen for this slot: keep it (the pool pays for the misestimate)
            break;
        } else {
            let cur = plan.size[&pdim] as usize;
            let lower = st.big.iter().chain(st.cheap.iter()).copied().filter(|x| *x < cur && !st.seen.contains(&(bin, pdim, *x))).max();
            plan.size.insert(pdim, lower.unwrap_or(cur / 2) as u64);
        }
        built = build_scale(&plan, &mut rng0.clone(), &st.all);
    }
    for d in ALL_DIMS {
        let s = plan.size[&d] as usize;
        if s >= 1024 { st.seen.insert((bin, d, s)); }
    }
    let Built { mut d, cost, canonical, block, block_line, sym_start, name_end, tail_start, kind, nl, na, nj, js } = built;
    st.spent += cost;
    if std::env::var("VH_SCALE_DEBUG").is_ok() {
        eprintln!("scale case {}: primary {:?} bin={} big_slot={} tail={} cost={} spent={} bytes={}", index, pdim, bin, big_slot, tail, cost, st.spent, d.bytes.len());
    }
    // the whole-file model distributes justice literals in quadratic time: `parse` only for small
    // ones (the harness compares parse() with the independent reading for every valid case)
    if mode == "parse" && (nj > 4096 || js > 4096) { mode = "stream".into(); }
    let len = d.bytes.len();

    // ---- the tail event
    let mut case = Case {
        fmt: if bin { "aig" } else { "aag" }.into(), ty: ty.into(), mode,
        k: None, ls: false, data: vec![], expect: None, tok: None, w: 0,
        dtext: Some(d.field()), cut: None, post: None, chunk: None,
    };
    // a byte position: mostly near the end, sometimes anywhere, sometimes a scale size
    let position = |rng: &mut Rng, st: &ScaleState| -> usize {
        if late && name_end < len && rng.chance(3, 4) {
            return name_end + rng.below((len - name_end) as u64 + 1) as usize;
        }
        match rng.below(4) {
            0 => rng.below(len as u64 + 1) as usize,
            1 => {
                let fit: Vec<usize> = st.all.iter().copied().filter(|x| *x <= len).collect();
                if fit.is_empty() { len } else { *rng.pick(&fit) }
            }
            _ => len - rng.below(len as u64 / 20 + 1) as usize,
        }
    };
    match tail {
        "valid" => {
            // `w=1`: the writer model is run too.  The binary writer model appends to its output
            // gate by gate (quadratic), the whole-file parser model distributes justice literals in
            // quadratic time: only small instances of those go through it.
            if canonical && !(bin && nl + na > 4096) && nj <= 4096 && js <= 4096 { case.w = 1; }
        }
        "fault" => {
            case.k = Some(position(rng, st));
        }
        "cut" => {
            case.cut = Some(position(rng, st));
        }
        "ls" => {
            case.ls = true;
            let c = match rng.below(8) {
                0 => 1, 1 => rng.range(2, 64) as usize, 2 => 4096, 3 => *rng.pick(&st.all), _ => 16384,
            };
            case.chunk = Some(c);
            if rng.chance(1, 5) { case.cut = Some(position(rng, st)); }
        }
        _ => {
            // corrupt: a bad token (or a long run of one byte class) where a token starts: a field
            // of the header, a line of a text section, or a gate of the binary block
            let late_sym = late && name_end > sym_start && name_end < tail_start && kind.is_some();
            let target = if late_sym { name_end + rng.below((tail_start - name_end) as u64) as usize } else { position(rng, st).min(sym_start.saturating_sub(1)) };
            let (cut, tline, tcol, in_block) = match block {
                _ if late_sym => {
                    // a line of the symbol table behind the long name (lines of the binary block do
                    // not count: `t` names the line as the harness's C08 oracle counts them)
                    let ls = d.bytes[..target].iter().rposition(|b| *b == b'\n').map(|p| p + 1).unwrap_or(0);
                    let lines = crate::eng_aiger::c08_lines(if bin { "aig" } else { "aag" }, &d.bytes[..ls]);
                    (ls, lines.len() + 1, 1, false)
                }
                Some((bs, be, gl)) if target >= bs && target < be => {
                    let cut = bs + (target - bs) / gl * gl;
                    (cut, block_line, cut - bs + 1, true)
                }
                _ => {
                    let ls = d.bytes[..target.min(len)].iter().rposition(|b| *b == b'\n').map(|p| p + 1).unwrap_or(0);
                    if ls == 0 {
                        let hl = d.bytes.iter().position(|b| *b == b'\n').unwrap();
                        let sp: Vec<usize> = (0..hl).filter(|i| d.bytes[*i] == b' ').collect();
                        let cut = *rng.pick(&sp) + 1;
                        (cut, 1, cut + 1, false)
                    } else {
                        (ls, d.bytes[..ls].iter().filter(|b| **b == b'\n').count() + 1, 1, false)
                    }
                }
            };
            let run = |rng: &mut Rng, st: &ScaleState| -> usize { *rng.pick(&st.all) };
            let (post, tn): (String, usize) = if late_sym {
                let (k, n) = kind.unwrap();
                let bad: Vec<u8> = match rng.below(6) {
                    0 => b"q0 x\n".to_vec(),
                    1 => format!("{}{} x\n", k, n).into_bytes(),
                    2 => format!("{}\n", k).into_bytes(),
                    3 => [format!("{}0", k).as_bytes(), b"\xffx\n"].concat(),
                    4 => [format!("{}0 ", k).as_bytes(), b"ok\xe2\x82\n"].concat(),
                    _ => b"\n".to_vec(),
                };
                (hex(&bad), bad.len() - 1)
            } else if in_block {
                match rng.below(4) {
                    0 => { let n = run(rng, st); (format!("r{}.80", n), n) }
                    1 => { let n = run(rng, st); (format!("r{}.ff", n), n) }
                    2 => ("ffffffffffffffffff02".into(), 10),
                    _ => ("80808080808080808080".into(), 10),
                }
            } else {
                match rng.below(9) {
                    0 => ("780a".into(), 1),
                    1 => ("39393939393939393939393939393939393939393939390a".into(), 23),
                    2 => ("30310a".into(), 2),
                    3 => ("2d310a".into(), 2),
                    4 => { let n = run(rng, st); (format!("r{}.20+310a", n), n + 1) }
                    5 => { let n = run(rng, st); (format!("r{}.39+0a", n), n) }
                    6 => { let n = run(rng, st); (format!("r{}.30+0a", n), n) }
                    7 => { let n = run(rng, st); (format!("r{}.0a", n), n) }
                    _ => { let n = run(rng, st); (format!("31+r{}.09+0a", n), n + 1) }
                }
            };
            case.cut = Some(cut);
            case.post = Some(post);
            case.tok = Some((tline, tcol, tn));
        }
    }
    case.line()
}
