//! Case generators for engine `aiger`: abstract circuits written by the crate's own writers (C03)
//! or rendered by an independent renderer with the format's few layout choices (header length,
//! explicit latch reset, padded varints), mutations, arbitrary bytes, UTF-8 edge cases, extreme
//! numerals / huge declared counts (C05, C06), single-token corruptions with known position (C08),
//! faults (C04), line sources (C09).
use crate::common::*;
use crate::eng_aiger::{write_real, Case, Circ};

pub const TYPES: &[(&str, u64)] = &[
    ("u8", u8::MAX as u64),
    ("u16", u16::MAX as u64),
    ("u32", u32::MAX as u64),
    ("u64", u64::MAX),
    ("usize", u64::MAX),
];

const NAMES: &[&str] = &["", "x", "in 0", "n\u{e4}me", "\u{65e5}\u{672c}", "a b  c", "\u{1f600}x", "c", "0", "i0 y", "\u{7ff}\u{800}\u{ffff}\u{10000}\u{10ffff}"];
const COMMENTS: &[&str] = &["", "hello", "two\nlines", "trailing\n", "\u{fc}n\u{ef}\n\n", "\n", "c\nnested c", "\u{10ffff}"];

fn small(rng: &mut Rng) -> u64 {
    match rng.below(4) { 0 => 0, 1 => 1, _ => rng.range(0, 4) }
}

fn rand_lit(rng: &mut Rng, m: u64, defined: &[u64]) -> u64 {
    let max = 2 * m as u128 + 1;
    let v: u128 = match rng.below(7) {
        0 => 0,
        1 => 1,
        2 => max,
        3 => max - 1,
        4 | 5 if !defined.is_empty() => (*rng.pick(defined) as u128) ^ (rng.below(2) as u128),
        _ => (rng.next() as u128) % (max + 1),
    };
    v.min(max) as u64
}

/// A well-formed circuit for the given format and literal type.
pub fn gen_circ(rng: &mut Rng, bin: bool, maxcode: u64) -> Circ {
    let mmax = (maxcode - 1) / 2;
    let mut ni = small(rng);
    let nl = small(rng);
    let na = small(rng);
    let mut huge_inputs = false;
    if bin && maxcode == u64::MAX && rng.chance(1, 3) {
        // large input counts give large first deltas: every varint length 1..=10
        ni = match rng.below(4) {
            0 => (1u64 << 62) - rng.below(3),
            1 => mmax - nl - na,
            _ => 1u64 << rng.range(3, 62),
        };
        huge_inputs = true;
    } else if bin && rng.chance(1, 4) {
        ni = rng.range(0, (mmax - nl - na).min(100_000));
        huge_inputs = ni > 64;
    }
    let defined = ni + nl + na;
    let m = match rng.below(3) {
        0 => defined,
        1 => mmax,
        _ => defined + rng.range(0, 5).min(mmax - defined),
    };
    // variables of the defined literals
    let mut vars: Vec<u64> = vec![];
    if bin {
        vars = (1..=if huge_inputs { 0 } else { ni }).collect();
        vars.extend(ni + 1..=ni + nl + na);
    } else {
        let mut cands: Vec<u64> = (1..=m.min(defined + 3)).collect();
        for d in 0..(defined + 3).min(m) {
            if m - d > defined + 3 { cands.push(m - d); }
        }
        for i in (1..cands.len()).rev() {
            let j = rng.below(i as u64 + 1) as usize;
            cands.swap(i, j);
        }
        vars.extend(cands.into_iter().take(defined as usize));
    }
    let lits: Vec<u64> = vars.iter().map(|v| v * 2).collect();
    let mut c = Circ { m, input_count: ni, ..Default::default() };
    if !bin {
        c.inputs = lits[..ni as usize].to_vec();
    }
    let base = if bin { if huge_inputs { 0 } else { ni as usize } } else { ni as usize };
    for i in 0..nl as usize {
        let state = if bin { 2 * (ni + 1 + i as u64) } else { lits[base + i] };
        let init = match rng.below(3) { 0 => Some(false), 1 => Some(true), _ => None };
        c.latches.push((state, rand_lit(rng, m, &lits), init));
    }
    for i in 0..na as usize {
        if bin {
            let lhs = 2 * (ni + nl + 1 + i as u64);
            // a delta exactly at (or next to) a 7-bit group boundary: 2^(7j) + {-1, 0, 1}
            let boundary = |rng: &mut Rng, max: u64| -> Option<u64> {
                let j = rng.range(1, 9) as u32;
                let d = (1u64 << (7 * j)).wrapping_add(rng.range(0, 2)).wrapping_sub(1);
                if d <= max { Some(d) } else { None }
            };
            let in0 = match rng.below(8) {
                0 => lhs,
                1 => lhs - 1,
                2 => lhs - 2,
                3 => rng.below(4).min(lhs),
                4 | 5 => match boundary(rng, lhs) { Some(d) => lhs - d, None => rng.next() % (lhs + 1) },
                _ => rng.next() % (lhs + 1),
            };
            let in1 = match rng.below(6) {
                0 => in0,
                1 => 0,
                2 | 3 => match boundary(rng, in0) { Some(d) => in0 - d, None => rng.next() % (in0 + 1) },
                _ => rng.next() % (in0 + 1),
            };
            // sometimes hand the pair over unordered: the writer sorts it
            if rng.chance(1, 4) { c.gates.push((lhs, in1, in0)); } else { c.gates.push((lhs, in0, in1)); }
        } else {
            c.gates.push((lits[base + nl as usize + i], rand_lit(rng, m, &lits), rand_lit(rng, m, &lits)));
        }
    }
    for _ in 0..small(rng) { c.outputs.push(rand_lit(rng, m, &lits)); }
    if rng.chance(1, 2) {
        for _ in 0..small(rng) { c.bad.push(rand_lit(rng, m, &lits)); }
        for _ in 0..small(rng) { c.constraints.push(rand_lit(rng, m, &lits)); }
        for _ in 0..small(rng) {
            let n = small(rng);
            c.justice.push((0..n).map(|_| rand_lit(rng, m, &lits)).collect());
        }
        for _ in 0..small(rng) { c.fairness.push(rand_lit(rng, m, &lits)); }
    }
    let counts = [('i', ni), ('o', c.outputs.len() as u64), ('l', nl), ('b', c.bad.len() as u64),
        ('c', c.constraints.len() as u64), ('j', c.justice.len() as u64), ('f', c.fairness.len() as u64)];
    for (k, n) in counts {
        if n == 0 { continue; }
        if rng.chance(1, 2) { c.symbols.push((k, 0, rng.pick(NAMES).to_string())); }
        if rng.chance(1, 2) { c.symbols.push((k, n - 1, rng.pick(NAMES).to_string())); }
        if n > 2 && rng.chance(1, 4) { c.symbols.push((k, rng.range(1, n - 2), rng.pick(NAMES).to_string())); }
    }
    for i in (1..c.symbols.len()).rev() {
        let j = rng.below(i as u64 + 1) as usize;
        c.symbols.swap(i, j);
    }
    if rng.chance(1, 2) { c.comment = Some(rng.pick(COMMENTS).to_string()); }
    c
}

fn init_s(i: Option<bool>) -> &'static str {
    match i { Some(false) => "0", Some(true) => "1", None => "x" }
}

/// Expected observation of a well-formed circuit (computed from the abstract value, not by parsing).
pub fn expected(c: &Circ, bin: bool, mode: &str) -> String {
    let ni = if bin { c.input_count } else { c.inputs.len() as u64 };
    let mut v = vec![format!("H:{}:{}:{}:{}:{}:{}:{}:{}:{}", c.m, ni, c.latches.len(), c.outputs.len(), c.gates.len(),
        c.bad.len(), c.constraints.len(), c.justice.len(), c.fairness.len())];
    if mode != "skip" {
        if !bin { v.extend(c.inputs.iter().map(|l| format!("I:{}", l))); }
        for (s, n, i) in &c.latches {
            v.push(if bin { format!("L:{}:{}", n, init_s(*i)) } else { format!("L:{}:{}:{}", s, n, init_s(*i)) });
        }
        v.extend(c.outputs.iter().map(|l| format!("O:{}", l)));
        v.extend(c.bad.iter().map(|l| format!("B:{}", l)));
        v.extend(c.constraints.iter().map(|l| format!("C:{}", l)));
        v.extend(c.justice.iter().map(|j| format!("JS:{}", j.len())));
        v.extend(c.justice.iter().flatten().map(|l| format!("J:{}", l)));
        v.extend(c.fairness.iter().map(|l| format!("F:{}", l)));
        for (o, a, b) in &c.gates {
            v.push(if bin { format!("A:{}:{}", a.max(b), a.min(b)) } else { format!("A:{}:{}:{}", o, a, b) });
        }
    }
    v.extend(c.symbols.iter().map(|(k, i, n)| format!("S:{}{}:{}", k, i, hex(n.as_bytes()))));
    v.push(match &c.comment { None => "K:none".into(), Some(s) => format!("K:{}", hex(s.as_bytes())) });
    v.push("END".into());
    if mode == "parse" { v.insert(0, "P".into()); }
    v.join("|")
}

/// The circuit `Aig::from(ordered)` / `ascii::write_ordered_aig` sees: explicit inputs and outputs.
fn explicit(c: &Circ) -> Circ {
    let mut e = c.clone();
    e.inputs = (1..=c.input_count).map(|i| 2 * i).collect();
    e
}

#[derive(Clone, Copy, Debug, PartialEq)]
pub enum TokKind { Header(usize), DefLit, Lit, Init(u64), JusticeSize, SymIndex(u64), Delta(u64) }

pub struct Tok { pub off: usize, pub len: usize, pub line: usize, pub col: usize, pub kind: TokKind }

pub struct Rendered { pub bytes: Vec<u8>, pub toks: Vec<Tok> }

struct Out { b: Vec<u8>, line: usize, line_start: usize, toks: Vec<Tok> }

impl Out {
    fn text(&mut self, s: &[u8]) {
        for &ch in s {
            self.b.push(ch);
            if ch == b'\n' { self.line += 1; self.line_start = self.b.len(); }
        }
    }
    fn raw(&mut self, s: &[u8]) { self.b.extend_from_slice(s); }
    fn tok(&mut self, s: &[u8], kind: TokKind, raw: bool) {
        self.toks.push(Tok { off: self.b.len(), len: s.len(), line: self.line, col: self.b.len() - self.line_start + 1, kind });
        if raw { self.raw(s) } else { self.text(s) }
    }
    fn num(&mut self, n: u64, kind: TokKind) { self.tok(n.to_string().as_bytes(), kind, false); }
}

pub fn varint(mut v: u128, pad_to: usize) -> Vec<u8> {
    let mut out = vec![];
    loop {
        let b = (v & 0x7f) as u8;
        v >>= 7;
        if v == 0 { out.push(b); break; }
        out.push(b | 0x80);
    }
    while out.len() < pad_to {
        let n = out.len();
        out[n - 1] |= 0x80;
        out.push(0);
    }
    out
}

/// Independent renderer; `plain` = the canonical choices the crate's writer makes.
pub fn render(rng: &mut Rng, c: &Circ, bin: bool, plain: bool) -> Rendered {
    let mut o = Out { b: vec![], line: 1, line_start: 0, toks: vec![] };
    let ni = if bin { c.input_count } else { c.inputs.len() as u64 };
    let h = [c.m, ni, c.latches.len() as u64, c.outputs.len() as u64, c.gates.len() as u64, c.bad.len() as u64,
        c.constraints.len() as u64, c.justice.len() as u64, c.fairness.len() as u64];
    let mut need = 9;
    while need > 5 && h[need - 1] == 0 { need -= 1; }
    let fields = if plain { need } else { rng.range(need as u64, 9) as usize };
    o.text(if bin { b"aig" } else { b"aag" });
    for (i, f) in h.iter().enumerate().take(fields) {
        o.text(b" ");
        o.num(*f, TokKind::Header(i));
    }
    o.text(b"\n");
    if !bin {
        for l in &c.inputs { o.num(*l, TokKind::DefLit); o.text(b"\n"); }
    }
    for (s, n, i) in &c.latches {
        if !bin { o.num(*s, TokKind::DefLit); o.text(b" "); }
        o.num(*n, TokKind::Lit);
        match i {
            Some(true) => { o.text(b" "); o.num(1, TokKind::Init(*s)); }
            Some(false) => if !plain && rng.chance(1, 2) { o.text(b" "); o.num(0, TokKind::Init(*s)); },
            None => { o.text(b" "); o.num(*s, TokKind::Init(*s)); }
        }
        o.text(b"\n");
    }
    for l in c.outputs.iter().chain(&c.bad).chain(&c.constraints) { o.num(*l, TokKind::Lit); o.text(b"\n"); }
    for j in &c.justice { o.num(j.len() as u64, TokKind::JusticeSize); o.text(b"\n"); }
    for l in c.justice.iter().flatten().chain(&c.fairness) { o.num(*l, TokKind::Lit); o.text(b"\n"); }
    for (out, a, b) in &c.gates {
        if bin {
            let (a, b) = (*a.max(b), *a.min(b));
            for (delta, from) in [(out - a, *out), (a - b, a)] {
                let enc = varint(delta as u128, 0);
                let pad = if plain || !rng.chance(1, 4) { 0 } else { rng.range(enc.len() as u64, 10) as usize };
                o.tok(&varint(delta as u128, pad), TokKind::Delta(from), true);
            }
        } else {
            o.num(*out, TokKind::DefLit); o.text(b" ");
            o.num(*a, TokKind::Lit); o.text(b" ");
            o.num(*b, TokKind::Lit); o.text(b"\n");
        }
    }
    let counts = |k: char| -> u64 {
        match k { 'i' => ni, 'o' => h[3], 'l' => h[2], 'b' => h[5], 'c' => h[6], 'j' => h[7], _ => h[8] }
    };
    for (k, i, name) in &c.symbols {
        o.text(&[*k as u8]);
        o.num(*i, TokKind::SymIndex(counts(*k)));
        o.text(b" ");
        // a name is not line structure the corruption catalogue addresses, but it moves the line on
        o.text(name.as_bytes());
        o.text(b"\n");
    }
    if let Some(cm) = &c.comment {
        o.text(b"c\n");
        o.raw(cm.as_bytes());
        o.raw(b"\n");
    }
    Rendered { bytes: o.b, toks: o.toks }
}

const EXTREME: &[&str] = &[
    "0", "1", "00", "01", "007", "127", "128", "254", "255", "256", "32767", "65534", "65535", "65536",
    "2147483647", "4294967294", "4294967295", "4294967296", "9223372036854775806", "9223372036854775807",
    "9223372036854775808", "18446744073709551614", "18446744073709551615", "18446744073709551616",
    "99999999999999999999", "123456789012345678901234567890", "1x", "-1", "+1", "",
];

const BAD_UTF8: &[&[u8]] = &[
    b"\xff", b"\x80", b"\xbf", b"\xc0\x80", b"\xc0\xaf", b"\xc1\xbf", b"\xc2", b"\xc2\x80", b"\xc2\x7f", b"\xdf\xbf", b"\xdf\xc0",
    b"\xe0\x9f\xbf", b"\xe0\xa0\x80", b"\xe0\xa0", b"\xe0", b"\xe1\x80\x80", b"\xe1\x80", b"\xec\xbf\xbf",
    b"\xed\x9f\xbf", b"\xed\xa0\x80", b"\xed\xbf\xbf", b"\xee\x80\x80", b"\xef\xbf\xbf", b"\xef\xbf", b"\xe2\x82\x28",
    b"\xf0\x8f\xbf\xbf", b"\xf0\x90\x80\x80", b"\xf0\x90\x80", b"\xf0\x90", b"\xf0", b"\xf1\x80\x80\x80", b"\xf3\xbf\xbf\xbf",
    b"\xf4\x8f\xbf\xbf", b"\xf4\x90\x80\x80", b"\xf5\x80\x80\x80", b"\xf8\x88\x80\x80\x80", b"\xf0\x28\x8c\xbc", b"\xf0\x90\x28\xbc",
    b"\xf0\x90\x8c\x28", b"ok\xe2\x82\xacok", b"a\xcc\x81",
];

fn numeral_spans(b: &[u8]) -> Vec<(usize, usize)> {
    let mut v = vec![];
    let mut i = 0;
    while i < b.len() {
        if b[i].is_ascii_digit() {
            let s = i;
            while i < b.len() && b[i].is_ascii_digit() { i += 1; }
            v.push((s, i));
        } else {
            i += 1;
        }
    }
    v
}

pub fn mutate(rng: &mut Rng, mut b: Vec<u8>) -> Vec<u8> {
    let n = rng.range(1, 3);
    for _ in 0..n {
        match rng.below(11) {
            0 if !b.is_empty() => { let i = rng.below(b.len() as u64) as usize; b[i] ^= 1 << rng.below(8); }
            1 if !b.is_empty() => { let i = rng.below(b.len() as u64) as usize; b.remove(i); }
            2 => { let i = rng.below(b.len() as u64 + 1) as usize; b.insert(i, *rng.pick(b" \n\t\r0129acijx\x80\xff\x00")); }
            3 if !b.is_empty() => { let i = rng.below(b.len() as u64 + 1) as usize; b.truncate(i); }
            4 | 5 | 6 => {
                let sp = numeral_spans(&b);
                if !sp.is_empty() {
                    let (s, e) = *rng.pick(&sp);
                    let r: Vec<u8> = if rng.chance(1, 4) {
                        let k = rng.range(1, 65) as u32;
                        let v = (1u128 << k) + rng.below(3) as u128 - 1;
                        v.to_string().into_bytes()
                    } else {
                        rng.pick(EXTREME).as_bytes().to_vec()
                    };
                    b.splice(s..e, r);
                }
            }
            7 => {
                // duplicate or drop a line
                let nl: Vec<usize> = b.iter().enumerate().filter(|(_, x)| **x == b'\n').map(|(i, _)| i).collect();
                if nl.len() >= 2 {
                    let i = rng.below(nl.len() as u64 - 1) as usize;
                    let (s, e) = (nl[i] + 1, nl[i + 1] + 1);
                    let l: Vec<u8> = b[s..e].to_vec();
                    if rng.chance(1, 2) { b.splice(s..s, l); } else { b.drain(s..e); }
                }
            }
            8 => { let i = rng.below(b.len() as u64 + 1) as usize; let x = (*rng.pick(BAD_UTF8)).to_vec(); b.splice(i..i, x); }
            9 => {
                // over-long / overflowing varint somewhere
                let i = rng.below(b.len() as u64 + 1) as usize;
                let x: Vec<u8> = match rng.below(4) {
                    0 => vec![0x80; 10].into_iter().chain([0x00]).collect(),
                    1 => vec![0xff; 9].into_iter().chain([0x02]).collect(),
                    2 => vec![0xff; 9].into_iter().chain([0x01]).collect(),
                    _ => vec![0x80, 0x80, 0x00],
                };
                b.splice(i..i, x);
            }
            _ => { let tails: &[&[u8]] = &[b"\n", b"c\n", b"c\nx", b"i0 x\n", b"c", b"\n\n"]; b.extend_from_slice(*rng.pick(tails)); }
        }
    }
    b
}

fn arbitrary(rng: &mut Rng, bin: bool) -> Vec<u8> {
    let mut b: Vec<u8> = vec![];
    if rng.chance(3, 4) { b.extend_from_slice(if bin { b"aig" } else { b"aag" }); }
    let n = rng.range(0, 40);
    let alpha: &[u8] = if rng.chance(1, 2) { b"0123456789 \n  \n01c" } else { b"0123456789 \n\t\rabcijlof\x80\xff\x00\x02" };
    for _ in 0..n {
        if rng.chance(1, 10) { b.push(rng.next() as u8); } else { b.push(*rng.pick(alpha)); }
    }
    b
}

fn huge(rng: &mut Rng, bin: bool, maxcode: u64) -> Vec<u8> {
    let big = ["18446744073709551615", "18446744073709551614", "9223372036854775807", "9223372036854775806",
        "1099511627776", "4294967296", "1000000000", "16777216"];
    let mmax = (maxcode - 1) / 2;
    let mut f: Vec<String> = vec![mmax.to_string(), "0".into(), "0".into(), "0".into(), "0".into()];
    for _ in 0..rng.range(0, 4) { f.push("0".into()); }
    match rng.below(6) {
        0 => { f[1] = mmax.to_string(); }
        1 => { f[1] = (mmax - 1).to_string(); f[2] = "1".into(); }
        2 => { f[1] = (mmax - 1).to_string(); f[4] = "1".into(); }
        3 => { f[2] = mmax.to_string(); }
        4 => { f[4] = mmax.to_string(); }
        _ => {}
    }
    let n = rng.range(1, 3);
    for _ in 0..n {
        let i = rng.below(f.len() as u64) as usize;
        if i != 0 || rng.chance(1, 4) { f[i] = rng.pick(&big).to_string(); }
    }
    let mut b = format!("{} {}\n", if bin { "aig" } else { "aag" }, f.join(" ")).into_bytes();
    let body: &[&[u8]] = &[b"", b"0\n", b"2\n", b"0\n0\n", b"2 0\n", b"\x02\x02", b"18446744073709551615\n", b"0\n18446744073709551615\n1\n", b"2 3 2\n", b"c\n"];
    for _ in 0..rng.range(0, 3) { b.extend_from_slice(*rng.pick(body)); }
    b
}

/// One case line.  `opt` selects the family:
/// rt | layout | mutate | arbitrary | utf8 | huge | corrupt | fault | ls
pub fn gen_case(rng: &mut Rng, opt: &str, thorough: bool) -> String {
    if opt.starts_with("scale") {
        return gen_scale(rng, opt, thorough);
    }
    let (ty, maxcode) = *rng.pick(TYPES);
    let family = if opt.is_empty() || opt == "mix" {
        *rng.pick(&["rt", "rt", "layout", "layout", "mutate", "mutate", "arbitrary", "utf8", "huge", "corrupt", "fault", "ls"])
    } else {
        let fams: Vec<&str> = opt.split('+').collect();
        *rng.pick(&fams)
    };
    let bin = rng.chance(1, 2);
    let mode = match rng.below(10) { 0 | 1 => "parse", 2 => "skip", _ => "stream" };
    let mut case = Case {
        fmt: if bin { "aig" } else { "aag" }.into(), ty: ty.into(), mode: mode.into(),
        k: None, ls: false, data: vec![], expect: None, tok: None, w: 0,
        dtext: None, cut: None, post: None, chunk: None,
    };
    let circ = gen_circ(rng, bin, maxcode);
    match family {
        "rt" => {
            if bin && circ.input_count <= 16 && rng.chance(1, 4) {
                // the ordered circuit through the ASCII writer
                case.fmt = "aag".into();
                case.w = 2;
                case.data = write_real(&circ, ty, 2).expect("ascii writer panicked");
                let mut e = explicit(&circ);
                e.gates = circ.gates.clone();
                case.expect = Some(expected(&e, false, mode));
            } else {
                case.w = 1;
                case.data = write_real(&circ, ty, if bin { 1 } else { 0 }).expect("writer panicked");
                case.expect = Some(expected(&circ, bin, mode));
            }
        }
        "layout" => {
            case.data = render(rng, &circ, bin, false).bytes;
            case.expect = Some(expected(&circ, bin, mode));
        }
        "mutate" => {
            let plain = rng.chance(1, 2);
            let r = render(rng, &circ, bin, plain);
            case.data = mutate(rng, r.bytes);
        }
        "arbitrary" => {
            case.data = arbitrary(rng, bin);
        }
        "huge" => {
            case.data = huge(rng, bin, maxcode);
        }
        "utf8" => {
            // byte strings from the UTF-8 edge pool as symbol names and comment
            let mut c = circ.clone();
            if c.outputs.is_empty() { c.outputs.push(0); }
            c.symbols = vec![('o', 0, "@@1".into()), ('o', 0, "@@2".into())];
            c.comment = if rng.chance(1, 2) { Some("@@3".into()) } else { None };
            let mut b = render(rng, &c, bin, true).bytes;
            for marker in [&b"@@1"[..], b"@@2", b"@@3"] {
                if let Some(p) = b.windows(3).position(|w| w == marker) {
                    let mut r: Vec<u8> = vec![];
                    for _ in 0..rng.range(0, 3) {
                        match rng.below(3) {
                            0 => r.extend_from_slice(rng.pick(NAMES).as_bytes()),
                            1 => r.extend_from_slice(*rng.pick(BAD_UTF8)),
                            _ => r.push(rng.range(0x20, 0xff) as u8),
                        }
                    }
                    if marker == b"@@3" && rng.chance(1, 3) { r.extend_from_slice(b"\nmore"); }
                    b.splice(p..p + 3, r);
                }
            }
            if c.comment.is_some() && rng.chance(1, 4) { b.pop(); }
            case.data = b;
        }
        "corrupt" => {
            let mut c = circ.clone();
            if c.outputs.is_empty() { c.outputs.push(0); }
            let r = render(rng, &c, bin, true);
            let t = rng.pick(&r.toks);
            let mmax = (maxcode - 1) / 2;
            let old = &r.bytes[t.off..t.off + t.len];
            let ni = if bin { c.input_count } else { c.inputs.len() as u64 };
            let overflow = || b"99999999999999999999999".to_vec();
            let repl: Vec<u8> = match (t.kind, rng.below(4)) {
                (TokKind::Delta(from), 0) => varint(from as u128 + 1, 0),
                (TokKind::Delta(_), 1) => vec![0x80; 10],
                (TokKind::Delta(_), 2) => {
                    if rng.chance(1, 2) {
                        vec![0xff, 0xff, 0xff, 0xff, 0xff, 0xff, 0xff, 0xff, 0xff, 0x02]
                    } else {
                        // wrap class: the true delta plus h * 2^64 — a decoder that drops the bits
                        // shifted out of the tenth byte would read the valid delta back
                        let mut v: u128 = 0;
                        for (i, byte) in old.iter().enumerate() { v |= ((byte & 0x7f) as u128) << (7 * i); }
                        varint(v + ((rng.range(1, 63) as u128) << 64), 0)
                    }
                }
                (TokKind::Delta(from), _) => varint(from as u128 + 1 + rng.below(1000) as u128, 0),
                (_, 0) => overflow(),
                (_, 1) => if rng.chance(1, 2) { b"x".to_vec() } else { [old, b"x"].concat() },
                (TokKind::JusticeSize, _) => [b"0", old].concat(),
                (_, 2) => [b"0", old].concat(),
                (TokKind::Header(0), _) => (mmax as u128 + 1).to_string().into_bytes(),
                (TokKind::Header(1), _) => (c.m as u128 + 1).to_string().into_bytes(),
                (TokKind::Header(2), _) => ((c.m - ni) as u128 + 1).to_string().into_bytes(),
                (TokKind::Header(4), _) => ((c.m - ni - c.latches.len() as u64) as u128 + 1).to_string().into_bytes(),
                (TokKind::Header(_), _) => overflow(),
                (TokKind::DefLit, _) => if rng.chance(1, 2) { b"0".to_vec() } else {
                    let v: u64 = std::str::from_utf8(old).unwrap().parse().unwrap();
                    (v + 1).to_string().into_bytes()
                },
                (TokKind::Lit, _) => (2 * c.m as u128 + 2).to_string().into_bytes(),
                (TokKind::Init(state), _) => (state as u128 + 2).to_string().into_bytes(),
                (TokKind::SymIndex(count), _) => (count as u128 + rng.below(2) as u128).to_string().into_bytes(),
            };
            let mut b = r.bytes.clone();
            b.splice(t.off..t.off + t.len, repl.clone());
            case.data = b;
            case.tok = Some((t.line, t.col, repl.len()));
        }
        "fault" => {
            let plain = rng.chance(1, 2);
            let r = render(rng, &circ, bin, plain);
            let data = if rng.chance(1, 4) { mutate(rng, r.bytes) } else { r.bytes };
            case.k = Some(rng.range(0, data.len() as u64) as usize);
            case.data = data;
        }
        "ls" => {
            let r = render(rng, &circ, bin, false);
            case.data = if rng.chance(1, 4) { mutate(rng, r.bytes) } else { r.bytes };
            case.ls = true;
            case.mode = "stream".into();
        }
        _ => panic!("unknown family {}", family),
    }
    case.line()
}

/// Every fault offset of one document (C04 thorough): returns several case lines.
pub fn fault_sweep(rng: &mut Rng) -> Vec<String> {
    let (ty, maxcode) = *rng.pick(TYPES);
    let bin = rng.chance(1, 2);
    let mode = if rng.chance(1, 4) { "parse" } else { "stream" };
    let circ = gen_circ(rng, bin, maxcode);
    let r = render(rng, &circ, bin, false);
    (0..=r.bytes.len())
        .map(|k| Case {
            fmt: if bin { "aig" } else { "aag" }.into(), ty: ty.into(), mode: mode.into(), k: Some(k), ls: false,
            data: r.bytes.clone(), expect: None, tok: None, w: 0,
            dtext: None, cut: None, post: None, chunk: None,
        }.line())
        .collect()
}
