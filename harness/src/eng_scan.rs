//! Engine `scan`: the scanners of `flussab::text` (C13, C16).
//! Case: `scan fn=<f> ty=<int type|-> d=<hex> off=<n> bl=<bytes buffered before the call> p=<hex pattern>`
//! The source hands out `bl` bytes in its first read and one byte per read afterwards, so the
//! number of bytes delivered at the end is exactly what the scanner demanded.
use crate::common::*;
use flussab::{text, DeferredReader};

pub const INT_TYPES: &[&str] = &[
    "i8", "i16", "i32", "i64", "i128", "isize", "u8", "u16", "u32", "u64", "u128", "usize",
];
pub const INT_FNS: &[&str] = &["digits", "sdigits", "digits_multi", "sdigits_multi"];
pub const WS_FNS: &[&str] = &["blanks", "newline", "next_newline", "fixed"];

fn type_bounds(ty: &str) -> (String, String) {
    // (|MIN| as decimal string, MAX as decimal string)
    macro_rules! b {
        ($t:ty) => {
            (
                (<$t>::MIN as i128).unsigned_abs().to_string(),
                (<$t>::MAX as u128).to_string(),
            )
        };
    }
    match ty {
        "i8" => b!(i8),
        "i16" => b!(i16),
        "i32" => b!(i32),
        "i64" => b!(i64),
        "isize" => b!(isize),
        "i128" => (i128::MIN.unsigned_abs().to_string(), i128::MAX.to_string()),
        "u8" => b!(u8),
        "u16" => b!(u16),
        "u32" => b!(u32),
        "u64" => b!(u64),
        "usize" => b!(usize),
        "u128" => ("0".into(), u128::MAX.to_string()),
        _ => panic!("bad type"),
    }
}

/// decimal-string comparison a <= b (no leading zeros)
fn dec_le(a: &str, b: &str) -> bool {
    a.len() < b.len() || (a.len() == b.len() && a <= b)
}

/// Reference reading with arbitrary precision: (expected value text or None, expected offset).
fn reference(data: &[u8], off: usize, signed_scan: bool, ty: &str) -> (Option<String>, usize) {
    let at = |i: usize| data.get(i).copied();
    let mut o = off;
    let mut neg = false;
    if signed_scan && at(o) == Some(b'-') {
        if matches!(at(o + 1), Some(b'0'..=b'9')) {
            neg = true;
            o += 1;
        } else {
            return (Some("0".into()), off);
        }
    }
    let start = o;
    while matches!(at(o), Some(b'0'..=b'9')) {
        o += 1;
    }
    let digits = std::str::from_utf8(&data[start.min(data.len())..o.min(data.len())]).unwrap();
    let canon = digits.trim_start_matches('0');
    let canon = if canon.is_empty() { "0" } else { canon };
    let (absmin, max) = type_bounds(ty);
    let value = if canon == "0" {
        Some("0".to_string())
    } else if neg {
        if dec_le(canon, &absmin) { Some(format!("-{}", canon)) } else { None }
    } else if dec_le(canon, &max) {
        Some(canon.to_string())
    } else {
        None
    };
    (value, o)
}

fn call_int(f: &str, ty: &str, r: &mut DeferredReader, off: usize) -> (Option<String>, usize) {
    macro_rules! go {
        ($t:ty) => {{
            let (v, o): (Option<$t>, usize) = match f {
                "digits" => text::ascii_digits(r, off),
                "sdigits" => text::signed_ascii_digits(r, off),
                "digits_multi" => text::ascii_digits_multi(r, off),
                "sdigits_multi" => text::signed_ascii_digits_multi(r, off),
                _ => panic!("bad fn"),
            };
            (v.map(|x| x.to_string()), o)
        }};
    }
    match ty {
        "i8" => go!(i8),
        "i16" => go!(i16),
        "i32" => go!(i32),
        "i64" => go!(i64),
        "i128" => go!(i128),
        "isize" => go!(isize),
        "u8" => go!(u8),
        "u16" => go!(u16),
        "u32" => go!(u32),
        "u64" => go!(u64),
        "u128" => go!(u128),
        "usize" => go!(usize),
        _ => panic!("bad type"),
    }
}

pub fn run_case(line: &str) -> (String, Vec<String>) {
    let (_, f) = Fields::parse(line);
    let func = f.get("fn");
    let ty = f.get("ty");
    let data = data_field(f.get("d"));
    let off = f.num("off");
    let bl = f.num("bl");
    let pat = unhex(f.opt("p").unwrap_or("-"));
    let mut sched = vec![];
    if bl > 0 {
        sched.push(Ev::Give(bl));
    }
    for _ in 0..data.len() + 4 {
        sched.push(Ev::Give(1));
    }
    let src = SchedSource::new(data.clone(), false, sched);
    let mut r = DeferredReader::from_read(src.clone());
    if bl > 0 {
        r.request(bl.min(data.len()).max(1));
    }
    let buffered = r.buf_len();
    let mut fails = vec![];
    let res = catch(|| match func {
        "blanks" => (None, text::tabs_or_spaces(&mut r, off)),
        "newline" => (None, text::newline(&mut r, off)),
        "next_newline" => (None, text::next_newline(&mut r, off)),
        "fixed" => (None, text::fixed(&mut r, off, &pat)),
        _ => {
            let (v, o) = call_int(func, ty, &mut r, off);
            (Some(v), o)
        }
    });
    let delivered = src.0.borrow().log.len();
    let obs = match &res {
        None => "panic".to_string(),
        Some((v, o)) => {
            let vs = match v {
                None => "-".to_string(),
                Some(None) => "none".to_string(),
                Some(Some(s)) => s.clone(),
            };
            format!("{}:{}|{}|{}", vs, o, r.position(), delivered)
        }
    };
    // ---------------- oracles ----------------
    let at = |i: usize| data.get(i).copied();
    match &res {
        None => fails.push(format!("C13:{} panicked", func)),
        Some((v, o)) => {
            if r.position() != 0 {
                fails.push("C16:scanner consumed input".into());
            }
            // what a minimal scanner has to look at: everything up to and including the byte
            // that decides (the terminator), or the end of input
            let needed_upto = |last: usize| (last + 1).min(data.len());
            match func {
                "blanks" => {
                    let mut e = off;
                    while matches!(at(e), Some(b' ') | Some(b'\t')) {
                        e += 1;
                    }
                    if *o != e {
                        fails.push(format!("C16:tabs_or_spaces returned {} expected {}", o, e));
                    }
                    if delivered > needed_upto(e).max(buffered) {
                        fails.push(format!("C16:tabs_or_spaces pulled {} bytes, needed {}", delivered, needed_upto(e)));
                    }
                }
                "newline" => {
                    let (e, last) = match (at(off), at(off + 1)) {
                        (Some(b'\n'), _) => (off + 1, off),
                        (Some(b'\r'), Some(b'\n')) => (off + 2, off + 1),
                        (Some(b'\r'), _) => (off, off + 1),
                        _ => (off, off),
                    };
                    if *o != e {
                        fails.push(format!("C16:newline returned {} expected {}", o, e));
                    }
                    if delivered > needed_upto(last).max(buffered) {
                        fails.push(format!("C16:newline pulled {} bytes, needed {}", delivered, needed_upto(last)));
                    }
                }
                "next_newline" => {
                    let mut e = off;
                    while !matches!(at(e), Some(b'\n') | None) {
                        e += 1;
                    }
                    let last = e;
                    if at(e).is_some() {
                        e += 1;
                    }
                    if *o != e {
                        fails.push(format!("C16:next_newline returned {} expected {}", o, e));
                    }
                    if delivered > needed_upto(last).max(buffered) {
                        fails.push(format!("C16:next_newline pulled {} bytes, needed {}", delivered, needed_upto(last)));
                    }
                }
                "fixed" => {
                    let mut m = 0;
                    while m < pat.len() && at(off + m) == Some(pat[m]) {
                        m += 1;
                    }
                    let e = if m == pat.len() { off + pat.len() } else { off };
                    if *o != e {
                        fails.push(format!("C16:fixed returned {} expected {}", o, e));
                    }
                    // stops requesting at the first mismatching byte
                    let need = if pat.is_empty() { 0 } else if m == pat.len() { needed_upto(off + m - 1) } else { needed_upto(off + m) };
                    if delivered > need.max(buffered) {
                        fails.push(format!("C16:fixed pulled {} bytes, needed {}", delivered, need));
                    }
                }
                _ => {
                    let signed_scan = func.starts_with('s');
                    let (ev, eo) = reference(&data, off, signed_scan, ty);
                    let got = v.clone().unwrap();
                    if *o != eo {
                        fails.push(format!("C13:{}<{}> offset {} expected {}", func, ty, o, eo));
                    }
                    if got != ev {
                        fails.push(format!("C13:{}<{}> value {:?} expected {:?}", func, ty, got, ev));
                    }
                }
            }
        }
    }
    (obs, fails)
}

fn rand_numeral(rng: &mut Rng, ty: &str) -> Vec<u8> {
    let (absmin, max) = type_bounds(ty);
    let mut s = String::new();
    let neg = rng.chance(1, 3);
    let bound = if neg && absmin != "0" { absmin } else { max };
    if rng.chance(1, 8) {
        // wrap class: m * 2^bits ± small (a wrapping accumulator would return a small value)
        return crate::gen_cnf::wrap_class_numeral(rng, false);
    }
    let body = match rng.below(8) {
        0 => bound.clone(),
        1 => {
            // bound + 1
            let mut d: Vec<u8> = bound.bytes().collect();
            let mut i = d.len();
            loop {
                if i == 0 {
                    d.insert(0, b'1');
                    break;
                }
                i -= 1;
                if d[i] == b'9' {
                    d[i] = b'0';
                } else {
                    d[i] += 1;
                    break;
                }
            }
            String::from_utf8(d).unwrap()
        }
        2 => {
            // bound - 1 (bound >= 1)
            let mut d: Vec<u8> = bound.bytes().collect();
            let mut i = d.len();
            loop {
                i -= 1;
                if d[i] == b'0' {
                    d[i] = b'9';
                } else {
                    d[i] -= 1;
                    break;
                }
            }
            String::from_utf8(d).unwrap().trim_start_matches('0').to_string()
        }
        3 => {
            let n = rng.range(0, 45);
            (0..n).map(|_| (b'0' + rng.below(10) as u8) as char).collect()
        }
        4 => {
            // same number of digits as the bound
            let n = bound.len();
            (0..n).map(|_| (b'0' + rng.below(10) as u8) as char).collect()
        }
        _ => {
            let n = rng.range(0, 9);
            (0..n).map(|_| (b'0' + rng.below(10) as u8) as char).collect()
        }
    };
    if neg {
        s.push('-');
    }
    for _ in 0..(if rng.chance(1, 4) { rng.range(1, 9) } else { 0 }) {
        s.push('0');
    }
    s.push_str(&body);
    s.into_bytes()
}

pub fn gen_case(rng: &mut Rng, _thorough: bool) -> String {
    if rng.chance(2, 3) {
        let func = *rng.pick(INT_FNS);
        let ty = *rng.pick(INT_TYPES);
        let off = if rng.chance(1, 2) { 0 } else { rng.range(0, 9) as usize };
        let mut data: Vec<u8> = (0..off).map(|_| *rng.pick(b" x-07\n")).collect();
        data.extend(rand_numeral(rng, ty));
        // terminator: any byte, or end of input
        if rng.chance(5, 6) {
            let term = if rng.chance(1, 2) { *rng.pick(b" \n\t-/:a}") } else { rng.next() as u8 };
            data.push(term);
            for _ in 0..rng.below(10) {
                data.push(*rng.pick(b" 0123456789-\nz"));
            }
        }
        let bl = match rng.below(5) {
            0 => 0,
            1 => data.len() + 3,
            2 => off + rng.range(6, 10) as usize,
            _ => rng.range(0, 20) as usize,
        };
        format!("scan fn={} ty={} d={} off={} bl={} p=-", func, ty, hex(&data), off, bl)
    } else {
        let func = *rng.pick(WS_FNS);
        let n = rng.range(0, 12) as usize;
        let data: Vec<u8> = (0..n).map(|_| *rng.pick(b"  \t\r\n\na0c p")).collect();
        let off = rng.range(0, (n + 1) as u64) as usize;
        let bl = if rng.chance(1, 2) { 0 } else { rng.range(0, n as u64 + 2) as usize };
        let pat: Vec<u8> = match rng.below(6) {
            0 => vec![],
            1 => b"p".to_vec(),
            2 => b"cnf".to_vec(),
            3 => b"c ".to_vec(),
            4 => data.iter().skip(off).take(rng.range(0, 5) as usize).copied().collect(),
            _ => {
                let mut p: Vec<u8> = data.iter().skip(off).copied().collect();
                p.extend_from_slice(b"zz");
                p
            }
        };
        format!("scan fn={} ty=- d={} off={} bl={} p={}", func, hex(&data), off, bl, hex(&pat))
    }
}

/// Complete enumeration for C16: all strings over a 6-letter alphabet up to length `maxlen`,
/// all offsets, a pattern catalogue, buffered 0 / everything.
pub fn exhaustive_ws(maxlen: usize) -> Vec<String> {
    let alpha = b" \t\r\na0";
    let mut out = vec![];
    let mut strings: Vec<Vec<u8>> = vec![vec![]];
    let mut frontier: Vec<Vec<u8>> = vec![vec![]];
    for _ in 0..maxlen {
        let mut next = vec![];
        for s in &frontier {
            for &c in alpha {
                let mut t = s.clone();
                t.push(c);
                next.push(t);
            }
        }
        strings.extend(next.iter().cloned());
        frontier = next;
    }
    for s in &strings {
        for off in 0..=s.len() {
            for bl in [0usize, s.len() + 1] {
                for func in ["blanks", "newline", "next_newline"] {
                    out.push(format!("scan fn={} ty=- d={} off={} bl={} p=-", func, hex(s), off, bl));
                }
                for pat in [&b""[..], b" ", b"a0", b"\r\n", b"a0a0a0a"] {
                    out.push(format!("scan fn=fixed ty=- d={} off={} bl={} p={}", hex(s), off, bl, hex(pat)));
                }
            }
        }
    }
    out
}
