//! Engine `scan`: the scanners of `flussab::text` (C13, C16).
//! Case: `scan fn=<f> ty=<int type|-> d=<hex> off=<n> bl=<bytes buffered before the call> p=<hex pattern>`
//! The source hands out `bl` bytes in its first read and one byte per read afterwards, so the
//! number of bytes delivered at the end is exactly what the scanner demanded.
//! Optional `c=<chunk size>` (scale family): the reader's chunk size; the `bl` bytes then arrive in
//! reads of `c` bytes.  `d` and `p` are data fields (`common::data_field`).
//! Families of the default generator: random numerals around the type bounds, random whitespace
//! strings, zero-padded boundary numerals walked over type x scanner x boundary (`--opt pad` alone),
//! runs of the scanned class of length 0..40 followed by neighbour-weighted bytes from all 256
//! values under every buffered amount (`--opt follow` alone).
use crate::common::*;
use flussab::{text, DeferredReader};

pub const INT_TYPES: &[&str] = &[
    "i8", "i16", "i32", "i64", "i128", "isize", "u8", "u16", "u32", "u64", "u128", "usize",
];
pub const INT_FNS: &[&str] = &["digits", "sdigits", "digits_multi", "sdigits_multi"];
pub const WS_FNS: &[&str] = &["blanks", "newline", "next_newline", "fixed"];

fn type_bounds(ty: &str) -> (String, String) {
    // (|MIN| as decimal string, MAX as decimal string)
    macro_rules! b {
        ($t:ty) => {
            (
                (<$t>::MIN as i128).unsigned_abs().to_string(),
                (<$t>::MAX as u128).to_string(),
            )
        };
    }
    match ty {
        "i8" => b!(i8),
        "i16" => b!(i16),
        "i32" => b!(i32),
        "i64" => b!(i64),
        "isize" => b!(isize),
        "i128" => (i128::MIN.unsigned_abs().to_string(), i128::MAX.to_string()),
        "u8" => b!(u8),
        "u16" => b!(u16),
        "u32" => b!(u32),
        "u64" => b!(u64),
        "usize" => b!(usize),
        "u128" => ("0".into(), u128::MAX.to_string()),
        _ => panic!("bad type"),
    }
}

/// decimal-string comparison a <= b (no leading zeros)
fn dec_le(a: &str, b: &str) -> bool {
    a.len() < b.len() || (a.len() == b.len() && a <= b)
}

/// Reference reading with arbitrary precision: (expected value text or None, expected offset).
fn reference(data: &[u8], off: usize, signed_scan: bool, ty: &str) -> (Option<String>, usize) {
    let at = |i: usize| data.get(i).copied();
    let mut o = off;
    let mut neg = false;
    if signed_scan && at(o) == Some(b'-') {
        if matches!(at(o + 1), Some(b'0'..=b'9')) {
            neg = true;
            o += 1;
        } else {
            return (Some("0".into()), off);
        }
    }
    let start = o;
    while matches!(at(o), Some(b'0'..=b'9')) {
        o += 1;
    }
    let digits = std::str::from_utf8(&data[start.min(data.len())..o.min(data.len())]).unwrap();
    let canon = digits.trim_start_matches('0');
    let canon = if canon.is_empty() { "0" } else { canon };
    let (absmin, max) = type_bounds(ty);
    let value = if canon == "0" {
        Some("0".to_string())
    } else if neg {
        if dec_le(canon, &absmin) { Some(format!("-{}", canon)) } else { None }
    } else if dec_le(canon, &max) {
        Some(canon.to_string())
    } else {
        None
    };
    (value, o)
}

fn call_int(f: &str, ty: &str, r: &mut DeferredReader, off: usize) -> (Option<String>, usize) {
    macro_rules! go {
        ($t:ty) => {{
            let (v, o): (Option<$t>, usize) = match f {
                "digits" => text::ascii_digits(r, off),
                "sdigits" => text::signed_ascii_digits(r, off),
                "digits_multi" => text::ascii_digits_multi(r, off),
                "sdigits_multi" => text::signed_ascii_digits_multi(r, off),
                _ => panic!("bad fn"),
            };
            (v.map(|x| x.to_string()), o)
        }};
    }
    match ty {
        "i8" => go!(i8),
        "i16" => go!(i16),
        "i32" => go!(i32),
        "i64" => go!(i64),
        "i128" => go!(i128),
        "isize" => go!(isize),
        "u8" => go!(u8),
        "u16" => go!(u16),
        "u32" => go!(u32),
        "u64" => go!(u64),
        "u128" => go!(u128),
        "usize" => go!(usize),
        _ => panic!("bad type"),
    }
}

pub fn run_case(line: &str) -> (String, Vec<String>) {
    let (_, f) = Fields::parse(line);
    let func = f.get("fn");
    let ty = f.get("ty");
    let data = data_field(f.get("d"));
    let off = f.num("off");
    let bl = f.num("bl");
    let pat = data_field(f.opt("p").unwrap_or("-"));
    let chunk = f.opt("c").map(|c| c.parse::<usize>().unwrap().max(1));
    let mut sched = vec![];
    // the first `bl` bytes (as far as they exist) in reads of one chunk, then one byte per read
    let full = bl.min(data.len());
    let per = chunk.unwrap_or(16 << 10);
    for _ in 0..full / per {
        sched.push(Ev::Give(per));
    }
    if full % per > 0 {
        sched.push(Ev::Give(full % per));
    }
    for _ in 0..data.len() - full + 4 {
        sched.push(Ev::Give(1));
    }
    let src = SchedSource::new(data.clone(), false, sched);
    let mut r = DeferredReader::from_read(src.clone());
    if let Some(c) = chunk {
        r.set_chunk_size(c);
    }
    if bl > 0 {
        r.request(bl.min(data.len()).max(1));
    }
    let buffered = r.buf_len();
    let mut fails = vec![];
    let res = catch(|| match func {
        "blanks" => (None, text::tabs_or_spaces(&mut r, off)),
        "newline" => (None, text::newline(&mut r, off)),
        "next_newline" => (None, text::next_newline(&mut r, off)),
        "fixed" => (None, text::fixed(&mut r, off, &pat)),
        _ => {
            let (v, o) = call_int(func, ty, &mut r, off);
            (Some(v), o)
        }
    });
    let delivered = src.0.borrow().log.len();
    let obs = match &res {
        None => "panic".to_string(),
        Some((v, o)) => {
            let vs = match v {
                None => "-".to_string(),
                Some(None) => "none".to_string(),
                Some(Some(s)) => s.clone(),
            };
            format!("{}:{}|{}|{}", vs, o, r.position(), delivered)
        }
    };
    // ---------------- oracles ----------------
    let at = |i: usize| data.get(i).copied();
    match &res {
        None => fails.push(format!("C13:{} panicked", func)),
        Some((v, o)) => {
            if r.position() != 0 {
                fails.push("C16:scanner consumed input".into());
            }
            // what a minimal scanner has to look at: everything up to and including the byte
            // that decides (the terminator), or the end of input
            let needed_upto = |last: usize| (last + 1).min(data.len());
            match func {
                "blanks" => {
                    let mut e = off;
                    while matches!(at(e), Some(b' ') | Some(b'\t')) {
                        e += 1;
                    }
                    if *o != e {
                        fails.push(format!("C16:tabs_or_spaces returned {} expected {}", o, e));
                    }
                    if delivered > needed_upto(e).max(buffered) {
                        fails.push(format!("C16:tabs_or_spaces pulled {} bytes, needed {}", delivered, needed_upto(e)));
                    }
                }
                "newline" => {
                    let (e, last) = match (at(off), at(off + 1)) {
                        (Some(b'\n'), _) => (off + 1, off),
                        (Some(b'\r'), Some(b'\n')) => (off + 2, off + 1),
                        (Some(b'\r'), _) => (off, off + 1),
                        _ => (off, off),
                    };
                    if *o != e {
                        fails.push(format!("C16:newline returned {} expected {}", o, e));
                    }
                    if delivered > needed_upto(last).max(buffered) {
                        fails.push(format!("C16:newline pulled {} bytes, needed {}", delivered, needed_upto(last)));
                    }
                }
                "next_newline" => {
                    let mut e = off;
                    while !matches!(at(e), Some(b'\n') | None) {
                        e += 1;
                    }
                    let last = e;
                    if at(e).is_some() {
                        e += 1;
                    }
                    if *o != e {
                        fails.push(format!("C16:next_newline returned {} expected {}", o, e));
                    }
                    if delivered > needed_upto(last).max(buffered) {
                        fails.push(format!("C16:next_newline pulled {} bytes, needed {}", delivered, needed_upto(last)));
                    }
                }
                "fixed" => {
                    let mut m = 0;
                    while m < pat.len() && at(off + m) == Some(pat[m]) {
                        m += 1;
                    }
                    let e = if m == pat.len() { off + pat.len() } else { off };
                    if *o != e {
                        fails.push(format!("C16:fixed returned {} expected {}", o, e));
                    }
                    // stops requesting at the first mismatching byte
                    let need = if pat.is_empty() { 0 } else if m == pat.len() { needed_upto(off + m - 1) } else { needed_upto(off + m) };
                    if delivered > need.max(buffered) {
                        fails.push(format!("C16:fixed pulled {} bytes, needed {}", delivered, need));
                    }
                }
                _ => {
                    let signed_scan = func.starts_with('s');
                    let (ev, eo) = reference(&data, off, signed_scan, ty);
                    let got = v.clone().unwrap();
                    if *o != eo {
                        fails.push(format!("C13:{}<{}> offset {} expected {}", func, ty, o, eo));
                    }
                    if got != ev {
                        fails.push(format!("C13:{}<{}> value {:?} expected {:?}", func, ty, got, ev));
                    }
                }
            }
        }
    }
    (obs, fails)
}

fn rand_numeral(rng: &mut Rng, ty: &str) -> Vec<u8> {
    let (absmin, max) = type_bounds(ty);
    let mut s = String::new();
    let neg = rng.chance(1, 3);
    let bound = if neg && absmin != "0" { absmin } else { max };
    if rng.chance(1, 8) {
        // wrap class: m * 2^bits ± small (a wrapping accumulator would return a small value)
        return crate::gen_cnf::wrap_class_numeral(rng, false);
    }
    let body = match rng.below(8) {
        0 => bound.clone(),
        1 => {
            // bound + 1
            let mut d: Vec<u8> = bound.bytes().collect();
            let mut i = d.len();
            loop {
                if i == 0 {
                    d.insert(0, b'1');
                    break;
                }
                i -= 1;
                if d[i] == b'9' {
                    d[i] = b'0';
                } else {
                    d[i] += 1;
                    break;
                }
            }
            String::from_utf8(d).unwrap()
        }
        2 => {
            // bound - 1 (bound >= 1)
            let mut d: Vec<u8> = bound.bytes().collect();
            let mut i = d.len();
            loop {
                i -= 1;
                if d[i] == b'0' {
                    d[i] = b'9';
                } else {
                    d[i] -= 1;
                    break;
                }
            }
            String::from_utf8(d).unwrap().trim_start_matches('0').to_string()
        }
        3 => {
            let n = rng.range(0, 45);
            (0..n).map(|_| (b'0' + rng.below(10) as u8) as char).collect()
        }
        4 => {
            // same number of digits as the bound
            let n = bound.len();
            (0..n).map(|_| (b'0' + rng.below(10) as u8) as char).collect()
        }
        _ => {
            let n = rng.range(0, 9);
            (0..n).map(|_| (b'0' + rng.below(10) as u8) as char).collect()
        }
    };
    if neg {
        s.push('-');
    }
    for _ in 0..(if rng.chance(1, 4) { rng.range(1, 9) } else { 0 }) {
        s.push('0');
    }
    s.push_str(&body);
    s.into_bytes()
}

/// decimal string + 1
fn dec_inc(s: &str) -> String {
    let mut d: Vec<u8> = s.bytes().collect();
    let mut i = d.len();
    loop {
        if i == 0 {
            d.insert(0, b'1');
            break;
        }
        i -= 1;
        if d[i] == b'9' {
            d[i] = b'0';
        } else {
            d[i] += 1;
            break;
        }
    }
    String::from_utf8(d).unwrap()
}

/// decimal string - 1 (0 stays 0), no leading zeros
fn dec_dec(s: &str) -> String {
    if s.bytes().all(|b| b == b'0') {
        return "0".into();
    }
    let mut d: Vec<u8> = s.bytes().collect();
    let mut i = d.len();
    loop {
        i -= 1;
        if d[i] == b'0' {
            d[i] = b'9';
        } else {
            d[i] -= 1;
            break;
        }
    }
    let t = String::from_utf8(d).unwrap();
    let t = t.trim_start_matches('0');
    if t.is_empty() { "0".into() } else { t.to_string() }
}

/// The bytes that FOLLOW a scanned run: the first one is not in `class` (so the run has the
/// intended length) and is, half of the time, a one-bit or ±1 neighbour of a byte of the scanned
/// class — the bytes a word-at-a-time scanner (has-zero tricks, range masks) confuses with the
/// class; the rest mixes such neighbours, class bytes and arbitrary bytes (`free_text`), in lengths
/// that leave fewer than 8, 8..16 and more than 16 bytes behind the run.  Empty = end of input.
fn follow_bytes(rng: &mut Rng, class: &[u8]) -> Vec<u8> {
    if rng.chance(1, 8) {
        return vec![];
    }
    let mut out = vec![];
    loop {
        let b = match rng.below(4) {
            0 | 1 => {
                let c = *rng.pick(class);
                neighbour_byte(rng, c)
            }
            2 => rng.next() as u8,
            _ => *rng.pick(b" \n\t-/:a}0"),
        };
        if !class.contains(&b) {
            out.push(b);
            break;
        }
    }
    let n = match rng.below(4) {
        0 => rng.below(7),
        1 => rng.range(7, 16),
        2 => rng.range(16, 30),
        _ => rng.below(3),
    };
    for _ in 0..n {
        let b = match rng.below(6) {
            0 | 1 => {
                let c = *rng.pick(class);
                neighbour_byte(rng, c)
            }
            2 => *rng.pick(class),
            3 => rng.next() as u8,
            4 => *out.last().unwrap(),
            _ => free_text(rng, &[], 1).first().copied().unwrap_or(b'x'),
        };
        out.push(b);
    }
    out
}

/// How much is buffered before the call, relative to the scanned region `off .. off + run` of
/// `total` bytes: nothing, everything, 8 / 9 / 15 / 16 / 17 bytes from the offset, the end of the
/// run exactly, ± 1, + 8, + 16, a split inside the run, fewer than 8.
fn buffered_amount(rng: &mut Rng, off: usize, run: usize, total: usize) -> usize {
    match rng.below(16) {
        0 => 0,
        1 | 2 => total + 3,
        3 => off + 8,
        4 => off + 9,
        5 => off + 15,
        6 => off + 16,
        7 => off + 17,
        8 => off + run,
        9 => off + run + 1,
        10 => (off + run).saturating_sub(1),
        11 => off + run + 8,
        12 => off + run + 16,
        13 => off + rng.below(run as u64 + 1) as usize,
        14 => off + rng.below(8) as usize,
        _ => rng.below(total as u64 + 2) as usize,
    }
}

const DIGIT_CLASS: &[u8] = b"0123456789";

static PAD_IDX: std::sync::atomic::AtomicUsize = std::sync::atomic::AtomicUsize::new(0);
const BOUNDARY_KINDS: usize = 17;

/// Boundary numeral `kind` of integer type `ty`: (negative, magnitude without leading zeros).
fn boundary_numeral(rng: &mut Rng, ty: &str, kind: usize) -> (bool, String) {
    let (absmin, max) = type_bounds(ty);
    let pow10 = |rng: &mut Rng| -> String {
        // 10^k for k up to one digit more than the type holds
        let k = rng.range(1, max.len() as u64 + 1) as usize;
        format!("1{}", "0".repeat(k))
    };
    match kind {
        0 => (false, max),
        1 => (false, dec_inc(&max)),
        2 => (false, dec_dec(&max)),
        3 => (true, absmin),
        4 => (true, dec_inc(&absmin)),
        5 => (true, dec_dec(&absmin)),
        6 => (false, "0".into()),
        7 => (true, "0".into()),
        8 => (false, "1".into()),
        9 => (true, "1".into()),
        10 => (false, dec_dec(&pow10(rng))),
        11 => (false, pow10(rng)),
        12 => (false, dec_inc(&pow10(rng))),
        13 => (true, dec_dec(&pow10(rng))),
        14 => (true, pow10(rng)),
        15 => (true, dec_inc(&pow10(rng))),
        _ => (true, max),
    }
}

/// Zero-PADDED boundary numerals (C13): the run walks every integer type x scanner x boundary value
/// (MIN, MIN±1, MAX, MAX±1, 0, -0, ±1, 10^k and 10^k±1 of both signs); each gets 0..40 zeros
/// behind the sign and a buffered amount from `buffered_amount` or a split inside the padding /
/// inside the value.  A padded numeral puts the significant digits into a later 8-byte word of
/// the optimised scanners with a zero accumulator, where the narrow types meet their bounds.
fn gen_padded_boundary(rng: &mut Rng) -> String {
    // the combinations that are not duplicates of one another: the unsigned scanners stop at a
    // sign (one `-0` is kept for that), an unsigned type has the single negative bound `-0`
    static COMBOS: std::sync::OnceLock<Vec<(&'static str, &'static str, usize)>> = std::sync::OnceLock::new();
    let combos = COMBOS.get_or_init(|| {
        let mut v = vec![];
        for kind in 0..BOUNDARY_KINDS {
            for &func in INT_FNS {
                for &ty in INT_TYPES {
                    let negative = matches!(kind, 3 | 4 | 5 | 7 | 9 | 13 | 14 | 15 | 16);
                    let keep = if !func.starts_with('s') { !negative || kind == 7 } else { !(ty.starts_with('u') && matches!(kind, 5 | 7)) };
                    // the model's cost is per byte: the walk spends about the same number of
                    // bytes on every width (3..5 digit bounds are visited 4x as often as 39 digit ones)
                    let weight = match type_bounds(ty).1.len() { 0..=5 => 4, 6..=10 => 3, 11..=20 => 2, _ => 1 };
                    if keep {
                        for _ in 0..weight {
                            v.push((ty, func, kind));
                        }
                    }
                }
            }
        }
        v
    });
    let idx = PAD_IDX.fetch_add(1, std::sync::atomic::Ordering::Relaxed);
    let (ty, func, kind) = combos[idx % combos.len()];
    let (neg, mag) = boundary_numeral(rng, ty, kind);
    // 0..40 zeros; half of the cases stay within two words
    let pad = if rng.chance(1, 2) { rng.range(0, 16) } else { rng.range(0, 40) } as usize;
    let off = if rng.chance(2, 3) { 0 } else { rng.range(1, 9) as usize };
    let mut data: Vec<u8> = (0..off).map(|_| *rng.pick(b" x-07\n")).collect();
    if neg {
        data.push(b'-');
    }
    data.extend(std::iter::repeat(b'0').take(pad));
    data.extend_from_slice(mag.as_bytes());
    let run = neg as usize + pad + mag.len();
    let mut follow = follow_bytes(rng, DIGIT_CLASS);
    // two of three visits of a combination have everything buffered (the mode the word-at-a-time
    // paths are written for), mostly with at least a word of input behind the numeral
    let all_buffered = (idx / combos.len()) % 3 != 2;
    if all_buffered && !follow.is_empty() && follow.len() < 9 && rng.chance(2, 3) {
        for _ in 0..rng.range(8, 12) {
            follow.push(if rng.chance(1, 2) { *rng.pick(b" 0123456789-\nz") } else { rng.next() as u8 });
        }
    }
    data.extend(follow);
    let bl = match rng.below(6) {
        _ if all_buffered => data.len() + rng.below(4) as usize,
        // split inside the padding / inside the value
        0 => off + neg as usize + rng.below(pad as u64 + 1) as usize,
        1 => off + neg as usize + pad + rng.below(mag.len() as u64 + 1) as usize,
        _ => buffered_amount(rng, off, run, data.len()),
    };
    format!("scan fn={} ty={} d={} off={} bl={} p=-", func, ty, hex(&data), off, bl)
}

/// Digit runs of every length 0..40 (leading zeros allowed) with the neighbour-weighted bytes
/// behind them, for every integer scanner (C13/C16: the run ends exactly where the digits end).
fn gen_digit_run_follow(rng: &mut Rng) -> String {
    let func = *rng.pick(INT_FNS);
    let ty = *rng.pick(INT_TYPES);
    let off = if rng.chance(1, 2) { 0 } else { rng.range(1, 9) as usize };
    let mut data: Vec<u8> = (0..off).map(|_| *rng.pick(b" x-07\n")).collect();
    let neg = func.starts_with('s') && rng.chance(1, 3);
    if neg {
        data.push(b'-');
    }
    let n = rng.range(0, 40) as usize;
    let style = rng.below(4);
    for j in 0..n {
        data.push(match style {
            0 => b'0' + rng.below(10) as u8,
            1 => *rng.pick(b"09"),
            2 if j < n / 2 => b'0',
            _ => b'0' + rng.below(10) as u8,
        });
    }
    let run = neg as usize + n;
    data.extend(follow_bytes(rng, DIGIT_CLASS));
    let bl = buffered_amount(rng, off, run, data.len());
    format!("scan fn={} ty={} d={} off={} bl={} p=-", func, ty, hex(&data), off, bl)
}

/// Whitespace helpers (C16): a run of the scanned class of every length 0..40 followed by
/// neighbour-weighted bytes from all 256 values, under every buffered amount.
fn gen_ws_follow(rng: &mut Rng) -> String {
    let func = *rng.pick(&["blanks", "blanks", "newline", "next_newline", "next_newline", "fixed"]);
    let off = if rng.chance(1, 2) { 0 } else { rng.range(1, 12) as usize };
    let mut data: Vec<u8> = free_text(rng, &[], off);
    while data.len() < off {
        data.push(*rng.pick(b" \t\nx"));
    }
    data.truncate(off);
    let n = rng.range(0, 40) as usize;
    let mut pat: Vec<u8> = vec![];
    let run;
    match func {
        "blanks" => {
            let style = rng.below(4);
            for j in 0..n {
                data.push(match style {
                    0 => b' ',
                    1 => b'\t',
                    2 => if j % 2 == 0 { b' ' } else { b'\t' },
                    _ => *rng.pick(b" \t"),
                });
            }
            run = n;
            data.extend(follow_bytes(rng, b" \t"));
        }
        "newline" => {
            let body: Vec<u8> = match rng.below(8) {
                0 => b"\n".to_vec(),
                1 => b"\r\n".to_vec(),
                2 => b"\r".to_vec(),
                3 => vec![b'\r', neighbour_byte(rng, b'\n')],
                4 => vec![neighbour_byte(rng, b'\r'), b'\n'],
                5 => vec![neighbour_byte(rng, b'\n')],
                6 => vec![neighbour_byte(rng, b'\r')],
                _ => vec![],
            };
            run = body.len();
            data.extend(body);
            if rng.chance(3, 4) {
                data.extend(follow_bytes(rng, b"\r\n"));
            }
        }
        "next_newline" => {
            // a line body of n bytes without `\n`: neighbours of `\n` and `\r`, `\r` itself, anything
            for _ in 0..n {
                loop {
                    let b = match rng.below(6) {
                        0 | 1 => neighbour_byte(rng, b'\n'),
                        2 => neighbour_byte(rng, b'\r'),
                        3 => b'\r',
                        4 => rng.next() as u8,
                        _ => 0x20 + rng.below(0x5f) as u8,
                    };
                    if b != b'\n' {
                        data.push(b);
                        break;
                    }
                }
            }
            run = n + 1;
            if rng.chance(5, 6) {
                data.push(b'\n');
                if rng.chance(2, 3) {
                    data.extend(follow_bytes(rng, b"\n"));
                }
            }
        }
        _ => {
            // fixed: a pattern of n bytes; the input has it exactly, with one byte replaced by a
            // neighbour, or cut short
            pat = (0..n).map(|_| match rng.below(3) { 0 => rng.next() as u8, 1 => *rng.pick(b"p cnf\r\n\t09"), _ => 0x20 + rng.below(0x5f) as u8 }).collect();
            let mut body = pat.clone();
            match rng.below(4) {
                0 if n > 0 => {
                    let j = rng.below(n as u64) as usize;
                    body[j] = neighbour_byte(rng, body[j]);
                }
                1 if n > 0 => {
                    let j = rng.below(n as u64) as usize;
                    body.truncate(j);
                }
                _ => {}
            }
            run = body.len();
            data.extend(body);
            if rng.chance(3, 4) {
                let class: Vec<u8> = if pat.is_empty() { b" ".to_vec() } else { pat.clone() };
                data.extend(follow_bytes(rng, &class[class.len() - 1..]));
            }
        }
    }
    let bl = buffered_amount(rng, off, run, data.len());
    format!("scan fn={} ty=- d={} off={} bl={} p={}", func, hex(&data), off, bl, hex(&pat))
}

pub fn gen_case(rng: &mut Rng, thorough: bool) -> String {
    if cli_opt_has("scale") {
        return gen_scale(rng, thorough);
    }
    // `--opt pad` / `--opt follow`: only the padded boundary numerals / only the follow-byte cases
    if cli_opt_has("pad") {
        return gen_padded_boundary(rng);
    }
    if cli_opt_has("follow") {
        return if rng.chance(1, 4) { gen_digit_run_follow(rng) } else { gen_ws_follow(rng) };
    }
    // the three families below take a third of the integer cases and 4/10 of the whitespace cases
    match rng.below(30) {
        0..=4 => return gen_padded_boundary(rng),
        5 => return gen_digit_run_follow(rng),
        6..=9 => return gen_ws_follow(rng),
        _ => {}
    }
    if rng.chance(2, 3) {
        let func = *rng.pick(INT_FNS);
        let ty = *rng.pick(INT_TYPES);
        let off = if rng.chance(1, 2) { 0 } else { rng.range(0, 9) as usize };
        let mut data: Vec<u8> = (0..off).map(|_| *rng.pick(b" x-07\n")).collect();
        data.extend(rand_numeral(rng, ty));
        // terminator: any byte, or end of input
        if rng.chance(5, 6) {
            let term = if rng.chance(1, 2) { *rng.pick(b" \n\t-/:a}") } else { rng.next() as u8 };
            data.push(term);
            for _ in 0..rng.below(10) {
                data.push(*rng.pick(b" 0123456789-\nz"));
            }
        }
        let bl = match rng.below(5) {
            0 => 0,
            1 => data.len() + 3,
            2 => off + rng.range(6, 10) as usize,
            _ => rng.range(0, 20) as usize,
        };
        format!("scan fn={} ty={} d={} off={} bl={} p=-", func, ty, hex(&data), off, bl)
    } else {
        let func = *rng.pick(WS_FNS);
        let n = rng.range(0, 12) as usize;
        let data: Vec<u8> = (0..n).map(|_| *rng.pick(b"  \t\r\n\na0c p")).collect();
        let off = rng.range(0, (n + 1) as u64) as usize;
        let bl = if rng.chance(1, 2) { 0 } else { rng.range(0, n as u64 + 2) as usize };
        let pat: Vec<u8> = match rng.below(6) {
            0 => vec![],
            1 => b"p".to_vec(),
            2 => b"cnf".to_vec(),
            3 => b"c ".to_vec(),
            4 => data.iter().skip(off).take(rng.range(0, 5) as usize).copied().collect(),
            _ => {
                let mut p: Vec<u8> = data.iter().skip(off).copied().collect();
                p.extend_from_slice(b"zz");
                p
            }
        };
        format!("scan fn={} ty=- d={} off={} bl={} p={}", func, hex(&data), off, bl, hex(&pat))
    }
}

/// Complete enumeration for C16: all strings over a 6-letter alphabet up to length `maxlen`,
/// all offsets, a pattern catalogue, buffered 0 / everything.
pub fn exhaustive_ws(maxlen: usize) -> Vec<String> {
    let alpha = b" \t\r\na0";
    let mut out = vec![];
    let mut strings: Vec<Vec<u8>> = vec![vec![]];
    let mut frontier: Vec<Vec<u8>> = vec![vec![]];
    for _ in 0..maxlen {
        let mut next = vec![];
        for s in &frontier {
            for &c in alpha {
                let mut t = s.clone();
                t.push(c);
                next.push(t);
            }
        }
        strings.extend(next.iter().cloned());
        frontier = next;
    }
    for s in &strings {
        for off in 0..=s.len() {
            for bl in [0usize, s.len() + 1] {
                for func in ["blanks", "newline", "next_newline"] {
                    out.push(format!("scan fn={} ty=- d={} off={} bl={} p=-", func, hex(s), off, bl));
                }
                for pat in [&b""[..], b" ", b"a0", b"\r\n", b"a0a0a0a"] {
                    out.push(format!("scan fn=fixed ty=- d={} off={} bl={} p={}", hex(s), off, bl, hex(pat)));
                }
            }
        }
    }
    out
}

// ------------------------------------------------------------------ scale family (`--opt scale`)

/// `--opt` of the command line.  The generator loop in `main.rs` hands this engine only the rng
/// and the tier, so the family switch is read from the process arguments.
pub fn cli_opt() -> String {
    let args: Vec<String> = std::env::args().collect();
    args.iter().position(|a| a == "--opt").and_then(|i| args.get(i + 1)).cloned().unwrap_or_default()
}

pub fn cli_opt_has(word: &str) -> bool {
    cli_opt().split('+').any(|w| w == word)
}

/// Sizes of one scale dimension, split by origin.  The universe is `common::scale_sizes(lo_k, hi_k)`;
/// `must` are the members derived from an integer constant of the current source (never thinned),
/// `pow[i]` the remaining members around `2^(lo_k + i)`.
pub struct SizeLists {
    pub must: Vec<usize>,
    pub pow: Vec<(u32, Vec<usize>)>,
}

pub fn size_lists(lo_k: u32, hi_k: u32) -> SizeLists {
    let all = scale_sizes(lo_k, hi_k);
    let (lo, hi) = (1u64 << lo_k, (1u64 << hi_k) + 64);
    let mut from_const: Vec<usize> = vec![];
    for c in source_consts() {
        if c >= lo && c <= hi {
            for x in [c - 1, c, c + 1, c + 8, c + 9, 2 * c, 2 * c + 1, 3 * (c + 1), 5 * (c + 1), 4 * c + 4] {
                from_const.push(x as usize);
            }
        }
    }
    let must: Vec<usize> = all.iter().copied().filter(|s| from_const.contains(s)).collect();
    let mut pow = vec![];
    for k in lo_k..=hi_k {
        let p = 1usize << k;
        let v: Vec<usize> = all.iter().copied().filter(|&s| s + 1 >= p && s <= p + 9 && !must.contains(&s)).collect();
        pow.push((k, v));
    }
    SizeLists { must, pow }
}

/// One size-like dimension of a scale family.
#[derive(Clone, Copy)]
pub struct ScaleDim {
    /// sizes `2^lo_k ..= 2^hi_k + 64` (quick tier), `..= 2^hi_k_thorough + 64` (thorough)
    pub lo_k: u32,
    pub hi_k: u32,
    pub hi_k_thorough: u32,
    /// quick tier: all variants around `2^k` for `k <= full_k`, `above` random ones per larger power
    pub full_k: u32,
    pub above: usize,
    /// quick tier: the variants left out become `big=1` cases (implementation-side oracles only)
    pub rest_big: bool,
    /// sizes above this are beyond what the Lean model can run in the budget: always `big=1`
    pub model_max: usize,
    pub model_max_thorough: usize,
}

impl ScaleDim {
    pub const fn new(lo_k: u32, hi_k: u32, hi_k_thorough: u32, full_k: u32, above: usize) -> ScaleDim {
        ScaleDim { lo_k, hi_k, hi_k_thorough, full_k, above, rest_big: false, model_max: usize::MAX, model_max_thorough: usize::MAX }
    }
    pub const fn rest_big(mut self) -> ScaleDim {
        self.rest_big = true;
        self
    }
    pub const fn model_max(mut self, quick: usize, thorough: usize) -> ScaleDim {
        self.model_max = quick;
        self.model_max_thorough = thorough;
        self
    }
}

/// The plan of a scale run: `(dimension, size, big)` triples, sizes that come from a source
/// constant first (every dimension sees each of them), then the sizes around powers of two.  In
/// the quick tier a dimension takes all power-of-two variants up to `2^full_k` and `above` random
/// variants per larger power (that is where the cost is), the other variants as `big=1` cases
/// if `rest_big`; thorough takes them all.
pub fn scale_plan(rng: &mut Rng, dims: &[ScaleDim], thorough: bool) -> Vec<(usize, usize, bool)> {
    let mut plan = vec![];
    let hi = |d: &ScaleDim| if thorough { d.hi_k_thorough } else { d.hi_k };
    let cap = |d: &ScaleDim| if thorough { d.model_max_thorough } else { d.model_max };
    let lists: Vec<SizeLists> = dims.iter().map(|d| size_lists(d.lo_k, hi(d))).collect();
    let mut musts: Vec<usize> = lists.iter().flat_map(|l| l.must.iter().copied()).collect();
    musts.sort();
    musts.dedup();
    for s in musts {
        for (d, l) in lists.iter().enumerate() {
            if l.must.contains(&s) {
                plan.push((d, s, s > cap(&dims[d])));
            }
        }
    }
    let (klo, khi) = (dims.iter().map(|d| d.lo_k).min().unwrap(), dims.iter().map(|d| hi(d)).max().unwrap());
    for k in klo..=khi {
        for (d, l) in lists.iter().enumerate() {
            let Some((_, v)) = l.pow.iter().find(|(kk, _)| *kk == k) else { continue };
            let dim = &dims[d];
            if thorough || k <= dim.full_k {
                plan.extend(v.iter().map(|&s| (d, s, s > cap(dim))));
            } else {
                let mut v = v.clone();
                let mut rest = vec![];
                if k == hi(dim) {
                    // the largest power: stay above it ("beyond 2^k + a bit")
                    rest = v.iter().copied().filter(|&s| s <= 1usize << k).collect();
                    v.retain(|&s| s > 1usize << k);
                }
                for _ in 0..dim.above.min(v.len()) {
                    let i = rng.below(v.len() as u64) as usize;
                    let s = v.remove(i);
                    plan.push((d, s, s > cap(dim)));
                }
                if dim.rest_big {
                    // the variants the model is too slow for: implementation-side oracles only
                    plan.extend(v.iter().chain(rest.iter()).map(|&s| (d, s, true)));
                }
            }
        }
    }
    plan
}

static SCALE_IDX: std::sync::atomic::AtomicUsize = std::sync::atomic::AtomicUsize::new(0);
static SCALE_PLAN: std::sync::OnceLock<Vec<(usize, usize, bool)>> = std::sync::OnceLock::new();

/// the dimensions of the scan scale family
const D_RUN: usize = 0; // length of the digit run
const D_OFF: usize = 1; // scan offset
const D_BL: usize = 2; // amount buffered before the call (numeral straddles its end)
const D_BLANKS: usize = 3; // run of tabs/spaces
const D_LINE: usize = 4; // line length (next_newline)
const D_PAT: usize = 5; // pattern length (fixed)
const D_CHUNK: usize = 6; // reader chunk size
const D_TAIL: usize = 7; // bytes behind the deciding byte (must stay untouched)

fn digits_of(rng: &mut Rng, n: usize) -> Vec<u8> {
    (0..n).map(|_| b'0' + rng.below(10) as u8).collect()
}

/// A digit run of exactly `len` bytes as a data field; second component: whether the first
/// character may be preceded by `-` and still be meaningful for the type (always true).
fn scale_run(rng: &mut Rng, len: usize, ty: &str, neg: bool) -> String {
    let (absmin, max) = type_bounds(ty);
    let bound = if neg && absmin != "0" { absmin } else { max };
    let kind = rng.below(10);
    let lit = |d: &[u8]| if d.is_empty() { "-".to_string() } else { hex(d) };
    match kind {
        // zeros then a value around the bound of the type / a short value / a wrap-class value
        0..=4 => {
            let v: Vec<u8> = match rng.below(5) {
                0 => bound.clone().into_bytes(),
                1 => {
                    let mut d = digits_of(rng, bound.len());
                    d[0] = b'1' + rng.below(9) as u8;
                    d
                }
                2 => {
                    let n = rng.range(1, bound.len() as u64) as usize;
                    let mut d = digits_of(rng, n);
                    d[0] = b'1' + rng.below(9) as u8;
                    d
                }
                3 => crate::gen_cnf::wrap_class_numeral(rng, false).into_iter().filter(|b| b.is_ascii_digit()).collect(),
                _ => { let n = rng.range(1, 9) as usize; digits_of(rng, n) },
            };
            let v = if v.len() > len { v[v.len() - len..].to_vec() } else { v };
            if v.len() == len { lit(&v) } else { format!("r{}.30+{}", len - v.len(), lit(&v)) }
        }
        // one repeated digit (all nines, all ones, all zeros)
        5 => format!("r{}.{:02x}", len, *rng.pick(b"9910")),
        // a non-zero digit then zeros: 10^(len-1) * d, zero in every wrapping accumulator
        6 => {
            if len == 1 { lit(b"7") } else { format!("{}+r{}.30", lit(&[b'1' + rng.below(9) as u8]), len - 1) }
        }
        // a short period repeated
        7 => {
            let p = { let n = rng.range(2, 11) as usize; digits_of(rng, n) };
            let (q, r) = (len / p.len(), len % p.len());
            format!("r{}.{}+{}", q, hex(&p), lit(&p[..r]))
        }
        // consecutive 7-digit numbers: no short period
        8 => {
            let (q, r) = (len / 7, len % 7);
            let start = rng.range(1_000_000, 8_000_000);
            let step = rng.range(1, 3);
            let q = q.min(((9_999_999 - start) / step) as usize);
            let rest = len - 7 * q;
            let _ = r;
            if rest > 64 { format!("n{}.{}.{}.-.-+r{}.38", q, start, step, rest) } else { format!("n{}.{}.{}.-.-+{}", q, start, step, lit(&digits_of(rng, rest))) }
        }
        // zeros, a value, and zeros again (overflow decided far from both ends)
        _ => {
            let v = bound.clone().into_bytes();
            if len <= v.len() + 2 {
                lit(&digits_of(rng, len))
            } else {
                let a = rng.range(0, (len - v.len()) as u64) as usize;
                let b = len - v.len() - a;
                let z = |n: usize| if n == 0 { "-".to_string() } else { format!("r{}.30", n) };
                format!("{}+{}+{}", z(a), hex(&v), z(b))
            }
        }
    }
}

fn junk_field(rng: &mut Rng, n: usize) -> String {
    if n == 0 {
        return "-".into();
    }
    if n < 64 {
        return hex(&(0..n).map(|_| *rng.pick(b" x-07\n")).collect::<Vec<u8>>());
    }
    match rng.below(3) {
        0 => format!("r{}.{:02x}", n, *rng.pick(b"0 9-\n")),
        1 => format!("g{}.{}", n, rng.below(1000)),
        _ => {
            let p = *rng.pick(&[&b"12 "[..], b"-0", b"\r\n7", b"0000000-"]);
            let (q, r) = (n / p.len(), n % p.len());
            format!("r{}.{}+{}", q, hex(p), if r == 0 { "-".to_string() } else { hex(&p[..r]) })
        }
    }
}

fn term_field(rng: &mut Rng) -> String {
    // terminator and a little tail; `-` = end of input right behind the run
    if rng.chance(1, 5) {
        return "-".into();
    }
    if rng.chance(1, 4) {
        // neighbour-weighted bytes from all 256 values behind the run
        let f = follow_bytes(rng, DIGIT_CLASS);
        return if f.is_empty() { "-".into() } else { hex(&f) };
    }
    let mut t = vec![if rng.chance(2, 3) { *rng.pick(b" \n\t-/:a}") } else { rng.next() as u8 }];
    if t[0].is_ascii_digit() {
        t[0] = b'/';
    }
    for _ in 0..rng.below(6) {
        t.push(*rng.pick(b" 0123456789-\nz"));
    }
    hex(&t)
}

fn join_fields(parts: &[String]) -> String {
    let v: Vec<&str> = parts.iter().map(|s| s.as_str()).filter(|s| *s != "-").collect();
    if v.is_empty() { "-".into() } else { v.join("+") }
}

/// chunk size for a case that pre-buffers `bl` bytes: at most 4096 reads for the pre-buffering
fn pick_chunk(rng: &mut Rng, bl: usize, sizes: &[usize]) -> usize {
    let floor = bl / 4096 + 1;
    let c = match rng.below(6) {
        0 | 1 => 16 << 10,
        2 => *rng.pick(sizes),
        3 => 1usize << rng.range(0, 21),
        4 => bl.max(1),
        _ => rng.range(1, 600) as usize,
    };
    c.max(floor)
}

pub fn gen_scale(rng: &mut Rng, thorough: bool) -> String {
    let idx = SCALE_IDX.fetch_add(1, std::sync::atomic::Ordering::Relaxed);
    let plan = SCALE_PLAN.get_or_init(|| {
        // the digit run is what the model is slow on (1..4 us per digit): one variant per power
        // above 2^15 through the model, the others implementation-only
        let o = ScaleDim::new(10, 21, 22, 18, 1);
        let dims = [ScaleDim::new(10, 20, 21, 15, 1).rest_big(), o, o, o, o, o, o, o];
        scale_plan(&mut rng.fork(), &dims, thorough)
    });
    if idx == 0 && std::env::var("VH_SCALE_INFO").is_ok() {
        eprintln!("scan scale plan: {} cases per pass", plan.len());
    }
    let (dim, size, big) = plan[idx % plan.len()];
    let sizes = scale_sizes(10, 21);
    let line = gen_scale_case(rng, dim, size, &sizes);
    if big { format!("{} big=1", line) } else { line }
}

fn gen_scale_case(rng: &mut Rng, dim: usize, size: usize, sizes: &[usize]) -> String {
    let sizes = sizes.to_vec();
    let int_case = |rng: &mut Rng, func: &str, ty: &str, pre: String, off: usize, run: String, runlen: usize, term: String, bl: usize, c: Option<usize>| {
        let _ = runlen;
        let d = join_fields(&[pre, run, term]);
        let _ = rng;
        match c {
            Some(c) => format!("scan fn={} ty={} d={} off={} bl={} c={} p=-", func, ty, d, off, bl, c),
            None => format!("scan fn={} ty={} d={} off={} bl={} p=-", func, ty, d, off, bl),
        }
    };
    match dim {
        D_RUN => {
            // long runs: the optimised variants more often (they have the continuation helpers)
            let func = if size >= 1 << 16 && rng.chance(1, 2) { *rng.pick(&["digits_multi", "sdigits_multi"]) } else { *rng.pick(&["digits_multi", "digits_multi", "sdigits_multi", "sdigits_multi", "digits", "sdigits"]) };
            let ty = *rng.pick(INT_TYPES);
            let signed_scan = func.starts_with('s');
            let neg = if signed_scan { rng.chance(1, 2) } else { rng.chance(1, 25) };
            let off = match rng.below(6) {
                0 => rng.range(1, 9) as usize,
                1 => *rng.pick(&sizes),
                _ => 0,
            };
            let pre = junk_field(rng, off);
            // with a sign the run is the digits behind it
            let run = scale_run(rng, size, ty, neg);
            let run = if neg { format!("2d+{}", run) } else { run };
            let total_run = size + neg as usize;
            let term = term_field(rng);
            let bl = match rng.below(12) {
                0 => 0,
                1 => off + 7,
                2 => off + 8,
                3 => off + 9,
                4 => off + total_run / 2,
                5 => off + total_run - 1,
                6 => off + total_run,
                7 => off + total_run + 1,
                8 => off + *rng.pick(&sizes),
                _ => off + total_run + 40,
            };
            let c = if rng.chance(1, 3) { None } else { Some(pick_chunk(rng, bl, &sizes)) };
            // without `c` the default chunk applies: keep the pre-buffering reads few
            let c = if c.is_none() && bl > (16 << 10) * 64 { Some(bl) } else { c };
            int_case(rng, func, ty, pre, off, run, total_run, term, bl, c)
        }
        D_OFF | D_BL | D_CHUNK | D_TAIL => {
            // a short numeral or a short whitespace pattern placed at scale
            let ws = rng.chance(1, 3);
            let func = if ws { *rng.pick(WS_FNS) } else { *rng.pick(INT_FNS) };
            let ty = if ws { "-" } else { *rng.pick(INT_TYPES) };
            let mut body: Vec<u8> = if ws {
                match func {
                    "blanks" => (0..rng.range(0, 20)).map(|_| *rng.pick(b" \t")).collect(),
                    "newline" => rng.pick(&[&b"\n"[..], b"\r\n", b"\r", b"\rx", b"x", b""]).to_vec(),
                    "next_newline" => (0..rng.range(0, 30)).map(|_| *rng.pick(b"ab \r1")).collect(),
                    _ => b"p cnf".to_vec(),
                }
            } else if rng.chance(1, 2) {
                rand_numeral(rng, ty)
            } else {
                // 7..24 digits: around the 8-byte word
                let mut d = { let n = rng.range(6, 24) as usize; digits_of(rng, n) };
                if func.starts_with('s') && rng.chance(1, 2) {
                    d.insert(0, b'-');
                }
                d
            };
            let term: Vec<u8> = if rng.chance(1, 6) { vec![] } else if ws && func == "next_newline" { b"\nzz".to_vec() } else { vec![*rng.pick(b"x/:}"), b'1', b' '] };
            let pat = if func == "fixed" {
                match rng.below(3) { 0 => hex(&body), 1 => hex(b"p cnf 1"), _ => hex(b"p cn") }
            } else {
                "-".into()
            };
            let blen = body.len();
            body.extend_from_slice(&term);
            let (off, tail, bl, c) = match dim {
                D_OFF => {
                    let off = size;
                    let bl = *rng.pick(&[0usize, off, off + 7, off + 8, off + 9, off + blen, off + body.len() + 5, off.saturating_sub(1)]);
                    // unbuffered prefix is pulled one byte per read
                    (off, 0usize, bl, Some(pick_chunk(rng, bl, &sizes)))
                }
                D_BL => {
                    // the numeral straddles the end of the buffered data
                    let j = rng.below(13) as usize;
                    let off = size.saturating_sub(j);
                    (off, if rng.chance(1, 2) { 0 } else { rng.range(0, 100) as usize }, size, Some(pick_chunk(rng, size, &sizes)))
                }
                D_CHUNK => {
                    let off = if rng.chance(1, 2) { 0 } else { rng.range(0, 40) as usize };
                    let bl = *rng.pick(&[0usize, off + 8, size - 1, size, size + 1, 2 * size, 2 * size + 1]);
                    (off, if bl > off + body.len() { bl - off - body.len() + rng.below(20) as usize } else { 0 }, bl, Some(size))
                }
                _ => {
                    let off = if rng.chance(1, 2) { 0 } else { rng.range(0, 40) as usize };
                    let bl = *rng.pick(&[0usize, 0, off + 8, off + blen, off + blen + 1, 100]);
                    (off, size, bl, if rng.chance(1, 2) { None } else { Some(pick_chunk(rng, bl, &sizes)) })
                }
            };
            let d = join_fields(&[junk_field(rng, off), hex(&body), junk_field(rng, tail)]);
            match c {
                Some(c) => format!("scan fn={} ty={} d={} off={} bl={} c={} p={}", func, ty, d, off, bl, c, pat),
                None => format!("scan fn={} ty={} d={} off={} bl={} p={}", func, ty, d, off, bl, pat),
            }
        }
        D_BLANKS | D_LINE => {
            let func = if dim == D_BLANKS { "blanks" } else { "next_newline" };
            let off = match rng.below(5) { 0 => rng.range(1, 9) as usize, 1 => *rng.pick(&sizes), _ => 0 };
            let run = if dim == D_BLANKS {
                match rng.below(4) {
                    0 => format!("r{}.20", size),
                    1 => format!("r{}.09", size),
                    2 => format!("r{}.2009+{}", size / 2, if size % 2 == 1 { "20" } else { "-" }),
                    _ => format!("r{}.20+r{}.09", size - size / 3, size / 3),
                }
            } else {
                match rng.below(5) {
                    0 => format!("r{}.61", size),
                    1 => format!("r{}.0d", size),
                    2 => format!("r{}.20", size),
                    // a line of one-bit / ±1 neighbours of `\n`
                    3 => {
                        let mut b = neighbour_byte(rng, b'\n');
                        if b == b'\n' { b = 0x8a; }
                        format!("r{}.{:02x}", size, b)
                    }
                    _ => format!("r{}.630d+{}", size / 2, if size % 2 == 1 { "0b" } else { "-" }),
                }
            };
            let term = if rng.chance(1, 4) {
                "-".to_string()
            } else if rng.chance(1, 2) {
                // neighbour-weighted bytes from all 256 values behind the run
                let f = if dim == D_BLANKS { follow_bytes(rng, b" \t") } else { let mut f = vec![b'\n']; f.extend(follow_bytes(rng, b"\n")); f };
                if f.is_empty() { "-".to_string() } else { hex(&f) }
            } else if dim == D_BLANKS { hex(*rng.pick(&[&b"x "[..], b"\n ", b"1\t", b"\r"])) } else { hex(*rng.pick(&[&b"\n"[..], b"\na", b"\n\n"])) };
            let total = off + size;
            let bl = *rng.pick(&[0usize, 0, off + size / 2, total - 1, total, total + 1, total + 9, off + 8]);
            let c = pick_chunk(rng, bl, &sizes);
            let d = join_fields(&[junk_field(rng, off), run, term]);
            format!("scan fn={} ty=- d={} off={} bl={} c={} p=-", func, d, off, bl, c)
        }
        _ => {
            // D_PAT: pattern of `size` bytes; full match, mismatch at one position, input ends inside
            let period = rng.pick(&[&b"ab"[..], b"p cnf ", b"\r\n", b"0123456789abcdef", b"x"]).to_vec();
            let field = |n: usize| -> String {
                if n == 0 { return "-".into(); }
                let (q, r) = (n / period.len(), n % period.len());
                join_fields(&[if q > 0 { format!("r{}.{}", q, hex(&period)) } else { "-".into() }, if r > 0 { hex(&period[..r]) } else { "-".into() }])
            };
            let off = match rng.below(5) { 0 => rng.range(1, 9) as usize, 1 => *rng.pick(&sizes), _ => 0 };
            let pat = field(size);
            let (body, blen) = match rng.below(6) {
                0 | 1 => (join_fields(&[field(size), hex(b"zz")]), size + 2),
                2 => (field(size), size),
                // input ends one byte / half way before the pattern does
                3 => (field(size - 1), size - 1),
                4 => (field(size / 2), size / 2),
                // one byte differs: period positions shift after index j
                _ => {
                    let jr = rng.below(size as u64) as usize;
                    let j = *rng.pick(&[0usize, size - 1, size / 2, jr]);
                    // bytes 0..j of the pattern, a foreign byte, then anything
                    (join_fields(&[field(j), "ff".into(), junk_field(rng, size - j)]), size + 1)
                }
            };
            let bl = *rng.pick(&[0usize, 0, off + 1, off + size / 2, off + size - 1, off + size, off + blen + 3]);
            let c = pick_chunk(rng, bl, &sizes);
            let d = join_fields(&[junk_field(rng, off), body]);
            format!("scan fn=fixed ty=- d={} off={} bl={} c={} p={}", d, off, bl, c, pat)
        }
    }
}
