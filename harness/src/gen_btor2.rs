//! Case generators for engine `btor2`: lines built through the crate's public constructors and
//! written by `write_into` (C03), the same lines through a layout grammar (blank lines, leading
//! spaces, comment lines, missing final newline after a comment), keywords around the 8-byte SWAR
//! boundary, mutations, arbitrary bytes, extreme numerals, truncations (C01, C05, C06),
//! single-token corruptions with known position (C08), faults (C04), line sources (C09);
//! `scale`: every size-like dimension of the input taken beyond 2^20 (see below).
use crate::common::*;
use crate::eng_btor2::{join_obs, write_lines, Case, OConst, OLine, OVariant};
use flussab_btor2::btor2::*;

pub const UNARY_OPS: &[UnaryOp] =
    &[UnaryOp::Not, UnaryOp::Inc, UnaryOp::Dec, UnaryOp::Neg, UnaryOp::Redand, UnaryOp::Redor, UnaryOp::Redxor];

pub const BINARY_OPS: &[BinaryOp] = &[
    BinaryOp::Iff, BinaryOp::Implies, BinaryOp::Eq, BinaryOp::Neq, BinaryOp::Ugt, BinaryOp::Sgt, BinaryOp::Ugte,
    BinaryOp::Sgte, BinaryOp::Ult, BinaryOp::Slt, BinaryOp::Ulte, BinaryOp::Slte, BinaryOp::And, BinaryOp::Nand,
    BinaryOp::Nor, BinaryOp::Or, BinaryOp::Xnor, BinaryOp::Xor, BinaryOp::Rol, BinaryOp::Ror, BinaryOp::Sll,
    BinaryOp::Sra, BinaryOp::Srl, BinaryOp::Add, BinaryOp::Mul, BinaryOp::Udiv, BinaryOp::Sdiv, BinaryOp::Smod,
    BinaryOp::Urem, BinaryOp::Srem, BinaryOp::Sub, BinaryOp::Uaddo, BinaryOp::Saddo, BinaryOp::Sdivo, BinaryOp::Umulo,
    BinaryOp::Smulo, BinaryOp::Usubo, BinaryOp::Ssubo, BinaryOp::Concat, BinaryOp::Read,
];

fn rand_id(rng: &mut Rng) -> u64 {
    match rng.below(8) {
        0 => 1,
        1 => u64::MAX,
        2 => u64::MAX - rng.below(3),
        3 => 10u64.pow(rng.range(1, 19) as u32) - rng.below(2),
        4 => rng.next() >> rng.range(0, 63),
        _ => rng.range(1, 300),
    }
    .max(1)
}

fn rand_index(rng: &mut Rng) -> u64 {
    match rng.below(5) {
        0 => 0,
        1 => u64::MAX,
        2 => rng.next() >> rng.range(0, 63),
        _ => rng.range(0, 70),
    }
}

fn digits(rng: &mut Rng, alphabet: &[u8], min: u64, max: u64) -> String {
    let n = rng.range(min, max);
    (0..n).map(|_| *rng.pick(alphabet) as char).collect()
}

/// A constant string over an alphabet that is wider than the digits of the form.
fn const_candidate(rng: &mut Rng, len_hi: u64) -> String {
    let alpha: &[u8] = match rng.below(3) {
        0 => b"01",
        1 => b"0123456789abcdefABCDEF",
        _ => b"0123456789abcdefABCDEFgG-2 x",
    };
    let mut s = digits(rng, alpha, 0, len_hi);
    if rng.chance(1, 4) { s.insert(0, '-'); }
    if rng.chance(1, 12) { s.push('\u{e9}'); }
    s
}

fn rand_const(rng: &mut Rng) -> OConst {
    // lengths cross the 8-byte and 16-byte marks; decimal incl. negative, leading zeros, lone '-'
    let len_hi = *rng.pick(&[1u64, 3, 8, 9, 17, 70]);
    if rng.chance(1, 4) {
        // whatever the public constructors accept: candidates over a wider alphabet, filtered by
        // the real `TryFrom` validators (F12: "1f" was accepted as a decimal constant)
        for _ in 0..8 {
            let s = const_candidate(rng, len_hi);
            match rng.below(3) {
                0 if BinaryConst::try_from(s.as_str()).is_ok() => return OConst::Binary(s),
                1 if DecimalConst::try_from(s.as_str()).is_ok() => return OConst::Decimal(s),
                2 if HexConst::try_from(s.as_str()).is_ok() => return OConst::Hex(s),
                _ => {}
            }
        }
    }
    match rng.below(9) {
        0 | 1 => OConst::Binary(digits(rng, b"01", 1, len_hi)),
        2 | 3 => OConst::Hex(digits(rng, b"0123456789abcdefABCDEF", 1, len_hi)),
        4 => OConst::Decimal(digits(rng, b"0123456789", 1, len_hi)),
        5 => {
            let lo = if rng.chance(1, 8) { 0 } else { 1 };
            OConst::Decimal(format!("-{}", digits(rng, b"0123456789", lo, len_hi)))
        }
        6 => OConst::One,
        7 => OConst::Ones,
        _ => OConst::Zero,
    }
}

fn rand_symbol(rng: &mut Rng) -> Vec<u8> {
    // non-empty, no space / newline, not starting with ';'
    let n = rng.range(1, 12);
    let mut s: Vec<u8> = (0..n)
        .map(|_| if rng.chance(1, 12) { *rng.pick(b"\t\r;\xff\x00\xc3\xa9-_.[]") } else { *rng.pick(b"abcxyz019_ABC") })
        .collect();
    if rng.chance(1, 3) {
        // any bytes but the two separators
        s = free_text(rng, b" \n", 24);
        if s.is_empty() {
            s.push(b'q');
        }
    }
    if s[0] == b';' {
        s[0] = b's';
    }
    s
}

fn rand_comment(rng: &mut Rng) -> Vec<u8> {
    let n = match rng.below(4) { 0 => 0, _ => rng.range(0, 14) };
    if rng.chance(1, 3) {
        // any byte but the line end
        return free_text(rng, b"\n", 40);
    }
    (0..n)
        .map(|_| if rng.chance(1, 10) { *rng.pick(b"\t\r;\xff\x00") } else { *rng.pick(b" abc 019;  sort") })
        .collect()
}

pub fn rand_variant(rng: &mut Rng) -> OVariant {
    let s = rand_id(rng);
    match rng.below(14) {
        0 => OVariant::SortBitVec(rand_id(rng)),
        1 => OVariant::SortArray(rand_id(rng), rand_id(rng)),
        2 | 3 => OVariant::Const(s, rand_const(rng)),
        4 => OVariant::Input(s),
        5 => OVariant::State(s),
        6 => {
            let op = match rng.below(4) {
                0 => UnaryOp::Uext(rand_index(rng)),
                1 => UnaryOp::Sext(rand_index(rng)),
                2 => UnaryOp::Slice(rand_index(rng), rand_index(rng)),
                _ => *rng.pick(UNARY_OPS),
            };
            OVariant::Unary(s, op, rand_id(rng))
        }
        7 | 8 => OVariant::Binary(s, *rng.pick(BINARY_OPS), [rand_id(rng), rand_id(rng)]),
        9 => OVariant::Ternary(s, *rng.pick(&[TernaryOp::Ite, TernaryOp::Write]), [rand_id(rng), rand_id(rng), rand_id(rng)]),
        10 => OVariant::Assignment {
            state: rand_id(rng),
            sort: s,
            kind: *rng.pick(&[AssignmentKind::Init, AssignmentKind::Next]),
            value: rand_id(rng),
        },
        11 | 12 => OVariant::Output(
            *rng.pick(&[
                SingleValueOutputKind::Output,
                SingleValueOutputKind::Bad,
                SingleValueOutputKind::Constraint,
                SingleValueOutputKind::Fair,
            ]),
            rand_id(rng),
        ),
        _ => {
            let n = match rng.below(4) { 0 => 1, 1 => rng.range(8, 12), _ => rng.range(1, 5) };
            OVariant::Justice((0..n).map(|_| rand_id(rng)).collect())
        }
    }
}

/// A line inside the round-trip domain (`Line.WF` of the Lean model).
pub fn rand_line(rng: &mut Rng) -> OLine {
    if rng.chance(1, 7) {
        // comment line; the comment must not contain a newline
        return OLine::Comment(rand_comment(rng));
    }
    OLine::Node {
        id: rand_id(rng),
        variant: rand_variant(rng),
        symbol: if rng.chance(1, 3) { Some(rand_symbol(rng)) } else { None },
        comment: if rng.chance(1, 3) { Some(rand_comment(rng)) } else { None },
    }
}

/// Every operator / constant form / line kind once (a deterministic sweep the random families
/// are mixed with).
pub fn all_kinds() -> Vec<OLine> {
    let mut v = vec![];
    let mut id = 1u64;
    let mut node = |variant: OVariant| {
        id += 1;
        OLine::Node { id, variant, symbol: None, comment: None }
    };
    v.push(node(OVariant::SortBitVec(8)));
    v.push(node(OVariant::SortArray(1, 1)));
    for c in [
        OConst::Binary("0101".into()),
        OConst::Hex("fF09".into()),
        OConst::Decimal("19".into()),
        OConst::Decimal("-90".into()),
        OConst::Decimal("019".into()),
        OConst::Decimal("-".into()),
        OConst::One,
        OConst::Ones,
        OConst::Zero,
    ] {
        v.push(node(OVariant::Const(1, c)));
    }
    v.push(node(OVariant::Input(1)));
    v.push(node(OVariant::State(1)));
    for op in UNARY_OPS {
        v.push(node(OVariant::Unary(1, *op, 2)));
    }
    v.push(node(OVariant::Unary(1, UnaryOp::Uext(3), 2)));
    v.push(node(OVariant::Unary(1, UnaryOp::Sext(0), 2)));
    v.push(node(OVariant::Unary(1, UnaryOp::Slice(7, 0), 2)));
    for op in BINARY_OPS {
        v.push(node(OVariant::Binary(1, *op, [2, 3])));
    }
    for op in [TernaryOp::Ite, TernaryOp::Write] {
        v.push(node(OVariant::Ternary(1, op, [2, 3, 4])));
    }
    for kind in [AssignmentKind::Init, AssignmentKind::Next] {
        v.push(node(OVariant::Assignment { state: 5, sort: 1, kind, value: 6 }));
    }
    for kind in [
        SingleValueOutputKind::Output,
        SingleValueOutputKind::Bad,
        SingleValueOutputKind::Constraint,
        SingleValueOutputKind::Fair,
    ] {
        v.push(node(OVariant::Output(kind, 7)));
    }
    v.push(node(OVariant::Justice(vec![7, 8, 9])));
    v
}

pub fn gen_doc(rng: &mut Rng) -> Vec<OLine> {
    let n = match rng.below(8) { 0 => 0, 1 => 1, _ => rng.range(1, 7) } as usize;
    let all = all_kinds();
    (0..n).map(|_| if rng.chance(1, 4) { rng.pick(&all).clone() } else { rand_line(rng) }).collect()
}

pub fn expected(doc: &[OLine]) -> String {
    join_obs(doc.iter().map(|l| l.obs()), "END")
}

/// Text with token spans: (line, column, length, is a number) of every space-separated token
/// before the symbol / comment, 1-based.
pub struct Rendered {
    pub bytes: Vec<u8>,
    pub tokens: Vec<(usize, usize, usize, bool)>,
}

/// The layout grammar: what `write_into` emits for each line, with optional blank lines, lines
/// of spaces, leading spaces, and — after a final line that ends in a comment — a missing
/// newline.
pub fn render(rng: &mut Rng, doc: &[OLine], plain: bool) -> Rendered {
    let mut b: Vec<u8> = vec![];
    let mut toks = vec![];
    let mut line = 1usize;
    let n = doc.len();
    for (i, l) in doc.iter().enumerate() {
        if !plain {
            while rng.chance(1, 6) {
                for _ in 0..rng.below(3) { b.push(b' '); }
                b.push(b'\n');
                line += 1;
            }
        }
        let lead = if !plain && rng.chance(1, 6) { rng.range(1, 3) as usize } else { 0 };
        for _ in 0..lead { b.push(b' '); }
        let text = write_lines(std::slice::from_ref(l)).expect("generated line is constructible");
        let body = &text[..text.len() - 1];
        // token spans of the node part: up to the symbol / comment
        if let OLine::Node { variant, .. } = l {
            let ntok = 2 + match variant {
                OVariant::SortBitVec(_) => 2,
                OVariant::SortArray(..) => 3,
                OVariant::Const(_, OConst::Binary(_) | OConst::Decimal(_) | OConst::Hex(_)) => 2,
                OVariant::Const(..) | OVariant::Input(_) | OVariant::State(_) => 1,
                OVariant::Unary(_, UnaryOp::Uext(_) | UnaryOp::Sext(_), _) => 3,
                OVariant::Unary(_, UnaryOp::Slice(..), _) => 4,
                OVariant::Unary(..) => 2,
                OVariant::Binary(..) => 3,
                OVariant::Ternary(..) => 4,
                OVariant::Assignment { .. } => 3,
                OVariant::Output(..) => 1,
                OVariant::Justice(ns) => 1 + ns.len(),
            };
            let mut col = 1 + lead;
            for (k, t) in body.split(|c| *c == b' ').take(ntok).enumerate() {
                let is_const = matches!(variant, OVariant::Const(_, OConst::Binary(_) | OConst::Decimal(_) | OConst::Hex(_))) && k == 3;
                let is_num = !is_const && t.iter().all(|c| c.is_ascii_digit());
                toks.push((line, col, t.len(), is_num));
                col += t.len() + 1;
            }
        }
        b.extend_from_slice(body);
        let ends_in_comment = matches!(l, OLine::Comment(_) | OLine::Node { comment: Some(_), .. });
        if i + 1 == n && ends_in_comment && !plain && rng.chance(1, 3) {
            // missing final newline
        } else {
            b.push(b'\n');
            line += 1;
        }
    }
    if !plain && b.last() == Some(&b'\n') {
        while rng.chance(1, 5) {
            for _ in 0..rng.below(3) { b.push(b' '); }
            if rng.chance(3, 4) { b.push(b'\n'); }
        }
    }
    Rendered { bytes: b, tokens: toks }
}

// ------------------------------------------------------------------ mutation / corruption

fn extreme_numeral(rng: &mut Rng) -> Vec<u8> {
    match rng.below(8) {
        0 => b"18446744073709551615".to_vec(),
        1 => b"18446744073709551616".to_vec(),
        2 => b"9223372036854775808".to_vec(),
        3 => b"0".to_vec(),
        4 => b"00".to_vec(),
        5 => (0..30).map(|_| b'0' + rng.below(10) as u8).collect(),
        6 => format!("0{}", rng.range(1, 99)).into_bytes(),
        _ => {
            let k = rng.range(1, 64);
            let v = (1u128 << k) + rng.range(0, 2) as u128 - 1;
            v.to_string().into_bytes()
        }
    }
}

const KEYWORDS: &[&str] = &[
    "sort", "bitvec", "array", "init", "next", "bad", "constraint", "fair", "output", "justice", "const", "constd",
    "consth", "ones", "one", "zero", "input", "state", "uext", "sext", "slice", "not", "redand", "redxor", "iff",
    "implies", "ugte", "concat", "read", "ite", "write", "usubo",
];

/// A run of lower-case letters around the 8-byte steps of the keyword scanner: a keyword,
/// a keyword with extra letters, or letters only, of length 0..=26.
fn lower_run(rng: &mut Rng) -> Vec<u8> {
    match rng.below(5) {
        0 => rng.pick(KEYWORDS).as_bytes().to_vec(),
        1 => {
            let mut k = rng.pick(KEYWORDS).as_bytes().to_vec();
            for _ in 0..rng.range(1, 9) { k.push(b'a' + rng.below(26) as u8); }
            k
        }
        2 => {
            let mut k: Vec<u8> = (0..rng.range(1, 9)).map(|_| b'a' + rng.below(26) as u8).collect();
            k.extend_from_slice(rng.pick(KEYWORDS).as_bytes());
            k
        }
        3 => {
            let n = *rng.pick(&[0u64, 1, 7, 8, 9, 15, 16, 17, 24, 26]);
            (0..n).map(|_| *rng.pick(b"az`{mq")).collect()
        }
        _ => (0..rng.range(0, 26)).map(|_| b'a' + rng.below(26) as u8).collect(),
    }
}

pub fn mutate(rng: &mut Rng, mut b: Vec<u8>) -> Vec<u8> {
    // a literal of the current source (keyword, magic prefix …) spliced into the otherwise
    // unchanged document, half of the time as the only change
    if rng.chance(1, 4) {
        splice_literal(rng, &mut b);
        if rng.chance(1, 2) {
            return b;
        }
    }
    // a junk token (a run of one byte value, length around the small source constants) where a
    // token is expected, half of the time as the only change
    if rng.chance(1, 8) {
        crate::gen_cnf::insert_junk(rng, &mut b);
        if rng.chance(1, 2) {
            return b;
        }
    }
    for _ in 0..rng.range(1, 3) {
        let len = b.len();
        match rng.below(9) {
            0 if len > 0 => { let i = rng.below(len as u64) as usize; b[i] = *rng.pick(b" \t\r\n0123456789-;abfxz`{AG\xff\x00"); }
            1 if len > 0 => { let i = rng.below(len as u64) as usize; b.remove(i); }
            2 => { let i = rng.range(0, len as u64) as usize; b.insert(i, *rng.pick(b" \n0-19;a\r")); }
            3 if len > 0 => { let i = rng.below(len as u64) as usize; b.truncate(i); }
            4 => { let i = rng.range(0, len as u64) as usize; let e = extreme_numeral(rng); b.splice(i..i, e); }
            5 if len > 1 => {
                let i = rng.below(len as u64) as usize;
                let j = (i + rng.range(1, 6) as usize).min(len);
                let dup: Vec<u8> = b[i..j].to_vec();
                b.splice(j..j, dup);
            }
            6 => { let i = rng.range(0, len as u64) as usize; let e = lower_run(rng); b.splice(i..i, e); }
            7 if len > 0 => {
                // upper-case / neighbour of a letter
                let i = rng.below(len as u64) as usize;
                if b[i].is_ascii_lowercase() { b[i] = *rng.pick(&[b[i] - 32, b'`', b'{', b[i]]); }
            }
            _ => { let i = rng.range(0, len as u64) as usize; b.insert(i, rng.next() as u8); }
        }
    }
    b
}

fn arbitrary(rng: &mut Rng) -> Vec<u8> {
    let n = rng.range(0, 48);
    let alpha: &[u8] = if rng.chance(1, 2) { b"1 2 3 sort bitvec\n\n ;ab01-" } else { b"\x00\xff abc\n123;-" };
    let mut v: Vec<u8> = vec![];
    while (v.len() as u64) < n {
        match rng.below(12) {
            0 => v.extend_from_slice(rng.pick(KEYWORDS).as_bytes()),
            1 => v.push(rng.next() as u8),
            2 => v.extend_from_slice(rng.range(0, 300).to_string().as_bytes()),
            _ => v.push(*rng.pick(alpha)),
        }
    }
    v
}

/// A document whose keyword position is a chosen lower-case run and whose length after the
/// keyword varies: the 8-byte fast path needs `offset + 8` buffered bytes, so the number of bytes
/// that follow the keyword (0..) decides, together with the read schedule, which path runs.
fn keyword_doc(rng: &mut Rng) -> Vec<u8> {
    let mut b: Vec<u8> = vec![];
    if rng.chance(1, 2) { b.extend_from_slice(b"1 sort bitvec 8\n"); }
    b.extend_from_slice(rng.range(2, 99).to_string().as_bytes());
    b.push(b' ');
    let sort_kw = rng.chance(1, 4);
    if sort_kw { b.extend_from_slice(b"sort "); }
    b.extend_from_slice(&lower_run(rng));
    match rng.below(6) {
        0 => {}
        1 => b.push(b' '),
        2 => b.push(b'\n'),
        _ => {
            let tail: &[u8] = if sort_kw { b" 12 3\n; tail comment\n" } else { b" 1 2 3 4 sym ; c\n5 one 1\n" };
            let cut = rng.range(1, tail.len() as u64) as usize;
            b.extend_from_slice(&tail[..cut]);
        }
    }
    b
}

fn offset_of(bytes: &[u8], l: usize, c: usize) -> usize {
    let mut off = 0;
    let mut line = 1;
    while line < l {
        if bytes[off] == b'\n' { line += 1; }
        off += 1;
    }
    off + c - 1
}

/// One case line.  `opt` selects the family:
/// rt | layout | kinds | mutate | arbitrary | kw | corrupt | fault | ls | rtbad | valid | scale
pub fn gen_case(rng: &mut Rng, opt: &str, thorough: bool) -> String {
    if opt == "scale" || opt.starts_with("scale:") {
        // `scale` = every dimension; `scale:<dim>+<dim>…` = only the named ones (see `DIMS`)
        return gen_scale(rng, thorough, opt.strip_prefix("scale").unwrap().trim_start_matches(':'));
    }
    let family = if opt.is_empty() || opt == "mix" {
        *rng.pick(&["rt", "layout", "layout", "kinds", "mutate", "mutate", "arbitrary", "kw", "kw", "corrupt", "fault", "ls", "rtbad", "valid", "declared"])
    } else {
        let fams: Vec<&str> = opt.split('+').collect();
        *rng.pick(&fams)
    };
    let mut case = Case { k: None, ls: false, lsb: false, data: vec![], expect: None, tok: None, valid: None, exact: None };
    match family {
        "valid" => {
            // the `TryFrom<&str>` validators of the three constant types on an arbitrary string
            let len_hi = *rng.pick(&[0u64, 1, 3, 9, 20]);
            let s = const_candidate(rng, len_hi);
            case.valid = Some((*rng.pick(&['b', 'd', 'h']), s.into_bytes()));
        }
        "rt" => {
            let doc = gen_doc(rng);
            case.data = write_lines(&doc).unwrap();
            case.expect = Some(expected(&doc));
        }
        "kinds" => {
            // a slice of the deterministic sweep over every operator / constant form / line kind
            let all = all_kinds();
            let i = rng.below(all.len() as u64) as usize;
            let doc: Vec<OLine> = all[i..(i + 6).min(all.len())].to_vec();
            case.data = write_lines(&doc).unwrap();
            case.expect = Some(expected(&doc));
        }
        "layout" => {
            let doc = gen_doc(rng);
            case.data = render(rng, &doc, false).bytes;
            case.expect = Some(expected(&doc));
        }
        "rtbad" => {
            // constructible lines outside the round-trip domain: empty justice, symbols that are
            // empty / contain a space / start with ';', comments with a newline
            let mut doc = gen_doc(rng);
            let bad = match rng.below(5) {
                0 => OLine::Node { id: 3, variant: OVariant::Justice(vec![]), symbol: None, comment: None },
                1 => OLine::Node { id: 3, variant: OVariant::Input(1), symbol: Some(vec![]), comment: None },
                2 => OLine::Node { id: 3, variant: OVariant::Input(1), symbol: Some(b"a b".to_vec()), comment: None },
                3 => OLine::Node { id: 3, variant: OVariant::Input(1), symbol: Some(b";x".to_vec()), comment: None },
                _ => OLine::Comment(b"two\n3 lines".to_vec()),
            };
            let i = rng.range(0, doc.len() as u64) as usize;
            doc.insert(i, bad);
            case.data = write_lines(&doc).unwrap();
        }
        "mutate" => {
            let doc = gen_doc(rng);
            let plain = rng.chance(1, 2);
            let r = render(rng, &doc, plain);
            case.data = mutate(rng, r.bytes);
        }
        "dict" => {
            let doc = gen_doc(rng);
            let r = render(rng, &doc, true);
            let mut b = r.bytes;
            dict_splice(rng, &mut b);
            case.data = b;
        }
        "arbitrary" => {
            case.data = arbitrary(rng);
        }
        "declared" => {
            // a short document in which a numeral that *declares* how much follows (the condition count of
            // a `justice` line, a sort width, an index) is far larger than what the text then contains:
            // 2^k-1 / 2^k / 2^k+1 for k = 8..44 and the source's own integer constants.  Memory must
            // follow the bytes consumed, not the declaration (C05).
            let k = rng.range(8, 45);
            let n: u128 = match rng.below(4) {
                0 => (1u128 << k) - 1,
                1 => 1u128 << k,
                2 => (1u128 << k) + 1,
                _ => { let c = source_consts(); if c.is_empty() { 1 << 24 } else { *rng.pick(&c) as u128 * rng.range(1, 1 << 12) as u128 } }
            };
            let mut b = Vec::new();
            b.extend_from_slice(b"1 sort bitvec 1\n2 input 1\n");
            let shape = rng.below(5);
            let present = rng.below(4);
            match shape {
                0 | 1 => {
                    b.extend_from_slice(format!("3 justice {}", n).as_bytes());
                    for _ in 0..present { b.extend_from_slice(b" 2"); }
                }
                2 => b.extend_from_slice(format!("3 sort bitvec {}", n).as_bytes()),
                3 => b.extend_from_slice(format!("3 sort array {} {}", n, n).as_bytes()),
                _ => b.extend_from_slice(format!("3 slice 1 2 {} {}", n, n).as_bytes()),
            }
            if rng.chance(3, 4) { b.push(b'\n'); }
            if rng.chance(1, 3) { b.extend_from_slice(b"4 bad 2\n"); }
            case.data = b;
        }
        "kw" => {
            case.data = keyword_doc(rng);
        }
        "corrupt" => {
            // a plain rendering (what `write_into` emits) with one token replaced
            let mut doc = gen_doc(rng);
            if !doc.iter().any(|l| matches!(l, OLine::Node { .. })) {
                doc.push(OLine::Node { id: 2, variant: OVariant::Input(1), symbol: None, comment: None });
            }
            let r = render(rng, &doc, true);
            let &(l, c, n, is_num) = rng.pick(&r.tokens);
            let off = offset_of(&r.bytes, l, c);
            let repl: Vec<u8> = if is_num {
                match rng.below(7) {
                    5 => b"0".to_vec(),
                    6 => b"00".to_vec(),
                    0 => b"18446744073709551616".to_vec(),
                    1 => b"99999999999999999999999".to_vec(),
                    2 => format!("0{}", rng.range(0, 99)).into_bytes(),
                    3 => b"1x".to_vec(),
                    _ => b"-1".to_vec(),
                }
            } else {
                match rng.below(4) {
                    0 => b"Sort".to_vec(),
                    1 => b"xyzzyxyzzyx".to_vec(),
                    2 => b"\xff".to_vec(),
                    _ => b"?".to_vec(),
                }
            };
            let mut b = r.bytes.clone();
            if rng.chance(1, 5) {
                // the token replaced by a junk run, or a junk run glued to its front: the error
                // is on the junk (no claim where the run reads as blanks, as digits, as a constant's
                // digits / sign, or opens a comment)
                let run = crate::gen_cnf::junk_run(rng);
                let glued = rng.chance(1, 3);
                let jb = run[0];
                let no_claim = matches!(jb, b' ' | b'\n' | b';') || jb.is_ascii_digit() || (!is_num && (jb.is_ascii_hexdigit() || jb == b'-'));
                let span = if glued { run.len() + n } else { run.len() };
                if glued { b.splice(off..off, run); } else { b.splice(off..off + n, run); }
                case.data = b;
                case.tok = if no_claim { None } else { Some((l, c, span)) };
            } else {
                b.splice(off..off + n, repl.clone());
                case.data = b;
                // a lone zero is a legal value in some positions (extension widths, slice indices):
                // no claim about an error on the token then, the other oracles still apply
                let maybe_legal = repl == b"0" || repl == b"00";
                case.tok = if maybe_legal { None } else { Some((l, c, repl.len())) };
            }
        }
        "fault" => {
            let doc = gen_doc(rng);
            let plain = rng.chance(1, 2);
            let r = render(rng, &doc, plain);
            let data = if rng.chance(1, 4) { mutate(rng, r.bytes) } else { r.bytes };
            case.k = Some(rng.range(0, data.len() as u64) as usize);
            case.data = data;
        }
        "ls" => {
            let doc = gen_doc(rng);
            let r = render(rng, &doc, false);
            case.data = if rng.chance(1, 5) { mutate(rng, r.bytes) } else { r.bytes };
            case.ls = true;
            case.lsb = rng.chance(1, 3);
        }
        _ => panic!("unknown family {}", family),
    }
    case.line()
}

/// Every fault offset of one document (C04 thorough): returns several case lines.
pub fn fault_sweep(rng: &mut Rng) -> Vec<String> {
    let doc = gen_doc(rng);
    let r = render(rng, &doc, false);
    (0..=r.bytes.len())
        .map(|k| Case { k: Some(k), ls: false, lsb: false, data: r.bytes.clone(), expect: None, tok: None, valid: None, exact: None }.line())
        .collect()
}

/// Complete enumeration of the constant validators' small domain (C03): every string over
/// {'-', '0', '1', '7', 'a', 'f', 'g'} up to length 4, for the three constant kinds.
pub fn validators_exhaustive() -> Vec<String> {
    let alpha = b"-017afg";
    let mut strings: Vec<Vec<u8>> = vec![vec![]];
    let mut frontier: Vec<Vec<u8>> = vec![vec![]];
    for _ in 0..4 {
        let mut next = vec![];
        for s in &frontier {
            for &c in alpha {
                let mut t = s.clone();
                t.push(c);
                next.push(t);
            }
        }
        strings.extend(next.iter().cloned());
        frontier = next;
    }
    let mut out = vec![];
    for s in &strings {
        for t in ['b', 'd', 'h'] {
            out.push(Case { k: None, ls: false, lsb: false, data: vec![], expect: None, tok: None, valid: Some((t, s.clone())), exact: None }.line());
        }
    }
    out
}

// ------------------------------------------------------------------ scale family (`--opt scale`)
//
// Every size-like dimension of a BTOR2 input taken to 2^20 and beyond: length of one whitespace
// run (blank lines, indentation, mixtures), conditions of one `justice` line, bytes of a symbol /
// comment / constant / numeral, number of lines, stream position of an error or an I/O fault,
// bytes pulled through a one-line-per-read source.  Sizes come from `common::scale_sizes` (around
// powers of two and around every integer constant of the current source), plus exact multiples
// of `2^k+1` / `c+1` and random sizes in between.  Documents are valid for the most part (expected
// observation `x=`), with a stream of invalid ones whose error position is known exactly (`e=`).

use std::sync::atomic::{AtomicUsize, Ordering};

/// Longest whitespace run that still goes through the Lean model (linear since the model got
/// `csimp` twins of its loops: 2^20 blanks = 0.2 s); longer runs would be `big=1` cases
/// (implementation-side oracles only, incl. the exact error location).
pub const MODEL_WS_CAP: usize = (1 << 21) + 64;
/// Most lines of one document that still go through the model (100k lines = 1.7 s, 300k = 5.7 s,
/// 1.2M = 22 s); documents with more lines are `big=1`.
pub const MODEL_LINES_CAP: usize = 300_000;

fn ws_cap(_thorough: bool) -> usize {
    MODEL_WS_CAP
}

fn lines_cap(_thorough: bool) -> usize {
    MODEL_LINES_CAP
}

/// Upper bound (as a power of two) of the generic sizes of the dimensions that run through the
/// model: the thorough tier (`hi_k` = 21) uses the whole range.
fn gen_k(hi_k: u32) -> u32 {
    if hi_k > 20 { hi_k } else { 17 }
}

static SCALE_IDX: AtomicUsize = AtomicUsize::new(0);
static DIM_COUNT: [AtomicUsize; 16] = [const { AtomicUsize::new(0) }; 16];

/// One cycle of the scale family; whitespace runs get 6 of 16 slots.
const DIMS: &[&str] = &[
    "ws_nl", "just_rt", "ws_mix", "cmt", "ws_valid", "sym", "num", "const", "ws_mix", "just_err", "lines", "fault", "ws_nl",
    "ls", "valid", "ws_valid",
];

/// `count` lines that differ in one decimal numeral (an `n` segment of the data field).
#[derive(Clone)]
struct Counted {
    count: usize,
    start: u64,
    step: u64,
    kind: usize,
}

const COUNTED_KINDS: usize = 6;

impl Counted {
    fn pre_suf(&self) -> (&'static [u8], &'static [u8]) {
        match self.kind {
            0 => (b"", b" input 1\n"),
            1 => (b"9 not 1 ", b"\n"),
            2 => (b";", b"\n"),
            3 => (b"", b" sort bitvec 8 s ;c\n"),
            4 => (b"3 constd 1 ", b"\n"),
            _ => (b"5 uext 1 2 ", b"\n"),
        }
    }
    fn line(&self, i: usize) -> OLine {
        let v = self.start + i as u64 * self.step;
        let node = |id, variant, symbol: Option<&[u8]>, comment: Option<&[u8]>| OLine::Node {
            id,
            variant,
            symbol: symbol.map(|s| s.to_vec()),
            comment: comment.map(|s| s.to_vec()),
        };
        match self.kind {
            0 => node(v, OVariant::Input(1), None, None),
            1 => node(9, OVariant::Unary(1, UnaryOp::Not, v), None, None),
            2 => OLine::Comment(v.to_string().into_bytes()),
            3 => node(v, OVariant::SortBitVec(8), Some(b"s"), Some(b"c")),
            4 => node(3, OVariant::Const(1, OConst::Decimal(v.to_string())), None, None),
            _ => node(5, OVariant::Unary(1, UnaryOp::Uext(v), 2), None, None),
        }
    }
}

enum XItem {
    Line(OLine),
    Counted(Counted),
    Repeat(usize, Vec<OLine>),
}

/// A document under construction: the segments of its data field, the same bytes expanded, and
/// the lines it was written from.
struct Doc {
    segs: Vec<String>,
    bytes: Vec<u8>,
    items: Vec<XItem>,
    /// every byte so far is what `write_into` emits for `items` (no layout, no damage)
    plain: bool,
}

impl Doc {
    fn new() -> Doc {
        Doc { segs: vec![], bytes: vec![], items: vec![], plain: true }
    }
    fn seg(&mut self, s: String) {
        let b = data_field(&s);
        if b.is_empty() {
            return;
        }
        self.bytes.extend_from_slice(&b);
        let is_lit = |t: &str| !t.starts_with(|c| matches!(c, 'g' | 'r' | 'n' | '-'));
        if is_lit(&s) {
            if let Some(last) = self.segs.last_mut() {
                if is_lit(last) {
                    last.push_str(&s);
                    return;
                }
            }
        }
        self.segs.push(s);
    }
    fn lit(&mut self, b: &[u8]) {
        if !b.is_empty() {
            self.seg(hex(b));
        }
    }
    fn rep(&mut self, count: usize, pat: &[u8]) {
        if count == 0 || pat.is_empty() {
            return;
        }
        if count * pat.len() <= 16 {
            let v: Vec<u8> = pat.iter().cycle().take(count * pat.len()).copied().collect();
            self.lit(&v);
        } else {
            self.seg(format!("r{}.{}", count, hex(pat)));
        }
    }
    /// exactly `n` bytes of the repeated pattern
    fn fill(&mut self, n: usize, pat: &[u8]) {
        self.rep(n / pat.len(), pat);
        self.lit(&pat[..n % pat.len()]);
    }
    fn num(&mut self, count: usize, start: u64, step: u64, pre: &[u8], suf: &[u8]) {
        if count > 0 {
            assert!(step == 0 || (count as u64 - 1) <= (u64::MAX - start) / step);
            self.seg(format!("n{}.{}.{}.{}.{}", count, start, step, hex(pre), hex(suf)));
        }
    }
    /// lines as `write_into` emits them
    fn text(&mut self, ls: &[OLine]) {
        let t = write_lines(ls).expect("generated line is constructible");
        self.lit(&t);
        self.items.extend(ls.iter().cloned().map(XItem::Line));
    }
    fn counted(&mut self, c: Counted) {
        let (pre, suf) = c.pre_suf();
        self.num(c.count, c.start, c.step, pre, suf);
        self.items.push(XItem::Counted(c));
    }
    fn repeat(&mut self, count: usize, block: Vec<OLine>) {
        let t = write_lines(&block).expect("generated line is constructible");
        self.rep(count, &t);
        self.items.push(XItem::Repeat(count, block));
    }
    /// layout / damage: bytes that belong to no written line
    fn raw(&mut self) -> &mut Doc {
        self.plain = false;
        self
    }
    fn off(&self) -> usize {
        self.bytes.len()
    }
    fn field(&self) -> String {
        if self.segs.is_empty() { "-".into() } else { self.segs.join("+") }
    }
    /// 1-based line and column of the byte at offset `off` (which may be the end of the input)
    fn line_col(&self, off: usize) -> (usize, usize) {
        let before = &self.bytes[..off];
        let line = 1 + before.iter().filter(|b| **b == b'\n').count();
        let start = before.iter().rposition(|b| *b == b'\n').map(|p| p + 1).unwrap_or(0);
        (line, off - start + 1)
    }
    fn n_lines(&self) -> usize {
        self.items
            .iter()
            .map(|i| match i {
                XItem::Line(_) => 1,
                XItem::Counted(c) => c.count,
                XItem::Repeat(n, b) => n * b.len(),
            })
            .sum()
    }
    fn obs_items(&self) -> impl Iterator<Item = String> + '_ {
        self.items.iter().flat_map(|i| -> Box<dyn Iterator<Item = String> + '_> {
            match i {
                XItem::Line(l) => Box::new(std::iter::once(l.obs())),
                XItem::Counted(c) => Box::new((0..c.count).map(move |k| c.line(k).obs())),
                XItem::Repeat(n, b) => Box::new((0..*n).flat_map(move |_| b.iter().map(|l| l.obs()))),
            }
        })
    }
    /// the observation of a complete parse of the lines the document was written from
    fn expected(&self) -> String {
        join_obs(self.obs_items(), "END")
    }
    /// C03 as stated: the bytes of a plain document are exactly what `write_into` emits for its
    /// lines (checked here for documents that are small enough to materialise)
    fn check_plain(&self) {
        if self.plain && self.n_lines() <= 4096 {
            let mut ls: Vec<OLine> = vec![];
            for i in &self.items {
                match i {
                    XItem::Line(l) => ls.push(l.clone()),
                    XItem::Counted(c) => ls.extend((0..c.count).map(|k| c.line(k))),
                    XItem::Repeat(n, b) => (0..*n).for_each(|_| ls.extend(b.iter().cloned())),
                }
            }
            assert!(write_lines(&ls).as_deref() == Some(&self.bytes[..]), "scale document differs from what write_into emits");
        }
    }
    fn case(&self, k: Option<usize>, ls: bool, x: Option<String>, e: Option<(usize, usize)>, big: bool) -> String {
        format!(
            "btor2 k={} ls={} d={}{}{}{}",
            match k { Some(k) => k.to_string(), None => "-".into() },
            ls as u8,
            self.field(),
            match x { Some(x) => format!(" x={}", x), None => String::new() },
            match e { Some((l, c)) => format!(" e={}:{}", l, c), None => String::new() },
            if big { " big=1" } else { "" },
        )
    }
}

/// Sizes of one dimension: those derived from source constants, those around powers of two.
struct Pool {
    consts: Vec<usize>,
    pows: Vec<usize>,
    bases: Vec<usize>,
    lo_k: u32,
    hi_k: u32,
    /// generic sizes stay below `2^gen_k + 64` (the quick tier affords one case beyond `2^hi_k`
    /// per dimension and keeps the rest at or below 64 Ki, except where only the implementation
    /// runs)
    gen_k: u32,
}

fn pool(lo_k: u32, hi_k: u32, gen_k: u32) -> Pool {
    let all = scale_sizes(lo_k, hi_k);
    let (lo, max) = (1usize << lo_k, (1usize << hi_k) + 64);
    let cs: Vec<usize> = source_consts().into_iter().filter(|c| *c >= lo as u64 && *c <= 1 << hi_k).map(|c| c as usize).collect();
    // sizes derived from source constants (the same ones `scale_sizes` lists), most telling
    // variant first, each variant for every constant before the next variant
    let variants: [fn(usize) -> usize; 10] =
        [|c| c + 1, |c| c, |c| c - 1, |c| 2 * c + 1, |c| c + 8, |c| 3 * (c + 1), |c| 2 * c, |c| c + 9, |c| 5 * (c + 1), |c| 4 * c + 4];
    let mut consts: Vec<usize> = vec![];
    for v in variants {
        for c in &cs {
            let size = v(*c);
            if size >= lo && size <= max && !consts.contains(&size) && all.contains(&size) {
                consts.push(size);
            }
        }
    }
    let mut pows: Vec<usize> = vec![];
    for k in lo_k..=hi_k {
        let p = 1usize << k;
        pows.extend([p - 1, p, p + 1, p + 3, p + 8, p + 9]);
    }
    // periods of a flush that happens every `2^k + 1` / `c + 1` bytes
    let mut bases: Vec<usize> = (lo_k..hi_k.min(17)).map(|k| (1usize << k) + 1).collect();
    bases.extend(cs.iter().map(|c| c + 1));
    bases.sort();
    bases.dedup();
    Pool { consts, pows, bases, lo_k, hi_k, gen_k: gen_k.max(lo_k + 1) }
}

impl Pool {
    /// The `j`-th size of a dimension: first beyond `2^hi_k`, then alternately the sizes derived
    /// from source constants (in order, until exhausted) and generic ones.
    fn pick(&self, rng: &mut Rng, j: usize) -> usize {
        if j == 0 || (self.gen_k == self.hi_k && j % 16 == 0) {
            return (1usize << self.hi_k) + *rng.pick(&[1usize, 3, 8, 9]);
        }
        if j % 2 == 1 && j / 2 < self.consts.len() {
            return self.consts[j / 2];
        }
        self.generic(rng)
    }
    fn generic(&self, rng: &mut Rng) -> usize {
        let max = (1usize << self.gen_k) + 64;
        let around = |rng: &mut Rng, p: usize| p - 1 + *rng.pick(&[0usize, 1, 2, 4, 9, 10]);
        match rng.below(20) {
            0..=8 => {
                let below: Vec<usize> = self.pows.iter().copied().filter(|p| *p <= max).collect();
                *rng.pick(&below)
            }
            9..=12 => {
                let b = *rng.pick(&self.bases);
                let m = rng.range(1, 8) as usize;
                if m * b <= max { m * b } else { b }
            }
            13..=15 => {
                let k = rng.range(self.lo_k as u64, self.gen_k as u64 - 1);
                (1usize << k) + rng.below(1 << k) as usize
            }
            _ => {
                let k = rng.range(self.gen_k as u64 - 1, self.gen_k as u64);
                around(rng, 1usize << k)
            }
        }
    }
}

fn small_lines(rng: &mut Rng, n: u64) -> Vec<OLine> {
    let all = all_kinds();
    (0..n).map(|_| if rng.chance(1, 2) { rng.pick(&all).clone() } else { rand_line(rng) }).collect()
}

/// Lines that are not well-formed, with the 0-based offset of the byte at which the line stops
/// being a prefix of a well-formed line (for an over-long / zero-led numeral: its first digit,
/// which is where the parser reports it).  An offset equal to the length is the end of the line.
const ERR_LINES: &[(&[u8], usize)] = &[
    (b"?", 0),
    (b"0 sort bitvec 1", 0),
    (b"x1 input 1", 0),
    (b"-5 input 1", 0),
    (b"18446744073709551616 input 1", 0),
    (b"5", 1),
    (b"5 ", 2),
    (b"5\tinput 1", 1),
    (b"5  input 1", 2),
    (b"5 Sort bitvec 1", 2),
    (b"5 sorts bitvec 1", 2),
    (b"5 inputinputinput 1", 2),
    (b"5 sort", 6),
    (b"5 sort bitvex 1", 7),
    (b"5 sort bitvec", 13),
    (b"5 sort bitvec 0", 14),
    (b"5 sort bitvec 18446744073709551616", 14),
    (b"5 sort bitvec 01", 14),
    (b"5 sort array 1", 14),
    (b"5 input 1\r", 9),
    (b"5 input 1\t", 9),
    (b"5 input 1 sym junk", 14),
    (b"5 input 1  ", 10),
    (b"5 input 1 sym ", 14),
    (b"5 input", 7),
    (b"5 add 1 2", 9),
    (b"5 add 1 2 ", 10),
    (b"5 add 1 2 x", 10),
    (b"5 ite 1 2 3", 11),
    (b"5 uext 1 2 -1", 11),
    (b"5 uext 1 2", 10),
    (b"5 slice 1 2 3 00", 14),
    (b"5 slice 1 2 3 99999999999999999999", 14),
    (b"5 const 1 2", 10),
    (b"5 const 1 12", 11),
    (b"5 constd 1 1-", 12),
    (b"5 consth 1 g", 11),
    (b"5 consth 1", 10),
    (b"5 justice 2 1", 13),
    (b"5 justice 0 1", 10),
    (b"5 justice 1 1 s t", 16),
    (b"5 init 1 2", 10),
    (b"5 next 1 2 0", 11),
    (b"5 bad", 5),
    (b"5 output 1;c", 10),
];

/// Well-formed lines that are an error only because the input ends without a newline.
const ERR_EOF_LINES: &[&[u8]] = &[b"5 input 1", b"5 sort bitvec 8", b"5 input 1 sym", b"5 justice 2 3 4", b"5 constd 1 -"];

/// Append a line that is not well-formed (and, usually, more text after it); returns the exact
/// line and column of the error.
fn add_error_line(rng: &mut Rng, d: &mut Doc) -> (usize, usize) {
    let d = d.raw();
    if rng.chance(1, 8) {
        let t = *rng.pick(ERR_EOF_LINES);
        d.lit(t);
        return d.line_col(d.off());
    }
    let &(t, eo) = rng.pick(ERR_LINES);
    let at = d.off() + eo;
    d.lit(t);
    if !(eo == t.len() && rng.chance(1, 3)) {
        d.lit(b"\n");
        if rng.chance(1, 2) {
            d.lit(b"7 input 1\n");
        }
    }
    d.line_col(at)
}

/// A whitespace run of exactly `n` bytes.
fn ws_run(rng: &mut Rng, d: &mut Doc, n: usize, shape: u64) {
    let d = d.raw();
    let split = |rng: &mut Rng, n: usize| -> usize {
        // 1..n-1
        if n < 2 { return n; }
        match rng.below(5) { 0 => 1, 1 => 2.min(n - 1), 2 => n / 2, 3 => n - 1, _ => rng.range(1, n as u64 - 1) as usize }
    };
    match shape {
        0 => d.rep(n, b"\n"),
        1 => d.rep(n, b" "),
        2 => { let a = split(rng, n); d.rep(a, b"\n"); d.rep(n - a, b" "); }
        3 => { let a = split(rng, n); d.rep(a, b" "); d.rep(n - a, b"\n"); }
        4 => {
            let a = split(rng, n - 1);
            d.rep(a, b" ");
            d.rep(1, b"\n");
            d.rep(n - 1 - a, b" ");
        }
        5 => {
            // blank lines of `s` spaces each; the remainder in front or behind
            let s = *rng.pick(&[1usize, 2, 7, 63]);
            let mut unit = vec![b' '; s];
            unit.push(b'\n');
            let (m, r) = (n / (s + 1), n % (s + 1));
            if rng.chance(1, 2) { d.rep(r, b" "); d.rep(m, &unit); } else { d.rep(m, &unit); d.rep(r, b" "); }
        }
        6 => { d.rep(n / 2, b"\n "); d.rep(n % 2, b"\n"); }
        7 => { d.rep(n / 2, b" \n"); d.rep(n % 2, b" "); }
        _ => {
            // a few runs of alternating kind
            let parts = rng.range(3, 6) as usize;
            let mut left = n;
            let mut sp = rng.chance(1, 2);
            for p in 0..parts {
                let take = if p + 1 == parts { left } else { (rng.below(left as u64 + 1) as usize).min(left) };
                d.rep(take, if sp { b" " } else { b"\n" });
                left -= take;
                sp = !sp;
            }
        }
    }
}

fn sc_ws(rng: &mut Rng, j: usize, hi_k: u32, thorough: bool, dim: &str) -> String {
    // a run is cheap on both sides (0.25 s per MiB): full range in both tiers for half of the
    // cases, the other half at or below 16 Ki
    let cap = ws_cap(thorough);
    let n = pool(10, hi_k, if rng.chance(1, 2) { hi_k } else { 14 }).pick(rng, j);
    let mut big = n > cap;
    let mut d = Doc::new();
    if rng.chance(1, 2) {
        let k = rng.range(1, 3);
        d.text(&small_lines(rng, k));
    }
    let shape = match dim { "ws_nl" => 0, "ws_mix" => 1 + (j as u64 / 2 + rng.below(2) * 4) % 8, _ => rng.below(9) };
    ws_run(rng, &mut d, n, shape);
    if dim != "ws_valid" {
        let e = add_error_line(rng, &mut d);
        return d.case(None, false, None, Some(e), big);
    }
    if !rng.chance(1, 4) {
        let q = rng.range(1, 3);
        for l in small_lines(rng, q) {
            if rng.chance(1, 4) { d.raw().rep(rng.range(1, 3) as usize, b" "); }
            d.text(&[l]);
            if rng.chance(1, 4) { d.raw().rep(rng.range(1, 2) as usize, b"\n"); }
        }
        if rng.chance(1, 3) {
            // a second run, at the end of the input
            let n2 = if rng.chance(1, 2) { rng.range(1, 4200) as usize } else { pool(10, hi_k, hi_k).generic(rng) };
            let n2 = if big { n2 } else { n2.min(cap / 2) };
            big = big || n2 > cap;
            let shape2 = rng.below(9);
            ws_run(rng, &mut d, n2, shape2);
        }
    }
    let x = d.expected();
    d.case(None, false, Some(x), None, big)
}

const SYM_PATS: &[&[u8]] = &[b"a", b"ab", b"x;", b"0", b"9", b"-", b"\t", b"\r", b"\xff", b"\x00", b"sort", b"\xc3\xa9", b"s_1."];
const CMT_PATS: &[&[u8]] = &[b" ", b"a", b"; ", b"ab\t", b"\r", b"\xff\x00", b"1 sort bitvec 8 ", b"\xc3\xa9", b";", b"\t "];

fn tail(symbol: &Option<Vec<u8>>, comment: &Option<Vec<u8>>) -> Vec<u8> {
    let mut t = vec![];
    if let Some(s) = symbol { t.push(b' '); t.extend_from_slice(s); }
    if let Some(c) = comment { t.extend_from_slice(b" ;"); t.extend_from_slice(c); }
    t.push(b'\n');
    t
}

fn filled(n: usize, pat: &[u8]) -> Vec<u8> {
    pat.iter().cycle().take(n).copied().collect()
}

/// `<id> justice <n> <start> <start+step> …` with optional symbol / comment.
fn add_justice(rng: &mut Rng, d: &mut Doc, n: usize, decorate: bool) {
    // the text of the line stays below ~2 MiB (the model costs ~1.3 s per MiB of numerals): beyond
    // 2^16 conditions they are one-digit ids
    let (start, step): (u64, u64) = match if n > (1 << 16) + 64 { 1 } else { rng.below(6) } {
        0 => (1, 1),
        1 => (rng.range(1, 9), 0),
        2 => { let step = rng.range(1, 3); (u64::MAX - (n as u64 - 1) * step, step) }
        3 => { let p = 10u64.pow(rng.range(2, 18) as u32); (p.saturating_sub(n as u64 / 2).max(1), 1) }
        4 => (rng.range(1, 1 << 40), rng.range(0, 1 << 20)),
        _ => (rng.range(1, 300), rng.range(1, 9)),
    };
    let id = rand_id(rng);
    let symbol = if decorate && rng.chance(1, 3) { Some(rand_symbol(rng)) } else { None };
    let comment = if decorate && rng.chance(1, 3) { Some(rand_comment(rng)) } else { None };
    d.lit(format!("{} justice {}", id, n).as_bytes());
    d.num(n, start, step, b" ", b"");
    d.lit(&tail(&symbol, &comment));
    let ids: Vec<u64> = (0..n as u64).map(|i| start + i * step).collect();
    d.items.push(XItem::Line(OLine::Node { id, variant: OVariant::Justice(ids), symbol, comment }));
}

fn sc_just_rt(rng: &mut Rng, j: usize, hi_k: u32) -> String {
    let n = pool(10, hi_k, gen_k(hi_k).max(18)).pick(rng, j);
    let mut d = Doc::new();
    let k = rng.below(3);
    d.text(&small_lines(rng, k));
    add_justice(rng, &mut d, n, true);
    if rng.chance(2, 3) {
        // a short justice line afterwards: the condition buffer is reused
        let m = rng.range(1, 4);
        d.text(&[OLine::Node { id: 9, variant: OVariant::Justice((0..m).map(|i| 20 + i).collect()), symbol: None, comment: None }]);
        let k = rng.below(3);
        d.text(&small_lines(rng, k));
    }
    d.check_plain();
    let x = d.expected();
    d.case(None, false, Some(x), None, false)
}

fn sc_just_err(rng: &mut Rng, j: usize, hi_k: u32) -> String {
    let n = pool(10, hi_k, gen_k(hi_k).max(18)).pick(rng, j);
    let mut d = Doc::new();
    let k = rng.below(2);
    d.text(&small_lines(rng, k));
    let d = d.raw();
    let (start, step) = if n > (1 << 16) + 64 { (rng.range(1, 9), 0) } else if rng.chance(1, 2) { (1u64, 1u64) } else { (rng.range(1, 1 << 40), rng.range(0, 9)) };
    let at;
    match rng.below(6) {
        0 => {
            // one condition too few: the line ends where a space is required
            d.lit(format!("3 justice {}", n).as_bytes());
            d.num(n - 1, start, step, b" ", b"");
            at = d.off();
        }
        1 => {
            // two extra numerals: the first is the symbol, the second is neither comment nor end
            d.lit(format!("3 justice {}", n).as_bytes());
            d.num(n + 1, start, step, b" ", b"");
            d.lit(b" ");
            at = d.off();
            d.lit(b"77");
        }
        2 => {
            // the count numeral is far larger than the number of conditions that follow
            d.lit(format!("3 justice {}", *rng.pick(&[u64::MAX, u64::MAX - 1, 1 << 63, n as u64 + 1, 2 * n as u64])).as_bytes());
            d.num(n, start, step, b" ", b"");
            at = d.off();
        }
        3 => {
            // a doubled space in front of condition `m`
            let m = *rng.pick(&[0, n / 2, n - 1]);
            d.lit(format!("3 justice {}", n).as_bytes());
            d.num(m, start, step, b" ", b"");
            d.lit(b" ");
            at = d.off();
            d.num(n - m, start, step, b" ", b"");
        }
        _ => {
            // condition `m` is not a node id
            let m = *rng.pick(&[0, n / 2, n - 1, n - 1]);
            d.lit(format!("3 justice {}", n).as_bytes());
            d.num(m, start, step, b" ", b"");
            d.lit(b" ");
            at = d.off();
            d.lit(*rng.pick(&[&b"0"[..], b"x", b"18446744073709551616", b"-1", b"00", b";"]));
            d.num(n - m - 1, start, step, b" ", b"");
        }
    }
    d.lit(b"\n8 input 1\n");
    let e = d.line_col(at);
    d.case(None, false, None, Some(e), false)
}

/// A node line with a symbol of `n` bytes.
fn add_long_symbol(rng: &mut Rng, d: &mut Doc, n: usize) {
    let pat = *rng.pick(SYM_PATS);
    let comment = if rng.chance(1, 3) { Some(rand_comment(rng)) } else { None };
    let id = rand_id(rng);
    let variant = loop {
        let v = rand_variant(rng);
        if !matches!(v, OVariant::Justice(_)) { break v; }
    };
    let head = OLine::Node { id, variant: variant.clone(), symbol: None, comment: None };
    let t = write_lines(&[head]).unwrap();
    d.lit(&t[..t.len() - 1]);
    d.lit(b" ");
    d.fill(n, pat);
    d.lit(&tail(&None, &comment));
    d.items.push(XItem::Line(OLine::Node { id, variant, symbol: Some(filled(n, pat)), comment }));
}

/// A comment line (`whole`) or a node line with a trailing comment, of `n` comment bytes;
/// `newline = false` leaves the input unterminated (legal after a comment).
fn add_long_comment(rng: &mut Rng, d: &mut Doc, n: usize, whole: bool, newline: bool) {
    let pat = *rng.pick(CMT_PATS);
    if whole {
        d.lit(b";");
        d.fill(n, pat);
        d.items.push(XItem::Line(OLine::Comment(filled(n, pat))));
    } else {
        let symbol = if rng.chance(1, 3) { Some(rand_symbol(rng)) } else { None };
        let id = rand_id(rng);
        let variant = rand_variant(rng);
        let head = OLine::Node { id, variant: variant.clone(), symbol: symbol.clone(), comment: None };
        let t = write_lines(&[head]).unwrap();
        d.lit(&t[..t.len() - 1]);
        d.lit(b" ;");
        d.fill(n, pat);
        d.items.push(XItem::Line(OLine::Node { id, variant, symbol, comment: Some(filled(n, pat)) }));
    }
    if newline { d.lit(b"\n"); } else { d.plain = false; }
}

/// A constant of `n` digits.
fn add_long_const(rng: &mut Rng, d: &mut Doc, n: usize) {
    let (kw, lead, pat, mk): (&str, &[u8], &[u8], fn(String) -> OConst) = match rng.below(7) {
        0 | 1 => ("const", b"", *rng.pick(&[&b"0"[..], b"1", b"01", b"10", b"0011"]), OConst::Binary),
        2 | 3 => ("consth", b"", *rng.pick(&[&b"f"[..], b"F", b"0", b"09afAF", b"a"]), OConst::Hex),
        4 => ("constd", b"", *rng.pick(&[&b"9"[..], b"0", b"1234567890", b"5"]), OConst::Decimal),
        _ => ("constd", b"-", *rng.pick(&[&b"9"[..], b"0", b"1234567890"]), OConst::Decimal),
    };
    let id = rand_id(rng);
    let sort = rand_id(rng);
    let symbol = if rng.chance(1, 3) { Some(rand_symbol(rng)) } else { None };
    let comment = if rng.chance(1, 3) { Some(rand_comment(rng)) } else { None };
    d.lit(format!("{} {} {} ", id, kw, sort).as_bytes());
    d.lit(lead);
    d.fill(n - lead.len(), pat);
    d.lit(&tail(&symbol, &comment));
    let mut digits = lead.to_vec();
    digits.extend(filled(n - lead.len(), pat));
    d.items.push(XItem::Line(OLine::Node {
        id,
        variant: OVariant::Const(sort, mk(String::from_utf8(digits).unwrap())),
        symbol,
        comment,
    }));
}

/// One long thing, valid, with small lines around it; then either the end or an error whose
/// stream position lies beyond all of it.
fn sc_long(rng: &mut Rng, j: usize, hi_k: u32, dim: &str) -> String {
    let n = pool(10, hi_k, gen_k(hi_k)).pick(rng, j);
    let mut d = Doc::new();
    let k = rng.below(3);
    d.text(&small_lines(rng, k));
    let invalid = j % 3 == 2;
    match dim {
        "sym" => {
            add_long_symbol(rng, &mut d, n);
            if invalid && rng.chance(1, 2) {
                // damage directly behind the long symbol: replace its newline
                let at = d.off() - 1;
                let has_comment = matches!(d.items.last(), Some(XItem::Line(OLine::Node { comment: Some(_), .. })));
                if !has_comment {
                    let d = d.raw();
                    d.bytes.pop();
                    let last = d.segs.last_mut().unwrap();
                    assert!(last.ends_with("0a"));
                    last.truncate(last.len() - 2);
                    if last.is_empty() { d.segs.pop(); }
                    let (junk, eo): (&[u8], usize) = *rng.pick(&[(&b" junk\n"[..], 1), (b"  ;c\n", 1), (b" \n", 1), (b"", 0)]);
                    d.lit(junk);
                    let e = d.line_col(at + eo);
                    return d.case(None, false, None, Some(e), false);
                }
            }
        }
        "cmt" => {
            let whole = rng.chance(1, 2);
            if !invalid && rng.chance(1, 4) {
                // the comment ends the input without a newline
                add_long_comment(rng, &mut d, n, whole, false);
                let x = d.expected();
                return d.case(None, false, Some(x), None, false);
            }
            if rng.chance(1, 3) {
                // several long comments in a row
                let parts = rng.range(2, 4) as usize;
                for _ in 0..parts {
                    let w = rng.chance(1, 2);
                    add_long_comment(rng, &mut d, n / parts, w, true);
                }
            } else {
                add_long_comment(rng, &mut d, n, whole, true);
            }
        }
        _ => {
            add_long_const(rng, &mut d, n);
            if invalid && rng.chance(1, 2) {
                // a byte that is no digit of this constant kind, `m` digits into a long constant
                let mut d = Doc::new();
                let (kw, pat, bad): (&str, &[u8], &[u8]) = *rng.pick(&[
                    ("const", &b"01"[..], &b"2"[..]), ("const", b"1", b"a"), ("constd", b"9", b"a"), ("constd", b"12", b"-"),
                    ("consth", b"fA0", b"g"), ("consth", b"0", b"x"), ("const", b"0", b"\r"), ("consth", b"a", b"-"),
                ]);
                let m = *rng.pick(&[n - 1, n - 1, n / 2, 1]);
                let d2 = d.raw();
                d2.lit(format!("4 {} 1 ", kw).as_bytes());
                d2.fill(m, pat);
                let at = d2.off();
                d2.lit(bad);
                d2.fill(n - m - 1, pat);
                d2.lit(b"\n5 input 1\n");
                let e = d2.line_col(at);
                return d2.case(None, false, None, Some(e), false);
            }
        }
    }
    let k = rng.below(3);
    d.text(&small_lines(rng, k));
    if invalid {
        let e = add_error_line(rng, &mut d);
        return d.case(None, false, None, Some(e), false);
    }
    d.check_plain();
    let x = d.expected();
    d.case(None, false, Some(x), None, false)
}

/// Numerals: a digit run of scale size in every numeric position (an error at its first digit),
/// and values at the limits of the integer types.
fn sc_num(rng: &mut Rng, j: usize, hi_k: u32) -> String {
    const POS: &[(&str, &str)] = &[
        ("", " input 1"), ("5 input ", ""), ("5 sort bitvec ", ""), ("5 sort array 1 ", ""), ("5 uext 1 2 ", ""),
        ("5 slice 1 2 3 ", ""), ("5 slice 1 2 ", " 3"), ("5 justice ", " 1"), ("5 justice 2 1 ", ""), ("5 add 1 2 ", " s ;c"),
        ("5 next 1 2 ", ""),
    ];
    let mut d = Doc::new();
    let k = rng.below(3);
    d.text(&small_lines(rng, k));
    if j % 3 == 2 {
        // values at the limits, valid
        const LIM: &[u64] = &[u64::MAX, u64::MAX - 1, 1 << 63, (1 << 63) - 1, (1 << 63) + 1, 1 << 32, (1 << 32) - 1, (1 << 32) + 1, 10_000_000_000_000_000_000, 9_999_999_999_999_999_999, 1 << 53, u32::MAX as u64, i64::MAX as u64];
        let v = |rng: &mut Rng| *rng.pick(LIM);
        let ls = vec![
            OLine::Node { id: v(rng), variant: OVariant::SortBitVec(v(rng)), symbol: None, comment: None },
            OLine::Node { id: v(rng), variant: OVariant::SortArray(v(rng), v(rng)), symbol: None, comment: None },
            OLine::Node { id: v(rng), variant: OVariant::Unary(v(rng), UnaryOp::Slice(v(rng), v(rng)), v(rng)), symbol: None, comment: None },
            OLine::Node { id: v(rng), variant: OVariant::Unary(v(rng), UnaryOp::Uext(v(rng)), v(rng)), symbol: None, comment: None },
            OLine::Node { id: v(rng), variant: OVariant::Ternary(v(rng), TernaryOp::Ite, [v(rng), v(rng), v(rng)]), symbol: None, comment: None },
            OLine::Node { id: v(rng), variant: OVariant::Justice(vec![v(rng), v(rng)]), symbol: None, comment: None },
            OLine::Node { id: v(rng), variant: OVariant::Assignment { state: v(rng), sort: v(rng), kind: AssignmentKind::Next, value: v(rng) }, symbol: None, comment: None },
        ];
        d.text(&ls);
        if rng.chance(1, 2) {
            // one above a limit of the 64-bit type, in one position
            let &(pre, suf) = rng.pick(POS);
            let d = d.raw();
            d.lit(pre.as_bytes());
            let at = d.off();
            d.lit(*rng.pick(&[&b"18446744073709551616"[..], b"18446744073709551617", b"18446744073709551625", b"99999999999999999999", b"36893488147419103232", b"100000000000000000000"]));
            d.lit(suf.as_bytes());
            d.lit(b"\n6 input 1\n");
            let e = d.line_col(at);
            return d.case(None, false, None, Some(e), false);
        }
        d.check_plain();
        let x = d.expected();
        return d.case(None, false, Some(x), None, false);
    }
    let n = pool(10, hi_k, gen_k(hi_k)).pick(rng, j);
    let &(pre, suf) = rng.pick(POS);
    let d = d.raw();
    d.lit(pre.as_bytes());
    let at = d.off();
    match rng.below(6) {
        0 => d.rep(n, b"9"),
        1 => { d.lit(b"1"); d.rep(n - 1, b"0"); }
        2 => d.rep(n, b"0"),
        3 => { d.rep(n - 20, b"0"); d.lit(b"18446744073709551615"); }
        4 => d.fill(n, b"1234567890"),
        _ => { d.rep(n - 1, b"0"); d.lit(b"1"); }
    }
    d.lit(suf.as_bytes());
    d.lit(b"\n6 input 1\n");
    let e = d.line_col(at);
    d.case(None, false, None, Some(e), false)
}

/// `n` lines, as counted lines or repeated blocks.
fn add_many_lines(rng: &mut Rng, d: &mut Doc, n: usize) {
    if n > 1 << 16 {
        // short lines, so that 2^20 lines stay within a few MiB
        let block: Vec<OLine> = match rng.below(3) {
            0 => vec![OLine::Comment(vec![])],
            1 => vec![OLine::Comment(vec![]), OLine::Node { id: 2, variant: OVariant::Const(1, OConst::One), symbol: None, comment: None }],
            _ => vec![OLine::Node { id: 3, variant: OVariant::Output(SingleValueOutputKind::Bad, 2), symbol: None, comment: None }, OLine::Comment(b";".to_vec())],
        };
        let count = n / block.len();
        let k = (n - count * block.len()) as u64;
        d.repeat(count, block);
        d.text(&small_lines(rng, k));
    } else if rng.chance(1, 3) {
        let k = rng.range(2, 6);
        let block = small_lines(rng, k);
        let count = (n / block.len()).max(1);
        d.repeat(count, block);
        let k = (n - (count * k as usize).min(n)) as u64;
        d.text(&small_lines(rng, k));
    } else {
        let step = *rng.pick(&[1u64, 1, 1, 0, 3, 1 << 32]);
        let start = match rng.below(4) {
            0 => 1,
            1 => rng.range(1, 1 << 40),
            2 => u64::MAX - step * (n as u64 - 1) - rng.below(2),
            _ => 2,
        };
        d.counted(Counted { count: n, start, step, kind: rng.below(COUNTED_KINDS as u64) as usize });
    }
}

fn sc_lines(rng: &mut Rng, j: usize, hi_k: u32, thorough: bool) -> String {
    let n = pool(10, hi_k, gen_k(hi_k)).pick(rng, j);
    let cap = lines_cap(thorough);
    let big = n > cap;
    let mut d = Doc::new();
    let k = rng.below(2);
    d.text(&small_lines(rng, k));
    add_many_lines(rng, &mut d, n);
    match j % 3 {
        2 => {
            // the error is on a line whose number is of scale size
            let e = add_error_line(rng, &mut d);
            d.case(None, false, None, Some(e), big)
        }
        _ => {
            if rng.chance(1, 4) {
                let (m, w) = (rng.range(0, 9) as usize, rng.chance(1, 2));
                add_long_comment(rng, &mut d, m, w, false);
            }
            d.check_plain();
            let x = d.expected();
            d.case(None, false, Some(x), None, big)
        }
    }
}

/// At least `n` bytes of valid text; returns whether the document is beyond the model's reach.
fn add_bulk(rng: &mut Rng, d: &mut Doc, n: usize, kind: u64, thorough: bool) -> bool {
    match kind {
        0 => { add_long_comment(rng, d, n, true, true); false }
        1 => { add_long_comment(rng, d, n, false, true); false }
        2 => { add_long_symbol(rng, d, n); false }
        3 => { add_long_const(rng, d, n); false }
        4 => {
            // ~8 bytes per condition, 2 where `add_justice` falls back to one-digit ids
            let count = if n / 8 > (1 << 16) + 64 { n / 2 } else { (n / 8).max(1) };
            add_justice(rng, d, count, true);
            false
        }
        5 => {
            // some tens of long lines with blank lines between them
            let parts = rng.range(8, 40) as usize;
            for _ in 0..parts {
                match rng.below(4) {
                    0 => add_long_comment(rng, d, n / parts, true, true),
                    1 => add_long_comment(rng, d, n / parts, false, true),
                    2 => add_long_symbol(rng, d, n / parts),
                    _ => add_long_const(rng, d, (n / parts).max(1)),
                }
                if rng.chance(1, 3) { d.raw().rep(rng.range(1, 3) as usize, b"\n"); }
            }
            false
        }
        6 => {
            let lines = (n / 10).max(1);
            add_many_lines(rng, d, lines);
            lines > lines_cap(thorough)
        }
        _ => {
            let shape = rng.below(9);
            ws_run(rng, d, n, shape);
            d.text(&small_lines(rng, 1));
            n > ws_cap(thorough)
        }
    }
}

/// Size of a `fault` / `ls` document: every fifth one is beyond 1 MiB (stream positions, not only
/// lengths, are what these two dimensions scale).
fn stream_size(rng: &mut Rng, j: usize, hi_k: u32) -> usize {
    if j % 5 == 0 && j > 0 {
        (1usize << 20) + rng.below(1 << (hi_k - 1)) as usize
    } else {
        pool(16, hi_k, if hi_k > 20 { hi_k } else { 18 }).pick(rng, j)
    }
}

fn sc_fault(rng: &mut Rng, j: usize, hi_k: u32, thorough: bool) -> String {
    let n = stream_size(rng, j, hi_k);
    let mut d = Doc::new();
    let k = rng.below(3);
    d.text(&small_lines(rng, k));
    let kind = (j as u64 + rng.below(2) * 4) % 8;
    let big = add_bulk(rng, &mut d, n, kind, thorough);
    let end_of_bulk = d.off();
    let k = rng.range(1, 3);
    d.text(&small_lines(rng, k));
    let len = d.off();
    let k = match rng.below(8) {
        0 => n - 1,
        1 => n,
        2 => n + 1,
        3 => end_of_bulk - 1,
        4 => end_of_bulk,
        5 => len,
        6 => len - 1,
        _ => rng.range((n as u64 / 2).min(len as u64), len as u64) as usize,
    }
    .min(len);
    d.case(Some(k), false, None, None, big)
}

fn sc_ls(rng: &mut Rng, j: usize, hi_k: u32, thorough: bool) -> String {
    let n = stream_size(rng, j, hi_k);
    let mut d = Doc::new();
    let k = rng.below(3);
    d.text(&small_lines(rng, k));
    let kind = *rng.pick(&[5u64, 5, 5, 0, 1, 2, 3, 4, 6, 7]);
    let big = add_bulk(rng, &mut d, n, kind, thorough);
    let k = rng.below(3);
    d.text(&small_lines(rng, k));
    let e = if j % 3 == 2 { Some(add_error_line(rng, &mut d)) } else { None };
    d.case(None, true, None, e, big)
}

/// The constant validators on strings of scale length.
fn sc_valid(rng: &mut Rng, j: usize, hi_k: u32) -> String {
    let n = pool(10, hi_k, gen_k(hi_k)).pick(rng, j);
    let (t, pat): (char, &[u8]) = *rng.pick(&[('b', &b"01"[..]), ('b', b"1"), ('d', b"9"), ('d', b"1234567890"), ('h', b"0"), ('h', b"09afAF"), ('h', b"f")]);
    let mut d = Doc::new();
    let m = match rng.below(6) { 0 => Some(0), 1 => Some(n - 1), 2 => Some(n / 2), _ => None };
    match m {
        Some(m) => {
            // one byte that may or may not be a digit of this kind
            d.fill(m, pat);
            d.lit(*rng.pick(&[&b"-"[..], b"2", b"a", b"g", b"G", b" ", b"\n", b"0", b"\xc3\xa9"]));
            d.fill(n - m - 1, pat);
        }
        None => {
            if t == 'd' && rng.chance(1, 2) { d.lit(b"-"); d.fill(n - 1, pat); } else { d.fill(n, pat); }
        }
    }
    format!("btor2 k=- ls=0 d=- v={}:{}", t, d.field())
}

pub fn gen_scale(rng: &mut Rng, thorough: bool, only: &str) -> String {
    let i = SCALE_IDX.fetch_add(1, Ordering::Relaxed);
    let cycle: Vec<&str> = DIMS.iter().copied().filter(|d| only.is_empty() || only.split('+').any(|o| o == *d)).collect();
    assert!(!cycle.is_empty(), "no scale dimension named in {:?} (known: {:?})", only, DIMS);
    let dim = cycle[i % cycle.len()];
    let slot = DIMS.iter().position(|d| *d == dim).unwrap();
    let j = DIM_COUNT[slot].fetch_add(1, Ordering::Relaxed);
    let hi_k = if thorough { 21 } else { 20 };
    match dim {
        "ws_nl" | "ws_mix" | "ws_valid" => sc_ws(rng, j, hi_k, thorough, dim),
        "just_rt" => sc_just_rt(rng, j, hi_k),
        "just_err" => sc_just_err(rng, j, hi_k),
        "sym" | "cmt" | "const" => sc_long(rng, j, hi_k, dim),
        "num" => sc_num(rng, j, hi_k),
        "lines" => sc_lines(rng, j, hi_k, thorough),
        "fault" => sc_fault(rng, j, hi_k, thorough),
        "ls" => sc_ls(rng, j, hi_k, thorough),
        _ => sc_valid(rng, j, hi_k),
    }
}
