//! Case generators for engine `btor2`: lines built through the crate's public constructors and
//! written by `write_into` (C03), the same lines through a layout grammar (blank lines, leading
//! spaces, comment lines, missing final newline after a comment), keywords around the 8-byte SWAR
//! boundary, mutations, arbitrary bytes, extreme numerals, truncations (C01, C05, C06),
//! single-token corruptions with known position (C08), faults (C04), line sources (C09).
use crate::common::*;
use crate::eng_btor2::{write_lines, Case, OConst, OLine, OVariant};
use flussab_btor2::btor2::*;

pub const UNARY_OPS: &[UnaryOp] =
    &[UnaryOp::Not, UnaryOp::Inc, UnaryOp::Dec, UnaryOp::Neg, UnaryOp::Redand, UnaryOp::Redor, UnaryOp::Redxor];

pub const BINARY_OPS: &[BinaryOp] = &[
    BinaryOp::Iff, BinaryOp::Implies, BinaryOp::Eq, BinaryOp::Neq, BinaryOp::Ugt, BinaryOp::Sgt, BinaryOp::Ugte,
    BinaryOp::Sgte, BinaryOp::Ult, BinaryOp::Slt, BinaryOp::Ulte, BinaryOp::Slte, BinaryOp::And, BinaryOp::Nand,
    BinaryOp::Nor, BinaryOp::Or, BinaryOp::Xnor, BinaryOp::Xor, BinaryOp::Rol, BinaryOp::Ror, BinaryOp::Sll,
    BinaryOp::Sra, BinaryOp::Srl, BinaryOp::Add, BinaryOp::Mul, BinaryOp::Udiv, BinaryOp::Sdiv, BinaryOp::Smod,
    BinaryOp::Urem, BinaryOp::Srem, BinaryOp::Sub, BinaryOp::Uaddo, BinaryOp::Saddo, BinaryOp::Sdivo, BinaryOp::Umulo,
    BinaryOp::Smulo, BinaryOp::Usubo, BinaryOp::Ssubo, BinaryOp::Concat, BinaryOp::Read,
];

fn rand_id(rng: &mut Rng) -> u64 {
    match rng.below(8) {
        0 => 1,
        1 => u64::MAX,
        2 => u64::MAX - rng.below(3),
        3 => 10u64.pow(rng.range(1, 19) as u32) - rng.below(2),
        4 => rng.next() >> rng.range(0, 63),
        _ => rng.range(1, 300),
    }
    .max(1)
}

fn rand_index(rng: &mut Rng) -> u64 {
    match rng.below(5) {
        0 => 0,
        1 => u64::MAX,
        2 => rng.next() >> rng.range(0, 63),
        _ => rng.range(0, 70),
    }
}

fn digits(rng: &mut Rng, alphabet: &[u8], min: u64, max: u64) -> String {
    let n = rng.range(min, max);
    (0..n).map(|_| *rng.pick(alphabet) as char).collect()
}

/// A constant string over an alphabet that is wider than the digits of the form.
fn const_candidate(rng: &mut Rng, len_hi: u64) -> String {
    let alpha: &[u8] = match rng.below(3) {
        0 => b"01",
        1 => b"0123456789abcdefABCDEF",
        _ => b"0123456789abcdefABCDEFgG-2 x",
    };
    let mut s = digits(rng, alpha, 0, len_hi);
    if rng.chance(1, 4) { s.insert(0, '-'); }
    if rng.chance(1, 12) { s.push('\u{e9}'); }
    s
}

fn rand_const(rng: &mut Rng) -> OConst {
    // lengths cross the 8-byte and 16-byte marks; decimal incl. negative, leading zeros, lone '-'
    let len_hi = *rng.pick(&[1u64, 3, 8, 9, 17, 70]);
    if rng.chance(1, 4) {
        // whatever the public constructors accept: candidates over a wider alphabet, filtered by
        // the real `TryFrom` validators (F12: "1f" was accepted as a decimal constant)
        for _ in 0..8 {
            let s = const_candidate(rng, len_hi);
            match rng.below(3) {
                0 if BinaryConst::try_from(s.as_str()).is_ok() => return OConst::Binary(s),
                1 if DecimalConst::try_from(s.as_str()).is_ok() => return OConst::Decimal(s),
                2 if HexConst::try_from(s.as_str()).is_ok() => return OConst::Hex(s),
                _ => {}
            }
        }
    }
    match rng.below(9) {
        0 | 1 => OConst::Binary(digits(rng, b"01", 1, len_hi)),
        2 | 3 => OConst::Hex(digits(rng, b"0123456789abcdefABCDEF", 1, len_hi)),
        4 => OConst::Decimal(digits(rng, b"0123456789", 1, len_hi)),
        5 => {
            let lo = if rng.chance(1, 8) { 0 } else { 1 };
            OConst::Decimal(format!("-{}", digits(rng, b"0123456789", lo, len_hi)))
        }
        6 => OConst::One,
        7 => OConst::Ones,
        _ => OConst::Zero,
    }
}

fn rand_symbol(rng: &mut Rng) -> Vec<u8> {
    // non-empty, no space / newline, not starting with ';'
    let n = rng.range(1, 12);
    let mut s: Vec<u8> = (0..n)
        .map(|_| if rng.chance(1, 12) { *rng.pick(b"\t\r;\xff\x00\xc3\xa9-_.[]") } else { *rng.pick(b"abcxyz019_ABC") })
        .collect();
    if s[0] == b';' {
        s[0] = b's';
    }
    s
}

fn rand_comment(rng: &mut Rng) -> Vec<u8> {
    let n = match rng.below(4) { 0 => 0, _ => rng.range(0, 14) };
    (0..n)
        .map(|_| if rng.chance(1, 10) { *rng.pick(b"\t\r;\xff\x00") } else { *rng.pick(b" abc 019;  sort") })
        .collect()
}

pub fn rand_variant(rng: &mut Rng) -> OVariant {
    let s = rand_id(rng);
    match rng.below(14) {
        0 => OVariant::SortBitVec(rand_id(rng)),
        1 => OVariant::SortArray(rand_id(rng), rand_id(rng)),
        2 | 3 => OVariant::Const(s, rand_const(rng)),
        4 => OVariant::Input(s),
        5 => OVariant::State(s),
        6 => {
            let op = match rng.below(4) {
                0 => UnaryOp::Uext(rand_index(rng)),
                1 => UnaryOp::Sext(rand_index(rng)),
                2 => UnaryOp::Slice(rand_index(rng), rand_index(rng)),
                _ => *rng.pick(UNARY_OPS),
            };
            OVariant::Unary(s, op, rand_id(rng))
        }
        7 | 8 => OVariant::Binary(s, *rng.pick(BINARY_OPS), [rand_id(rng), rand_id(rng)]),
        9 => OVariant::Ternary(s, *rng.pick(&[TernaryOp::Ite, TernaryOp::Write]), [rand_id(rng), rand_id(rng), rand_id(rng)]),
        10 => OVariant::Assignment {
            state: rand_id(rng),
            sort: s,
            kind: *rng.pick(&[AssignmentKind::Init, AssignmentKind::Next]),
            value: rand_id(rng),
        },
        11 | 12 => OVariant::Output(
            *rng.pick(&[
                SingleValueOutputKind::Output,
                SingleValueOutputKind::Bad,
                SingleValueOutputKind::Constraint,
                SingleValueOutputKind::Fair,
            ]),
            rand_id(rng),
        ),
        _ => {
            let n = match rng.below(4) { 0 => 1, 1 => rng.range(8, 12), _ => rng.range(1, 5) };
            OVariant::Justice((0..n).map(|_| rand_id(rng)).collect())
        }
    }
}

/// A line inside the round-trip domain (`Line.WF` of the Lean model).
pub fn rand_line(rng: &mut Rng) -> OLine {
    if rng.chance(1, 7) {
        // comment line; the comment must not contain a newline
        return OLine::Comment(rand_comment(rng));
    }
    OLine::Node {
        id: rand_id(rng),
        variant: rand_variant(rng),
        symbol: if rng.chance(1, 3) { Some(rand_symbol(rng)) } else { None },
        comment: if rng.chance(1, 3) { Some(rand_comment(rng)) } else { None },
    }
}

/// Every operator / constant form / line kind once (a deterministic sweep the random families
/// are mixed with).
pub fn all_kinds() -> Vec<OLine> {
    let mut v = vec![];
    let mut id = 1u64;
    let mut node = |variant: OVariant| {
        id += 1;
        OLine::Node { id, variant, symbol: None, comment: None }
    };
    v.push(node(OVariant::SortBitVec(8)));
    v.push(node(OVariant::SortArray(1, 1)));
    for c in [
        OConst::Binary("0101".into()),
        OConst::Hex("fF09".into()),
        OConst::Decimal("19".into()),
        OConst::Decimal("-90".into()),
        OConst::Decimal("019".into()),
        OConst::Decimal("-".into()),
        OConst::One,
        OConst::Ones,
        OConst::Zero,
    ] {
        v.push(node(OVariant::Const(1, c)));
    }
    v.push(node(OVariant::Input(1)));
    v.push(node(OVariant::State(1)));
    for op in UNARY_OPS {
        v.push(node(OVariant::Unary(1, *op, 2)));
    }
    v.push(node(OVariant::Unary(1, UnaryOp::Uext(3), 2)));
    v.push(node(OVariant::Unary(1, UnaryOp::Sext(0), 2)));
    v.push(node(OVariant::Unary(1, UnaryOp::Slice(7, 0), 2)));
    for op in BINARY_OPS {
        v.push(node(OVariant::Binary(1, *op, [2, 3])));
    }
    for op in [TernaryOp::Ite, TernaryOp::Write] {
        v.push(node(OVariant::Ternary(1, op, [2, 3, 4])));
    }
    for kind in [AssignmentKind::Init, AssignmentKind::Next] {
        v.push(node(OVariant::Assignment { state: 5, sort: 1, kind, value: 6 }));
    }
    for kind in [
        SingleValueOutputKind::Output,
        SingleValueOutputKind::Bad,
        SingleValueOutputKind::Constraint,
        SingleValueOutputKind::Fair,
    ] {
        v.push(node(OVariant::Output(kind, 7)));
    }
    v.push(node(OVariant::Justice(vec![7, 8, 9])));
    v
}

pub fn gen_doc(rng: &mut Rng) -> Vec<OLine> {
    let n = match rng.below(8) { 0 => 0, 1 => 1, _ => rng.range(1, 7) } as usize;
    let all = all_kinds();
    (0..n).map(|_| if rng.chance(1, 4) { rng.pick(&all).clone() } else { rand_line(rng) }).collect()
}

pub fn expected(doc: &[OLine]) -> String {
    let mut v: Vec<String> = doc.iter().map(|l| l.obs()).collect();
    v.push("END".into());
    v.join("|")
}

/// Text with token spans: (line, column, length, is a number) of every space-separated token
/// before the symbol / comment, 1-based.
pub struct Rendered {
    pub bytes: Vec<u8>,
    pub tokens: Vec<(usize, usize, usize, bool)>,
}

/// The layout grammar: what `write_into` emits for each line, with optional blank lines, lines
/// of spaces, leading spaces, and — after a final line that ends in a comment — a missing
/// newline.
pub fn render(rng: &mut Rng, doc: &[OLine], plain: bool) -> Rendered {
    let mut b: Vec<u8> = vec![];
    let mut toks = vec![];
    let mut line = 1usize;
    let n = doc.len();
    for (i, l) in doc.iter().enumerate() {
        if !plain {
            while rng.chance(1, 6) {
                for _ in 0..rng.below(3) { b.push(b' '); }
                b.push(b'\n');
                line += 1;
            }
        }
        let lead = if !plain && rng.chance(1, 6) { rng.range(1, 3) as usize } else { 0 };
        for _ in 0..lead { b.push(b' '); }
        let text = write_lines(std::slice::from_ref(l)).expect("generated line is constructible");
        let body = &text[..text.len() - 1];
        // token spans of the node part: up to the symbol / comment
        if let OLine::Node { variant, .. } = l {
            let ntok = 2 + match variant {
                OVariant::SortBitVec(_) => 2,
                OVariant::SortArray(..) => 3,
                OVariant::Const(_, OConst::Binary(_) | OConst::Decimal(_) | OConst::Hex(_)) => 2,
                OVariant::Const(..) | OVariant::Input(_) | OVariant::State(_) => 1,
                OVariant::Unary(_, UnaryOp::Uext(_) | UnaryOp::Sext(_), _) => 3,
                OVariant::Unary(_, UnaryOp::Slice(..), _) => 4,
                OVariant::Unary(..) => 2,
                OVariant::Binary(..) => 3,
                OVariant::Ternary(..) => 4,
                OVariant::Assignment { .. } => 3,
                OVariant::Output(..) => 1,
                OVariant::Justice(ns) => 1 + ns.len(),
            };
            let mut col = 1 + lead;
            for (k, t) in body.split(|c| *c == b' ').take(ntok).enumerate() {
                let is_const = matches!(variant, OVariant::Const(_, OConst::Binary(_) | OConst::Decimal(_) | OConst::Hex(_))) && k == 3;
                let is_num = !is_const && t.iter().all(|c| c.is_ascii_digit());
                toks.push((line, col, t.len(), is_num));
                col += t.len() + 1;
            }
        }
        b.extend_from_slice(body);
        let ends_in_comment = matches!(l, OLine::Comment(_) | OLine::Node { comment: Some(_), .. });
        if i + 1 == n && ends_in_comment && !plain && rng.chance(1, 3) {
            // missing final newline
        } else {
            b.push(b'\n');
            line += 1;
        }
    }
    if !plain && b.last() == Some(&b'\n') {
        while rng.chance(1, 5) {
            for _ in 0..rng.below(3) { b.push(b' '); }
            if rng.chance(3, 4) { b.push(b'\n'); }
        }
    }
    Rendered { bytes: b, tokens: toks }
}

// ------------------------------------------------------------------ mutation / corruption

fn extreme_numeral(rng: &mut Rng) -> Vec<u8> {
    match rng.below(8) {
        0 => b"18446744073709551615".to_vec(),
        1 => b"18446744073709551616".to_vec(),
        2 => b"9223372036854775808".to_vec(),
        3 => b"0".to_vec(),
        4 => b"00".to_vec(),
        5 => (0..30).map(|_| b'0' + rng.below(10) as u8).collect(),
        6 => format!("0{}", rng.range(1, 99)).into_bytes(),
        _ => {
            let k = rng.range(1, 64);
            let v = (1u128 << k) + rng.range(0, 2) as u128 - 1;
            v.to_string().into_bytes()
        }
    }
}

const KEYWORDS: &[&str] = &[
    "sort", "bitvec", "array", "init", "next", "bad", "constraint", "fair", "output", "justice", "const", "constd",
    "consth", "ones", "one", "zero", "input", "state", "uext", "sext", "slice", "not", "redand", "redxor", "iff",
    "implies", "ugte", "concat", "read", "ite", "write", "usubo",
];

/// A run of lower-case letters around the 8-byte steps of the keyword scanner: a keyword,
/// a keyword with extra letters, or letters only, of length 0..=26.
fn lower_run(rng: &mut Rng) -> Vec<u8> {
    match rng.below(5) {
        0 => rng.pick(KEYWORDS).as_bytes().to_vec(),
        1 => {
            let mut k = rng.pick(KEYWORDS).as_bytes().to_vec();
            for _ in 0..rng.range(1, 9) { k.push(b'a' + rng.below(26) as u8); }
            k
        }
        2 => {
            let mut k: Vec<u8> = (0..rng.range(1, 9)).map(|_| b'a' + rng.below(26) as u8).collect();
            k.extend_from_slice(rng.pick(KEYWORDS).as_bytes());
            k
        }
        3 => {
            let n = *rng.pick(&[0u64, 1, 7, 8, 9, 15, 16, 17, 24, 26]);
            (0..n).map(|_| *rng.pick(b"az`{mq")).collect()
        }
        _ => (0..rng.range(0, 26)).map(|_| b'a' + rng.below(26) as u8).collect(),
    }
}

pub fn mutate(rng: &mut Rng, mut b: Vec<u8>) -> Vec<u8> {
    for _ in 0..rng.range(1, 3) {
        let len = b.len();
        match rng.below(9) {
            0 if len > 0 => { let i = rng.below(len as u64) as usize; b[i] = *rng.pick(b" \t\r\n0123456789-;abfxz`{AG\xff\x00"); }
            1 if len > 0 => { let i = rng.below(len as u64) as usize; b.remove(i); }
            2 => { let i = rng.range(0, len as u64) as usize; b.insert(i, *rng.pick(b" \n0-19;a\r")); }
            3 if len > 0 => { let i = rng.below(len as u64) as usize; b.truncate(i); }
            4 => { let i = rng.range(0, len as u64) as usize; let e = extreme_numeral(rng); b.splice(i..i, e); }
            5 if len > 1 => {
                let i = rng.below(len as u64) as usize;
                let j = (i + rng.range(1, 6) as usize).min(len);
                let dup: Vec<u8> = b[i..j].to_vec();
                b.splice(j..j, dup);
            }
            6 => { let i = rng.range(0, len as u64) as usize; let e = lower_run(rng); b.splice(i..i, e); }
            7 if len > 0 => {
                // upper-case / neighbour of a letter
                let i = rng.below(len as u64) as usize;
                if b[i].is_ascii_lowercase() { b[i] = *rng.pick(&[b[i] - 32, b'`', b'{', b[i]]); }
            }
            _ => { let i = rng.range(0, len as u64) as usize; b.insert(i, rng.next() as u8); }
        }
    }
    b
}

fn arbitrary(rng: &mut Rng) -> Vec<u8> {
    let n = rng.range(0, 48);
    let alpha: &[u8] = if rng.chance(1, 2) { b"1 2 3 sort bitvec\n\n ;ab01-" } else { b"\x00\xff abc\n123;-" };
    let mut v: Vec<u8> = vec![];
    while (v.len() as u64) < n {
        match rng.below(12) {
            0 => v.extend_from_slice(rng.pick(KEYWORDS).as_bytes()),
            1 => v.push(rng.next() as u8),
            2 => v.extend_from_slice(rng.range(0, 300).to_string().as_bytes()),
            _ => v.push(*rng.pick(alpha)),
        }
    }
    v
}

/// A document whose keyword position is a chosen lower-case run and whose length after the
/// keyword varies: the 8-byte fast path needs `offset + 8` buffered bytes, so the number of bytes
/// that follow the keyword (0..) decides, together with the read schedule, which path runs.
fn keyword_doc(rng: &mut Rng) -> Vec<u8> {
    let mut b: Vec<u8> = vec![];
    if rng.chance(1, 2) { b.extend_from_slice(b"1 sort bitvec 8\n"); }
    b.extend_from_slice(rng.range(2, 99).to_string().as_bytes());
    b.push(b' ');
    let sort_kw = rng.chance(1, 4);
    if sort_kw { b.extend_from_slice(b"sort "); }
    b.extend_from_slice(&lower_run(rng));
    match rng.below(6) {
        0 => {}
        1 => b.push(b' '),
        2 => b.push(b'\n'),
        _ => {
            let tail: &[u8] = if sort_kw { b" 12 3\n; tail comment\n" } else { b" 1 2 3 4 sym ; c\n5 one 1\n" };
            let cut = rng.range(1, tail.len() as u64) as usize;
            b.extend_from_slice(&tail[..cut]);
        }
    }
    b
}

fn offset_of(bytes: &[u8], l: usize, c: usize) -> usize {
    let mut off = 0;
    let mut line = 1;
    while line < l {
        if bytes[off] == b'\n' { line += 1; }
        off += 1;
    }
    off + c - 1
}

/// One case line.  `opt` selects the family:
/// rt | layout | kinds | mutate | arbitrary | kw | corrupt | fault | ls | rtbad | valid
pub fn gen_case(rng: &mut Rng, opt: &str, _thorough: bool) -> String {
    let family = if opt.is_empty() || opt == "mix" {
        *rng.pick(&["rt", "layout", "layout", "kinds", "mutate", "mutate", "arbitrary", "kw", "kw", "corrupt", "fault", "ls", "rtbad", "valid"])
    } else {
        let fams: Vec<&str> = opt.split('+').collect();
        *rng.pick(&fams)
    };
    let mut case = Case { k: None, ls: false, data: vec![], expect: None, tok: None, valid: None };
    match family {
        "valid" => {
            // the `TryFrom<&str>` validators of the three constant types on an arbitrary string
            let len_hi = *rng.pick(&[0u64, 1, 3, 9, 20]);
            let s = const_candidate(rng, len_hi);
            case.valid = Some((*rng.pick(&['b', 'd', 'h']), s.into_bytes()));
        }
        "rt" => {
            let doc = gen_doc(rng);
            case.data = write_lines(&doc).unwrap();
            case.expect = Some(expected(&doc));
        }
        "kinds" => {
            // a slice of the deterministic sweep over every operator / constant form / line kind
            let all = all_kinds();
            let i = rng.below(all.len() as u64) as usize;
            let doc: Vec<OLine> = all[i..(i + 6).min(all.len())].to_vec();
            case.data = write_lines(&doc).unwrap();
            case.expect = Some(expected(&doc));
        }
        "layout" => {
            let doc = gen_doc(rng);
            case.data = render(rng, &doc, false).bytes;
            case.expect = Some(expected(&doc));
        }
        "rtbad" => {
            // constructible lines outside the round-trip domain: empty justice, symbols that are
            // empty / contain a space / start with ';', comments with a newline
            let mut doc = gen_doc(rng);
            let bad = match rng.below(5) {
                0 => OLine::Node { id: 3, variant: OVariant::Justice(vec![]), symbol: None, comment: None },
                1 => OLine::Node { id: 3, variant: OVariant::Input(1), symbol: Some(vec![]), comment: None },
                2 => OLine::Node { id: 3, variant: OVariant::Input(1), symbol: Some(b"a b".to_vec()), comment: None },
                3 => OLine::Node { id: 3, variant: OVariant::Input(1), symbol: Some(b";x".to_vec()), comment: None },
                _ => OLine::Comment(b"two\n3 lines".to_vec()),
            };
            let i = rng.range(0, doc.len() as u64) as usize;
            doc.insert(i, bad);
            case.data = write_lines(&doc).unwrap();
        }
        "mutate" => {
            let doc = gen_doc(rng);
            let plain = rng.chance(1, 2);
            let r = render(rng, &doc, plain);
            case.data = mutate(rng, r.bytes);
        }
        "arbitrary" => {
            case.data = arbitrary(rng);
        }
        "kw" => {
            case.data = keyword_doc(rng);
        }
        "corrupt" => {
            // a plain rendering (what `write_into` emits) with one token replaced
            let mut doc = gen_doc(rng);
            if !doc.iter().any(|l| matches!(l, OLine::Node { .. })) {
                doc.push(OLine::Node { id: 2, variant: OVariant::Input(1), symbol: None, comment: None });
            }
            let r = render(rng, &doc, true);
            let &(l, c, n, is_num) = rng.pick(&r.tokens);
            let off = offset_of(&r.bytes, l, c);
            let repl: Vec<u8> = if is_num {
                match rng.below(7) {
                    5 => b"0".to_vec(),
                    6 => b"00".to_vec(),
                    0 => b"18446744073709551616".to_vec(),
                    1 => b"99999999999999999999999".to_vec(),
                    2 => format!("0{}", rng.range(0, 99)).into_bytes(),
                    3 => b"1x".to_vec(),
                    _ => b"-1".to_vec(),
                }
            } else {
                match rng.below(4) {
                    0 => b"Sort".to_vec(),
                    1 => b"xyzzyxyzzyx".to_vec(),
                    2 => b"\xff".to_vec(),
                    _ => b"?".to_vec(),
                }
            };
            let mut b = r.bytes.clone();
            b.splice(off..off + n, repl.clone());
            case.data = b;
            // a lone zero is a legal value in some positions (extension widths, slice indices):
            // no claim about an error on the token then, the other oracles still apply
            let maybe_legal = repl == b"0" || repl == b"00";
            case.tok = if maybe_legal { None } else { Some((l, c, repl.len())) };
        }
        "fault" => {
            let doc = gen_doc(rng);
            let plain = rng.chance(1, 2);
            let r = render(rng, &doc, plain);
            let data = if rng.chance(1, 4) { mutate(rng, r.bytes) } else { r.bytes };
            case.k = Some(rng.range(0, data.len() as u64) as usize);
            case.data = data;
        }
        "ls" => {
            let doc = gen_doc(rng);
            let r = render(rng, &doc, false);
            case.data = if rng.chance(1, 5) { mutate(rng, r.bytes) } else { r.bytes };
            case.ls = true;
        }
        _ => panic!("unknown family {}", family),
    }
    case.line()
}

/// Every fault offset of one document (C04 thorough): returns several case lines.
pub fn fault_sweep(rng: &mut Rng) -> Vec<String> {
    let doc = gen_doc(rng);
    let r = render(rng, &doc, false);
    (0..=r.bytes.len())
        .map(|k| Case { k: Some(k), ls: false, data: r.bytes.clone(), expect: None, tok: None, valid: None }.line())
        .collect()
}

/// Complete enumeration of the constant validators' small domain (C03): every string over
/// {'-', '0', '1', '7', 'a', 'f', 'g'} up to length 4, for the three constant kinds.
pub fn validators_exhaustive() -> Vec<String> {
    let alpha = b"-017afg";
    let mut strings: Vec<Vec<u8>> = vec![vec![]];
    let mut frontier: Vec<Vec<u8>> = vec![vec![]];
    for _ in 0..4 {
        let mut next = vec![];
        for s in &frontier {
            for &c in alpha {
                let mut t = s.clone();
                t.push(c);
                next.push(t);
            }
        }
        strings.extend(next.iter().cloned());
        frontier = next;
    }
    let mut out = vec![];
    for s in &strings {
        for t in ['b', 'd', 'h'] {
            out.push(Case { k: None, ls: false, data: vec![], expect: None, tok: None, valid: Some((t, s.clone())) }.line());
        }
    }
    out
}
