//! Engine `btor2`: the BTOR2 line parser and writer of `flussab-btor2`.
//!
//! Case: `btor2 k=<fault offset|-> ls=<0|1> d=<hex> [x=<expected observation>] [t=<line:col:len>]`
//!   or  `btor2 k=- ls=0 d=- v=<b|d|h>:<hex>`: the `TryFrom<&str>` validator of `BinaryConst` /
//!   `DecimalConst` / `HexConst` on the given (UTF-8) string; observation `V:1` (Ok) / `V:0` (Err).
//! Observation (also what the Lean driver prints): one item per `Line` returned by `next_line`
//!   `c:<comment hex>`                                                  comment line
//!   `n:<id>:<variant>:<symbol hex|~>:<comment hex|~>`                  node, `<variant>` one of
//!       `sort.bitvec.<w>` `sort.array.<d>.<c>` `val.<sort>.<const|constd|consth>.<digits hex>`
//!       `val.<sort>.<one|ones|zero|input|state>` `val.<sort>.op.<name>.<a0>[.<a1>[.<a2>]][.<idx>…]`
//!       `<init|next>.<sort>.<state>.<value>` `out.<kind>.<value>` `justice.<n1>,<n2>,…`
//!   joined by `|`, then `END`, `E:io`, `E:syn:<line>:<col>` or `E:panic`.
//!   With `ls=1` (one line per read) every item carries `@<bytes delivered by the source>`.
//!   Scale cases keep observations small: a byte field (comment, symbol, constant digits) of more
//!   than 256 bytes is printed as `#<len>:<fnv-1a 64 of the bytes>`, a justice list of more than 256
//!   conditions as `#<n>:<fnv of the comma-joined text>`, and if the `|`-joined items exceed 65536
//!   bytes they are replaced by `#T<items>:<bytes>:<fnv of that text>` (same formulas in the driver).
//!   `d=` (and the string of `v=`) are data fields (`common::data_field`: hex / `r` / `n` / `g`
//!   segments); `e=<line>:<col>` is the exact location of the syntax error the document was built
//!   to have (C08); `big=1`: the model is skipped, the oracles below still run.
//!   After the final outcome `next_line` is called again `eng_cnf::RECALLS` times on the same
//!   parser; every outcome is appended as `|AGAIN:<line | END | E:…>` (the driver re-runs the
//!   model's `nextLine` on the state it is left in); `|AGAINVARIANT:<schedule>=…` only if a
//!   schedule's re-calls differ from the one-shot run's.
//! Oracles: C01 (same observation under every schedule), C03 (constructed lines → write_into →
//! parse, `x`; parse∘write∘parse = parse), C04 (fault ⇒ io), C05 (no panic), C06 (independent
//! whitespace tokenizer), C08 (location in range / on the corrupted token `t`), C09 (no line
//! pulled beyond the completing one); re-calls (`recall_oracles`): C05 no panic, C08 location inside
//! the input / not before the earlier error / on a later line: where a fresh parser finds it.
use crate::common::*;
use crate::eng_cnf::schedules;
use flussab::text::LineReader;
use flussab::{DeferredReader, DeferredWriter};
use flussab_btor2::btor2::*;
use flussab_btor2::{Config, InnerParseError, ParseError, Parser};

pub fn err_obs(e: &ParseError) -> String {
    match &**e {
        InnerParseError::IoError(_) => "E:io".into(),
        InnerParseError::SyntaxError(s) => format!("E:syn:{}:{}", s.location.line, s.location.column),
    }
}

// ------------------------------------------------------------------ owned lines

#[derive(Clone, Debug, PartialEq, Eq)]
pub enum OConst {
    Binary(String),
    Decimal(String),
    Hex(String),
    One,
    Ones,
    Zero,
}

#[derive(Clone, Debug, PartialEq, Eq)]
pub enum OVariant {
    SortBitVec(u64),
    SortArray(u64, u64),
    Const(u64, OConst),
    Input(u64),
    State(u64),
    Unary(u64, UnaryOp, u64),
    Binary(u64, BinaryOp, [u64; 2]),
    Ternary(u64, TernaryOp, [u64; 3]),
    Assignment { state: u64, sort: u64, kind: AssignmentKind, value: u64 },
    Output(SingleValueOutputKind, u64),
    Justice(Vec<u64>),
}

/// An owned copy of a `Line` (the crate's `Line` borrows from the parser's buffers).
#[derive(Clone, Debug, PartialEq, Eq)]
pub enum OLine {
    Comment(Vec<u8>),
    Node { id: u64, variant: OVariant, symbol: Option<Vec<u8>>, comment: Option<Vec<u8>> },
}

fn lower_debug<T: std::fmt::Debug>(t: &T) -> String {
    format!("{:?}", t).to_lowercase()
}

pub fn fnv64_step(mut h: u64, bytes: &[u8]) -> u64 {
    for b in bytes {
        h ^= *b as u64;
        h = h.wrapping_mul(0x100000001b3);
    }
    h
}

pub const FNV_INIT: u64 = 0xcbf29ce484222325;

/// A byte field of an observation: hex up to 256 bytes, `#<len>:<fnv-1a 64 of the bytes>` beyond.
pub fn fhex(b: &[u8]) -> String {
    if b.len() <= 256 {
        hex(b)
    } else {
        format!("#{}:{:016x}", b.len(), fnv64_step(FNV_INIT, b))
    }
}

/// The condition list of a justice line (numerals as text): comma-joined up to 256 conditions,
/// `#<n>:<fnv of the comma-joined text>` beyond.
pub fn justice_text(ns: &[String]) -> String {
    if ns.is_empty() {
        "-".to_string()
    } else if ns.len() <= 256 {
        ns.join(",")
    } else {
        let mut h = FNV_INIT;
        for (i, n) in ns.iter().enumerate() {
            if i > 0 {
                h = fnv64_step(h, b",");
            }
            h = fnv64_step(h, n.as_bytes());
        }
        format!("#{}:{:016x}", ns.len(), h)
    }
}

/// Items and final outcome, `|`-joined; if the joined items exceed 65536 bytes they are replaced
/// by `#T<items>:<bytes>:<fnv of the joined items>`.  Streaming, so that a generator can state the
/// expected observation of a document of millions of lines without building the text.
pub fn join_obs(items: impl Iterator<Item = String>, fin: &str) -> String {
    let mut body = String::new();
    let (mut n, mut len, mut h) = (0usize, 0usize, FNV_INIT);
    for it in items {
        if n > 0 {
            h = fnv64_step(h, b"|");
            len += 1;
            if len <= 65536 { body.push('|'); }
        }
        h = fnv64_step(h, it.as_bytes());
        len += it.len();
        if len <= 65536 { body.push_str(&it); }
        n += 1;
    }
    if len > 65536 {
        format!("#T{}:{}:{:016x}|{}", n, len, h, fin)
    } else if n == 0 {
        fin.to_string()
    } else {
        format!("{}|{}", body, fin)
    }
}

fn opt_hex(b: &Option<Vec<u8>>) -> String {
    match b {
        Some(b) => fhex(b),
        None => "~".into(),
    }
}

impl OLine {
    pub fn from_line(l: &Line) -> OLine {
        match l {
            Line::Comment(c) => OLine::Comment(c.to_vec()),
            Line::Node(n) => {
                let variant = match &n.variant {
                    NodeVariant::Sort(Sort::BitVec(w)) => OVariant::SortBitVec(w.get()),
                    NodeVariant::Sort(Sort::Array(Array(d, c))) => OVariant::SortArray(d.0.get(), c.0.get()),
                    NodeVariant::Value(v) => {
                        let s = v.sort.0.get();
                        match &v.variant {
                            ValueVariant::Const(Const::Binary(c)) => OVariant::Const(s, OConst::Binary(c.to_string())),
                            ValueVariant::Const(Const::Decimal(c)) => OVariant::Const(s, OConst::Decimal(c.to_string())),
                            ValueVariant::Const(Const::Hex(c)) => OVariant::Const(s, OConst::Hex(c.to_string())),
                            ValueVariant::Const(Const::One) => OVariant::Const(s, OConst::One),
                            ValueVariant::Const(Const::Ones) => OVariant::Const(s, OConst::Ones),
                            ValueVariant::Const(Const::Zero) => OVariant::Const(s, OConst::Zero),
                            ValueVariant::Input => OVariant::Input(s),
                            ValueVariant::State => OVariant::State(s),
                            ValueVariant::Op(Op::Unary(op, a)) => OVariant::Unary(s, *op, a.0.get()),
                            ValueVariant::Op(Op::Binary(op, a)) => OVariant::Binary(s, *op, [a[0].0.get(), a[1].0.get()]),
                            ValueVariant::Op(Op::Ternary(op, a)) => {
                                OVariant::Ternary(s, *op, [a[0].0.get(), a[1].0.get(), a[2].0.get()])
                            }
                        }
                    }
                    NodeVariant::Assignment(a) => OVariant::Assignment {
                        state: a.state.0.get(),
                        sort: a.sort.0.get(),
                        kind: a.kind,
                        value: a.value.0.get(),
                    },
                    NodeVariant::Output(Output::SingleValue(o)) => OVariant::Output(o.kind, o.value.0.get()),
                    NodeVariant::Output(Output::Justice(ns)) => OVariant::Justice(ns.iter().map(|n| n.0.get()).collect()),
                };
                OLine::Node {
                    id: n.id.0.get(),
                    variant,
                    symbol: n.symbol.map(|s| s.to_vec()),
                    comment: n.comment.map(|s| s.to_vec()),
                }
            }
        }
    }

    /// Canonical text of a line.
    pub fn obs(&self) -> String {
        match self {
            OLine::Comment(c) => format!("c:{}", fhex(c)),
            OLine::Node { id, variant, symbol, comment } => {
                let v = match variant {
                    OVariant::SortBitVec(w) => format!("sort.bitvec.{}", w),
                    OVariant::SortArray(d, c) => format!("sort.array.{}.{}", d, c),
                    OVariant::Const(s, OConst::Binary(c)) => format!("val.{}.const.{}", s, fhex(c.as_bytes())),
                    OVariant::Const(s, OConst::Decimal(c)) => format!("val.{}.constd.{}", s, fhex(c.as_bytes())),
                    OVariant::Const(s, OConst::Hex(c)) => format!("val.{}.consth.{}", s, fhex(c.as_bytes())),
                    OVariant::Const(s, OConst::One) => format!("val.{}.one", s),
                    OVariant::Const(s, OConst::Ones) => format!("val.{}.ones", s),
                    OVariant::Const(s, OConst::Zero) => format!("val.{}.zero", s),
                    OVariant::Input(s) => format!("val.{}.input", s),
                    OVariant::State(s) => format!("val.{}.state", s),
                    OVariant::Unary(s, op, a) => match op {
                        UnaryOp::Uext(w) => format!("val.{}.op.uext.{}.{}", s, a, w),
                        UnaryOp::Sext(w) => format!("val.{}.op.sext.{}.{}", s, a, w),
                        UnaryOp::Slice(u, l) => format!("val.{}.op.slice.{}.{}.{}", s, a, u, l),
                        other => format!("val.{}.op.{}.{}", s, lower_debug(other), a),
                    },
                    OVariant::Binary(s, op, a) => format!("val.{}.op.{}.{}.{}", s, lower_debug(op), a[0], a[1]),
                    OVariant::Ternary(s, op, a) => format!("val.{}.op.{}.{}.{}.{}", s, lower_debug(op), a[0], a[1], a[2]),
                    OVariant::Assignment { state, sort, kind, value } => {
                        format!("{}.{}.{}.{}", lower_debug(kind), sort, state, value)
                    }
                    OVariant::Output(kind, v) => format!("out.{}.{}", lower_debug(kind), v),
                    OVariant::Justice(ns) => {
                        format!("justice.{}", justice_text(&ns.iter().map(|n| n.to_string()).collect::<Vec<_>>()))
                    }
                };
                format!("n:{}:{}:{}:{}", id, v, opt_hex(symbol), opt_hex(comment))
            }
        }
    }

    /// Rebuild the crate's `Line` through the public constructors (`NodeId::new`,
    /// `Sort::bit_vec`, the `TryFrom` validators) and hand it to `f`; `None` if a constructor
    /// refuses the value (zero id, invalid constant string).
    pub fn with_line<R>(&self, f: impl FnOnce(&Line) -> R) -> Option<R> {
        let nz = |x: u64| if x == 0 { None } else { Some(NodeId::new(x)) };
        match self {
            OLine::Comment(c) => Some(f(&Line::Comment(c.as_slice().into()))),
            OLine::Node { id, variant, symbol, comment } => {
                let nodes: Vec<NodeId>;
                let variant = match variant {
                    OVariant::SortBitVec(w) => {
                        if *w == 0 { return None; }
                        NodeVariant::Sort(Sort::bit_vec(*w))
                    }
                    OVariant::SortArray(d, c) => NodeVariant::Sort(Sort::Array(Array(nz(*d)?, nz(*c)?))),
                    OVariant::Const(s, c) => NodeVariant::Value(Value {
                        sort: nz(*s)?,
                        variant: ValueVariant::Const(match c {
                            OConst::Binary(t) => Const::Binary(BinaryConst::try_from(t.as_str()).ok()?),
                            OConst::Decimal(t) => Const::Decimal(DecimalConst::try_from(t.as_str()).ok()?),
                            OConst::Hex(t) => Const::Hex(HexConst::try_from(t.as_str()).ok()?),
                            OConst::One => Const::One,
                            OConst::Ones => Const::Ones,
                            OConst::Zero => Const::Zero,
                        }),
                    }),
                    OVariant::Input(s) => NodeVariant::Value(Value { sort: nz(*s)?, variant: ValueVariant::Input }),
                    OVariant::State(s) => NodeVariant::Value(Value { sort: nz(*s)?, variant: ValueVariant::State }),
                    OVariant::Unary(s, op, a) => {
                        NodeVariant::Value(Value { sort: nz(*s)?, variant: ValueVariant::Op(Op::Unary(*op, nz(*a)?)) })
                    }
                    OVariant::Binary(s, op, a) => NodeVariant::Value(Value {
                        sort: nz(*s)?,
                        variant: ValueVariant::Op(Op::Binary(*op, [nz(a[0])?, nz(a[1])?])),
                    }),
                    OVariant::Ternary(s, op, a) => NodeVariant::Value(Value {
                        sort: nz(*s)?,
                        variant: ValueVariant::Op(Op::Ternary(*op, [nz(a[0])?, nz(a[1])?, nz(a[2])?])),
                    }),
                    OVariant::Assignment { state, sort, kind, value } => NodeVariant::Assignment(Assignment {
                        state: nz(*state)?,
                        sort: nz(*sort)?,
                        kind: *kind,
                        value: nz(*value)?,
                    }),
                    OVariant::Output(kind, v) => {
                        NodeVariant::Output(Output::SingleValue(SingleValueOutput { kind: *kind, value: nz(*v)? }))
                    }
                    OVariant::Justice(ns) => {
                        nodes = ns.iter().map(|n| nz(*n)).collect::<Option<Vec<_>>>()?;
                        NodeVariant::Output(Output::Justice(&nodes))
                    }
                };
                let line = Line::Node(Node {
                    id: nz(*id)?,
                    variant,
                    symbol: symbol.as_ref().map(|s| s.as_slice().into()),
                    comment: comment.as_ref().map(|s| s.as_slice().into()),
                });
                Some(f(&line))
            }
        }
    }
}

/// `write_into` of every line, through a `DeferredWriter` into a byte vector.
pub fn write_lines(lines: &[OLine]) -> Option<Vec<u8>> {
    let mut out: Vec<u8> = vec![];
    {
        let mut w = DeferredWriter::from_write(&mut out);
        for l in lines {
            l.with_line(|line| line.write_into(&mut w))?;
        }
        use std::io::Write;
        w.flush().ok()?;
    }
    Some(out)
}

// ------------------------------------------------------------------ running the parser

pub struct RunObs {
    pub items: Vec<(OLine, usize)>,
    pub fin: String,
    /// what `next_line` returned when it was called again (`eng_cnf::RECALLS` times) on the same
    /// parser after its final outcome `fin`: a line's text, `END`, `E:io`, `E:syn:<line>:<col>`,
    /// `E:panic` (after which no further call is made)
    pub again: Vec<String>,
}

impl RunObs {
    pub fn text(&self, with_delivered: bool) -> String {
        join_obs(self.items.iter().map(|(l, d)| if with_delivered { format!("{}@{}", l.obs(), d) } else { l.obs() }), &self.fin)
    }
    /// `|AGAIN:<outcome>` per re-call: part of the observation (the Lean driver runs the model's
    /// `nextLine` again on the state the model is left in).
    pub fn again_text(&self) -> String {
        crate::eng_cnf::again_text(&self.again)
    }
}

/// A source that returns at most one line per `read` (C09): up to and including the next
/// newline, or as much of the line as the caller's buffer takes — a long line arrives in pieces,
/// never together with bytes of the line after it.  (`eng_cnf::line_schedule` expresses the same
/// for lines that fit into one read.)  State: data, offset, fault, ended.
#[derive(Clone)]
pub struct LineSrc(pub std::rc::Rc<std::cell::RefCell<(Vec<u8>, usize, bool, bool)>>, pub usize);

impl LineSrc {
    pub fn new(data: Vec<u8>, fault: bool) -> Self {
        LineSrc(std::rc::Rc::new(std::cell::RefCell::new((data, 0, fault, false))), usize::MAX)
    }
    /// at most `piece` bytes per read (`piece = 1`: one byte per read, `ls=2`)
    pub fn pieces(data: Vec<u8>, fault: bool, piece: usize) -> Self {
        LineSrc(std::rc::Rc::new(std::cell::RefCell::new((data, 0, fault, false))), piece)
    }
}

impl std::io::Read for LineSrc {
    fn read(&mut self, buf: &mut [u8]) -> std::io::Result<usize> {
        let mut s = self.0.borrow_mut();
        let (off, len) = (s.1, s.0.len());
        if off == len || buf.is_empty() {
            if off == len && s.2 && !s.3 {
                s.3 = true;
                return Err(fault_error(std::io::ErrorKind::Other, &s.0));
            }
            s.3 = true;
            return Ok(0);
        }
        let line_end = s.0[off..].iter().position(|b| *b == b'\n').map(|p| off + p + 1).unwrap_or(len);
        let k = (line_end - off).min(buf.len()).min(self.1);
        buf[..k].copy_from_slice(&s.0[off..off + k]);
        s.1 += k;
        Ok(k)
    }
}

pub fn run_parser(src: SchedSource, chunk: usize) -> RunObs {
    let log = src.clone();
    run_parser_on(src, move || log.0.borrow().log.len(), chunk)
}

pub fn run_parser_lines(data: Vec<u8>, fault: bool) -> RunObs {
    run_parser_pieces(data, fault, usize::MAX)
}

pub fn run_parser_pieces(data: Vec<u8>, fault: bool, piece: usize) -> RunObs {
    let src = LineSrc::pieces(data, fault, piece);
    let log = src.clone();
    run_parser_on(src, move || log.0.borrow().1, 16384)
}

fn run_parser_on(src: impl std::io::Read + Clone + 'static, delivered: impl Fn() -> usize, chunk: usize) -> RunObs {
    let items = std::cell::RefCell::new(vec![]);
    let again = std::cell::RefCell::new(vec![]);
    let fin = catch(|| {
        let mut reader = DeferredReader::from_read(src.clone());
        if chunk < crate::eng_cnf::SNIFF_BASE {
            reader.set_chunk_size(chunk);
        } else if chunk < crate::eng_cnf::CTOR_BOXED {
            let k = chunk - crate::eng_cnf::SNIFF_BASE;
            let _ = reader.request(if k == 1000 { usize::MAX / 4 } else { k });
        }
        let made = if chunk == crate::eng_cnf::CTOR_FROM_READ {
            Parser::from_read(src.clone(), Config::default())
        } else if chunk == crate::eng_cnf::CTOR_BOXED {
            Parser::from_boxed_dyn_read(Box::new(src.clone()), Config::default())
        } else {
            Parser::new(LineReader::new(reader), Config::default())
        };
        let mut p = match made {
            Ok(p) => p,
            Err(e) => return err_obs(&e),
        };
        let fin = loop {
            match p.next_line() {
                Ok(Some(l)) => {
                    let o = OLine::from_line(&l);
                    let d = delivered();
                    items.borrow_mut().push((o, d));
                }
                Ok(None) => break "END".to_string(),
                Err(e) => break err_obs(&e),
            }
        };
        // `next_line` called again after its final outcome
        for _ in 0..crate::eng_cnf::RECALL_N.with(|c| c.get()) {
            let o = catch(|| match p.next_line() {
                Ok(Some(l)) => OLine::from_line(&l).obs(),
                Ok(None) => "END".to_string(),
                Err(e) => err_obs(&e),
            })
            .unwrap_or_else(|| "E:panic".to_string());
            let stop = o == "E:panic";
            again.borrow_mut().push(o);
            if stop {
                break;
            }
        }
        fin
    });
    RunObs { items: items.into_inner(), fin: fin.unwrap_or_else(|| "E:panic".into()), again: again.into_inner() }
}

// ------------------------------------------------------------------ independent reading (C06)

fn is_u64_numeral(t: &str) -> bool {
    // canonical decimal (no sign, no leading zero unless "0") of a value < 2^64, decided on the text
    const MAX: &str = "18446744073709551615";
    !t.is_empty()
        && t.bytes().all(|b| b.is_ascii_digit())
        && (t == "0" || !t.starts_with('0'))
        && (t.len() < MAX.len() || (t.len() == MAX.len() && t <= MAX))
}

fn pos_numeral(t: &str) -> Option<String> {
    if is_u64_numeral(t) && t != "0" { Some(t.to_string()) } else { None }
}

fn nonneg_numeral(t: &str) -> Option<String> {
    if is_u64_numeral(t) { Some(t.to_string()) } else { None }
}

const UNARY: &[&str] = &["not", "inc", "dec", "neg", "redand", "redor", "redxor"];
const BINARY: &[&str] = &[
    "iff", "implies", "eq", "neq", "ugt", "sgt", "ugte", "sgte", "ult", "slt", "ulte", "slte", "and", "nand", "nor", "or",
    "xnor", "xor", "rol", "ror", "sll", "sra", "srl", "add", "mul", "udiv", "sdiv", "smod", "urem", "srem", "sub", "uaddo",
    "saddo", "sdivo", "umulo", "smulo", "usubo", "ssubo", "concat", "read",
];

/// Read one non-blank line the way the BTOR2 description says, independently of the crate:
/// split at single spaces, numerals kept as text.  `None` = this simple reader does not
/// understand the line (then the oracle makes no claim).
fn reference_line(line: &[u8]) -> Option<String> {
    let start = line.iter().position(|b| *b != b' ')?;
    let line = &line[start..];
    if line[0] == b';' {
        return Some(format!("c:{}", fhex(&line[1..])));
    }
    // tokens separated by single spaces; a token that starts with ';' starts the comment
    let mut toks: Vec<&[u8]> = vec![];
    let mut i = 0;
    let mut comment: Option<Vec<u8>> = None;
    loop {
        if line[i] == b';' {
            comment = Some(line[i + 1..].to_vec());
            break;
        }
        let j = line[i..].iter().position(|b| *b == b' ').map(|p| i + p).unwrap_or(line.len());
        if j == i {
            return None; // double space
        }
        toks.push(&line[i..j]);
        if j == line.len() {
            break;
        }
        i = j + 1;
        if i == line.len() {
            return None; // trailing space
        }
    }
    let text = |k: usize| -> Option<&str> { std::str::from_utf8(toks.get(k)?).ok() };
    let pos = |k: usize| -> Option<String> { pos_numeral(text(k)?) };
    let nonneg = |k: usize| -> Option<String> { nonneg_numeral(text(k)?) };
    let id = pos(0)?;
    let kw = text(1)?;
    // (variant text, number of tokens used)
    let (variant, used): (String, usize) = match kw {
        "sort" => match text(2)? {
            "bitvec" => (format!("sort.bitvec.{}", pos(3)?), 4),
            "array" => (format!("sort.array.{}.{}", pos(3)?, pos(4)?), 5),
            _ => return None,
        },
        "init" | "next" => (format!("{}.{}.{}.{}", kw, pos(2)?, pos(3)?, pos(4)?), 5),
        "bad" | "constraint" | "fair" | "output" => (format!("out.{}.{}", kw, pos(2)?), 3),
        "justice" => {
            let n: usize = pos(2)?.parse::<u128>().ok()?.min(1 << 40) as usize;
            if n > toks.len() {
                return None;
            }
            let v: Vec<String> = (0..n).map(|k| pos(3 + k)).collect::<Option<Vec<_>>>()?;
            (format!("justice.{}", justice_text(&v)), 3 + n)
        }
        "const" | "constd" | "consth" => {
            let c = *toks.get(3)?;
            let ok = match kw {
                "const" => c.iter().all(|b| matches!(b, b'0' | b'1')),
                "consth" => c.iter().all(|b| b.is_ascii_hexdigit()),
                // an optional minus sign, then decimal digits ("-" alone is what the crate's
                // own test suite pins down as acceptable)
                _ => c.strip_prefix(b"-").unwrap_or(c).iter().all(|b| b.is_ascii_digit()),
            };
            if !ok {
                return None;
            }
            (format!("val.{}.{}.{}", pos(2)?, kw, fhex(c)), 4)
        }
        "one" | "ones" | "zero" | "input" | "state" => (format!("val.{}.{}", pos(2)?, kw), 3),
        "uext" | "sext" => (format!("val.{}.op.{}.{}.{}", pos(2)?, kw, pos(3)?, nonneg(4)?), 5),
        "slice" => (format!("val.{}.op.slice.{}.{}.{}", pos(2)?, pos(3)?, nonneg(4)?, nonneg(5)?), 6),
        k if UNARY.contains(&k) => (format!("val.{}.op.{}.{}", pos(2)?, kw, pos(3)?), 4),
        k if BINARY.contains(&k) => (format!("val.{}.op.{}.{}.{}", pos(2)?, kw, pos(3)?, pos(4)?), 5),
        "ite" | "write" => (format!("val.{}.op.{}.{}.{}.{}", pos(2)?, kw, pos(3)?, pos(4)?, pos(5)?), 6),
        _ => return None,
    };
    let symbol: Option<Vec<u8>> = match toks.len() - used.min(toks.len()) {
        0 if toks.len() == used => None,
        1 => Some(toks[used].to_vec()),
        _ => return None,
    };
    Some(format!("n:{}:{}:{}:{}", id, variant, opt_hex(&symbol), opt_hex(&comment)))
}

/// The whole document: one entry per non-blank line, with the index of that line.
pub fn reference_read(data: &[u8]) -> Option<Vec<(String, usize)>> {
    let mut out = vec![];
    let mut lines: Vec<&[u8]> = data.split(|b| *b == b'\n').collect();
    let unterminated = !data.is_empty() && *data.last().unwrap() != b'\n';
    if !unterminated {
        lines.pop();
    }
    let n = lines.len();
    for (li, line) in lines.iter().enumerate() {
        if line.iter().all(|b| *b == b' ') {
            continue;
        }
        let r = reference_line(line)?;
        // only a comment may end the input without a newline
        if unterminated && li + 1 == n && !(r.starts_with("c:") || !r.ends_with(":~")) {
            return None;
        }
        out.push((r, li));
    }
    Some(out)
}

// ------------------------------------------------------------------ the case runner

pub struct Case {
    pub k: Option<usize>,
    pub ls: bool,
    /// `ls=2`: one byte per read (the delivered count is exactly how far the parser looked)
    pub lsb: bool,
    pub data: Vec<u8>,
    pub expect: Option<String>,
    pub tok: Option<(usize, usize, usize)>,
    pub valid: Option<(char, Vec<u8>)>,
    /// `e=<line>:<col>`: the exact location of the syntax error the document was built to have
    pub exact: Option<(usize, usize)>,
}

impl Case {
    pub fn parse(line: &str) -> Case {
        let (_, f) = Fields::parse(line);
        Case {
            k: match f.get("k") { "-" => None, s => Some(s.parse().unwrap()) },
            ls: matches!(f.opt("ls"), Some("1") | Some("2")),
            lsb: f.opt("ls") == Some("2"),
            data: data_field(f.get("d")),
            expect: f.opt("x").map(|s| s.to_string()),
            tok: f.opt("t").map(|s| {
                let v: Vec<usize> = s.split(':').map(|x| x.parse().unwrap()).collect();
                (v[0], v[1], v[2])
            }),
            valid: f.opt("v").map(|s| (s.chars().next().unwrap(), data_field(&s[2..]))),
            exact: f.opt("e").map(|s| {
                let (l, c) = s.split_once(':').unwrap();
                (l.parse().unwrap(), c.parse().unwrap())
            }),
        }
    }
    pub fn line(&self) -> String {
        format!(
            "btor2 k={} ls={} d={}{}{}{}{}",
            match self.k { Some(k) => k.to_string(), None => "-".into() },
            if self.lsb { 2 } else { self.ls as u8 },
            compact_field(&self.data),
            match &self.expect { Some(x) => format!(" x={}", x), None => String::new() },
            match &self.tok { Some((l, c, n)) => format!(" t={}:{}:{}", l, c, n), None => String::new() },
            match &self.valid { Some((t, s)) => format!(" v={}:{}", t, hex(s)), None => String::new() },
            match &self.exact { Some((l, c)) => format!(" e={}:{}", l, c), None => String::new() },
        )
    }
}

/// C08, exact clause: the document was built from a well-formed prefix and one offending byte /
/// numeral at a known place; the error must be reported exactly there.
fn exact_oracle(exact: Option<(usize, usize)>, fault: bool, fin: &str, sname: &str, fails: &mut Vec<String>) {
    if let (Some((l, c)), false) = (exact, fault) {
        if fin != format!("E:syn:{}:{}", l, c) {
            fails.push(format!("C08:the input stops being well-formed exactly at {}:{} but the parser reported {}{}", l, c, fin, sname));
        }
    }
}

/// C05 / C08 for `next_line` called again after the final outcome (`eng_cnf::recall_oracles`: no
/// panic, a syntax error names a place inside the input and not before the earlier error), and
/// the clause that is special to BTOR2: its lines are independent of each other, and a call of
/// `next_line` crosses a line break only before it starts on a line (or when it returns a line).
/// So if a call that follows a syntax error on line L1 reports a syntax error on a LATER line
/// L2, it started on L2 afresh, and the offending token is the one a new parser finds in the
/// text that begins with line L2: same column, on that text's first line.  (Whether a parser
/// stays on the rejected line or moves on after an error is not prescribed; only where an error
/// it reports may point.)
fn recall_oracles(delivered: &[u8], fault: bool, run: &RunObs, sname: &str) -> Vec<String> {
    let mut fails = crate::eng_cnf::recall_oracles(delivered, &run.fin, &run.again, "next_line", sname);
    if fault {
        return fails;
    }
    let pos = |o: &str| -> Option<(usize, usize)> {
        let (l, c) = o.strip_prefix("E:syn:")?.split_once(':')?;
        Some((l.parse().ok()?, c.parse().ok()?))
    };
    let mut prev = run.fin.clone();
    for (i, o) in run.again.iter().enumerate() {
        if let (Some((pl, _)), Some((l, col))) = (pos(&prev), pos(o)) {
            if l > pl {
                // start of line l
                let mut off = 0;
                let mut line = 1;
                while line < l && off < delivered.len() {
                    if delivered[off] == b'\n' { line += 1; }
                    off += 1;
                }
                if line == l {
                    let fresh = crate::eng_cnf::with_recalls(false, || run_parser(SchedSource::new(delivered[off..].to_vec(), false, vec![]), 16384));
                    if !(fresh.items.is_empty() && fresh.fin == format!("E:syn:1:{}", col)) {
                        let found = if fresh.items.is_empty() { fresh.fin.clone() } else { format!("{} well-formed line(s), then {}", fresh.items.len(), fresh.fin) };
                        fails.push(format!(
                            "C08:next_line called again after {} reports a syntax error at {}:{}, but the text that starts with line {} has: {} (call {}, schedule {})",
                            prev, l, col, l, found, i + 1, sname
                        ));
                    }
                }
            }
        }
        prev = o.clone();
    }
    fails
}

pub fn run_case(line: &str) -> (String, Vec<String>) {
    let c = Case::parse(line);
    let mut fails: Vec<String> = vec![];
    if let Some((t, bytes)) = &c.valid {
        let s = std::str::from_utf8(bytes).expect("validator cases are UTF-8");
        let ok = match t {
            'b' => BinaryConst::try_from(s).is_ok(),
            'd' => DecimalConst::try_from(s).is_ok(),
            _ => HexConst::try_from(s).is_ok(),
        };
        // C03: what a validator accepts must be a constant the parser reads back unchanged
        if ok {
            let c = match t { 'b' => OConst::Binary(s.into()), 'd' => OConst::Decimal(s.into()), _ => OConst::Hex(s.into()) };
            let l = OLine::Node { id: 2, variant: OVariant::Const(1, c), symbol: None, comment: None };
            let text = write_lines(std::slice::from_ref(&l)).unwrap();
            let back = run_parser(SchedSource::new(text, false, vec![]), 16384).text(false);
            if back != format!("{}|END", l.obs()) {
                fails.push(format!("C03:constant accepted by try_from is written and parsed back as {}", back));
            }
        }
        return (format!("V:{}", ok as u8), fails);
    }
    let delivered: Vec<u8> = match c.k { Some(k) => c.data[..k.min(c.data.len())].to_vec(), None => c.data.clone() };
    let fault = c.k.is_some();
    let mk = |sched: Vec<Ev>| SchedSource::new(delivered.clone(), fault, sched);

    if c.ls {
        // C09: one line per read
        let obs = run_parser_pieces(delivered.clone(), fault, if c.lsb { 1 } else { usize::MAX });
        if obs.fin == "E:panic" {
            fails.push("C05:parser panicked".into());
        }
        exact_oracle(c.exact, fault, &obs.fin, " (one line per read)", &mut fails);
        fails.extend(recall_oracles(&delivered, fault, &obs, "one line per read"));
        // item i is completed by the i-th non-blank line: nothing beyond that line may have been pulled
        let mut starts = vec![0usize];
        for (i, b) in delivered.iter().enumerate() {
            if *b == b'\n' { starts.push(i + 1); }
        }
        let line_end = |li: usize| if li + 1 < starts.len() { starts[li + 1] } else { delivered.len() };
        let nonblank: Vec<usize> = (0..starts.len())
            .filter(|li| delivered[starts[*li]..line_end(*li)].iter().any(|b| *b != b' ' && *b != b'\n'))
            .collect();
        for (i, (_, d)) in obs.items.iter().enumerate() {
            match nonblank.get(i) {
                Some(li) => {
                    if *d > line_end(*li) {
                        fails.push(format!("C09:line {} returned after {} bytes were pulled, its text line ends at {}", i, d, line_end(*li)));
                    }
                }
                None => fails.push(format!("C09:line {} returned but the input has only {} non-blank lines", i, nonblank.len())),
            }
        }
        return (obs.text(true) + &obs.again_text(), fails);
    }

    // ---- C01: every schedule gives the same observation
    let mut rng = Rng::new(delivered.len() as u64 * 31 + delivered.first().copied().unwrap_or(0) as u64);
    // beyond 4 MiB the per-byte event lists of `schedules` (16 bytes per input byte, five lists)
    // would dominate memory: the same chunk sizes with a source that fills every buffer
    let scheds = if delivered.len() <= 4 << 20 {
        schedules(&mut rng, delivered.len())
    } else {
        let c = *rng.pick(&[3usize, 7, 9, 16, 4096]);
        vec![
            ("one-shot".to_string(), vec![], 16384),
            ("1-byte".to_string(), vec![], 1),
            ("chunk2".to_string(), vec![], 2),
            ("chunk8".to_string(), vec![], 8),
            (format!("chunk{}", c), vec![], c),
        ]
    };
    // C05: memory bounded by a constant multiple of the input consumed - not by a count the input merely
    // declares.  Measured on a parse that records nothing (the harness's own item log would count otherwise:
    // a document of 2^20 two-byte comment lines is 2 MiB of input and > 200 MiB of recorded observations).
    {
        let src = mk(scheds[0].1.clone());
        let heap0 = heap_mark();
        let _ = catch(|| {
            let mut reader = DeferredReader::from_read(src);
            reader.set_chunk_size(16384);
            if let Ok(mut p) = Parser::new(LineReader::new(reader), Config::default()) {
                let mut n = 0usize;
                while let Ok(Some(_)) = p.next_line() {
                    n += 1;
                }
                std::hint::black_box(n);
            }
        });
        let (peak, largest) = heap_peak_since(heap0);
        if peak > 64 * delivered.len() + (1 << 20) {
            fails.push(format!("C05:parsing {} bytes allocated {} bytes at peak (largest request {})", delivered.len(), peak, largest));
        }
    }
    let base = run_parser(mk(scheds[0].1.clone()), scheds[0].2);
    let base_text = base.text(false);
    fails.extend(recall_oracles(&delivered, fault, &base, "one-shot"));
    let mut again_note = String::new();
    let mut variant_note = String::new();
    let free: Option<RunObs> = if fault { Some(crate::eng_cnf::with_recalls(false, || run_parser(SchedSource::new(c.data.clone(), false, vec![]), 16384))) } else { None };
    for (i, (name, ev, chunk)) in scheds.iter().enumerate().skip(1) {
        // re-calls under the one-shot schedule, the 1-byte schedule and two more that rotate
        let rc = crate::eng_cnf::recalls_on(i, name, delivered.len());
        let ro = crate::eng_cnf::with_recalls(rc, || run_parser(mk(ev.clone()), *chunk));
        let o = ro.text(false);
        if rc && (ro.again != base.again || ro.fin != base.fin) {
            fails.extend(recall_oracles(&delivered, fault, &ro, name));
        }
        if fault && name.starts_with("sniff") {
            if o.ends_with("E:panic") {
                fails.push(format!("C05:parser panicked under schedule {}", name));
            }
            fails.extend(crate::eng_cnf::fault_variant_oracle(&format!("|VARIANT:{}={}", name, o), &free.as_ref().unwrap().text(false)));
            continue;
        }
        if o != base_text {
            fails.push(format!("C01:result depends on the read schedule: one-shot={} {}={}", base_text, name, o));
            variant_note = format!("|VARIANT:{}={}", name, o.chars().take(160).collect::<String>());
            {
                let vfin = o.rsplit('|').next().unwrap_or("");
                if vfin.starts_with("E:syn:") && base.fin.starts_with("E:syn:") && vfin != base.fin {
                    fails.push(format!("C08:error location depends on how the bytes arrive: one-shot {} but {} {}", base.fin, name, vfin));
                }
            }
            fails.extend(crate::eng_cnf::variant_oracles(&delivered, fault, name, &o, c.expect.as_ref(), c.tok, true));
            break;
        }
        if rc && ro.again != base.again && again_note.is_empty() {
            fails.push(format!(
                "C01:what next_line returns when called again after {} depends on the read schedule: one-shot={} {}={}",
                base.fin, base.again.join(","), name, ro.again.join(",")
            ));
            again_note = format!("|AGAINVARIANT:{}={}", name, ro.again.join(","));
        }
    }
    // ---- C05
    if base.fin == "E:panic" {
        fails.push("C05:parser panicked".into());
    }
    // ---- C04: a failing source ends in an I/O error (or the fault-free run's own syntax error)
    if fault {
        let free = free.unwrap();
        fails.extend(crate::eng_cnf::fault_variant_oracle(&variant_note, &free.text(false)));
        let n = base.items.len();
        let prefix_ok = (0..n).all(|i| i < free.items.len() && free.items[i].0 == base.items[i].0);
        if base.fin == "END" {
            fails.push("C04:source failed but the input was reported as completely parsed".into());
        } else if base.fin.starts_with("E:syn") && !(base.fin == free.fin && prefix_ok && free.items.len() == n) {
            fails.push(format!("C04:syntax error {} reported for data that ends where the source failed (fault-free run: {})", base.fin, free.text(false)));
        } else if !prefix_ok {
            fails.push(format!("C04:line handed out before the I/O error differs from the fault-free run: {} vs {}", base_text, free.text(false)));
        }
    }
    // ---- C08: error location designates a position inside the input
    if let Some(rest) = base.fin.strip_prefix("E:syn:") {
        let (l, col) = rest.split_once(':').unwrap();
        let (l, col): (usize, usize) = (l.parse().unwrap(), col.parse().unwrap());
        let mut lines: Vec<&[u8]> = delivered.split(|b| *b == b'\n').collect();
        if lines.last().map(|l| l.is_empty()).unwrap_or(false) {
            lines.pop();
        }
        let len_of = |l: usize| if l <= lines.len() { lines[l - 1].len() } else { 0 };
        if l < 1 || l > lines.len() + 1 {
            fails.push(format!("C08:error line {} outside 1..={}", l, lines.len() + 1));
        } else if col < 1 || col > len_of(l) + 1 {
            fails.push(format!("C08:error column {} outside 1..={} of line {}", col, len_of(l) + 1, l));
        }
        if let Some((tl, tc, tn)) = c.tok {
            if l != tl || col < tc || col > tc + tn {
                fails.push(format!("C08:error at {}:{} but the corrupted token is at {}:{}..{}", l, col, tl, tc, tc + tn));
            }
        }
    } else if c.tok.is_some() && !fault && base.fin == "END" {
        fails.push("C08:the corrupted token was accepted".into());
    }
    exact_oracle(c.exact, fault, &base.fin, "", &mut fails);
    // ---- C03: the lines that were constructed and written
    if let Some(x) = &c.expect {
        if !fault && &base_text != x {
            fails.push(format!("C03:parsed {} but the written lines are {}", base_text, x));
        }
    }
    if !fault && base.fin == "END" {
        // ---- C06: independent reading of accepted inputs
        if let Some(rd) = reference_read(&delivered) {
            let want: Vec<&String> = rd.iter().map(|(s, _)| s).collect();
            let got: Vec<String> = base.items.iter().map(|(l, _)| l.obs()).collect();
            if want.len() != got.len() || want.iter().zip(got.iter()).any(|(a, b)| *a != b) {
                if want.len() + got.len() <= 64 {
                    fails.push(format!("C06:returned lines {:?} differ from the text {:?}", got, want));
                } else {
                    let i = want.iter().zip(got.iter()).position(|(a, b)| *a != b).unwrap_or(want.len().min(got.len()));
                    fails.push(format!(
                        "C06:{} returned lines differ from the {} lines of the text, first at index {}: {:?} vs {:?}",
                        got.len(), want.len(), i, got.get(i), want.get(i)
                    ));
                }
            }
        }
        // ---- C03 converse: parse(write(parse(t))) = parse(t)
        let lines: Vec<OLine> = base.items.iter().map(|(l, _)| l.clone()).collect();
        match write_lines(&lines) {
            None => fails.push("C03:a parsed line is refused by the public constructors".into()),
            Some(bytes) => {
                let again = crate::eng_cnf::with_recalls(false, || run_parser(SchedSource::new(bytes, false, vec![]), 16384)).text(false);
                if again != base_text {
                    fails.push(format!("C03:parse(write(parse(t))) = {} but parse(t) = {}", again, base_text));
                }
            }
        }
    }
    (base_text + &base.again_text() + &again_note + &variant_note, fails)
}
