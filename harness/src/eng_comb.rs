//! Engine `comb`: the finite domain of C15 — every combinator × input case × closure behaviour,
//! with counting closures.  Case line: `comb k=<combinator> in=<ft|ok|err> b=<ok|err|ft|-> [t=zst]`.
//! `t=zst`: the same table instantiated at the other end of the type axis — zero-sized payload and error
//! (`Parsed<(), ()>`) and zero-sized (non-capturing) closures that count through a thread-local: the only
//! thing a generic combinator can make its behaviour depend on besides the case is the *type* (its size,
//! alignment, drop glue), so the table is enumerated for a word-sized and for a zero-sized instantiation.
//! Zero-sized values carry no data: the observation is the case (`P:ok` / `P:err` / `P:ft` / `R:ok` / `R:err`)
//! and the call count.
use crate::common::*;
use flussab::{Parsed, Parsed::*, ResultExt};
use std::cell::Cell;

type P = Parsed<u32, u32>;

fn input(s: &str) -> P {
    match s {
        "ft" => Fallthrough,
        "ok" => Res(Ok(5)),
        "err" => Res(Err(7)),
        _ => panic!("bad input"),
    }
}

fn rin(s: &str) -> Result<u32, u32> {
    match s {
        "ok" => Ok(5),
        "err" => Err(7),
        _ => panic!("bad input"),
    }
}

fn show_p<T: std::fmt::Debug>(p: &Parsed<T, impl std::fmt::Debug>) -> String {
    match p {
        Fallthrough => "P:ft".into(),
        Res(Ok(v)) => format!("P:ok:{:?}", v),
        Res(Err(e)) => format!("P:err:{:?}", e),
    }
}

fn show_r<T: std::fmt::Debug>(r: &Result<T, impl std::fmt::Debug>) -> String {
    match r {
        Ok(v) => format!("R:ok:{:?}", v),
        Err(e) => format!("R:err:{:?}", e),
    }
}

pub const COMBINATORS: &[(&str, &[&str], &[&str])] = &[
    // name, inputs, behaviours
    ("or_parse", &["ft", "ok", "err"], &["ok", "err", "ft"]),
    ("or_always_parse", &["ft", "ok", "err"], &["ok", "err"]),
    ("or_give_up", &["ft", "ok", "err"], &["-"]),
    ("optional", &["ft", "ok", "err"], &["-"]),
    ("matches", &["ft", "ok", "err"], &["-"]),
    ("and_then", &["ft", "ok", "err"], &["ok", "err"]),
    ("and_also", &["ft", "ok", "err"], &["ok", "err"]),
    ("and_do", &["ft", "ok", "err"], &["-"]),
    ("map", &["ft", "ok", "err"], &["-"]),
    ("map_err", &["ft", "ok", "err"], &["-"]),
    ("err_into", &["ft", "ok", "err"], &["-"]),
    ("from_result", &["ok", "err"], &["-"]),
    ("r_err_into", &["ok", "err"], &["-"]),
    ("r_and_also", &["ok", "err"], &["ok", "err"]),
    ("r_and_do", &["ok", "err"], &["-"]),
];

pub fn all_cases() -> Vec<String> {
    let mut v = vec![];
    for t in ["", " t=zst"] {
        for (k, ins, bs) in COMBINATORS {
            for i in *ins {
                for b in *bs {
                    v.push(format!("comb k={} in={} b={}{}", k, i, b, t));
                }
            }
        }
    }
    v
}

// ---- the zero-sized instantiation ----
thread_local! {
    static ZN: Cell<u32> = const { Cell::new(0) };
    static ZB: Cell<u8> = const { Cell::new(0) };
}

type Z = Parsed<(), ()>;

fn zin(s: &str) -> Z {
    match s {
        "ft" => Fallthrough,
        "ok" => Res(Ok(())),
        "err" => Res(Err(())),
        _ => panic!("bad input"),
    }
}

fn zrin(s: &str) -> Result<(), ()> {
    match s {
        "ok" => Ok(()),
        "err" => Err(()),
        _ => panic!("bad input"),
    }
}

fn ztick() {
    ZN.with(|n| n.set(n.get() + 1));
}

fn zb() -> u8 {
    ZB.with(|b| b.get())
}

fn zres() -> Result<(), ()> {
    if zb() == 0 { Ok(()) } else { Err(()) }
}

fn shape_p<T, E>(p: &Parsed<T, E>) -> String {
    match p {
        Fallthrough => "P:ft".into(),
        Res(Ok(_)) => "P:ok".into(),
        Res(Err(_)) => "P:err".into(),
    }
}

fn shape_r<T, E>(r: &Result<T, E>) -> String {
    match r {
        Ok(_) => "R:ok".into(),
        Err(_) => "R:err".into(),
    }
}

/// Every closure below captures nothing (it reaches its counter and its behaviour through thread-locals), so
/// it is a zero-sized value, as are the payload and the error.
fn run_zst(k: &str, inp: &str, b: &str) -> (String, u32) {
    ZN.with(|n| n.set(0));
    ZB.with(|z| z.set(match b { "ok" | "-" => 0, "err" => 1, _ => 2 }));
    fn and_do_action(_v: &mut ()) {
        ztick();
    }
    let shown = match k {
        "or_parse" => shape_p(&zin(inp).or_parse(|| {
            ztick();
            match zb() {
                0 => Res(Ok(())),
                1 => Res(Err(())),
                _ => Fallthrough,
            }
        })),
        "or_always_parse" => shape_r(&zin(inp).or_always_parse(|| {
            ztick();
            zres()
        })),
        "or_give_up" => shape_r(&zin(inp).or_give_up(|| {
            ztick();
        })),
        "optional" => shape_r(&zin(inp).optional()),
        "matches" => shape_r(&zin(inp).matches()),
        "and_then" => shape_p(&zin(inp).and_then(|_v| {
            ztick();
            zres()
        })),
        "and_also" => shape_p(&zin(inp).and_also(|_v| {
            ztick();
            zres()
        })),
        // a `fn` item (also zero-sized), the other way callers pass a stateless action
        "and_do" => shape_p(&zin(inp).and_do(and_do_action)),
        "map" => shape_p(&zin(inp).map(|_v| {
            ztick();
        })),
        "map_err" => shape_p(&zin(inp).map_err(|_e| {
            ztick();
        })),
        "err_into" => shape_p(&zin(inp).err_into::<()>()),
        "from_result" => shape_p(&Z::from(zrin(inp))),
        "r_err_into" => shape_r(&ResultExt::err_into::<()>(zrin(inp))),
        "r_and_also" => shape_r(&ResultExt::and_also(zrin(inp), |_v| {
            ztick();
            zres()
        })),
        "r_and_do" => shape_r(&ResultExt::and_do(zrin(inp), |_v| {
            ztick();
        })),
        _ => "bad-combinator".into(),
    };
    (shown, ZN.with(|n| n.get()))
}

fn truncate2(s: &str) -> String {
    s.split(':').take(2).collect::<Vec<_>>().join(":")
}

pub fn run_case(line: &str) -> (String, Vec<String>) {
    let (_, f) = Fields::parse(line);
    let k = f.get("k");
    let inp = f.get("in");
    let b = f.get("b");
    let zst = f.opt("t") == Some("zst");
    let n = Cell::new(0u32);
    let tick = || n.set(n.get() + 1);
    let mut fails = vec![];
    let zrun = if zst { Some(run_zst(k, inp, b)) } else { None };
    let shown = match k {
        _ if zst => zrun.as_ref().unwrap().0.clone(),
        "or_parse" => show_p(&input(inp).or_parse(|| {
            tick();
            match b {
                "ok" => Res(Ok(105)),
                "err" => Res(Err(207)),
                _ => Fallthrough,
            }
        })),
        "or_always_parse" => show_r(&input(inp).or_always_parse(|| {
            tick();
            if b == "ok" { Ok(105) } else { Err(207) }
        })),
        "or_give_up" => show_r(&input(inp).or_give_up(|| {
            tick();
            99
        })),
        "optional" => show_r(&input(inp).optional()),
        "matches" => show_r(&input(inp).matches()),
        "and_then" => show_p(&input(inp).and_then(|v| {
            tick();
            if b == "ok" { Ok(v as u64 + 100) } else { Err(v + 200) }
        })),
        "and_also" => show_p(&input(inp).and_also(|v| {
            tick();
            *v += 1000;
            if b == "ok" { Ok(()) } else { Err(*v + 200) }
        })),
        "and_do" => show_p(&input(inp).and_do(|v| {
            tick();
            *v += 1000;
        })),
        "map" => show_p(&input(inp).map(|v| {
            tick();
            v as u64 + 100
        })),
        "map_err" => show_p(&input(inp).map_err(|e| {
            tick();
            e as u64 + 300
        })),
        "err_into" => show_p(&input(inp).err_into::<u64>()),
        "from_result" => show_p(&P::from(rin(inp))),
        "r_err_into" => show_r(&ResultExt::err_into::<u64>(rin(inp))),
        "r_and_also" => show_r(&ResultExt::and_also(rin(inp), |v| {
            tick();
            *v += 1000;
            if b == "ok" { Ok(()) } else { Err(*v + 200) }
        })),
        "r_and_do" => show_r(&ResultExt::and_do(rin(inp), |v| {
            tick();
            *v += 1000;
        })),
        _ => "bad-combinator".into(),
    };
    // ---- oracle: the property, stated directly (C15) ----
    let calls = if let Some((_, c)) = &zrun { *c } else { n.get() };
    let expect_calls = match k {
        "or_parse" | "or_always_parse" | "or_give_up" => (inp == "ft") as u32,
        "and_then" | "and_also" | "and_do" | "map" | "r_and_also" | "r_and_do" => (inp == "ok") as u32,
        "map_err" => (inp == "err") as u32,
        _ => 0,
    };
    if calls != expect_calls {
        fails.push(format!("C15:{} on {} ran its closure {} times, expected {}", k, inp, calls, expect_calls));
    }
    if (k == "and_then" || k == "and_also") && inp == "ok" && b == "err" && !shown.starts_with("P:err") {
        fails.push(format!("C15:{} did not commit the continuation's failure: {}", k, shown));
    }
    if !zst && k == "optional" && inp == "ft" && shown != "R:ok:None" {
        fails.push("C15:optional(fallthrough) is not Ok(None)".into());
    }
    if !zst && k == "or_give_up" && inp == "ft" && shown != "R:err:99" {
        fails.push("C15:or_give_up(fallthrough) is not the supplied error".into());
    }
    // the documented three-way semantics, spelled out case by case (independent of the Lean model)
    let want: Option<&str> = match (k, inp, b) {
        ("or_parse", "ft", "ok") => Some("P:ok:105"),
        ("or_parse", "ft", "err") => Some("P:err:207"),
        ("or_parse", "ft", "ft") => Some("P:ft"),
        ("or_parse", "ok", _) => Some("P:ok:5"),
        ("or_parse", "err", _) => Some("P:err:7"),
        ("or_always_parse", "ft", "ok") => Some("R:ok:105"),
        ("or_always_parse", "ft", "err") => Some("R:err:207"),
        ("or_always_parse", "ok", _) | ("or_give_up", "ok", _) => Some("R:ok:5"),
        ("or_always_parse", "err", _) | ("or_give_up", "err", _) => Some("R:err:7"),
        ("or_give_up", "ft", _) => Some("R:err:99"),
        ("optional", "ft", _) => Some("R:ok:None"),
        ("optional", "ok", _) => Some("R:ok:Some(5)"),
        ("optional", "err", _) | ("matches", "err", _) => Some("R:err:7"),
        ("matches", "ft", _) => Some("R:ok:false"),
        ("matches", "ok", _) => Some("R:ok:true"),
        ("and_then", "ok", "ok") | ("map", "ok", _) => Some("P:ok:105"),
        ("and_then", "ok", "err") => Some("P:err:205"),
        ("and_also", "ok", "ok") | ("and_do", "ok", _) => Some("P:ok:1005"),
        ("and_also", "ok", "err") => Some("P:err:1205"),
        ("and_then", "ft", _) | ("and_also", "ft", _) | ("and_do", "ft", _) | ("map", "ft", _)
        | ("map_err", "ft", _) | ("err_into", "ft", _) => Some("P:ft"),
        ("and_then", "err", _) | ("and_also", "err", _) | ("and_do", "err", _) | ("map", "err", _)
        | ("err_into", "err", _) | ("from_result", "err", _) => Some("P:err:7"),
        ("map_err", "err", _) => Some("P:err:307"),
        ("map_err", "ok", _) | ("err_into", "ok", _) | ("from_result", "ok", _) => Some("P:ok:5"),
        ("r_err_into", "ok", _) => Some("R:ok:5"),
        ("r_err_into", "err", _) | ("r_and_also", "err", _) | ("r_and_do", "err", _) => Some("R:err:7"),
        ("r_and_also", "ok", "ok") | ("r_and_do", "ok", _) => Some("R:ok:1005"),
        ("r_and_also", "ok", "err") => Some("R:err:1205"),
        _ => None,
    };
    let want = want.map(|w| if zst { truncate2(w) } else { w.to_string() });
    match want.as_deref() {
        Some(w) if w != shown => fails.push(format!("C15:{} on input {} (closure {}) returned {}, documented result is {}", k, inp, b, shown, w)),
        None => fails.push(format!("C15:harness has no expected value for {} {} {}", k, inp, b)),
        _ => {}
    }
    (format!("{}|{}", shown, calls), fails)
}
