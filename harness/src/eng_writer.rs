//! Engine `writer`: operation histories on the real `DeferredWriter` over a scheduled sink (C11,
//! C14 writer part).
//! Case: `writer s=<sink schedule> o=<ops>`
//!   schedule tokens: a<n> accept ≤ n, i Interrupted, z Ok(0), f terminal error, p panic,
//!   o over-report: the sink takes nothing and returns `Ok(len + 1)`, more than it was offered — a safe `Write`
//!     impl may do that; std's `write_all` then panics at `&buf[n..]`, so for the writer (and for the model,
//!     whose driver reads `o` as `p`) this is a sink that panics having accepted nothing.  A writer that trusted
//!     the count would hand the sink memory outside its buffer next: every call checks the offered lengths.
//!   (the sink also implements `write_vectored` with the same semantics over all slices offered;
//!   the call is logged like a `write` of their total length)
//!   ops: w<len>.<seed>  write_all(len bytes) | W<len>.<seed> write() | d<ty>:<value> ascii_digits
//!        p<len>.<blen>.<seed> buf_write_ptr(len) + blen bytes + advance_unchecked(blen)
//!        fl flush | fd flush_defer_err | ck check_io_error | dr drop
//!        udrop  (last op) the CALLER panics while the writer is alive: the writer is dropped by the
//!               unwinding; the sink must still receive everything (same as `dr` in the model)
//!        x<count>:<op>  the write-like op (w, W, d, p) `count` times, data seed + iteration;
//!               its result is run-length coded (`ok*5`, `ptr*3/null*2`)
use crate::common::*;
use flussab::{write::text as wtext, DeferredWriter};
use std::cell::RefCell;
use std::io::{self, Write};
use std::mem::ManuallyDrop;
use std::rc::Rc;

pub const CAP: usize = 16 << 10;

#[derive(Clone, Copy, Debug, PartialEq)]
pub enum WEv {
    Accept(usize),
    Intr,
    Zero,
    Fail,
    Panic,
    Over,
}

#[derive(Default)]
pub struct SinkState {
    pub sched: std::collections::VecDeque<WEv>,
    pub sunk: Vec<u8>,
    pub log: Vec<(usize, usize)>,
    pub failed_at: Option<usize>, // log index of the first terminal failure (fail / zero)
    pub oversize: Option<usize>,  // a slice longer than anything the writer can hold or was given (C14)
}

#[derive(Clone)]
pub struct Sink(pub Rc<RefCell<SinkState>>);

impl Sink {
    /// One call of the sink, plain or vectored: `bufs` are the slices offered, the schedule event
    /// applies to their concatenation (at most `n` bytes are taken across the slices, in order).
    /// The call is logged like a `write` of the total offered length.
    fn offer(&mut self, bufs: &[&[u8]]) -> io::Result<usize> {
        let mut s = self.0.borrow_mut();
        if let Some(b) = bufs.iter().find(|b| b.len() > 1 << 40) {
            // not a slice of the writer's buffer or of caller data: do not touch it
            s.oversize = Some(b.len());
            drop(s);
            panic!("sink panic");
        }
        let total: usize = bufs.iter().map(|b| b.len()).sum();
        let ev = s.sched.pop_front();
        let take = |s: &mut SinkState, mut k: usize| {
            for b in bufs {
                let j = k.min(b.len());
                s.sunk.extend_from_slice(&b[..j]);
                k -= j;
            }
        };
        match ev {
            None => {
                take(&mut s, total);
                s.log.push((total, total));
                Ok(total)
            }
            Some(WEv::Accept(n)) => {
                let k = n.max(1).min(total);
                take(&mut s, k);
                s.log.push((total, k));
                Ok(k)
            }
            Some(WEv::Intr) => {
                s.log.push((total, 1000001));
                Err(io::Error::new(io::ErrorKind::Interrupted, "intr"))
            }
            Some(WEv::Zero) => {
                s.log.push((total, 0));
                if s.failed_at.is_none() && total != 0 {
                    s.failed_at = Some(s.log.len());
                }
                Ok(0)
            }
            Some(WEv::Fail) => {
                s.log.push((total, 1000002));
                if s.failed_at.is_none() {
                    s.failed_at = Some(s.log.len());
                }
                Err(io::Error::new(io::ErrorKind::Other, "fail"))
            }
            Some(WEv::Panic) => {
                s.log.push((total, 1000003));
                drop(s);
                panic!("sink panic");
            }
            Some(WEv::Over) => {
                s.log.push((total, 1000003));
                Ok(total + 1)
            }
        }
    }
}

impl Write for Sink {
    fn write(&mut self, buf: &[u8]) -> io::Result<usize> {
        self.offer(&[buf])
    }
    /// A sink with native vectored output (a file, a socket): the same schedule semantics as
    /// `write`, over all the slices.  The writer under test does not have to use it; if it does,
    /// its accounting of short counts that end inside one slice or cross into the next is
    /// exercised by the same schedules, and C11's oracle (sink content = bytes written) judges.
    fn write_vectored(&mut self, bufs: &[io::IoSlice<'_>]) -> io::Result<usize> {
        let v: Vec<&[u8]> = bufs.iter().map(|b| &**b).collect();
        self.offer(&v)
    }
    fn flush(&mut self) -> io::Result<()> {
        Ok(())
    }
}

pub fn gen_bytes(len: usize, seed: usize) -> Vec<u8> {
    (0..len).map(|j| (seed * 31 + j * 7 + (j >> 8)) as u8).collect()
}

fn fnv(bytes: &[u8]) -> u64 {
    let mut h: u64 = 0xcbf29ce484222325;
    for b in bytes {
        h ^= *b as u64;
        h = h.wrapping_mul(0x100000001b3);
    }
    h
}

fn parse_sched(s: &str) -> Vec<WEv> {
    if s == "-" {
        return vec![];
    }
    s.split(',')
        .map(|t| match t.as_bytes()[0] {
            b'a' => WEv::Accept(t[1..].parse().unwrap()),
            b'i' => WEv::Intr,
            b'z' => WEv::Zero,
            b'f' => WEv::Fail,
            b'p' => WEv::Panic,
            b'o' => WEv::Over,
            _ => panic!("bad sink event"),
        })
        .collect()
}

fn digits_op(w: &mut DeferredWriter, ty: &str, val: &str) -> String {
    macro_rules! go {
        ($t:ty) => {{
            let v: $t = val.parse().unwrap();
            wtext::ascii_digits(w, v);
            v.to_string()
        }};
    }
    match ty {
        "i8" => go!(i8),
        "i16" => go!(i16),
        "i32" => go!(i32),
        "i64" => go!(i64),
        "i128" => go!(i128),
        "isize" => go!(isize),
        "u8" => go!(u8),
        "u16" => go!(u16),
        "u32" => go!(u32),
        "u64" => go!(u64),
        "u128" => go!(u128),
        "usize" => go!(usize),
        _ => panic!("bad type"),
    }
}

fn is_subsequence(small: &[u8], big: &[u8]) -> bool {
    let mut i = 0;
    for b in big {
        if i < small.len() && small[i] == *b {
            i += 1;
        }
    }
    i == small.len()
}

/// One write-like op (`w`, `W`, `d`, `p`) on the real writer; `k` is added to the data seed.
fn write_like(w: &mut DeferredWriter, op: &str, i: usize, k: usize, written: &mut Vec<u8>, fails: &mut Vec<String>) -> &'static str {
    let mut fail = |m: String| {
        if fails.len() < 8 {
            fails.push(m)
        }
    };
    if let Some(rest) = op.strip_prefix('w').or(op.strip_prefix('W')) {
        let mut it = rest.split('.');
        let len: usize = it.next().unwrap().parse().unwrap();
        let seed: usize = it.next().unwrap().parse().unwrap();
        let data = gen_bytes(len, seed + k);
        written.extend_from_slice(&data);
        let use_write = op.starts_with('W');
        match catch(|| {
            if use_write {
                w.write(&data).map(|n| n == data.len())
            } else if (i + len) % 3 == 0 {
                // the inherent method behind `write_all` (same model operation)
                w.write_all_defer_err(&data);
                Ok(true)
            } else {
                w.write_all(&data).map(|_| true)
            }
        }) {
            Some(Ok(true)) => "ok",
            Some(Ok(false)) => {
                fail(format!("C11:op{} write accepted fewer bytes than given", i));
                "short"
            }
            Some(Err(_)) => {
                fail(format!("C11:op{} write call returned an error", i));
                "err"
            }
            None => "panic",
        }
    } else if let Some(rest) = op.strip_prefix('d').filter(|r| r.contains(':')) {
        let (ty, val) = rest.split_once(':').unwrap();
        // the reference text is appended first so that a panic mid-way keeps the oracle sound
        let canon = val.trim_start_matches('+').to_string();
        written.extend_from_slice(canon.as_bytes());
        match catch(|| digits_op(w, ty, val)) {
            Some(s) => {
                if s != canon {
                    fail(format!("C11:op{} harness numeral mismatch {} vs {}", i, s, canon));
                }
                "ok"
            }
            None => "panic",
        }
    } else if let Some(rest) = op.strip_prefix('p') {
        let mut it = rest.split('.');
        let len: usize = it.next().unwrap().parse().unwrap();
        let blen: usize = it.next().unwrap().parse().unwrap();
        let seed: usize = it.next().unwrap().parse().unwrap();
        let p = w.buf_write_ptr(len);
        if p.is_null() {
            "null"
        } else {
            let data = gen_bytes(blen.min(len), seed + k);
            unsafe {
                std::ptr::copy_nonoverlapping(data.as_ptr(), p, data.len());
                w.advance_unchecked(data.len());
            }
            written.extend_from_slice(&data);
            "ptr"
        }
    } else {
        "bad-op"
    }
}

fn is_write_like(op: &str) -> bool {
    op.starts_with('w') || op.starts_with('W') || op.starts_with('p') || (op.starts_with('d') && op.contains(':'))
}

pub fn run_case(line: &str) -> (String, Vec<String>) {
    let (_, f) = Fields::parse(line);
    let sched = parse_sched(f.get("s"));
    let benign = sched.iter().all(|e| matches!(e, WEv::Accept(_) | WEv::Intr));
    let sink_may_panic = sched.iter().any(|e| matches!(e, WEv::Panic | WEv::Over));
    let sink = Sink(Rc::new(RefCell::new(SinkState { sched: sched.into(), ..Default::default() })));
    // both constructors (the model does not distinguish them)
    let mut w = ManuallyDrop::new(if line.len() % 2 == 1 {
        DeferredWriter::from_boxed_dyn_write(Box::new(sink.clone()))
    } else {
        DeferredWriter::from_write(sink.clone())
    });
    let mut written: Vec<u8> = vec![];
    let mut out: Vec<String> = vec![];
    let mut fails = vec![];
    let mut dropped = false;
    let mut reports_after_failure = 0usize;
    let mut log_len_at_failure: Option<usize> = None;
    let mut panicked_any = false;
    let ops: Vec<&str> = if f.get("o") == "-" { vec![] } else { f.get("o").split(',').collect() };
    for (i, op) in ops.iter().enumerate() {
        if dropped {
            break;
        }
        let res: String = if let Some((count, inner)) = op.strip_prefix('x').and_then(|r| r.split_once(':')).filter(|(_, inner)| is_write_like(inner)) {
            // repeated write-like op; results run-length coded
            let count: usize = count.parse().unwrap();
            let mut runs: Vec<(&'static str, usize)> = vec![];
            for k in 0..count {
                let r = write_like(&mut w, inner, i, k, &mut written, &mut fails);
                if r == "panic" {
                    panicked_any = true;
                }
                match runs.last_mut() {
                    Some((last, n)) if *last == r => *n += 1,
                    _ => runs.push((r, 1)),
                }
            }
            if runs.is_empty() { "-".to_string() } else { runs.iter().map(|(r, n)| format!("{}*{}", r, n)).collect::<Vec<_>>().join("/") }
        } else if is_write_like(op) {
            write_like(&mut w, op, i, 0, &mut written, &mut fails).to_string()
        } else {
            match *op {
                "fl" => match catch(|| w.flush()) {
                    Some(Ok(())) => "ok".into(),
                    Some(Err(_)) => "err".into(),
                    None => "panic".into(),
                },
                "fd" => match catch(|| w.flush_defer_err()) {
                    Some(()) => "ok".into(),
                    None => "panic".into(),
                },
                "ck" => match w.check_io_error() {
                    Ok(()) => "ok".into(),
                    Err(_) => "err".into(),
                },
                // a sink that may panic would turn the unwinding drop into a double panic (process
                // abort, in the original code as well): such a case runs as an ordinary drop
                "dr" | "udrop" if *op == "dr" || sink_may_panic => {
                    dropped = true;
                    match catch(|| unsafe { ManuallyDrop::drop(&mut w) }) {
                        Some(()) => "ok".into(),
                        None => "panic".into(),
                    }
                }
                "udrop" => {
                    dropped = true;
                    // the caller's code panics with the writer alive; the unwinding drops it
                    let caller = |alive: DeferredWriter| {
                        let _alive = alive;
                        if written.len() != usize::MAX {
                            panic!("caller panic");
                        }
                    };
                    let unwound = catch(|| caller(unsafe { ManuallyDrop::take(&mut w) }));
                    debug_assert!(unwound.is_none());
                    "ok".into()
                }
                _ => "bad-op".into(),
            }
        };
        if res == "panic" {
            panicked_any = true;
        }
        // ---- oracle bookkeeping ----
        {
            let s = sink.0.borrow();
            if let Some(n) = s.oversize {
                fails.push(format!("C14:op{} the sink was handed a slice of {} bytes: memory outside the writer's buffer and the caller's data", i, n));
            }
            if log_len_at_failure.is_none() {
                if let Some(at) = s.failed_at {
                    log_len_at_failure = Some(at);
                }
            }
            if let Some(at) = log_len_at_failure {
                if reports_after_failure == 0 && s.log.len() != at {
                    fails.push(format!("C11:op{} sink called between its failure and the error report", i));
                }
            }
            // a sink that panicked mid-write is outside C11's sink domain: the buffer is kept and
            // re-sent by the next flush (same as std's BufWriter), so duplicates are expected
            if !panicked_any && !is_subsequence(&s.sunk, &written) {
                fails.push(format!("C11:op{} sunk bytes are not an in-order selection of the written stream", i));
            }
        }
        let reporting = matches!(*op, "fl" | "ck");
        if reporting {
            let failed = log_len_at_failure.is_some();
            if res == "err" {
                if !failed {
                    fails.push(format!("C11:op{} error reported although the sink never failed", i));
                } else {
                    reports_after_failure += 1;
                    if reports_after_failure > 1 {
                        fails.push(format!("C11:op{} error reported more than once", i));
                    }
                }
            } else if res == "ok" && failed && reports_after_failure == 0 {
                fails.push(format!("C11:op{} sink failure not reported by the next flush/check", i));
            }
            if res == "err" {
                // a later failure of the sink may be reported again: re-arm
                let mut s = sink.0.borrow_mut();
                s.failed_at = None;
                log_len_at_failure = None;
                reports_after_failure = 0;
            }
        }
        if benign && !panicked_any && matches!(*op, "fl" | "fd" | "dr" | "udrop") && res == "ok" {
            let s = sink.0.borrow();
            if s.sunk != written {
                fails.push(format!(
                    "C11:op{} after {} the sink holds {} bytes, {} were written (or content differs)",
                    i, op, s.sunk.len(), written.len()
                ));
            }
        }
        out.push(res);
    }
    let s = sink.0.borrow();
    let log: Vec<String> = s.log.iter().map(|(a, b)| format!("{}>{}", a, b)).collect();
    (
        format!("{}|{}|{}:{:016x}", out.join(","), log.join(","), s.sunk.len(), fnv(&s.sunk)),
        fails,
    )
}

const TYPES: &[(&str, i128, u128)] = &[
    ("i8", i8::MIN as i128, i8::MAX as u128),
    ("i16", i16::MIN as i128, i16::MAX as u128),
    ("i32", i32::MIN as i128, i32::MAX as u128),
    ("i64", i64::MIN as i128, i64::MAX as u128),
    ("isize", isize::MIN as i128, isize::MAX as u128),
    ("i128", i128::MIN, i128::MAX as u128),
    ("u8", 0, u8::MAX as u128),
    ("u16", 0, u16::MAX as u128),
    ("u32", 0, u32::MAX as u128),
    ("u64", 0, u64::MAX as u128),
    ("usize", 0, usize::MAX as u128),
    ("u128", 0, u128::MAX),
];

fn rand_value(rng: &mut Rng, min: i128, max: u128) -> String {
    match rng.below(8) {
        0 => min.to_string(),
        1 => max.to_string(),
        2 => "0".into(),
        3 => if min < 0 { "-1".into() } else { "1".into() },
        4 => {
            // 10^k, 10^k - 1 within range
            let k = rng.range(1, 38) as u32;
            let p = 10u128.pow(k);
            let v = if rng.chance(1, 2) { p } else { p - 1 };
            if v <= max { v.to_string() } else { "9".into() }
        }
        _ => {
            let raw = ((rng.next() as u128) << 64) | rng.next() as u128;
            let bits = rng.range(1, 127);
            let v = raw >> (128 - bits);
            if min < 0 && rng.chance(1, 2) {
                let lim = min.unsigned_abs();
                format!("-{}", (v % lim) + 1)
            } else if max == u128::MAX {
                v.to_string()
            } else {
                (v % (max + 1)).to_string()
            }
        }
    }
}

pub fn gen_case(rng: &mut Rng, thorough: bool) -> String {
    if crate::eng_scan::cli_opt_has("scale") {
        return gen_scale(rng, thorough);
    }
    // sink schedule
    let mut sched = vec![];
    let style = rng.below(5);
    let n_ev = match style {
        0 => 0,
        _ => rng.range(0, 12),
    };
    for _ in 0..n_ev {
        let e = match style {
            1 => format!("a{}", rng.range(1, 7)),
            2 => if rng.chance(1, 3) { "i".into() } else { format!("a{}", *rng.pick(&[1usize, 100, CAP - 1, CAP, 3 * CAP])) },
            3 => match rng.below(8) {
                0 => "f".into(),
                1 => "z".into(),
                2 => "i".into(),
                _ => format!("a{}", *rng.pick(&[1usize, 5, 4000, CAP, 4 * CAP])),
            },
            _ => match rng.below(10) {
                0 => "p".into(),
                1 => "f".into(),
                2 => "o".into(),
                _ => format!("a{}", *rng.pick(&[3usize, CAP, 4 * CAP])),
            },
        };
        sched.push(e);
    }
    // ops, with a running estimate of the buffered length to aim at the capacity boundary
    let mut est = 0usize;
    let n_ops = rng.range(1, if thorough { 40 } else { 18 });
    let mut ops = vec![];
    // (bytes pending in the buffer, length written) of the writes that have to go to the sink
    let mut cold: Vec<(usize, usize)> = vec![];
    for _ in 0..n_ops {
        let room = CAP - est.min(CAP);
        let op = match rng.below(16) {
            0..=6 => {
                let len = match rng.below(8) {
                    0 => 0,
                    1 => rng.range(1, 20) as usize,
                    2 => room.saturating_sub(1),
                    3 => room,
                    4 => room + 1,
                    5 => *rng.pick(&[CAP - 1, CAP, CAP + 1]),
                    6 => if thorough { 3 * CAP } else { CAP + rng.range(2, 300) as usize },
                    _ => rng.range(0, 6000) as usize,
                };
                if est + len > CAP {
                    cold.push((est, len));
                }
                if est + len <= CAP { est += len } else if len < CAP { est = (est + len) % CAP } else { est = 0 };
                format!("{}{}.{}", if rng.chance(1, 4) { "W" } else { "w" }, len, rng.below(200))
            }
            7..=9 => {
                let (ty, min, max) = *rng.pick(TYPES);
                let v = rand_value(rng, min, max);
                est = (est + v.len()).min(CAP);
                format!("d{}:{}", ty, v)
            }
            10 => {
                let len = match rng.below(3) {
                    0 => room,
                    1 => room + 1,
                    _ => rng.range(0, 64) as usize,
                };
                let blen = rng.range(0, len as u64) as usize;
                if len <= room { est += blen }
                format!("p{}.{}.{}", len, blen, rng.below(200))
            }
            11 | 12 => { est = 0; "fl".into() }
            13 => { est = 0; "fd".into() }
            14 => "ck".into(),
            _ => { est = 0; "fl".into() }
        };
        ops.push(op);
    }
    if rng.chance(5, 6) {
        ops.push("dr".into());
    }
    // drawn last, so the histories of a given seed are the ones generated before this op existed:
    // the final drop happens while the caller unwinds (never with a sink that may panic: that
    // would be a double panic)
    if rng.chance(1, 3) && ops.last().map(|o| o == "dr").unwrap_or(false) && !sched.iter().any(|e| e == "p") {
        *ops.last_mut().unwrap() = "udrop".into();
    }
    // (also drawn last) a benign schedule whose short counts are RELATIVE to what the writer holds
    // when it has to call the sink: a first count that ends inside the pending bytes, then one that
    // ends just before / at / just behind their end or crosses into the bytes of the write itself
    // (successive short counts are where the accounting of a partly written buffer goes wrong)
    if !cold.is_empty() && rng.chance(1, 4) {
        sched.clear();
        for &(pend, len) in cold.iter().take(4) {
            // what the sink is offered first: the pending bytes (topped up to CAP by a short write)
            let first = if len < CAP { CAP } else { pend };
            let mut left = first;
            for _ in 0..rng.range(1, 3) {
                if rng.chance(1, 6) {
                    sched.push("i".into());
                }
                let a = match rng.below(8) {
                    0 => rng.range(1, 7) as usize,
                    1 => left / 2,
                    2 => left.saturating_sub(1),
                    3 => left,
                    4 => left + 1,
                    5 => left + rng.range(1, 40) as usize,
                    6 => left + len / 2,
                    _ => rng.range(1, (left + len) as u64 + 1) as usize,
                }
                .max(1);
                sched.push(format!("a{}", a));
                left = left.saturating_sub(a);
                if left == 0 {
                    left = len;
                }
            }
        }
    }
    format!(
        "writer s={} o={}",
        if sched.is_empty() { "-".to_string() } else { sched.join(",") },
        ops.join(",")
    )
}

// ------------------------------------------------------------------ scale family (`--opt scale`)

use crate::eng_scan::{scale_plan, ScaleDim};

static SCALE_IDX: std::sync::atomic::AtomicUsize = std::sync::atomic::AtomicUsize::new(0);
static SCALE_PLAN: std::sync::OnceLock<Vec<(usize, usize, bool)>> = std::sync::OnceLock::new();

const D_WSIZE: usize = 0; // length of one write
const D_TOTAL: usize = 1; // total bytes written by many medium writes
const D_COUNT: usize = 2; // number of tiny writes / integers / pointer writes
const D_FLUSH: usize = 3; // bytes between two flushes (periodic)
const D_PTR: usize = 4; // length asked of buf_write_ptr
const D_ACCEPT: usize = 5; // bytes the sink accepts per call
const D_FAILAT: usize = 6; // bytes the sink accepts before it fails

pub fn gen_scale(rng: &mut Rng, thorough: bool) -> String {
    let idx = SCALE_IDX.fetch_add(1, std::sync::atomic::Ordering::Relaxed);
    let plan = SCALE_PLAN.get_or_init(|| {
        // model cost: ~0.5 us per byte written, sink appends are quadratic in the number of sink
        // calls, each tiny write copies the 16 KiB buffer
        let o = ScaleDim::new(10, 20, 21, 16, 1);
        let dims = [
            ScaleDim::new(10, 20, 22, 16, 1),
            ScaleDim::new(10, 22, 23, 16, 1).model_max((1 << 20) + 64, (1 << 20) + 64).rest_big(),
            ScaleDim::new(10, 21, 22, 12, 1).model_max((1 << 12) + 64, (1 << 13) + 64).rest_big(),
            o,
            ScaleDim::new(10, 21, 22, 18, 2),
            o,
            o,
        ];
        scale_plan(&mut rng.fork(), &dims, thorough)
    });
    if idx == 0 && std::env::var("VH_SCALE_INFO").is_ok() {
        eprintln!("writer scale plan: {} cases per pass", plan.len());
    }
    let (dim, size, big) = plan[idx % plan.len()];
    let line = gen_scale_case(rng, dim, size);
    if big { format!("{} big=1", line) } else { line }
}

fn gen_scale_case(rng: &mut Rng, dim: usize, size: usize) -> String {
    let sizes = scale_sizes(10, 21);
    let sd = |rng: &mut Rng| rng.below(200);
    let mut ops: Vec<String> = vec![];
    let mut sched: Vec<String> = vec![];
    // something already buffered when the interesting op arrives
    let est = *rng.pick(&[0usize, 0, 1, CAP - 1, CAP, 100, 8000]);
    let est = if rng.chance(1, 4) { rng.range(0, CAP as u64) as usize } else { est };
    // total of `total` bytes as writes of `m` bytes
    let chunks = |rng: &mut Rng, ops: &mut Vec<String>, total: usize, m: usize| {
        let (q, r) = (total / m, total % m);
        let big_w = if rng.chance(1, 4) { "W" } else { "w" };
        if q == 1 {
            ops.push(format!("{}{}.{}", big_w, m, rng.below(200)));
        } else if q > 1 {
            ops.push(format!("x{}:{}{}.{}", q, big_w, m, rng.below(200)));
        }
        if r > 0 {
            ops.push(format!("w{}.{}", r, rng.below(200)));
        }
    };
    let medium = |rng: &mut Rng| -> usize {
        match rng.below(8) {
            0 => 512,
            1 => 1000,
            2 => 4096,
            3 => CAP - 1,
            4 => CAP,
            5 => CAP + 1,
            6 => 2 * CAP + 3,
            _ => rng.range(512, 3 * CAP as u64) as usize,
        }
    };
    let benign_sched = |rng: &mut Rng, sched: &mut Vec<String>, sizes: &[usize]| {
        for _ in 0..(if rng.chance(1, 2) { 0 } else { rng.range(1, 5) }) {
            sched.push(if rng.chance(1, 4) { "i".into() } else { format!("a{}", match rng.below(4) { 0 => rng.range(1, 9) as usize, 1 => CAP, _ => *rng.pick(sizes) }) });
        }
    };
    match dim {
        D_WSIZE => {
            if est > 0 {
                ops.push(format!("w{}.{}", est, sd(rng)));
            }
            ops.push(format!("{}{}.{}", if rng.chance(1, 3) { "W" } else { "w" }, size, sd(rng)));
            if rng.chance(1, 2) {
                ops.push(format!("di64:{}", -(rng.below(1 << 40) as i64)));
                ops.push(format!("w{}.{}", rng.range(0, 40), sd(rng)));
            }
            if rng.chance(1, 3) {
                ops.push((*rng.pick(&["fl", "fd", "ck"])).into());
                ops.push(format!("w{}.{}", *rng.pick(&[1usize, CAP, size]), sd(rng)));
            }
            benign_sched(rng, &mut sched, &sizes);
        }
        D_TOTAL => {
            let m = medium(rng);
            if rng.chance(1, 3) {
                chunks(rng, &mut ops, size / 2, m);
                ops.push((*rng.pick(&["fl", "fd"])).into());
                chunks(rng, &mut ops, size - size / 2, m);
            } else {
                chunks(rng, &mut ops, size, m);
            }
            benign_sched(rng, &mut sched, &sizes);
        }
        D_COUNT => {
            if est > 0 && rng.chance(1, 2) {
                ops.push(format!("w{}.{}", est, sd(rng)));
            }
            let inner = match rng.below(8) {
                0 => format!("w0.{}", sd(rng)),
                1 | 2 => format!("w1.{}", sd(rng)),
                3 => format!("W{}.{}", rng.range(1, 4), sd(rng)),
                4 | 5 => {
                    let (ty, min, max) = *rng.pick(TYPES);
                    format!("d{}:{}", ty, rand_value(rng, min, max))
                }
                6 => format!("p{}.{}.{}", rng.range(1, 8), rng.range(0, 8), sd(rng)),
                _ => format!("w{}.{}", rng.range(2, 17), sd(rng)),
            };
            if rng.chance(1, 3) {
                ops.push(format!("x{}:{}", size / 2, inner));
                ops.push((*rng.pick(&["fl", "fd", "ck"])).into());
                ops.push(format!("x{}:{}", size - size / 2, inner));
            } else {
                ops.push(format!("x{}:{}", size, inner));
            }
            benign_sched(rng, &mut sched, &sizes);
        }
        D_FLUSH => {
            let reps = if size > 1 << 18 { 2 } else { rng.range(2, 4) as usize };
            let m = medium(rng);
            for _ in 0..reps {
                if rng.chance(1, 2) {
                    ops.push(format!("w{}.{}", size, sd(rng)));
                } else {
                    chunks(rng, &mut ops, size, m);
                }
                ops.push((*rng.pick(&["fl", "fl", "fd"])).into());
            }
            benign_sched(rng, &mut sched, &sizes);
        }
        D_PTR => {
            let room_est = *rng.pick(&[0usize, CAP.saturating_sub(size), CAP.saturating_sub(size) + 1, CAP.saturating_sub(size).saturating_sub(1), est]);
            if room_est > 0 {
                ops.push(format!("w{}.{}", room_est.min(CAP), sd(rng)));
            }
            let blen = *rng.pick(&[0usize, size, size / 2, 1]);
            ops.push(format!("p{}.{}.{}", size, blen, sd(rng)));
            ops.push(format!("du64:{}", rng.next()));
            ops.push(format!("p{}.{}.{}", size, size, sd(rng)));
            if rng.chance(1, 2) {
                ops.push("fl".into());
                ops.push(format!("p{}.{}.{}", size, size, sd(rng)));
                ops.push(format!("p{}.{}.{}", size + 1, 1, sd(rng)));
            }
            benign_sched(rng, &mut sched, &sizes);
        }
        D_ACCEPT => {
            for _ in 0..rng.range(1, 3) {
                if rng.chance(1, 5) {
                    sched.push("i".into());
                }
                sched.push(format!("a{}", size));
            }
            if est > 0 && rng.chance(1, 2) {
                ops.push(format!("w{}.{}", est, sd(rng)));
            }
            let w = *rng.pick(&[size + 1, 2 * size + 3, 3 * size, size + CAP, size.max(2) - 1]);
            ops.push(format!("w{}.{}", w, sd(rng)));
            ops.push(format!("w{}.{}", rng.range(0, 100), sd(rng)));
        }
        _ => {
            // D_FAILAT: the sink takes `size` bytes, then fails
            if rng.chance(1, 4) {
                sched.push("i".into());
            }
            sched.push(format!("a{}", size));
            if rng.chance(1, 4) {
                sched.push("i".into());
            }
            sched.push((*rng.pick(&["f", "f", "z"])).into());
            let w = size + *rng.pick(&[1usize, 2, CAP - 1, CAP, CAP + 1, 3 * CAP]);
            if rng.chance(1, 2) {
                ops.push(format!("w{}.{}", w, sd(rng)));
            } else {
                let m = medium(rng);
                chunks(rng, &mut ops, w, m);
            }
            ops.push(format!("w{}.{}", rng.range(1, 40), sd(rng)));
            ops.push((*rng.pick(&["fl", "fl", "ck", "fd"])).into());
            ops.push(format!("w{}.{}", rng.range(1, 40), sd(rng)));
            ops.push("fl".into());
            ops.push(format!("w{}.{}", *rng.pick(&[3usize, CAP + 5]), sd(rng)));
        }
    }
    // how the history ends: drop, drop while the caller unwinds, flush, or with bytes left behind
    match rng.below(10) {
        0..=3 => ops.push("dr".into()),
        4..=7 => ops.push("udrop".into()),
        8 => ops.push("fl".into()),
        _ => {}
    }
    format!(
        "writer s={} o={}",
        if sched.is_empty() { "-".to_string() } else { sched.join(",") },
        ops.join(",")
    )
}
