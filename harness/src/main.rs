//! `vh` — correspondence/oracle harness.  The real flussab code is called in-process.
//!
//!   vh gen <engine> --seed S --n N [--tier quick|thorough] [--opt X]   case lines on stdout
//!   vh run                                                            case lines on stdin →
//!        one line per case: `<observation>\t<oracle failures, '; '-joined, or empty>`
mod common;
mod eng_cnf;
mod eng_comb;
mod eng_reader;
mod eng_renumber;
mod eng_scan;
mod eng_stream;
mod eng_writer;
mod gen_cnf;

use common::*;
use std::io::{BufRead, Write};

fn arg<'a>(args: &'a [String], key: &str) -> Option<&'a str> {
    args.iter()
        .position(|a| a == key)
        .and_then(|i| args.get(i + 1))
        .map(|s| s.as_str())
}

pub fn run_line(line: &str) -> (String, Vec<String>) {
    let engine = line.split(' ').next().unwrap_or("");
    match engine {
        "reader" => eng_reader::run_case(&eng_reader::Case::parse(line)),
        "comb" => eng_comb::run_case(line),
        "scan" => eng_scan::run_case(line),
        "writer" => eng_writer::run_case(line),
        "renumber" => eng_renumber::run_case(line),
        "cnf" => eng_cnf::run_case(line),
        "stream" => eng_stream::run_case(line),
        _ => ("unknown-engine".into(), vec![]),
    }
}

fn main() {
    let args: Vec<String> = std::env::args().collect();
    silence_panics();
    let out = std::io::stdout();
    let mut out = std::io::BufWriter::new(out.lock());
    match args.get(1).map(|s| s.as_str()) {
        Some("gen") => {
            let engine = args[2].as_str();
            let seed: u64 = arg(&args, "--seed").unwrap_or("1").parse().unwrap();
            let n: usize = arg(&args, "--n").unwrap_or("100").parse().unwrap();
            let thorough = arg(&args, "--tier") == Some("thorough");
            let opt = arg(&args, "--opt").unwrap_or("");
            let mut rng = Rng::new(seed);
            if engine == "comb" {
                for l in eng_comb::all_cases() {
                    writeln!(out, "{}", l).unwrap();
                }
                return;
            }
            if engine == "scan" && opt.contains("exhaustive") {
                for l in eng_scan::exhaustive_ws(if thorough { 6 } else { 4 }) {
                    writeln!(out, "{}", l).unwrap();
                }
                return;
            }
            if engine == "renumber" {
                // deep chain / cycle: termination without native-stack growth, once per run
                for l in eng_renumber::deep_cases(thorough) {
                    writeln!(out, "{}", l).unwrap();
                }
            }
            for _ in 0..n {
                let mut r = rng.fork();
                let line = match engine {
                    "reader" => eng_reader::gen_case(&mut r, opt.contains("lies"), thorough).line(),
                    "scan" => eng_scan::gen_case(&mut r, thorough),
                    "writer" => eng_writer::gen_case(&mut r, thorough),
                    "renumber" => eng_renumber::gen_case(&mut r, thorough),
                    "stream" => eng_stream::gen_case(&mut r, thorough),
                    "cnf" => {
                        if opt == "sweep" {
                            for l in gen_cnf::fault_sweep(&mut r) {
                                writeln!(out, "{}", l).unwrap();
                            }
                            continue;
                        }
                        gen_cnf::gen_case(&mut r, opt, thorough)
                    }
                    _ => panic!("unknown engine {}", engine),
                };
                writeln!(out, "{}", line).unwrap();
            }
        }
        Some("run") => {
            let stdin = std::io::stdin();
            for line in stdin.lock().lines() {
                let line = line.unwrap();
                if line.is_empty() || line.starts_with('#') {
                    continue;
                }
                let (obs, fails) = match catch(|| run_line(&line)) {
                    Some(x) => x,
                    None => ("harness-panic".into(), vec!["uncaught panic in harness".into()]),
                };
                writeln!(out, "{}\t{}", obs, fails.join("; ")).unwrap();
            }
        }
        _ => {
            eprintln!("usage: vh gen <engine> --seed S --n N | vh run");
            std::process::exit(2);
        }
    }
}
