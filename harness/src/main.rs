//! `vh` — correspondence/oracle harness.  The real flussab code is called in-process.
//!
//!   vh gen <engine> --seed S --n N [--tier quick|thorough] [--opt X]   case lines on stdout
//!   vh run                                                            case lines on stdin →
//!        one line per case: `<observation>\t<oracle failures, '; '-joined, or empty>`
mod common;
mod eng_cnf;
mod eng_comb;
mod eng_reader;
mod eng_renumber;
mod eng_scan;
mod eng_stream;
mod eng_writer;
mod gen_cnf;
mod eng_aiger;
mod gen_aiger;
mod eng_btor2;
mod gen_btor2;

use common::*;
use std::io::{BufRead, Write};

fn arg<'a>(args: &'a [String], key: &str) -> Option<&'a str> {
    args.iter()
        .position(|a| a == key)
        .and_then(|i| args.get(i + 1))
        .map(|s| s.as_str())
}

pub fn run_line(line: &str) -> (String, Vec<String>) {
    let engine = line.split(' ').next().unwrap_or("");
    match engine {
        "reader" => eng_reader::run_case(&eng_reader::Case::parse(line)),
        "comb" => eng_comb::run_case(line),
        "scan" => eng_scan::run_case(line),
        "writer" => eng_writer::run_case(line),
        "renumber" => eng_renumber::run_case(line),
        "cnf" => eng_cnf::run_case(line),
        "aiger" => eng_aiger::run_case(line),
        "btor2" => eng_btor2::run_case(line),
        "stream" => eng_stream::run_case(line),
        _ => ("unknown-engine".into(), vec![]),
    }
}

fn main() {
    let args: Vec<String> = std::env::args().collect();
    silence_panics();
    let out = std::io::stdout();
    let mut out = std::io::BufWriter::new(out.lock());
    match args.get(1).map(|s| s.as_str()) {
        Some("gen") => {
            GEN_MODE.store(true, std::sync::atomic::Ordering::Relaxed);
            let engine = args[2].as_str();
            let seed: u64 = arg(&args, "--seed").unwrap_or("1").parse().unwrap();
            let n: usize = arg(&args, "--n").unwrap_or("100").parse().unwrap();
            let thorough = arg(&args, "--tier") == Some("thorough");
            let opt = arg(&args, "--opt").unwrap_or("");
            let mut rng = Rng::new(seed);
            if engine == "comb" {
                for l in eng_comb::all_cases() {
                    writeln!(out, "{}", l).unwrap();
                }
                return;
            }
            if engine == "scan" && opt.contains("exhaustive") {
                for l in eng_scan::exhaustive_ws(if thorough { 6 } else { 4 }) {
                    writeln!(out, "{}", l).unwrap();
                }
                return;
            }
            if engine == "btor2" && opt == "validx" {
                for l in gen_btor2::validators_exhaustive() {
                    writeln!(out, "{}", l).unwrap();
                }
                return;
            }
            if engine == "renumber" {
                // deep chain / cycle: termination without native-stack growth, once per run
                for l in eng_renumber::deep_cases(thorough) {
                    writeln!(out, "{}", l).unwrap();
                }
            }
            for _ in 0..n {
                let mut r = rng.fork();
                let line = match engine {
                    // the reader generator drives a live reader to choose meaningful ops: if the
                    // implementation under test panics there, fall back to the next case
                    "reader" => match catch(|| eng_reader::gen_case(&mut r.clone(), opt.contains("lies"), thorough).line()) {
                        Some(l) => l,
                        None => continue,
                    },
                    "scan" => eng_scan::gen_case(&mut r, thorough),
                    "writer" => eng_writer::gen_case(&mut r, thorough),
                    "renumber" => eng_renumber::gen_case(&mut r, thorough),
                    "stream" => eng_stream::gen_case(&mut r, thorough),
                    "cnf" => {
                        if opt == "sweep" {
                            for l in gen_cnf::fault_sweep(&mut r) {
                                writeln!(out, "{}", l).unwrap();
                            }
                            continue;
                        }
                        gen_cnf::gen_case(&mut r, opt, thorough)
                    }
                    "btor2" => {
                        if opt == "sweep" {
                            for l in gen_btor2::fault_sweep(&mut r) {
                                writeln!(out, "{}", l).unwrap();
                            }
                            continue;
                        }
                        gen_btor2::gen_case(&mut r, opt, thorough)
                    }
                    "aiger" => {
                        if opt == "sweep" {
                            for l in gen_aiger::fault_sweep(&mut r) {
                                writeln!(out, "{}", l).unwrap();
                            }
                            continue;
                        }
                        gen_aiger::gen_case(&mut r, opt, thorough)
                    }
                    _ => panic!("unknown engine {}", engine),
                };
                writeln!(out, "{}", line).unwrap();
            }
        }
        Some("run") => {
            let stdin = std::io::stdin();
            for line in stdin.lock().lines() {
                let line = line.unwrap();
                if line.is_empty() || line.starts_with('#') {
                    continue;
                }
                let (obs, fails) = match catch(|| run_line(&line)) {
                    Some(x) => x,
                    None => ("harness-panic".into(), vec!["uncaught panic in harness".into()]),
                };
                // `big=1`: implementation-side oracles only (the model driver prints `BIG` too)
                let obs = if line.split(' ').any(|t| t == "big=1") { "BIG".to_string() } else { obs };
                writeln!(out, "{}\t{}", obs, fails.join("; ")).unwrap();
                // one flush per case: if a case kills the process (stack overflow, allocation
                // abort) the number of complete lines tells the check which case it was
                out.flush().unwrap();
            }
        }
        Some("shrink") => {
            // delta-debugging on the list-valued fields of a case line (ops `o`, schedules `s`,
            // hex data `d`): keep deleting pieces while the same property's oracle still fails
            let stdin = std::io::stdin();
            let mut line = String::new();
            stdin.lock().read_line(&mut line).unwrap();
            let line = line.trim_end().to_string();
            let tag_of = |l: &str| -> Option<String> {
                let (_, fails) = catch(|| run_line(l)).unwrap_or(("".into(), vec!["H:harness".into()]));
                fails.first().map(|f| f.split(':').next().unwrap_or("").to_string())
            };
            let target = tag_of(&line);
            let mut best = line.clone();
            if target.is_some() {
                let mut progress = true;
                let mut rounds = 0;
                while progress && rounds < 6 {
                    progress = false;
                    rounds += 1;
                    let fields: Vec<String> = best.split(' ').map(|x| x.to_string()).collect();
                    for (fi, f) in fields.iter().enumerate() {
                        let Some((k, v)) = f.split_once('=') else { continue };
                        let pieces: Vec<String> = match k {
                            "o" | "s" if v != "-" => v.split(',').map(|x| x.to_string()).collect(),
                            "d" | "pre" if v != "-" && v.bytes().all(|c| c.is_ascii_hexdigit()) => (0..v.len() / 2).map(|i| v[2 * i..2 * i + 2].to_string()).collect(),
                            _ => continue,
                        };
                        let sep = if k == "o" || k == "s" { "," } else { "" };
                        let mut cur = pieces.clone();
                        let mut chunk = (cur.len() / 2).max(1);
                        while chunk >= 1 {
                            let mut i = 0;
                            while i < cur.len() {
                                let mut trial = cur.clone();
                                let end = (i + chunk).min(trial.len());
                                trial.drain(i..end);
                                let joined = if trial.is_empty() { "-".to_string() } else { trial.join(sep) };
                                let mut nf = fields.clone();
                                nf[fi] = format!("{}={}", k, joined);
                                // keep earlier accepted shrinks of other fields
                                let cand_fields: Vec<String> = best.split(' ').enumerate().map(|(j, x)| if j == fi { nf[fi].clone() } else { x.to_string() }).collect();
                                let cand = cand_fields.join(" ");
                                if tag_of(&cand) == target {
                                    best = cand;
                                    cur = trial;
                                    progress = true;
                                } else {
                                    i += chunk;
                                }
                            }
                            if chunk == 1 { break; }
                            chunk /= 2;
                        }
                    }
                }
            }
            writeln!(out, "{}", best).unwrap();
        }
        _ => {
            eprintln!("usage: vh gen <engine> --seed S --n N | vh run | vh shrink");
            std::process::exit(2);
        }
    }
}
