//! Engine `renumber` (C12): `flussab_aiger::aig::Renumber::renumber_aig` on random and-inverter
//! graphs, well-formed and ill-formed.  The observation is printed in the format of
//! `lean/Driver/EngRenumber.lean`; the oracle is independent of the implementation's algorithm
//! (own definedness / reachability / cycle analysis, own bit-parallel evaluator).
//!
//! Case line:
//!   renumber cfg=<t><h><f> inputs=<l,..|-> latches=<state:next:init,..|-> gates=<out:in0:in1,..|->
//!            outputs=.. bad=.. constraints=.. justice=<l,..;l,..|-> (empty group `e`) fairness=..
//!   renumber deep=<chain|cycle> n=<N>     (implementation only, small native stack)
use crate::common::*;
use flussab_aiger::aig::{
    Aig, AigStructureError, AndGate, Latch, OrderedAig, Renumber, RenumberConfig,
};
use std::collections::{HashMap, HashSet};

type Cfg = (bool, bool, bool); // trim, structural_hash, const_fold

/// An and-inverter graph with literal codes as plain numbers.
#[derive(Clone, Default, Debug)]
struct Net {
    inputs: Vec<usize>,
    /// (state, next_state, initialization)
    latches: Vec<(usize, usize, Option<bool>)>,
    /// (output, input 0, input 1)
    gates: Vec<(usize, usize, usize)>,
    outputs: Vec<usize>,
    bad: Vec<usize>,
    constraints: Vec<usize>,
    justice: Vec<Vec<usize>>,
    fairness: Vec<usize>,
}

fn show_nats(l: &[usize]) -> String {
    if l.is_empty() {
        return "-".into();
    }
    l.iter().map(|x| x.to_string()).collect::<Vec<_>>().join(",")
}

fn show_init(i: Option<bool>) -> &'static str {
    match i {
        None => "x",
        Some(false) => "0",
        Some(true) => "1",
    }
}

fn show_justice(j: &[Vec<usize>]) -> String {
    if j.is_empty() {
        return "-".into();
    }
    j.iter()
        .map(|g| if g.is_empty() { "e".to_string() } else { show_nats(g) })
        .collect::<Vec<_>>()
        .join(";")
}

fn parse_nats(s: &str) -> Vec<usize> {
    if s == "-" || s.is_empty() {
        return vec![];
    }
    s.split(',').map(|t| t.parse().unwrap()).collect()
}

fn parse_triples(s: &str) -> Vec<(&str, &str, &str)> {
    if s == "-" || s.is_empty() {
        return vec![];
    }
    s.split(',')
        .map(|t| {
            let mut it = t.split(':');
            let a = it.next().unwrap();
            let b = it.next().unwrap();
            let c = it.next().unwrap();
            assert!(it.next().is_none(), "bad triple {}", t);
            (a, b, c)
        })
        .collect()
}

fn parse_cfg(s: &str) -> Cfg {
    let b = s.as_bytes();
    assert!(b.len() == 3, "bad cfg {}", s);
    (b[0] == b'1', b[1] == b'1', b[2] == b'1')
}

fn config(c: Cfg) -> RenumberConfig {
    RenumberConfig::default().trim(c.0).structural_hash(c.1).const_fold(c.2)
}

impl Net {
    fn line(&self, cfg: Cfg) -> String {
        let latches = if self.latches.is_empty() {
            "-".to_string()
        } else {
            self.latches
                .iter()
                .map(|&(s, n, i)| format!("{}:{}:{}", s, n, show_init(i)))
                .collect::<Vec<_>>()
                .join(",")
        };
        let gates = if self.gates.is_empty() {
            "-".to_string()
        } else {
            self.gates
                .iter()
                .map(|&(o, a, b)| format!("{}:{}:{}", o, a, b))
                .collect::<Vec<_>>()
                .join(",")
        };
        format!(
            "renumber cfg={}{}{} inputs={} latches={} gates={} outputs={} bad={} constraints={} justice={} fairness={}",
            cfg.0 as u8,
            cfg.1 as u8,
            cfg.2 as u8,
            show_nats(&self.inputs),
            latches,
            gates,
            show_nats(&self.outputs),
            show_nats(&self.bad),
            show_nats(&self.constraints),
            show_justice(&self.justice),
            show_nats(&self.fairness)
        )
    }

    fn parse(f: &Fields) -> Net {
        let j = f.get("justice");
        Net {
            inputs: parse_nats(f.get("inputs")),
            latches: parse_triples(f.get("latches"))
                .into_iter()
                .map(|(s, n, i)| {
                    let init = match i {
                        "0" => Some(false),
                        "1" => Some(true),
                        _ => None,
                    };
                    (s.parse().unwrap(), n.parse().unwrap(), init)
                })
                .collect(),
            gates: parse_triples(f.get("gates"))
                .into_iter()
                .map(|(o, a, b)| (o.parse().unwrap(), a.parse().unwrap(), b.parse().unwrap()))
                .collect(),
            outputs: parse_nats(f.get("outputs")),
            bad: parse_nats(f.get("bad")),
            constraints: parse_nats(f.get("constraints")),
            justice: if j == "-" || j.is_empty() {
                vec![]
            } else {
                j.split(';').map(|g| if g == "e" { vec![] } else { parse_nats(g) }).collect()
            },
            fairness: parse_nats(f.get("fairness")),
        }
    }

    fn max_code(&self) -> usize {
        let mut m = 0;
        let mut up = |x: usize| m = m.max(x);
        self.inputs.iter().for_each(|&x| up(x));
        self.latches.iter().for_each(|&(s, n, _)| {
            up(s);
            up(n)
        });
        self.gates.iter().for_each(|&(o, a, b)| {
            up(o);
            up(a);
            up(b)
        });
        for l in [&self.outputs, &self.bad, &self.constraints, &self.fairness] {
            l.iter().for_each(|&x| up(x));
        }
        self.justice.iter().flatten().for_each(|&x| up(x));
        m
    }

    fn to_aig(&self) -> Aig<usize> {
        Aig {
            max_var_index: self.max_code() / 2,
            inputs: self.inputs.clone(),
            latches: self
                .latches
                .iter()
                .map(|&(state, next_state, initialization)| Latch { state, next_state, initialization })
                .collect(),
            outputs: self.outputs.clone(),
            bad_state_properties: self.bad.clone(),
            invariant_constraints: self.constraints.clone(),
            justice_properties: self.justice.clone(),
            fairness_constraints: self.fairness.clone(),
            and_gates: self
                .gates
                .iter()
                .map(|&(output, a, b)| AndGate { inputs: [a, b], output })
                .collect(),
            symbols: vec![],
            comment: None,
        }
    }

    /// Every literal whose value the result has to preserve; with `trim = false` all gate
    /// outputs as well.  (The order is irrelevant for the oracle.)
    fn roots(&self, trim: bool) -> Vec<usize> {
        let mut r = vec![];
        if !trim {
            r.extend(self.gates.iter().map(|g| g.0));
        }
        r.extend(self.latches.iter().map(|l| l.1));
        r.extend(&self.outputs);
        r.extend(&self.bad);
        r.extend(&self.constraints);
        r.extend(self.justice.iter().flatten());
        r.extend(&self.fairness);
        r
    }
}

// ------------------------------------------------------------------------------------ observation

fn err_kind(e: &AigStructureError<usize>) -> (&'static str, usize) {
    match e {
        AigStructureError::LitAlreadyDefined { lit } => ("LitAlreadyDefined", *lit),
        AigStructureError::LitNotDefined { lit } => ("LitNotDefined", *lit),
        AigStructureError::FoundCycle { lit } => ("FoundCycle", *lit),
    }
}

fn show_ordered(o: &OrderedAig<usize>) -> String {
    let ls = if o.latches.is_empty() {
        "-".to_string()
    } else {
        o.latches
            .iter()
            .map(|l| format!("{}:{}", l.next_state, show_init(l.initialization)))
            .collect::<Vec<_>>()
            .join(",")
    };
    let gs = if o.and_gates.is_empty() {
        "-".to_string()
    } else {
        o.and_gates
            .iter()
            .map(|g| format!("{}:{}", g.inputs[0], g.inputs[1]))
            .collect::<Vec<_>>()
            .join(",")
    };
    format!(
        "M={} I={} L={} O={} B={} C={} J={} F={} A={}",
        o.max_var_index,
        o.input_count,
        ls,
        show_nats(&o.outputs),
        show_nats(&o.bad_state_properties),
        show_nats(&o.invariant_constraints),
        show_justice(&o.justice_properties),
        show_nats(&o.fairness_constraints),
        gs
    )
}

/// `LitMap` has no iterator: probe every even code that could be a key.
fn map_entries(net: &Net, ren: &Renumber<usize>) -> Vec<(usize, usize)> {
    let top = (net.max_code() | 1) + 2;
    let mut out = vec![];
    if top <= 1 << 24 {
        let mut k = 0;
        while k <= top {
            if let Some(v) = ren.lit_map().get(k) {
                out.push((k, v));
            }
            k += 2;
        }
    } else {
        // hand-written cases with astronomically large codes: only defining literals can be keys
        let mut cand: Vec<usize> = vec![0];
        cand.extend(net.inputs.iter().map(|&x| x & !1));
        cand.extend(net.latches.iter().map(|l| l.0 & !1));
        cand.extend(net.gates.iter().map(|g| g.0 & !1));
        cand.sort_unstable();
        cand.dedup();
        for k in cand {
            if let Some(v) = ren.lit_map().get(k) {
                out.push((k, v));
            }
        }
    }
    out
}

fn show_map(m: &[(usize, usize)]) -> String {
    if m.is_empty() {
        return "-".into();
    }
    m.iter().map(|(k, v)| format!("{}:{}", k, v)).collect::<Vec<_>>().join(",")
}

// ------------------------------------------------------------------------------------ oracle

struct Fails(Vec<String>);

impl Fails {
    fn push(&mut self, mut s: String) {
        if self.0.len() < 4 {
            if s.len() > 190 {
                s.truncate(190);
            }
            self.0.push(s);
        }
    }
}

#[derive(Clone, Copy, Debug, PartialEq, Eq)]
enum Def {
    Const,
    Input(usize),
    Latch(usize),
    Gate(usize),
}

/// Variable -> definition; the flag says whether some variable is defined more than once.
fn definitions(net: &Net) -> (HashMap<usize, Def>, HashSet<usize>) {
    let mut defs = HashMap::new();
    let mut dups = HashSet::new();
    let mut add = |var: usize, d: Def| {
        if defs.contains_key(&var) {
            dups.insert(var);
        } else {
            defs.insert(var, d);
        }
    };
    add(0, Def::Const);
    for (i, &l) in net.inputs.iter().enumerate() {
        add(l / 2, Def::Input(i));
    }
    for (j, l) in net.latches.iter().enumerate() {
        add(l.0 / 2, Def::Latch(j));
    }
    for (k, g) in net.gates.iter().enumerate() {
        add(g.0 / 2, Def::Gate(k));
    }
    (defs, dups)
}

struct Analysis {
    /// an undefined variable is reachable from the roots
    undefined: bool,
    /// a combinational cycle is reachable from the roots
    cycle: bool,
    /// reachable gates (indices into `net.gates`), inputs before users (if acyclic)
    post: Vec<usize>,
    /// reachable variables
    reach: HashSet<usize>,
}

/// Iterative three-colour depth first search over the gate definitions.
fn analyse(net: &Net, defs: &HashMap<usize, Def>, roots: &[usize]) -> Analysis {
    let mut an = Analysis { undefined: false, cycle: false, post: vec![], reach: HashSet::new() };
    // 1 = on the stack (grey), 2 = finished (black)
    let mut colour: HashMap<usize, u8> = HashMap::new();
    let mut stack: Vec<(usize, usize, usize)> = vec![]; // (var, gate index, next input)
    for &root in roots {
        let mut pending = Some(root / 2);
        loop {
            if let Some(v) = pending.take() {
                match colour.get(&v) {
                    Some(1) => an.cycle = true,
                    Some(_) => (),
                    None => {
                        an.reach.insert(v);
                        match defs.get(&v) {
                            None => {
                                an.undefined = true;
                                colour.insert(v, 2);
                            }
                            Some(Def::Gate(k)) => {
                                colour.insert(v, 1);
                                stack.push((v, *k, 0));
                            }
                            Some(_) => {
                                colour.insert(v, 2);
                            }
                        }
                    }
                }
            }
            match stack.last_mut() {
                None => break,
                Some(top) => {
                    if top.2 < 2 {
                        let g = net.gates[top.1];
                        let lit = if top.2 == 0 { g.1 } else { g.2 };
                        top.2 += 1;
                        pending = Some(lit / 2);
                    } else {
                        colour.insert(top.0, 2);
                        an.post.push(top.1);
                        stack.pop();
                    }
                }
            }
        }
    }
    an
}

/// Does the gate variable `var` depend on itself?
fn on_cycle(net: &Net, defs: &HashMap<usize, Def>, var: usize) -> bool {
    let mut seen = HashSet::new();
    let mut work = vec![];
    if let Some(Def::Gate(k)) = defs.get(&var) {
        work.push(net.gates[*k].1 / 2);
        work.push(net.gates[*k].2 / 2);
    }
    while let Some(v) = work.pop() {
        if v == var {
            return true;
        }
        if !seen.insert(v) {
            continue;
        }
        if let Some(Def::Gate(k)) = defs.get(&v) {
            work.push(net.gates[*k].1 / 2);
            work.push(net.gates[*k].2 / 2);
        }
    }
    false
}

fn neg_mask(lit: usize) -> u64 {
    0u64.wrapping_sub((lit & 1) as u64)
}

/// Values of all reachable variables of the original graph, 64 assignments at once.
fn eval_old(net: &Net, post: &[usize], bits: &[u64]) -> HashMap<usize, u64> {
    let mut val: HashMap<usize, u64> = HashMap::new();
    val.insert(0, 0);
    let ni = net.inputs.len();
    for (i, &l) in net.inputs.iter().enumerate() {
        val.insert(l / 2, bits[i] ^ neg_mask(l));
    }
    for (j, l) in net.latches.iter().enumerate() {
        val.insert(l.0 / 2, bits[ni + j] ^ neg_mask(l.0));
    }
    for &k in post {
        let (o, a, b) = net.gates[k];
        let va = val[&(a / 2)] ^ neg_mask(a);
        let vb = val[&(b / 2)] ^ neg_mask(b);
        val.insert(o / 2, (va & vb) ^ neg_mask(o));
    }
    val
}

/// Values of all variables of the ordered graph.
fn eval_new(ord: &OrderedAig<usize>, bits: &[u64]) -> Vec<u64> {
    let mut v = Vec::with_capacity(1 + bits.len() + ord.and_gates.len());
    v.push(0);
    v.extend_from_slice(bits);
    for g in &ord.and_gates {
        let a = v[g.inputs[0] / 2] ^ neg_mask(g.inputs[0]);
        let b = v[g.inputs[1] / 2] ^ neg_mask(g.inputs[1]);
        v.push(a & b);
    }
    v
}

fn fnv(s: &str) -> u64 {
    let mut h: u64 = 0xcbf29ce484222325;
    for b in s.bytes() {
        h ^= b as u64;
        h = h.wrapping_mul(0x100000001b3);
    }
    h
}

const LANES: [u64; 6] = [
    0xAAAA_AAAA_AAAA_AAAA,
    0xCCCC_CCCC_CCCC_CCCC,
    0xF0F0_F0F0_F0F0_F0F0,
    0xFF00_FF00_FF00_FF00,
    0xFFFF_0000_FFFF_0000,
    0xFFFF_FFFF_0000_0000,
];

/// The checks on a successful result of a well-formed graph.
fn check_ok(
    line: &str,
    net: &Net,
    cfg: Cfg,
    defs: &HashMap<usize, Def>,
    an: &Analysis,
    ord: &OrderedAig<usize>,
    ren: &Renumber<usize>,
    entries: &[(usize, usize)],
    fails: &mut Fails,
) {
    let ni = net.inputs.len();
    let nl = net.latches.len();
    let n = ni + nl;
    let before = fails.0.len();

    // ---- order predicate
    if ord.input_count != ni {
        fails.push(format!("C12: order: input_count {} != {}", ord.input_count, ni));
    }
    if ord.latches.len() != nl {
        fails.push(format!("C12: order: {} latches != {}", ord.latches.len(), nl));
    }
    if ord.max_var_index != n + ord.and_gates.len() {
        fails.push(format!(
            "C12: order: max_var_index {} != {}+{}+{}",
            ord.max_var_index,
            ni,
            nl,
            ord.and_gates.len()
        ));
    }
    for (i, g) in ord.and_gates.iter().enumerate() {
        if g.inputs[0] < g.inputs[1] {
            fails.push(format!("C12: order: gate {} inputs {}<{} not sorted", i, g.inputs[0], g.inputs[1]));
            break;
        }
        if g.inputs[0] >= 2 * (n + 1 + i) {
            fails.push(format!("C12: order: gate {} input {} not below own literal {}", i, g.inputs[0], 2 * (n + 1 + i)));
            break;
        }
    }
    if ord.and_gates.len() > net.gates.len() {
        fails.push(format!("C12: order: {} gates from {}", ord.and_gates.len(), net.gates.len()));
    }
    let top = 2 * ord.max_var_index + 1;
    let sections: [(&str, &Vec<usize>, &Vec<usize>); 4] = [
        ("outputs", &net.outputs, &ord.outputs),
        ("bad", &net.bad, &ord.bad_state_properties),
        ("constraints", &net.constraints, &ord.invariant_constraints),
        ("fairness", &net.fairness, &ord.fairness_constraints),
    ];
    // (label, old literal, new literal)
    let mut pairs: Vec<(String, usize, usize)> = vec![];
    for (name, old, new) in sections {
        if old.len() != new.len() {
            fails.push(format!("C12: order: {} length {} != {}", name, new.len(), old.len()));
            continue;
        }
        for (i, (&o, &w)) in old.iter().zip(new.iter()).enumerate() {
            pairs.push((format!("{}[{}]", name, i), o, w));
        }
    }
    if ord.justice_properties.len() != net.justice.len() {
        fails.push(format!("C12: order: justice length {} != {}", ord.justice_properties.len(), net.justice.len()));
    } else {
        for (gi, (og, ng)) in net.justice.iter().zip(ord.justice_properties.iter()).enumerate() {
            if og.len() != ng.len() {
                fails.push(format!("C12: order: justice[{}] length {} != {}", gi, ng.len(), og.len()));
                continue;
            }
            for (i, (&o, &w)) in og.iter().zip(ng.iter()).enumerate() {
                pairs.push((format!("justice[{}][{}]", gi, i), o, w));
            }
        }
    }
    for (j, (ol, nw)) in net.latches.iter().zip(ord.latches.iter()).enumerate() {
        if ol.2 != nw.initialization {
            fails.push(format!("C12: order: latch {} initialization changed", j));
        }
        pairs.push((format!("latches[{}].next", j), ol.1, nw.next_state));
    }
    for (label, _, w) in &pairs {
        if *w > top {
            fails.push(format!("C12: order: {} = {} exceeds 2*max_var_index+1 = {}", label, w, top));
            break;
        }
    }
    let map = ren.lit_map();
    if map.get(0) != Some(0) {
        fails.push(format!("C12: order: lit_map[0] = {:?}", map.get(0)));
    }
    for (i, &l) in net.inputs.iter().enumerate() {
        if map.get(l) != Some(2 * (i + 1)) {
            fails.push(format!("C12: order: input {} (lit {}) mapped to {:?}", i, l, map.get(l)));
            break;
        }
    }
    for (j, l) in net.latches.iter().enumerate() {
        if map.get(l.0) != Some(2 * (ni + 1 + j)) {
            fails.push(format!("C12: order: latch {} (lit {}) mapped to {:?}", j, l.0, map.get(l.0)));
            break;
        }
    }
    for &(k, v) in entries {
        if v > top {
            fails.push(format!("C12: order: lit_map[{}] = {} exceeds 2*max_var_index+1 = {}", k, v, top));
            break;
        }
        if map.get(k ^ 1) != Some(v ^ 1) {
            fails.push(format!("C12: order: lit_map[{}] = {:?} is not the negation of lit_map[{}] = {}", k ^ 1, map.get(k ^ 1), k, v));
            break;
        }
    }

    // ---- trim
    let keys: HashSet<usize> = entries.iter().map(|e| e.0 / 2).collect();
    for &(k, _) in entries {
        match defs.get(&(k / 2)) {
            None => {
                fails.push(format!("C12: trim: lit_map key {} is not a defined literal", k));
                break;
            }
            Some(Def::Gate(_)) if cfg.0 && !an.reach.contains(&(k / 2)) => {
                fails.push(format!("C12: trim: unreachable gate literal {} was transferred", k));
                break;
            }
            _ => (),
        }
    }
    if !cfg.0 {
        for g in &net.gates {
            if !keys.contains(&(g.0 / 2)) {
                fails.push(format!("C12: trim: gate output {} not in lit_map although trim=false", g.0));
                break;
            }
        }
    }
    for &k in &an.post {
        if !keys.contains(&(net.gates[k].0 / 2)) {
            fails.push(format!("C12: trim: reachable gate output {} not in lit_map", net.gates[k].0));
            break;
        }
    }

    if fails.0.len() != before {
        return; // the evaluator below relies on the order predicate
    }

    // ---- semantics
    let rounds = if n <= 6 { 1 } else { 4 };
    let mut rng = Rng::new(fnv(line));
    for round in 0..rounds {
        let bits: Vec<u64> = if n <= 6 {
            LANES[..n].to_vec()
        } else {
            (0..n).map(|_| rng.next()).collect()
        };
        let old = eval_old(net, &an.post, &bits);
        let new = eval_new(ord, &bits);
        let ov = |l: usize| old[&(l / 2)] ^ neg_mask(l);
        let nv = |l: usize| new[l / 2] ^ neg_mask(l);
        for (label, o, w) in &pairs {
            let d = ov(*o) ^ nv(*w);
            if d != 0 {
                fails.push(format!(
                    "C12: semantics: {} old lit {} and new lit {} differ (round {} lane {})",
                    label,
                    o,
                    w,
                    round,
                    d.trailing_zeros()
                ));
                return;
            }
        }
        for &(k, v) in entries {
            for s in 0..2 {
                let (k, v) = (k ^ s, map.get(k ^ s).unwrap_or(v ^ s));
                if !old.contains_key(&(k / 2)) {
                    continue; // reported by the trim check
                }
                let d = ov(k) ^ nv(v);
                if d != 0 {
                    fails.push(format!(
                        "C12: semantics: lit_map[{}] = {} differ in value (round {} lane {})",
                        k,
                        v,
                        round,
                        d.trailing_zeros()
                    ));
                    return;
                }
            }
        }
    }
}

fn short(obs: &str) -> &str {
    if obs.starts_with("ok") {
        "ok"
    } else {
        obs
    }
}

pub fn run_case(line: &str) -> (String, Vec<String>) {
    let (_, f) = Fields::parse(line);
    if let Some(shape) = f.opt("deep") {
        return run_deep(shape, f.num("n"));
    }
    let cfg = parse_cfg(f.get("cfg"));
    let net = Net::parse(&f);
    let aig = net.to_aig();
    let res = match catch(|| Renumber::renumber_aig(config(cfg), &aig)) {
        Some(r) => r,
        None => return ("panic".into(), vec!["C12: renumber_aig panicked".into()]),
    };
    let mut entries = vec![];
    let obs = match &res {
        Ok((ord, ren)) => {
            entries = map_entries(&net, ren);
            format!("ok {} map={}", show_ordered(ord), show_map(&entries))
        }
        Err(e) => {
            let (k, l) = err_kind(e);
            format!("err:{}:{}", k, l)
        }
    };

    let mut fails = Fails(vec![]);
    let (defs, dups) = definitions(&net);
    let class: String;
    if !dups.is_empty() {
        class = "dup".into();
        match &res {
            Err(AigStructureError::LitAlreadyDefined { lit }) => {
                if !dups.contains(&(lit / 2)) {
                    fails.push(format!("C12: error literal: {} reported as redefined but is defined once", lit));
                }
            }
            _ => fails.push(format!("C12: doubly defined literal not reported (got {})", short(&obs))),
        }
    } else {
        let an = analyse(&net, &defs, &net.roots(cfg.0));
        if an.undefined || an.cycle {
            class = match (an.undefined, an.cycle) {
                (true, true) => "undef+cycle",
                (true, false) => "undef",
                _ => "cycle",
            }
            .into();
            let what = format!("undefined={} cycle={}", an.undefined as u8, an.cycle as u8);
            match &res {
                Ok(_) => fails.push(format!("C12: ill-formed graph accepted ({})", what)),
                Err(AigStructureError::LitNotDefined { lit }) => {
                    if !an.undefined {
                        fails.push(format!("C12: wrong error kind {} ({})", obs, what));
                    } else if defs.contains_key(&(lit / 2)) || !an.reach.contains(&(lit / 2)) {
                        fails.push(format!("C12: error literal: {} is not a reachable undefined literal", lit));
                    }
                }
                Err(AigStructureError::FoundCycle { lit }) => {
                    if !an.cycle {
                        fails.push(format!("C12: wrong error kind {} ({})", obs, what));
                    } else if !an.reach.contains(&(lit / 2)) || !on_cycle(&net, &defs, lit / 2) {
                        fails.push(format!("C12: error literal: {} is not on a reachable cycle", lit));
                    }
                }
                Err(_) => fails.push(format!("C12: wrong error kind {} ({})", obs, what)),
            }
        } else {
            let n = net.inputs.len() + net.latches.len();
            class = format!("wf {}", if n <= 6 { "exhaustive" } else { "random" });
            match &res {
                Err(_) => fails.push(format!("C12: well-formed graph rejected: {}", obs)),
                Ok((ord, ren)) => check_ok(line, &net, cfg, &defs, &an, ord, ren, &entries, &mut fails),
            }
        }
    }
    if std::env::var_os("VH_C12_STATS").is_some() {
        eprintln!("c12-stat cfg={}{}{} class={}", cfg.0 as u8, cfg.1 as u8, cfg.2 as u8, class);
    }
    (obs, fails.0)
}

// ------------------------------------------------------------------------------------ deep cases

/// Inputs `2` and `4`; gate `i` (1..=n) has output `2*(i+2)`, `g_i = g_{i-1} & 2` with
/// `g_0 = 4` (chain) or `g_0 = g_n` (cycle); gates listed top first, one output at the top.
fn deep_aig(cycle: bool, n: usize) -> Aig<usize> {
    let out = |i: usize| 2 * (i + 2);
    let mut gates = Vec::with_capacity(n);
    for i in (1..=n).rev() {
        let below = if i > 1 {
            out(i - 1)
        } else if cycle {
            out(n)
        } else {
            4
        };
        gates.push(AndGate { inputs: [below, 2], output: out(i) });
    }
    Aig {
        max_var_index: n + 2,
        inputs: vec![2, 4],
        outputs: vec![out(n)],
        and_gates: gates,
        ..Default::default()
    }
}

fn run_deep(shape: &str, n: usize) -> (String, Vec<String>) {
    let n = n.max(1);
    let cycle = shape == "cycle";
    let expect = if cycle { "err:FoundCycle" } else { "ok" };
    // one thread with a deliberately small stack per configuration; two at a time (the runs are
    // independent; all four at once would need ~0.7 GB for n = 10^6)
    let aig = std::sync::Arc::new(deep_aig(cycle, n));
    let mut results: Vec<(String, String)> = vec![];
    for pair in [[(true, false), (false, false)], [(true, true), (false, true)]] {
        let mut handles = vec![];
        for (t, hf) in pair {
            let aig = aig.clone();
            let tag = format!("{}{}{}", t as u8, hf as u8, hf as u8);
            let h = std::thread::Builder::new().stack_size(256 * 1024).spawn(move || {
                catch(|| match Renumber::renumber_aig(config((t, hf, hf)), &aig) {
                    Ok((ord, _ren)) => {
                        if ord.and_gates.len() == n && ord.max_var_index == n + 2 {
                            "ok".to_string()
                        } else {
                            format!("ok-gates={}", ord.and_gates.len())
                        }
                    }
                    Err(e) => format!("err:{}", err_kind(&e).0),
                })
                .unwrap_or_else(|| "panic".to_string())
            });
            handles.push((tag, h));
        }
        for (tag, h) in handles {
            results.push(match h.map(|h| h.join()) {
                Ok(Ok(r)) => (tag, r),
                _ => (tag, "thread-died".to_string()),
            });
        }
    }
    let mut fails = Fails(vec![]);
    let mut obs = expect.to_string();
    for (c, r) in &results {
        if r == "panic" {
            fails.push("C12: renumber_aig panicked".into());
        }
        if r != expect {
            if obs == expect {
                obs = r.clone();
            }
            fails.push(format!("C12: deep {} n={} cfg={}: expected {} got {}", shape, n, c, expect, r));
        }
    }
    (format!("deep:{}", obs), fails.0)
}

pub fn deep_cases(thorough: bool) -> Vec<String> {
    let n = if thorough { 1_000_000 } else { 100_000 };
    vec![format!("renumber deep=chain n={}", n), format!("renumber deep=cycle n={}", n)]
}

// ------------------------------------------------------------------------------------ generator

fn shuffle<T>(rng: &mut Rng, v: &mut [T]) {
    for i in (1..v.len()).rev() {
        let j = rng.below(i as u64 + 1) as usize;
        v.swap(i, j);
    }
}

/// A literal over the signals defined so far (`sig` holds defining literals in hidden
/// topological order) or a constant; random polarity; biased towards the most recent signals.
fn operand(rng: &mut Rng, sig: &[usize]) -> usize {
    if sig.is_empty() || rng.chance(1, 10) {
        return rng.below(2) as usize;
    }
    let len = sig.len();
    let idx = if rng.chance(1, 2) {
        rng.below(len as u64) as usize
    } else {
        len - 1 - rng.below(len.min(4) as u64) as usize
    };
    sig[idx] ^ rng.below(2) as usize
}

fn lits(rng: &mut Rng, sig: &[usize], max: u64) -> Vec<usize> {
    let k = if rng.chance(1, 4) { 0 } else { rng.range(0, max) };
    (0..k).map(|_| operand(rng, sig)).collect()
}

/// A random graph, its configuration and the name of the ill-formed mutation applied to it.
fn gen_net(rng: &mut Rng, thorough: bool) -> (Net, Cfg, &'static str) {
    let nv = if rng.chance(1, 2) {
        rng.range(1, 8)
    } else if thorough && rng.chance(1, 10) {
        rng.range(100, 2000)
    } else {
        rng.range(1, if thorough { 80 } else { 40 })
    } as usize;
    let mut ni = rng.range(0, nv.min(1 + nv / 3) as u64) as usize;
    if rng.chance(1, 8) {
        ni = 0;
    }
    let mut nl = rng.range(0, (nv - ni).min(1 + nv / 4) as u64) as usize;
    if rng.chance(1, 8) {
        nl = 0;
    }
    let mut na = nv - ni - nl;
    if rng.chance(1, 5) {
        na = rng.below(na as u64 + 1) as usize;
    }
    let total = ni + nl + na;

    // arbitrary numbering with holes, unrelated to the topological order
    let span = total + rng.below(total as u64 / 2 + 3) as usize;
    let mut vars: Vec<usize> = (1..=span).collect();
    shuffle(rng, &mut vars);
    let free: Vec<usize> = vars[total..].to_vec();
    let mut next_var = vars[..total].iter().copied();
    let mut deflit = |rng: &mut Rng| 2 * next_var.next().unwrap() + rng.chance(1, 10) as usize;

    let mut net = Net::default();
    let mut sig: Vec<usize> = vec![];
    for _ in 0..ni {
        let l = deflit(rng);
        net.inputs.push(l);
        sig.push(l);
    }
    for _ in 0..nl {
        let l = deflit(rng);
        let init = match rng.below(3) {
            0 => None,
            1 => Some(false),
            _ => Some(true),
        };
        net.latches.push((l, 0, init));
        sig.push(l);
    }
    for k in 0..na {
        let out = deflit(rng);
        let r = rng.below(100);
        let (a, b) = if r < 15 && k > 0 {
            let (_, a, b) = net.gates[rng.below(k as u64) as usize];
            if rng.chance(1, 2) {
                (b, a)
            } else {
                (a, b)
            }
        } else if r < 23 {
            let x = operand(rng, &sig);
            let y = match rng.below(4) {
                0 => x,
                1 => x ^ 1,
                2 => 0,
                _ => 1,
            };
            if rng.chance(1, 2) {
                (y, x)
            } else {
                (x, y)
            }
        } else {
            (operand(rng, &sig), operand(rng, &sig))
        };
        net.gates.push((out, a, b));
        sig.push(out);
    }
    for j in 0..nl {
        net.latches[j].1 = operand(rng, &sig);
    }
    net.outputs = lits(rng, &sig, 4);
    net.bad = lits(rng, &sig, 4);
    net.constraints = lits(rng, &sig, 4);
    net.fairness = lits(rng, &sig, 4);
    if rng.chance(1, 2) {
        let groups = rng.range(0, 3);
        for _ in 0..groups {
            let k = rng.range(0, 3);
            let g = (0..k).map(|_| operand(rng, &sig)).collect();
            net.justice.push(g);
        }
    }
    let cfg = {
        let c = rng.below(8);
        (c & 4 != 0, c & 2 != 0, c & 1 != 0)
    };

    // one ill-formed mutation (the gates are still in hidden topological order here)
    let mut mutation = "none";
    if rng.chance(35, 100) {
        let mut choice = rng.below(3);
        if choice == 0 && net.gates.is_empty() {
            choice = 1 + rng.below(2);
        }
        if choice == 2 && total == 0 {
            choice = 1;
        }
        match choice {
            0 => {
                mutation = "cycle";
                let g = rng.below(na as u64) as usize;
                let gvar = net.gates[g].0 / 2;
                let mut dep: HashSet<usize> = HashSet::new();
                let mut dependents = vec![];
                dep.insert(gvar);
                for h in g + 1..na {
                    let (o, a, b) = net.gates[h];
                    if dep.contains(&(a / 2)) || dep.contains(&(b / 2)) {
                        dep.insert(o / 2);
                        dependents.push(o);
                    }
                }
                let base = if dependents.is_empty() || rng.chance(3, 10) {
                    net.gates[g].0
                } else {
                    *rng.pick(&dependents)
                };
                let target = base ^ rng.below(2) as usize;
                if rng.chance(1, 2) {
                    net.gates[g].1 = target;
                } else {
                    net.gates[g].2 = target;
                }
                if rng.chance(1, 2) {
                    net.outputs.push(net.gates[g].0 ^ rng.below(2) as usize);
                }
            }
            1 => {
                mutation = "undef";
                let var = if !free.is_empty() && rng.chance(2, 3) {
                    *rng.pick(&free)
                } else {
                    span + 1 + rng.below(3) as usize
                };
                let lit = 2 * var + rng.below(2) as usize;
                // use sites: gate inputs, next states, the property sections
                let mut sites: Vec<(u8, usize, usize)> = vec![];
                for k in 0..na {
                    sites.push((0, k, 0));
                    sites.push((0, k, 1));
                }
                for j in 0..nl {
                    sites.push((1, j, 0));
                }
                for (s, l) in [&net.outputs, &net.bad, &net.constraints, &net.fairness].iter().enumerate() {
                    for i in 0..l.len() {
                        sites.push((2 + s as u8, i, 0));
                    }
                }
                for (gi, g) in net.justice.iter().enumerate() {
                    for i in 0..g.len() {
                        sites.push((6, gi, i));
                    }
                }
                if sites.is_empty() {
                    net.outputs.push(lit);
                } else {
                    let (kind, i, j) = *rng.pick(&sites);
                    match kind {
                        0 => {
                            if j == 0 {
                                net.gates[i].1 = lit;
                            } else {
                                net.gates[i].2 = lit;
                            }
                            if rng.chance(1, 2) {
                                net.bad.push(net.gates[i].0 ^ rng.below(2) as usize);
                            }
                        }
                        1 => net.latches[i].1 = lit,
                        2 => net.outputs[i] = lit,
                        3 => net.bad[i] = lit,
                        4 => net.constraints[i] = lit,
                        5 => net.fairness[i] = lit,
                        _ => net.justice[i][j] = lit,
                    }
                }
            }
            _ => {
                mutation = "dup";
                // (kind, index): 0 input, 1 latch, 2 gate
                let kinds: Vec<u8> = [(0u8, ni), (1, nl), (2, na)]
                    .iter()
                    .filter(|k| k.1 > 0)
                    .map(|k| k.0)
                    .collect();
                let count = |k: u8| match k {
                    0 => ni,
                    1 => nl,
                    _ => na,
                };
                let get = |net: &Net, k: u8, i: usize| match k {
                    0 => net.inputs[i],
                    1 => net.latches[i].0,
                    _ => net.gates[i].0,
                };
                let sk = *rng.pick(&kinds);
                let si = rng.below(count(sk) as u64) as usize;
                // target kind: 3 = constant
                let mut tkinds: Vec<u8> = vec![3];
                for &k in &kinds {
                    if k != sk || count(k) > 1 {
                        tkinds.push(k);
                    }
                }
                let tk = *rng.pick(&tkinds);
                let lit = if tk == 3 {
                    rng.below(2) as usize
                } else {
                    let mut ti = rng.below(count(tk) as u64) as usize;
                    if tk == sk && ti == si {
                        ti = (ti + 1) % count(tk);
                    }
                    get(&net, tk, ti) ^ rng.below(2) as usize
                };
                match sk {
                    0 => net.inputs[si] = lit,
                    1 => net.latches[si].0 = lit,
                    _ => net.gates[si].0 = lit,
                }
            }
        }
    }
    shuffle(rng, &mut net.gates);
    (net, cfg, mutation)
}

pub fn gen_case(rng: &mut Rng, thorough: bool) -> String {
    if rng.chance(1, 500) {
        return deep_cases(false)[rng.below(2) as usize].clone();
    }
    let (net, cfg, _mutation) = gen_net(rng, thorough);
    net.line(cfg)
}
