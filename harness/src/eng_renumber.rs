//! Engine `renumber` (C12): `flussab_aiger::aig::Renumber::renumber_aig` on random and-inverter
//! graphs, well-formed and ill-formed.  The observation is printed in the format of
//! `lean/Driver/EngRenumber.lean`; the oracle is independent of the implementation's algorithm
//! (own definedness / reachability / cycle analysis, own bit-parallel evaluator).
//!
//! Case line:
//!   renumber cfg=<t><h><f> [ty=<u8|u16|u32|u64|usize>] inputs=<l,..|-> latches=<state:next:init,..|->
//!            gates=<out:in0:in1,..|-> outputs=.. bad=.. constraints=.. justice=<l,..;l,..|-> (empty
//!            group `e`) fairness=..      `ty` = the literal type `L` of `Aig<L>` (default `usize`); every
//!            code of the case fits the type; codes are printed as numbers whatever the type
//!   renumber deep=<chain|cycle> n=<N>     (implementation only, small native stack)
//!   renumber cfg=<t><h><f> ni=<N> nl=<N> ord=.. num=.. pol=.. gs=<gate segments> ln=.. outputs=.. ..
//!            [big=1]     scale case (`--opt scale`): circuit given by a generator spec, see the
//!                        section "scale cases" below; observation = digest of the full one
use crate::common::*;
use flussab_aiger::aig::{
    Aig, AigStructureError, AndGate, Latch, OrderedAig, OrderedAndGate, OrderedLatch, Renumber, RenumberConfig,
};
use flussab_aiger::Lit;
use std::collections::{HashMap, HashSet};
use std::sync::atomic::{AtomicUsize, Ordering};

type Cfg = (bool, bool, bool); // trim, structural_hash, const_fold

/// Hasher for the oracle's tables keyed by variable numbers (none of them is ever iterated, so
/// the hash function is unobservable; SipHash costs seconds on circuits with 2^21 variables).
#[derive(Default)]
struct VarHasher(u64);

impl std::hash::Hasher for VarHasher {
    fn finish(&self) -> u64 {
        self.0
    }
    fn write(&mut self, bytes: &[u8]) {
        for &b in bytes {
            self.write_u64(b as u64);
        }
    }
    fn write_u64(&mut self, x: u64) {
        let h = (self.0.rotate_left(5) ^ x).wrapping_mul(0x9E3779B97F4A7C15);
        self.0 = h ^ (h >> 32);
    }
    fn write_usize(&mut self, x: usize) {
        self.write_u64(x as u64);
    }
}

type VMap<V> = HashMap<usize, V, std::hash::BuildHasherDefault<VarHasher>>;
type VSet = HashSet<usize, std::hash::BuildHasherDefault<VarHasher>>;

/// An and-inverter graph with literal codes as plain numbers.
#[derive(Clone, Default, Debug)]
struct Net {
    inputs: Vec<usize>,
    /// (state, next_state, initialization)
    latches: Vec<(usize, usize, Option<bool>)>,
    /// (output, input 0, input 1)
    gates: Vec<(usize, usize, usize)>,
    outputs: Vec<usize>,
    bad: Vec<usize>,
    constraints: Vec<usize>,
    justice: Vec<Vec<usize>>,
    fairness: Vec<usize>,
}

fn show_nats(l: &[usize]) -> String {
    if l.is_empty() {
        return "-".into();
    }
    l.iter().map(|x| x.to_string()).collect::<Vec<_>>().join(",")
}

fn show_init(i: Option<bool>) -> &'static str {
    match i {
        None => "x",
        Some(false) => "0",
        Some(true) => "1",
    }
}

fn show_justice(j: &[Vec<usize>]) -> String {
    if j.is_empty() {
        return "-".into();
    }
    j.iter()
        .map(|g| if g.is_empty() { "e".to_string() } else { show_nats(g) })
        .collect::<Vec<_>>()
        .join(";")
}

fn parse_nats(s: &str) -> Vec<usize> {
    if s == "-" || s.is_empty() {
        return vec![];
    }
    s.split(',').map(|t| t.parse().unwrap()).collect()
}

fn parse_triples(s: &str) -> Vec<(&str, &str, &str)> {
    if s == "-" || s.is_empty() {
        return vec![];
    }
    s.split(',')
        .map(|t| {
            let mut it = t.split(':');
            let a = it.next().unwrap();
            let b = it.next().unwrap();
            let c = it.next().unwrap();
            assert!(it.next().is_none(), "bad triple {}", t);
            (a, b, c)
        })
        .collect()
}

fn parse_cfg(s: &str) -> Cfg {
    let b = s.as_bytes();
    assert!(b.len() == 3, "bad cfg {}", s);
    (b[0] == b'1', b[1] == b'1', b[2] == b'1')
}

fn config(c: Cfg) -> RenumberConfig {
    RenumberConfig::default().trim(c.0).structural_hash(c.1).const_fold(c.2)
}

impl Net {
    /// The case line; `ty` = literal type (`""` = the default, `usize`: no field).
    fn line_ty(&self, cfg: Cfg, ty: &str) -> String {
        let l = self.line(cfg);
        if ty.is_empty() { l } else { l.replacen(" inputs=", &format!(" ty={} inputs=", ty), 1) }
    }

    fn line(&self, cfg: Cfg) -> String {
        let latches = if self.latches.is_empty() {
            "-".to_string()
        } else {
            self.latches
                .iter()
                .map(|&(s, n, i)| format!("{}:{}:{}", s, n, show_init(i)))
                .collect::<Vec<_>>()
                .join(",")
        };
        let gates = if self.gates.is_empty() {
            "-".to_string()
        } else {
            self.gates
                .iter()
                .map(|&(o, a, b)| format!("{}:{}:{}", o, a, b))
                .collect::<Vec<_>>()
                .join(",")
        };
        format!(
            "renumber cfg={}{}{} inputs={} latches={} gates={} outputs={} bad={} constraints={} justice={} fairness={}",
            cfg.0 as u8,
            cfg.1 as u8,
            cfg.2 as u8,
            show_nats(&self.inputs),
            latches,
            gates,
            show_nats(&self.outputs),
            show_nats(&self.bad),
            show_nats(&self.constraints),
            show_justice(&self.justice),
            show_nats(&self.fairness)
        )
    }

    fn parse(f: &Fields) -> Net {
        let j = f.get("justice");
        Net {
            inputs: parse_nats(f.get("inputs")),
            latches: parse_triples(f.get("latches"))
                .into_iter()
                .map(|(s, n, i)| {
                    let init = match i {
                        "0" => Some(false),
                        "1" => Some(true),
                        _ => None,
                    };
                    (s.parse().unwrap(), n.parse().unwrap(), init)
                })
                .collect(),
            gates: parse_triples(f.get("gates"))
                .into_iter()
                .map(|(o, a, b)| (o.parse().unwrap(), a.parse().unwrap(), b.parse().unwrap()))
                .collect(),
            outputs: parse_nats(f.get("outputs")),
            bad: parse_nats(f.get("bad")),
            constraints: parse_nats(f.get("constraints")),
            justice: if j == "-" || j.is_empty() {
                vec![]
            } else {
                j.split(';').map(|g| if g == "e" { vec![] } else { parse_nats(g) }).collect()
            },
            fairness: parse_nats(f.get("fairness")),
        }
    }

    fn max_code(&self) -> usize {
        let mut m = 0;
        let mut up = |x: usize| m = m.max(x);
        self.inputs.iter().for_each(|&x| up(x));
        self.latches.iter().for_each(|&(s, n, _)| {
            up(s);
            up(n)
        });
        self.gates.iter().for_each(|&(o, a, b)| {
            up(o);
            up(a);
            up(b)
        });
        for l in [&self.outputs, &self.bad, &self.constraints, &self.fairness] {
            l.iter().for_each(|&x| up(x));
        }
        self.justice.iter().flatten().for_each(|&x| up(x));
        m
    }

    fn to_aig<L: Lit>(&self) -> Aig<L> {
        let max = self.max_code();
        assert!(max <= L::MAX_CODE, "case has code {} beyond the literal type's {}", max, L::MAX_CODE);
        let l = |x: usize| L::from_code(x);
        Aig {
            max_var_index: max / 2,
            inputs: self.inputs.iter().map(|&x| l(x)).collect(),
            latches: self
                .latches
                .iter()
                .map(|&(state, next_state, initialization)| Latch { state: l(state), next_state: l(next_state), initialization })
                .collect(),
            outputs: self.outputs.iter().map(|&x| l(x)).collect(),
            bad_state_properties: self.bad.iter().map(|&x| l(x)).collect(),
            invariant_constraints: self.constraints.iter().map(|&x| l(x)).collect(),
            justice_properties: self.justice.iter().map(|g| g.iter().map(|&x| l(x)).collect()).collect(),
            fairness_constraints: self.fairness.iter().map(|&x| l(x)).collect(),
            and_gates: self
                .gates
                .iter()
                .map(|&(output, a, b)| AndGate { inputs: [l(a), l(b)], output: l(output) })
                .collect(),
            symbols: vec![],
            comment: None,
        }
    }

    /// Every literal whose value the result has to preserve; with `trim = false` all gate
    /// outputs as well.  (The order is irrelevant for the oracle.)
    fn roots(&self, trim: bool) -> Vec<usize> {
        let mut r = vec![];
        if !trim {
            r.extend(self.gates.iter().map(|g| g.0));
        }
        r.extend(self.latches.iter().map(|l| l.1));
        r.extend(&self.outputs);
        r.extend(&self.bad);
        r.extend(&self.constraints);
        r.extend(self.justice.iter().flatten());
        r.extend(&self.fairness);
        r
    }
}

// ------------------------------------------------------------------------------------ observation

fn err_kind<L: Lit>(e: &AigStructureError<L>) -> (&'static str, usize) {
    match e {
        AigStructureError::LitAlreadyDefined { lit } => ("LitAlreadyDefined", lit.code()),
        AigStructureError::LitNotDefined { lit } => ("LitNotDefined", lit.code()),
        AigStructureError::FoundCycle { lit } => ("FoundCycle", lit.code()),
    }
}

/// The result with codes as plain numbers (what the observation and the oracle work on).
fn ordered_codes<L: Lit>(o: &OrderedAig<L>) -> OrderedAig<usize> {
    let c = |l: &L| l.code();
    OrderedAig {
        max_var_index: o.max_var_index,
        input_count: o.input_count,
        latches: o.latches.iter().map(|l| OrderedLatch { next_state: l.next_state.code(), initialization: l.initialization }).collect(),
        outputs: o.outputs.iter().map(c).collect(),
        bad_state_properties: o.bad_state_properties.iter().map(c).collect(),
        invariant_constraints: o.invariant_constraints.iter().map(c).collect(),
        justice_properties: o.justice_properties.iter().map(|g| g.iter().map(c).collect()).collect(),
        fairness_constraints: o.fairness_constraints.iter().map(c).collect(),
        and_gates: o.and_gates.iter().map(|g| OrderedAndGate { inputs: [g.inputs[0].code(), g.inputs[1].code()] }).collect(),
        symbols: o.symbols.clone(),
        comment: o.comment.clone(),
    }
}

/// `lit_map().get` on codes: `None` for a code the literal type cannot represent.
type MapGet<'a> = &'a dyn Fn(usize) -> Option<usize>;

fn show_ordered(o: &OrderedAig<usize>) -> String {
    let ls = if o.latches.is_empty() {
        "-".to_string()
    } else {
        o.latches
            .iter()
            .map(|l| format!("{}:{}", l.next_state, show_init(l.initialization)))
            .collect::<Vec<_>>()
            .join(",")
    };
    let gs = if o.and_gates.is_empty() {
        "-".to_string()
    } else {
        o.and_gates
            .iter()
            .map(|g| format!("{}:{}", g.inputs[0], g.inputs[1]))
            .collect::<Vec<_>>()
            .join(",")
    };
    format!(
        "M={} I={} L={} O={} B={} C={} J={} F={} A={}",
        o.max_var_index,
        o.input_count,
        ls,
        show_nats(&o.outputs),
        show_nats(&o.bad_state_properties),
        show_nats(&o.invariant_constraints),
        show_justice(&o.justice_properties),
        show_nats(&o.fairness_constraints),
        gs
    )
}

/// `LitMap` has no iterator: probe every even code that could be a key.
fn map_entries(net: &Net, get: MapGet) -> Vec<(usize, usize)> {
    let top = (net.max_code() | 1).saturating_add(2);
    let mut out = vec![];
    if top <= 1 << 24 {
        let mut k = 0;
        while k <= top {
            if let Some(v) = get(k) {
                out.push((k, v));
            }
            k += 2;
        }
    } else {
        // cases with astronomically large codes (the top of a wide literal type): only defining
        // literals can be keys
        let mut cand: Vec<usize> = vec![0];
        cand.extend(net.inputs.iter().map(|&x| x & !1));
        cand.extend(net.latches.iter().map(|l| l.0 & !1));
        cand.extend(net.gates.iter().map(|g| g.0 & !1));
        cand.sort_unstable();
        cand.dedup();
        for k in cand {
            if let Some(v) = get(k) {
                out.push((k, v));
            }
        }
    }
    out
}

fn show_map(m: &[(usize, usize)]) -> String {
    if m.is_empty() {
        return "-".into();
    }
    m.iter().map(|(k, v)| format!("{}:{}", k, v)).collect::<Vec<_>>().join(",")
}

// ------------------------------------------------------------------------------------ oracle

struct Fails(Vec<String>);

impl Fails {
    fn push(&mut self, mut s: String) {
        if self.0.len() < 4 {
            if s.len() > 190 {
                s.truncate(190);
            }
            self.0.push(s);
        }
    }
}

#[derive(Clone, Copy, Debug, PartialEq, Eq)]
enum Def {
    Const,
    Input(usize),
    Latch(usize),
    Gate(usize),
}

/// Variable -> definition; the flag says whether some variable is defined more than once.
fn definitions(net: &Net) -> (VMap<Def>, VSet) {
    let mut defs = VMap::default();
    let mut dups = VSet::default();
    let mut add = |var: usize, d: Def| {
        if defs.contains_key(&var) {
            dups.insert(var);
        } else {
            defs.insert(var, d);
        }
    };
    add(0, Def::Const);
    for (i, &l) in net.inputs.iter().enumerate() {
        add(l / 2, Def::Input(i));
    }
    for (j, l) in net.latches.iter().enumerate() {
        add(l.0 / 2, Def::Latch(j));
    }
    for (k, g) in net.gates.iter().enumerate() {
        add(g.0 / 2, Def::Gate(k));
    }
    (defs, dups)
}

struct Analysis {
    /// an undefined variable is reachable from the roots
    undefined: bool,
    /// a combinational cycle is reachable from the roots
    cycle: bool,
    /// reachable gates (indices into `net.gates`), inputs before users (if acyclic)
    post: Vec<usize>,
    /// reachable variables
    reach: VSet,
}

/// Iterative three-colour depth first search over the gate definitions.
fn analyse(net: &Net, defs: &VMap<Def>, roots: &[usize]) -> Analysis {
    let mut an = Analysis { undefined: false, cycle: false, post: vec![], reach: VSet::default() };
    // 1 = on the stack (grey), 2 = finished (black)
    let mut colour: VMap<u8> = VMap::default();
    let mut stack: Vec<(usize, usize, usize)> = vec![]; // (var, gate index, next input)
    for &root in roots {
        let mut pending = Some(root / 2);
        loop {
            if let Some(v) = pending.take() {
                match colour.get(&v) {
                    Some(1) => an.cycle = true,
                    Some(_) => (),
                    None => {
                        an.reach.insert(v);
                        match defs.get(&v) {
                            None => {
                                an.undefined = true;
                                colour.insert(v, 2);
                            }
                            Some(Def::Gate(k)) => {
                                colour.insert(v, 1);
                                stack.push((v, *k, 0));
                            }
                            Some(_) => {
                                colour.insert(v, 2);
                            }
                        }
                    }
                }
            }
            match stack.last_mut() {
                None => break,
                Some(top) => {
                    if top.2 < 2 {
                        let g = net.gates[top.1];
                        let lit = if top.2 == 0 { g.1 } else { g.2 };
                        top.2 += 1;
                        pending = Some(lit / 2);
                    } else {
                        colour.insert(top.0, 2);
                        an.post.push(top.1);
                        stack.pop();
                    }
                }
            }
        }
    }
    an
}

/// Does the gate variable `var` depend on itself?
fn on_cycle(net: &Net, defs: &VMap<Def>, var: usize) -> bool {
    let mut seen = VSet::default();
    let mut work = vec![];
    if let Some(Def::Gate(k)) = defs.get(&var) {
        work.push(net.gates[*k].1 / 2);
        work.push(net.gates[*k].2 / 2);
    }
    while let Some(v) = work.pop() {
        if v == var {
            return true;
        }
        if !seen.insert(v) {
            continue;
        }
        if let Some(Def::Gate(k)) = defs.get(&v) {
            work.push(net.gates[*k].1 / 2);
            work.push(net.gates[*k].2 / 2);
        }
    }
    false
}

fn neg_mask(lit: usize) -> u64 {
    0u64.wrapping_sub((lit & 1) as u64)
}

/// Values of all reachable variables of the original graph, 64 assignments at once.
fn eval_old(net: &Net, post: &[usize], bits: &[u64]) -> VMap<u64> {
    let mut val: VMap<u64> = VMap::default();
    val.insert(0, 0);
    let ni = net.inputs.len();
    for (i, &l) in net.inputs.iter().enumerate() {
        val.insert(l / 2, bits[i] ^ neg_mask(l));
    }
    for (j, l) in net.latches.iter().enumerate() {
        val.insert(l.0 / 2, bits[ni + j] ^ neg_mask(l.0));
    }
    for &k in post {
        let (o, a, b) = net.gates[k];
        let va = val[&(a / 2)] ^ neg_mask(a);
        let vb = val[&(b / 2)] ^ neg_mask(b);
        val.insert(o / 2, (va & vb) ^ neg_mask(o));
    }
    val
}

/// Values of all variables of the ordered graph.
fn eval_new(ord: &OrderedAig<usize>, bits: &[u64]) -> Vec<u64> {
    let mut v = Vec::with_capacity(1 + bits.len() + ord.and_gates.len());
    v.push(0);
    v.extend_from_slice(bits);
    for g in &ord.and_gates {
        let a = v[g.inputs[0] / 2] ^ neg_mask(g.inputs[0]);
        let b = v[g.inputs[1] / 2] ^ neg_mask(g.inputs[1]);
        v.push(a & b);
    }
    v
}

fn fnv(s: &str) -> u64 {
    let mut h: u64 = 0xcbf29ce484222325;
    for b in s.bytes() {
        h ^= b as u64;
        h = h.wrapping_mul(0x100000001b3);
    }
    h
}

const LANES: [u64; 6] = [
    0xAAAA_AAAA_AAAA_AAAA,
    0xCCCC_CCCC_CCCC_CCCC,
    0xF0F0_F0F0_F0F0_F0F0,
    0xFF00_FF00_FF00_FF00,
    0xFFFF_0000_FFFF_0000,
    0xFFFF_FFFF_0000_0000,
];

/// The checks on a successful result of a well-formed graph.
fn check_ok(
    line: &str,
    net: &Net,
    cfg: Cfg,
    defs: &VMap<Def>,
    an: &Analysis,
    ord: &OrderedAig<usize>,
    map: MapGet,
    entries: &[(usize, usize)],
    fails: &mut Fails,
) {
    let ni = net.inputs.len();
    let nl = net.latches.len();
    let n = ni + nl;
    let before = fails.0.len();

    // ---- order predicate
    if ord.input_count != ni {
        fails.push(format!("C12: order: input_count {} != {}", ord.input_count, ni));
    }
    if ord.latches.len() != nl {
        fails.push(format!("C12: order: {} latches != {}", ord.latches.len(), nl));
    }
    if ord.max_var_index != n + ord.and_gates.len() {
        fails.push(format!(
            "C12: order: max_var_index {} != {}+{}+{}",
            ord.max_var_index,
            ni,
            nl,
            ord.and_gates.len()
        ));
    }
    for (i, g) in ord.and_gates.iter().enumerate() {
        if g.inputs[0] < g.inputs[1] {
            fails.push(format!("C12: order: gate {} inputs {}<{} not sorted", i, g.inputs[0], g.inputs[1]));
            break;
        }
        if g.inputs[0] >= 2 * (n + 1 + i) {
            fails.push(format!("C12: order: gate {} input {} not below own literal {}", i, g.inputs[0], 2 * (n + 1 + i)));
            break;
        }
    }
    if ord.and_gates.len() > net.gates.len() {
        fails.push(format!("C12: order: {} gates from {}", ord.and_gates.len(), net.gates.len()));
    }
    let top = 2 * ord.max_var_index + 1;
    let sections: [(&str, &Vec<usize>, &Vec<usize>); 4] = [
        ("outputs", &net.outputs, &ord.outputs),
        ("bad", &net.bad, &ord.bad_state_properties),
        ("constraints", &net.constraints, &ord.invariant_constraints),
        ("fairness", &net.fairness, &ord.fairness_constraints),
    ];
    // (label, old literal, new literal)
    let mut pairs: Vec<(String, usize, usize)> = vec![];
    for (name, old, new) in sections {
        if old.len() != new.len() {
            fails.push(format!("C12: order: {} length {} != {}", name, new.len(), old.len()));
            continue;
        }
        for (i, (&o, &w)) in old.iter().zip(new.iter()).enumerate() {
            pairs.push((format!("{}[{}]", name, i), o, w));
        }
    }
    if ord.justice_properties.len() != net.justice.len() {
        fails.push(format!("C12: order: justice length {} != {}", ord.justice_properties.len(), net.justice.len()));
    } else {
        for (gi, (og, ng)) in net.justice.iter().zip(ord.justice_properties.iter()).enumerate() {
            if og.len() != ng.len() {
                fails.push(format!("C12: order: justice[{}] length {} != {}", gi, ng.len(), og.len()));
                continue;
            }
            for (i, (&o, &w)) in og.iter().zip(ng.iter()).enumerate() {
                pairs.push((format!("justice[{}][{}]", gi, i), o, w));
            }
        }
    }
    for (j, (ol, nw)) in net.latches.iter().zip(ord.latches.iter()).enumerate() {
        if ol.2 != nw.initialization {
            fails.push(format!("C12: order: latch {} initialization changed", j));
        }
        pairs.push((format!("latches[{}].next", j), ol.1, nw.next_state));
    }
    for (label, _, w) in &pairs {
        if *w > top {
            fails.push(format!("C12: order: {} = {} exceeds 2*max_var_index+1 = {}", label, w, top));
            break;
        }
    }
    if map(0) != Some(0) {
        fails.push(format!("C12: order: lit_map[0] = {:?}", map(0)));
    }
    for (i, &l) in net.inputs.iter().enumerate() {
        if map(l) != Some(2 * (i + 1)) {
            fails.push(format!("C12: order: input {} (lit {}) mapped to {:?}", i, l, map(l)));
            break;
        }
    }
    for (j, l) in net.latches.iter().enumerate() {
        if map(l.0) != Some(2 * (ni + 1 + j)) {
            fails.push(format!("C12: order: latch {} (lit {}) mapped to {:?}", j, l.0, map(l.0)));
            break;
        }
    }
    for &(k, v) in entries {
        if v > top {
            fails.push(format!("C12: order: lit_map[{}] = {} exceeds 2*max_var_index+1 = {}", k, v, top));
            break;
        }
        if map(k ^ 1) != Some(v ^ 1) {
            fails.push(format!("C12: order: lit_map[{}] = {:?} is not the negation of lit_map[{}] = {}", k ^ 1, map(k ^ 1), k, v));
            break;
        }
    }

    // ---- trim
    let keys: VSet = entries.iter().map(|e| e.0 / 2).collect();
    for &(k, _) in entries {
        match defs.get(&(k / 2)) {
            None => {
                fails.push(format!("C12: trim: lit_map key {} is not a defined literal", k));
                break;
            }
            Some(Def::Gate(_)) if cfg.0 && !an.reach.contains(&(k / 2)) => {
                fails.push(format!("C12: trim: unreachable gate literal {} was transferred", k));
                break;
            }
            _ => (),
        }
    }
    if !cfg.0 {
        for g in &net.gates {
            if !keys.contains(&(g.0 / 2)) {
                fails.push(format!("C12: trim: gate output {} not in lit_map although trim=false", g.0));
                break;
            }
        }
    }
    for &k in &an.post {
        if !keys.contains(&(net.gates[k].0 / 2)) {
            fails.push(format!("C12: trim: reachable gate output {} not in lit_map", net.gates[k].0));
            break;
        }
    }

    if fails.0.len() != before {
        return; // the evaluator below relies on the order predicate
    }

    // ---- semantics
    let rounds = if n <= 6 { 1 } else { 4 };
    let mut rng = Rng::new(fnv(line));
    for round in 0..rounds {
        let bits: Vec<u64> = if n <= 6 {
            LANES[..n].to_vec()
        } else {
            (0..n).map(|_| rng.next()).collect()
        };
        let old = eval_old(net, &an.post, &bits);
        let new = eval_new(ord, &bits);
        let ov = |l: usize| old[&(l / 2)] ^ neg_mask(l);
        let nv = |l: usize| new[l / 2] ^ neg_mask(l);
        for (label, o, w) in &pairs {
            let d = ov(*o) ^ nv(*w);
            if d != 0 {
                fails.push(format!(
                    "C12: semantics: {} old lit {} and new lit {} differ (round {} lane {})",
                    label,
                    o,
                    w,
                    round,
                    d.trailing_zeros()
                ));
                return;
            }
        }
        for &(k, v) in entries {
            for s in 0..2 {
                let (k, v) = (k ^ s, map(k ^ s).unwrap_or(v ^ s));
                if !old.contains_key(&(k / 2)) {
                    continue; // reported by the trim check
                }
                let d = ov(k) ^ nv(v);
                if d != 0 {
                    fails.push(format!(
                        "C12: semantics: lit_map[{}] = {} differ in value (round {} lane {})",
                        k,
                        v,
                        round,
                        d.trailing_zeros()
                    ));
                    return;
                }
            }
        }
    }
}

fn short(obs: &str) -> &str {
    if obs.starts_with("ok") {
        "ok"
    } else {
        obs
    }
}

pub fn run_case(line: &str) -> (String, Vec<String>) {
    let (_, f) = Fields::parse(line);
    if let Some(shape) = f.opt("deep") {
        return run_deep(shape, f.num("n"));
    }
    if f.opt("gs").is_some() {
        // scale case: the circuit is described by a generator spec (see `expand_spec`)
        let (net, cfg) = expand_spec(&f);
        let big = f.opt("big") == Some("1");
        return run_net_ty(f.opt("ty"), line, &net, cfg, if big { Obs::Brief } else { Obs::Digest });
    }
    let cfg = parse_cfg(f.get("cfg"));
    let net = Net::parse(&f);
    run_net_ty(f.opt("ty"), line, &net, cfg, Obs::Full)
}

/// Literal types a case can name, with their largest code.
pub const TYPES: &[(&str, u64)] = &[("u8", u8::MAX as u64), ("u16", u16::MAX as u64), ("u32", u32::MAX as u64), ("u64", u64::MAX), ("usize", u64::MAX)];

fn run_net_ty(ty: Option<&str>, line: &str, net: &Net, cfg: Cfg, mode: Obs) -> (String, Vec<String>) {
    match ty.unwrap_or("usize") {
        "u8" => run_net::<u8>(line, net, cfg, mode),
        "u16" => run_net::<u16>(line, net, cfg, mode),
        "u32" => run_net::<u32>(line, net, cfg, mode),
        "u64" => run_net::<u64>(line, net, cfg, mode),
        "usize" => run_net::<usize>(line, net, cfg, mode),
        t => panic!("bad literal type {}", t),
    }
}

/// How the successful result is rendered: in full, as `#len:fnv64` of the full text (scale cases
/// that run through the model), or not at all (`big=1`, the observation is replaced by `BIG`).
#[derive(Clone, Copy, PartialEq)]
enum Obs {
    Full,
    Digest,
    Brief,
}

fn run_net<L: Lit>(line: &str, net: &Net, cfg: Cfg, mode: Obs) -> (String, Vec<String>) {
    let aig = net.to_aig::<L>();
    let res = match catch(|| Renumber::renumber_aig(config(cfg), &aig)) {
        Some(r) => r,
        None => return ("panic".into(), vec!["C12: renumber_aig panicked".into()]),
    };
    drop(aig);
    // codes as plain numbers from here on
    let res: Result<(OrderedAig<usize>, Renumber<L>), (&'static str, usize)> = match res {
        Ok((ord, ren)) => Ok((ordered_codes(&ord), ren)),
        Err(e) => Err(err_kind(&e)),
    };
    let get = |k: usize| -> Option<usize> {
        match &res {
            Ok((_, ren)) if k <= L::MAX_CODE => ren.lit_map().get(L::from_code(k)).map(|l| l.code()),
            _ => None,
        }
    };
    let mut entries = vec![];
    let obs = match &res {
        Ok((ord, _)) => {
            entries = map_entries(net, &get);
            match mode {
                Obs::Full => format!("ok {} map={}", show_ordered(ord), show_map(&entries)),
                Obs::Digest => {
                    let full = format!("ok {} map={}", show_ordered(ord), show_map(&entries));
                    format!(
                        "ok M={} I={} G={} #{}:{:016x}",
                        ord.max_var_index,
                        ord.input_count,
                        ord.and_gates.len(),
                        full.len(),
                        fnv(&full)
                    )
                }
                Obs::Brief => format!("ok M={} I={} G={}", ord.max_var_index, ord.input_count, ord.and_gates.len()),
            }
        }
        Err((k, l)) => format!("err:{}:{}", k, l),
    };

    let mut fails = Fails(vec![]);
    let (defs, dups) = definitions(net);
    let class: String;
    if !dups.is_empty() {
        class = "dup".into();
        match &res {
            Err(("LitAlreadyDefined", lit)) => {
                if !dups.contains(&(lit / 2)) {
                    fails.push(format!("C12: error literal: {} reported as redefined but is defined once", lit));
                }
            }
            _ => fails.push(format!("C12: doubly defined literal not reported (got {})", short(&obs))),
        }
    } else {
        let an = analyse(net, &defs, &net.roots(cfg.0));
        if an.undefined || an.cycle {
            class = match (an.undefined, an.cycle) {
                (true, true) => "undef+cycle",
                (true, false) => "undef",
                _ => "cycle",
            }
            .into();
            let what = format!("undefined={} cycle={}", an.undefined as u8, an.cycle as u8);
            match &res {
                Ok(_) => fails.push(format!("C12: ill-formed graph accepted ({})", what)),
                Err(("LitNotDefined", lit)) => {
                    if !an.undefined {
                        fails.push(format!("C12: wrong error kind {} ({})", obs, what));
                    } else if defs.contains_key(&(lit / 2)) || !an.reach.contains(&(lit / 2)) {
                        fails.push(format!("C12: error literal: {} is not a reachable undefined literal", lit));
                    }
                }
                Err(("FoundCycle", lit)) => {
                    if !an.cycle {
                        fails.push(format!("C12: wrong error kind {} ({})", obs, what));
                    } else if !an.reach.contains(&(lit / 2)) || !on_cycle(net, &defs, lit / 2) {
                        fails.push(format!("C12: error literal: {} is not on a reachable cycle", lit));
                    }
                }
                Err(_) => fails.push(format!("C12: wrong error kind {} ({})", obs, what)),
            }
        } else {
            let n = net.inputs.len() + net.latches.len();
            class = format!("wf {}", if n <= 6 { "exhaustive" } else { "random" });
            match &res {
                Err(_) => fails.push(format!("C12: well-formed graph rejected: {}", obs)),
                Ok((ord, _)) => check_ok(line, net, cfg, &defs, &an, ord, &get, &entries, &mut fails),
            }
        }
    }
    if std::env::var_os("VH_C12_STATS").is_some() {
        eprintln!("c12-stat cfg={}{}{} class={}", cfg.0 as u8, cfg.1 as u8, cfg.2 as u8, class);
    }
    (obs, fails.0)
}

// ------------------------------------------------------------------------------------ deep cases

/// Inputs `2` and `4`; gate `i` (1..=n) has output `2*(i+2)`, `g_i = g_{i-1} & 2` with
/// `g_0 = 4` (chain) or `g_0 = g_n` (cycle); gates listed top first, one output at the top.
fn deep_aig(cycle: bool, n: usize) -> Aig<usize> {
    let out = |i: usize| 2 * (i + 2);
    let mut gates = Vec::with_capacity(n);
    for i in (1..=n).rev() {
        let below = if i > 1 {
            out(i - 1)
        } else if cycle {
            out(n)
        } else {
            4
        };
        gates.push(AndGate { inputs: [below, 2], output: out(i) });
    }
    Aig {
        max_var_index: n + 2,
        inputs: vec![2, 4],
        outputs: vec![out(n)],
        and_gates: gates,
        ..Default::default()
    }
}

fn run_deep(shape: &str, n: usize) -> (String, Vec<String>) {
    let n = n.max(1);
    let cycle = shape == "cycle";
    let expect = if cycle { "err:FoundCycle" } else { "ok" };
    // one thread with a deliberately small stack per configuration; two at a time (the runs are
    // independent; all four at once would need ~0.7 GB for n = 10^6)
    let aig = std::sync::Arc::new(deep_aig(cycle, n));
    let mut results: Vec<(String, String)> = vec![];
    for pair in [[(true, false), (false, false)], [(true, true), (false, true)]] {
        let mut handles = vec![];
        for (t, hf) in pair {
            let aig = aig.clone();
            let tag = format!("{}{}{}", t as u8, hf as u8, hf as u8);
            let h = std::thread::Builder::new().stack_size(256 * 1024).spawn(move || {
                catch(|| match Renumber::renumber_aig(config((t, hf, hf)), &aig) {
                    Ok((ord, _ren)) => {
                        if ord.and_gates.len() == n && ord.max_var_index == n + 2 {
                            "ok".to_string()
                        } else {
                            format!("ok-gates={}", ord.and_gates.len())
                        }
                    }
                    Err(e) => format!("err:{}", err_kind(&e).0),
                })
                .unwrap_or_else(|| "panic".to_string())
            });
            handles.push((tag, h));
        }
        for (tag, h) in handles {
            results.push(match h.map(|h| h.join()) {
                Ok(Ok(r)) => (tag, r),
                _ => (tag, "thread-died".to_string()),
            });
        }
    }
    let mut fails = Fails(vec![]);
    let mut obs = expect.to_string();
    for (c, r) in &results {
        if r == "panic" {
            fails.push("C12: renumber_aig panicked".into());
        }
        if r != expect {
            if obs == expect {
                obs = r.clone();
            }
            fails.push(format!("C12: deep {} n={} cfg={}: expected {} got {}", shape, n, c, expect, r));
        }
    }
    (format!("deep:{}", obs), fails.0)
}

pub fn deep_cases(thorough: bool) -> Vec<String> {
    if opt_is_scale() {
        return vec![]; // `main.rs` prepends the deep cases to every renumber run; the scale family has its own
    }
    let n = if thorough { 1_000_000 } else { 100_000 };
    vec![format!("renumber deep=chain n={}", n), format!("renumber deep=cycle n={}", n)]
}

// ------------------------------------------------------------------------------------ generator

fn shuffle<T>(rng: &mut Rng, v: &mut [T]) {
    for i in (1..v.len()).rev() {
        let j = rng.below(i as u64 + 1) as usize;
        v.swap(i, j);
    }
}

/// A literal over the signals defined so far (`sig` holds defining literals in hidden
/// topological order) or a constant; random polarity; biased towards the most recent signals.
fn operand(rng: &mut Rng, sig: &[usize]) -> usize {
    if sig.is_empty() || rng.chance(1, 10) {
        return rng.below(2) as usize;
    }
    let len = sig.len();
    let idx = if rng.chance(1, 2) {
        rng.below(len as u64) as usize
    } else {
        len - 1 - rng.below(len.min(4) as u64) as usize
    };
    sig[idx] ^ rng.below(2) as usize
}

fn lits(rng: &mut Rng, sig: &[usize], max: u64) -> Vec<usize> {
    let k = if rng.chance(1, 4) { 0 } else { rng.range(0, max) };
    (0..k).map(|_| operand(rng, sig)).collect()
}

/// A random graph, its configuration and the name of the ill-formed mutation applied to it.
fn gen_net(rng: &mut Rng, thorough: bool) -> (Net, Cfg, &'static str) {
    gen_net_sized(rng, thorough, None)
}

/// `fill = Some(v)`: exactly `v` variables and a numbering without holes (every variable of a
/// narrow literal type is in use).
fn gen_net_sized(rng: &mut Rng, thorough: bool, fill: Option<usize>) -> (Net, Cfg, &'static str) {
    let nv = if let Some(v) = fill {
        v as u64
    } else if rng.chance(1, 2) {
        rng.range(1, 8)
    } else if thorough && rng.chance(1, 10) {
        rng.range(100, 2000)
    } else {
        rng.range(1, if thorough { 80 } else { 40 })
    } as usize;
    let mut ni = rng.range(0, nv.min(1 + nv / 3) as u64) as usize;
    if rng.chance(1, 8) {
        ni = 0;
    }
    let mut nl = rng.range(0, (nv - ni).min(1 + nv / 4) as u64) as usize;
    if rng.chance(1, 8) {
        nl = 0;
    }
    let mut na = nv - ni - nl;
    if rng.chance(1, 5) {
        na = rng.below(na as u64 + 1) as usize;
    }
    let total = ni + nl + na;

    // arbitrary numbering with holes, unrelated to the topological order
    let span = if fill.is_some() { total } else { total + rng.below(total as u64 / 2 + 3) as usize };
    let mut vars: Vec<usize> = (1..=span).collect();
    shuffle(rng, &mut vars);
    let free: Vec<usize> = vars[total..].to_vec();
    let mut next_var = vars[..total].iter().copied();
    let mut deflit = |rng: &mut Rng| 2 * next_var.next().unwrap() + rng.chance(1, 10) as usize;

    let mut net = Net::default();
    let mut sig: Vec<usize> = vec![];
    for _ in 0..ni {
        let l = deflit(rng);
        net.inputs.push(l);
        sig.push(l);
    }
    for _ in 0..nl {
        let l = deflit(rng);
        let init = match rng.below(3) {
            0 => None,
            1 => Some(false),
            _ => Some(true),
        };
        net.latches.push((l, 0, init));
        sig.push(l);
    }
    for k in 0..na {
        let out = deflit(rng);
        let r = rng.below(100);
        let (a, b) = if r < 15 && k > 0 {
            let (_, a, b) = net.gates[rng.below(k as u64) as usize];
            if rng.chance(1, 2) {
                (b, a)
            } else {
                (a, b)
            }
        } else if r < 23 {
            let x = operand(rng, &sig);
            let y = match rng.below(4) {
                0 => x,
                1 => x ^ 1,
                2 => 0,
                _ => 1,
            };
            if rng.chance(1, 2) {
                (y, x)
            } else {
                (x, y)
            }
        } else {
            (operand(rng, &sig), operand(rng, &sig))
        };
        net.gates.push((out, a, b));
        sig.push(out);
    }
    for j in 0..nl {
        net.latches[j].1 = operand(rng, &sig);
    }
    net.outputs = lits(rng, &sig, 4);
    net.bad = lits(rng, &sig, 4);
    net.constraints = lits(rng, &sig, 4);
    net.fairness = lits(rng, &sig, 4);
    if rng.chance(1, 2) {
        let groups = rng.range(0, 3);
        for _ in 0..groups {
            let k = rng.range(0, 3);
            let g = (0..k).map(|_| operand(rng, &sig)).collect();
            net.justice.push(g);
        }
    }
    let cfg = {
        let c = rng.below(8);
        (c & 4 != 0, c & 2 != 0, c & 1 != 0)
    };

    // one ill-formed mutation (the gates are still in hidden topological order here)
    let mut mutation = "none";
    if rng.chance(35, 100) {
        let mut choice = rng.below(3);
        if choice == 0 && net.gates.is_empty() {
            choice = 1 + rng.below(2);
        }
        if choice == 2 && total == 0 {
            choice = 1;
        }
        match choice {
            0 => {
                mutation = "cycle";
                let g = rng.below(na as u64) as usize;
                let gvar = net.gates[g].0 / 2;
                let mut dep: HashSet<usize> = HashSet::new();
                let mut dependents = vec![];
                dep.insert(gvar);
                for h in g + 1..na {
                    let (o, a, b) = net.gates[h];
                    if dep.contains(&(a / 2)) || dep.contains(&(b / 2)) {
                        dep.insert(o / 2);
                        dependents.push(o);
                    }
                }
                let base = if dependents.is_empty() || rng.chance(3, 10) {
                    net.gates[g].0
                } else {
                    *rng.pick(&dependents)
                };
                let target = base ^ rng.below(2) as usize;
                if rng.chance(1, 2) {
                    net.gates[g].1 = target;
                } else {
                    net.gates[g].2 = target;
                }
                if rng.chance(1, 2) {
                    net.outputs.push(net.gates[g].0 ^ rng.below(2) as usize);
                }
            }
            1 => {
                mutation = "undef";
                let var = if !free.is_empty() && rng.chance(2, 3) {
                    *rng.pick(&free)
                } else {
                    span + 1 + rng.below(3) as usize
                };
                let lit = 2 * var + rng.below(2) as usize;
                // use sites: gate inputs, next states, the property sections
                let mut sites: Vec<(u8, usize, usize)> = vec![];
                for k in 0..na {
                    sites.push((0, k, 0));
                    sites.push((0, k, 1));
                }
                for j in 0..nl {
                    sites.push((1, j, 0));
                }
                for (s, l) in [&net.outputs, &net.bad, &net.constraints, &net.fairness].iter().enumerate() {
                    for i in 0..l.len() {
                        sites.push((2 + s as u8, i, 0));
                    }
                }
                for (gi, g) in net.justice.iter().enumerate() {
                    for i in 0..g.len() {
                        sites.push((6, gi, i));
                    }
                }
                if sites.is_empty() {
                    net.outputs.push(lit);
                } else {
                    let (kind, i, j) = *rng.pick(&sites);
                    match kind {
                        0 => {
                            if j == 0 {
                                net.gates[i].1 = lit;
                            } else {
                                net.gates[i].2 = lit;
                            }
                            if rng.chance(1, 2) {
                                net.bad.push(net.gates[i].0 ^ rng.below(2) as usize);
                            }
                        }
                        1 => net.latches[i].1 = lit,
                        2 => net.outputs[i] = lit,
                        3 => net.bad[i] = lit,
                        4 => net.constraints[i] = lit,
                        5 => net.fairness[i] = lit,
                        _ => net.justice[i][j] = lit,
                    }
                }
            }
            _ => {
                mutation = "dup";
                // (kind, index): 0 input, 1 latch, 2 gate
                let kinds: Vec<u8> = [(0u8, ni), (1, nl), (2, na)]
                    .iter()
                    .filter(|k| k.1 > 0)
                    .map(|k| k.0)
                    .collect();
                let count = |k: u8| match k {
                    0 => ni,
                    1 => nl,
                    _ => na,
                };
                let get = |net: &Net, k: u8, i: usize| match k {
                    0 => net.inputs[i],
                    1 => net.latches[i].0,
                    _ => net.gates[i].0,
                };
                let sk = *rng.pick(&kinds);
                let si = rng.below(count(sk) as u64) as usize;
                // target kind: 3 = constant
                let mut tkinds: Vec<u8> = vec![3];
                for &k in &kinds {
                    if k != sk || count(k) > 1 {
                        tkinds.push(k);
                    }
                }
                let tk = *rng.pick(&tkinds);
                let lit = if tk == 3 {
                    rng.below(2) as usize
                } else {
                    let mut ti = rng.below(count(tk) as u64) as usize;
                    if tk == sk && ti == si {
                        ti = (ti + 1) % count(tk);
                    }
                    get(&net, tk, ti) ^ rng.below(2) as usize
                };
                match sk {
                    0 => net.inputs[si] = lit,
                    1 => net.latches[si].0 = lit,
                    _ => net.gates[si].0 = lit,
                }
            }
        }
    }
    shuffle(rng, &mut net.gates);
    (net, cfg, mutation)
}

pub fn gen_case(rng: &mut Rng, thorough: bool) -> String {
    if opt_is_scale() {
        return gen_scale_case(rng, thorough);
    }
    if rng.chance(1, 500) {
        return deep_cases(false)[rng.below(2) as usize].clone();
    }
    // The literal type: `usize` with small codes (no `ty` field) in two cases out of five; otherwise
    // any of the five types, mostly with the numbering moved to the top of the type's range, so that
    // the type's last variable (codes MAX_CODE - 1 / MAX_CODE) is an input, a latch, a gate output,
    // a negated reference, a second definition or a dangling reference like any other variable;
    // for `u8` sometimes with every one of the 127 variables in use.
    if rng.chance(2, 5) {
        let (net, cfg, _mutation) = gen_net(rng, thorough);
        return net.line(cfg);
    }
    let (ty, maxcode) = *rng.pick(TYPES);
    let maxvar = (maxcode / 2) as usize;
    let fill = if ty == "u8" && rng.chance(1, 8) { Some(maxvar - rng.below(3) as usize) } else { None };
    let (mut net, cfg, _mutation) = gen_net_sized(rng, thorough, fill);
    let used = net.max_code() / 2;
    if used > maxvar {
        // does not fit the narrow type (a dangling reference beyond the last variable): as before
        return net.line(cfg);
    }
    if used > 0 && rng.chance(3, 4) {
        let slack = match rng.below(8) { 0 => 1, 1 => 2, 2 => rng.below((maxvar - used) as u64 + 1) as usize, _ => 0 };
        let shift = 2 * (maxvar - used).saturating_sub(slack);
        let mv = |x: &mut usize| if *x >= 2 { *x += shift; };
        net.inputs.iter_mut().for_each(mv);
        net.latches.iter_mut().for_each(|l| { mv(&mut l.0); mv(&mut l.1); });
        net.gates.iter_mut().for_each(|g| { mv(&mut g.0); mv(&mut g.1); mv(&mut g.2); });
        for l in [&mut net.outputs, &mut net.bad, &mut net.constraints, &mut net.fairness] { l.iter_mut().for_each(mv); }
        net.justice.iter_mut().flatten().for_each(mv);
    }
    net.line_ty(cfg, ty)
}

// ------------------------------------------------------------------------------------ scale cases
//
// A scale case describes its circuit by a generator spec which the Lean driver
// (`Driver/EngRenumber.lean`, `expandSpec`) expands in exactly the same way:
//
//   renumber cfg=<thf> ni=<N> nl=<N> ord=<f|r|s<seed>> num=<i|r|h|b> pol=<p> gs=<gate segments>
//            ln=<lits> outputs=<lits> bad=<lits> constraints=<lits> fairness=<lits>
//            justice=<lits;lits|-> [shape=<name>] [big=1]
//
// Canonical numbering: variable 0 is the constant, 1..ni the inputs, ni+1..ni+nl the latches,
// ni+nl+1+k the k-th allocating gate (T = ni+nl+#allocating gates variables); a canonical code is
// 2*var + negation.  All codes in the spec are canonical; `num`/`pol` map them to the literals of
// the `Aig` (`canon_to_orig`), `ord` permutes the gate list.
//
// Gate segments (`+`-joined, `-` = none); `cur` = number of allocating gates so far:
//   x<a>.<b>                         one gate, inputs a and b
//   c<count>.<a0>.<da>.<b0>.<db>     gate i has inputs a0+i*da, b0+i*db (steps may be negative)
//   p<lo1>.<n1>.<lo2>.<n2>           all n1*n2 gates (lo1+i, lo2+j), i outer
//   g<count>.<seed>.<win>            random gates over the `win` most recent signals (0 = all)
//   o<out>.<a>.<b>                   non-allocating gate with explicit output code (redefinitions)
//   k<pairs>.<seed>                  2*pairs gates: pairs of gates over the signals defined so far
//                                    whose input pairs collide under some combined-key function
//                                    (`collision_pairs`); implementation side only (`big=1`)
// Literal lists (`+`-joined, `-` = empty): <lit> | c<count>.<start>.<step> | g<count>.<seed>
// (random codes below 2T+2).  `ln` = next-state literals of the latches (padded with 0); latch j
// has initialization x,0,1 for j%3 = 0,1,2.

fn parse_i64(s: &str) -> i64 {
    s.parse().unwrap_or_else(|_| panic!("bad number {}", s))
}

fn seg_parts(s: &str) -> (u8, Vec<&str>) {
    (s.as_bytes()[0], s[1..].split('.').collect())
}

fn seg_list(s: &str) -> Vec<&str> {
    if s == "-" || s.is_empty() {
        vec![]
    } else {
        s.split('+').collect()
    }
}

/// Number of variable-allocating gates of a gate spec.
fn spec_gate_count(gs: &str) -> usize {
    let mut n = 0usize;
    for seg in seg_list(gs) {
        let (kind, p) = seg_parts(seg);
        n += match kind {
            b'x' => 1,
            b'c' | b'g' => p[0].parse::<usize>().unwrap(),
            b'p' => p[1].parse::<usize>().unwrap() * p[3].parse::<usize>().unwrap(),
            b'k' => 2 * p[0].parse::<usize>().unwrap(),
            b'o' => 0,
            _ => panic!("bad gate segment {}", seg),
        };
    }
    n
}

fn pick_signal(r: u64, s: usize, win: usize) -> usize {
    if s == 0 || (r >> 60) == 0 {
        return (r & 1) as usize;
    }
    let w = if win == 0 || win > s { s } else { win };
    let v = s - ((r >> 1) % w as u64) as usize;
    2 * v + (r & 1) as usize
}

/// Gates in canonical codes, generation order: (output, input 0, input 1).
fn expand_gates(gs: &str, base: usize) -> Vec<(usize, usize, usize)> {
    let mut out: Vec<(usize, usize, usize)> = Vec::with_capacity(spec_gate_count(gs) + 8);
    let mut cur = 0usize;
    let mut alloc = |out: &mut Vec<(usize, usize, usize)>, a: usize, b: usize| {
        out.push((2 * (base + 1 + cur), a, b));
        cur += 1;
        cur
    };
    let mut cur_now = 0usize;
    for seg in seg_list(gs) {
        let (kind, p) = seg_parts(seg);
        match kind {
            b'x' => cur_now = alloc(&mut out, p[0].parse().unwrap(), p[1].parse().unwrap()),
            b'c' => {
                let (count, a0, da, b0, db) =
                    (parse_i64(p[0]), parse_i64(p[1]), parse_i64(p[2]), parse_i64(p[3]), parse_i64(p[4]));
                for i in 0..count {
                    cur_now = alloc(&mut out, (a0 + i * da).max(0) as usize, (b0 + i * db).max(0) as usize);
                }
            }
            b'p' => {
                let (lo1, n1, lo2, n2): (usize, usize, usize, usize) =
                    (p[0].parse().unwrap(), p[1].parse().unwrap(), p[2].parse().unwrap(), p[3].parse().unwrap());
                for i in 0..n1 {
                    for j in 0..n2 {
                        cur_now = alloc(&mut out, lo1 + i, lo2 + j);
                    }
                }
            }
            b'g' => {
                let count: usize = p[0].parse().unwrap();
                let mut rng = Rng::new(p[1].parse().unwrap());
                let win: usize = p[2].parse().unwrap();
                for _ in 0..count {
                    let s = base + cur_now;
                    let r1 = rng.next();
                    let r2 = rng.next();
                    cur_now = alloc(&mut out, pick_signal(r1, s, win), pick_signal(r2, s, win));
                }
            }
            b'o' => out.push((p[0].parse().unwrap(), p[1].parse().unwrap(), p[2].parse().unwrap())),
            b'k' => {
                let pairs: usize = p[0].parse().unwrap();
                let mut rng = Rng::new(p[1].parse().unwrap());
                let top = 2 * (base + cur_now) + 1;
                let found = collision_pairs(&mut rng, top as u64, pairs, &key_fns());
                assert!(found.len() == pairs);
                for (g1, g2) in found {
                    alloc(&mut out, g1.0 as usize, g1.1 as usize);
                    cur_now = alloc(&mut out, g2.0 as usize, g2.1 as usize);
                }
            }
            _ => panic!("bad gate segment {}", seg),
        }
    }
    out
}

fn expand_lits(s: &str, total: usize) -> Vec<usize> {
    let mut out = vec![];
    for seg in seg_list(s) {
        match seg.as_bytes()[0] {
            b'c' => {
                let p: Vec<&str> = seg[1..].split('.').collect();
                let (count, start, step) = (parse_i64(p[0]), parse_i64(p[1]), parse_i64(p[2]));
                for i in 0..count {
                    out.push((start + i * step).max(0) as usize);
                }
            }
            b'g' => {
                let p: Vec<&str> = seg[1..].split('.').collect();
                let count: usize = p[0].parse().unwrap();
                let mut rng = Rng::new(p[1].parse().unwrap());
                for _ in 0..count {
                    out.push((rng.next() % (2 * total as u64 + 2)) as usize);
                }
            }
            _ => out.push(seg.parse().unwrap()),
        }
    }
    out
}

/// Canonical code -> literal of the `Aig`.
fn canon_to_orig(c: usize, total: usize, num: u8, pol: usize) -> usize {
    let v = c / 2;
    if v == 0 {
        return c;
    }
    let m = match num {
        b'r' if v <= total => total + 1 - v,
        b'h' => 3 * v + 1,
        b'b' => (1usize << 31) - total / 2 + v,
        _ => v,
    };
    let odd = (pol > 0 && v % pol == 0) as usize;
    2 * m + ((c & 1) ^ odd)
}

fn expand_spec(f: &Fields) -> (Net, Cfg) {
    let cfg = parse_cfg(f.get("cfg"));
    let ni = f.num("ni");
    let nl = f.num("nl");
    let base = ni + nl;
    let gs = f.get("gs");
    let total = base + spec_gate_count(gs);
    let num = f.get("num").as_bytes()[0];
    let pol = f.num("pol");
    let tr = |c: usize| canon_to_orig(c, total, num, pol);
    let mut gates = expand_gates(gs, base);
    let ord = f.get("ord");
    match ord.as_bytes()[0] {
        b'r' => gates.reverse(),
        b's' => {
            let mut rng = Rng::new(ord[1..].parse().unwrap());
            shuffle(&mut rng, &mut gates);
        }
        _ => (),
    }
    let lits = |k: &str| -> Vec<usize> { expand_lits(f.get(k), total).into_iter().map(tr).collect() };
    let next = expand_lits(f.get("ln"), total);
    let j = f.get("justice");
    let net = Net {
        inputs: (0..ni).map(|i| tr(2 * (i + 1))).collect(),
        latches: (0..nl)
            .map(|j| {
                let init = match j % 3 {
                    0 => None,
                    1 => Some(false),
                    _ => Some(true),
                };
                (tr(2 * (ni + 1 + j)), tr(next.get(j).copied().unwrap_or(0)), init)
            })
            .collect(),
        gates: gates.into_iter().map(|(o, a, b)| (tr(o), tr(a), tr(b))).collect(),
        outputs: lits("outputs"),
        bad: lits("bad"),
        constraints: lits("constraints"),
        justice: if j == "-" || j.is_empty() {
            vec![]
        } else {
            j.split(';')
                .map(|g| if g == "e" { vec![] } else { expand_lits(g, total).into_iter().map(tr).collect() })
                .collect()
        },
        fairness: lits("fairness"),
    };
    (net, cfg)
}

// ---- combined-key functions and colliding gate pairs (generator side only)

/// `key(hi, lo) = (g(x) op y) mod 2^w` with `g(x) = x*k` or `x << k`, `(x, y) = (hi, lo)` or
/// `(lo, hi)`: the ways of packing the two sorted input codes of a gate into one word.
#[derive(Clone, Copy, Debug)]
struct KeyFn {
    k: u64,
    shift: bool,
    w: u32,
    /// 0 xor, 1 wrapping add, 2 or; 3 / 4: no packing at all, but bit `k` of one of the two codes
    /// is ignored (what a truncating cast or a mask does to a code)
    op: u8,
    /// false: g applied to the larger code, true: to the smaller
    on_lo: bool,
}

impl KeyFn {
    fn mask(&self) -> u64 {
        if self.w >= 64 {
            u64::MAX
        } else {
            (1u64 << self.w) - 1
        }
    }
    fn g(&self, x: u64) -> u64 {
        if self.shift {
            if self.k >= 64 {
                0
            } else {
                x << self.k
            }
        } else {
            x.wrapping_mul(self.k)
        }
    }
    fn key(&self, hi: u64, lo: u64) -> u64 {
        if self.op >= 3 {
            let bit = 1u64 << self.k;
            let (h, l) = if (self.op == 3) != self.on_lo { (hi, lo & !bit) } else { (hi & !bit, lo) };
            return h.wrapping_mul(0x9E3779B97F4A7C15) ^ l;
        }
        let (x, y) = if self.on_lo { (lo, hi) } else { (hi, lo) };
        let v = match self.op {
            0 => self.g(x) ^ y,
            1 => self.g(x).wrapping_add(y),
            _ => self.g(x) | y,
        };
        v & self.mask()
    }
    /// `y2` (least residue modulo 2^w) with `key(x, y) == key(x2, y2)`; none for `or`.
    fn solve(&self, x: u64, y: u64, x2: u64) -> Option<u64> {
        match self.op {
            0 => Some((self.g(x) ^ y ^ self.g(x2)) & self.mask()),
            1 => Some(self.g(x).wrapping_add(y).wrapping_sub(self.g(x2)) & self.mask()),
            _ => None,
        }
    }
}

/// Multipliers: small numbers, 2^k +- 1, primes next to powers of ten and two, the multipliers of
/// well-known string / integer / tuple hashes, and every integer constant of the current source.
fn multipliers() -> Vec<u64> {
    let mut v: Vec<u64> = vec![
        0, 1, 2, 3, 5, 6, 7, 9, 10, 11, 13, 19, 29, 31, 33, 37, 41, 53, 61, 101, 131, 137, 251, 257, 263, 509, 521,
        1009, 1013, 1021, 1031, 4093, 4099, 8191, 10007, 16381, 16411, 32749, 65521, 65599, 69069, 100003, 131071,
        262139, 524287, 999983, 1000003, 1048573, 1048583, 2097143, 10000019, 16777213, 16777619, 100000007,
        1000000007, 1000000009, 1103515245, 1664525, 214013, 22695477, 2147483647, 2147483629, 2654435761,
        2654435769, 0x9E3779B1, 0x85EBCA6B, 0xC2B2AE35, 0xCC9E2D51, 0x1B873593, 0x27D4EB2D, 0x165667B1,
        4294967291, 4294967311, 0x9E3779B97F4A7C15, 0x100000001B3, 6364136223846793005, 0x517CC1B727220A95,
        0xFF51AFD7ED558CCD, 0xC4CEB9FE1A85EC53, 0xBF58476D1CE4E5B9, 0x94D049BB133111EB, 0x2545F4914F6CDD1D,
        0x9FB21C651E98DF25, 11400714819323198485, 14029467366897019727, 1609587929392839161,
    ];
    for k in 1..=40 {
        v.extend([(1u64 << k) - 1, 1u64 << k, (1u64 << k) + 1]);
    }
    let mut p = 10u64;
    for _ in 0..12 {
        v.extend([p - 1, p, p + 1, p + 3, p + 7, p + 9]);
        p *= 10;
    }
    v.extend(source_consts());
    v.sort_unstable();
    v.dedup();
    v
}

fn key_fns() -> Vec<KeyFn> {
    let mut v = vec![];
    for on_lo in [false, true] {
        for w in [64u32, 32, 16] {
            for op in 0..3u8 {
                for k in multipliers() {
                    v.push(KeyFn { k, shift: false, w, op, on_lo });
                }
                for k in 1..=40u64 {
                    v.push(KeyFn { k, shift: true, w, op, on_lo });
                }
            }
        }
        for op in 3..=4u8 {
            for k in 0..=24u64 {
                v.push(KeyFn { k, shift: true, w: 64, op, on_lo });
            }
        }
    }
    v
}

type GatePair = ((u64, u64), (u64, u64));

/// A code in `2..=top`: near the top, near a power of two (or a small multiple), or anywhere.
fn pick_code(rng: &mut Rng, top: u64) -> u64 {
    let c = match rng.below(4) {
        0 => top - rng.below(64.min(top - 1)),
        1 => {
            let bits = 64 - top.leading_zeros() as u64;
            let p = (1u64 << rng.range(2, bits.max(3) - 1)) * rng.range(1, 3);
            (p + rng.below(17)).saturating_sub(8)
        }
        _ => rng.range(2, top),
    };
    c.clamp(2, top)
}

/// Differences `d <= top` of the multiplied code for which `g(x + d) - g(x)` is small modulo 2^w
/// (`|d*k mod 2^w| <= top`): the remainders of the Euclidean algorithm on (2^w, k).  For such a
/// `d` the other code only has to move by a small amount to restore the key.
fn small_deltas(kf: &KeyFn, top: u64) -> Vec<u64> {
    if kf.shift {
        return vec![];
    }
    let m: i128 = 1i128 << kf.w;
    let k = (kf.k as i128) % m;
    let (mut r0, mut r1) = (m, k);
    let (mut d0, mut d1) = (0i128, 1i128);
    let mut out = vec![];
    while r1 != 0 && d1.abs() <= top as i128 {
        if r1.abs() <= top as i128 {
            out.push(d1.unsigned_abs() as u64);
        }
        let q = r0 / r1;
        (r0, r1) = (r1, r0 - q * r1);
        (d0, d1) = (d1, d0 - q * d1);
    }
    out
}

/// One attempt at two different gates (larger input first, no constants, no `x & x`, `x & !x`)
/// with equal keys and all codes in `2..=top`.
fn try_pair(rng: &mut Rng, kf: &KeyFn, top: u64, deltas: &[u64]) -> Option<GatePair> {
    if top < 8 {
        return None;
    }
    let ok = |a: u64, b: u64| a <= top && b >= 2 && a > b && a / 2 != b / 2;
    if kf.op >= 3 {
        let a = pick_code(rng, top).max(4);
        let b = if rng.chance(1, 3) { pick_code(rng, a - 1) } else { rng.range(2, a - 1) };
        let bit = 1u64 << kf.k;
        let (a2, b2) = if (kf.op == 3) != kf.on_lo { (a, b ^ bit) } else { (a ^ bit, b) };
        if !ok(a, b) || !ok(a2, b2) || kf.key(a, b) != kf.key(a2, b2) {
            return None;
        }
        return Some(((a, b), (a2, b2)));
    }
    // (x, y) are the roles of `KeyFn::key`: x goes through g
    let x = pick_code(rng, top);
    let bits = 64 - top.leading_zeros() as u64;
    let x2 = match rng.below(if deltas.is_empty() { 20 } else { 32 }) {
        20.. => {
            let d = *rng.pick(deltas) * rng.range(1, 2);
            if rng.chance(1, 2) {
                x + d
            } else {
                x.saturating_sub(d)
            }
        }
        0..=7 => {
            if rng.chance(1, 2) {
                x + 1
            } else {
                x - 1
            }
        }
        8..=10 => {
            let d = rng.range(2, 8);
            if rng.chance(1, 2) {
                x + d
            } else {
                x.saturating_sub(d)
            }
        }
        11..=13 => x ^ (1 << rng.below(bits)),
        14..=15 => {
            let d = 1 << rng.below(bits);
            if rng.chance(1, 2) {
                x + d
            } else {
                x.saturating_sub(d)
            }
        }
        _ => pick_code(rng, top),
    }
    .clamp(2, top);
    let x2 = if kf.op == 2 { x } else { x2 };
    let (lo_y, hi_y) = if kf.on_lo { (x.max(x2) + 1, top) } else { (2, x.min(x2).saturating_sub(1)) };
    if lo_y > hi_y {
        return None;
    }
    let y = if rng.chance(1, 3) { pick_code(rng, hi_y).max(lo_y) } else { rng.range(lo_y, hi_y) };
    let y2 = match kf.solve(x, y, x2) {
        Some(r) => {
            // any representative r + j*2^w in range
            if kf.w < 64 && hi_y > r && (hi_y - r) >> kf.w > 0 {
                r + (rng.below(((hi_y - r) >> kf.w) + 1) << kf.w)
            } else {
                r
            }
        }
        None => {
            // or: switch on bits of y that g(x2) = g(x) provides anyway
            if x2 != x {
                return None;
            }
            y | (kf.g(x) & rng.next() & rng.next())
        }
    };
    let pair = if kf.on_lo { ((y, x), (y2, x2)) } else { ((x, y), (x2, y2)) };
    let ((a, b), (a2, b2)) = pair;
    if !ok(a, b) || !ok(a2, b2) || (a, b) == (a2, b2) || kf.key(a, b) != kf.key(a2, b2) {
        return None;
    }
    Some(pair)
}

/// Exactly `count` pairs of gates over the codes `2..=top`: round robin over the key functions
/// (random starting point), a few attempts each; padded with equal-sum pairs.
fn collision_pairs(rng: &mut Rng, top: u64, count: usize, fns: &[KeyFn]) -> Vec<GatePair> {
    let mut out = Vec::with_capacity(count);
    if top >= 16 && !fns.is_empty() {
        let start = rng.below(fns.len() as u64) as usize;
        let mut round = 0;
        let mut dead = vec![false; fns.len()];
        while out.len() < count && round < 6 {
            for i in 0..fns.len() {
                if out.len() >= count {
                    break;
                }
                if dead[i] {
                    continue;
                }
                let kf = &fns[(start + i) % fns.len()];
                // `x*k op y` without wrap-around is injective for k > 2*top (xor, add); the huge
                // multipliers wrap, but a random search will not find their coincidences
                let attempts = if kf.w == 64 && !kf.shift && kf.op < 2 && kf.k > 2 * top {
                    if kf.k < 1 << 40 {
                        0
                    } else {
                        20
                    }
                } else {
                    400
                };
                let mut hit = false;
                let deltas = if attempts > 0 { small_deltas(kf, top) } else { vec![] };
                for _ in 0..attempts {
                    if let Some(p) = try_pair(rng, kf, top, &deltas) {
                        out.push(p);
                        hit = true;
                        if std::env::var_os("VH_C12_PAIRS").is_some() {
                            eprintln!("c12-pair {:?} {:?}", kf, p);
                        }
                        break;
                    }
                }
                dead[i] = !hit;
                if !hit && attempts > 0 && std::env::var_os("VH_C12_STATS").is_some() {
                    eprintln!("c12-stat no pair for {:?} top={}", kf, top);
                }
            }
            round += 1;
        }
    }
    while out.len() < count {
        // (a, b), (a+1, b-1) — or the same gate twice on a tiny circuit
        let t = top.max(9);
        let a = rng.range(6, t - 1);
        let b = rng.range(3, a - 2);
        out.push(if a / 2 != (b - 1) / 2 && b - 1 >= 2 && a + 1 <= top { ((a, b), (a + 1, b - 1)) } else { ((5, 2), (5, 2)) });
    }
    out
}

// ---- generator of scale cases (`vh gen renumber --opt scale`)

/// `main.rs` does not hand the option string to this engine: read it from the command line.
fn opt_is_scale() -> bool {
    let args: Vec<String> = std::env::args().collect();
    args.iter().position(|a| a == "--opt").and_then(|i| args.get(i + 1)).map(|s| s == "scale").unwrap_or(false)
}

static SCALE_IDX: AtomicUsize = AtomicUsize::new(0);
/// Estimated cost of the cases generated so far, in milliseconds (model, implementation).
static SCALE_MODEL_MS: AtomicUsize = AtomicUsize::new(0);
static SCALE_IMPL_MS: AtomicUsize = AtomicUsize::new(0);

/// Estimated milliseconds of the Lean model (association lists: quadratic) on a circuit with
/// `base` inputs + latches, `ng` gates and DFS depth `depth`.
fn est_model_ms(base: usize, ng: usize, depth: usize) -> usize {
    let (b, g, d) = (base as f64, ng as f64, depth as f64);
    (3.0e-6 * b * b + 4.0e-5 * g * g + 2.0e-5 * g * b + 4.0e-4 * d * d) as usize + 1
}

/// Estimated milliseconds of implementation + oracle in a debug build.
fn est_impl_ms(total: usize) -> usize {
    total / 330 + 1
}

/// Builder of a spec: counts the allocating gates so that later segments can refer to the codes
/// of earlier gates.
struct SpecBuilder {
    ni: usize,
    nl: usize,
    cur: usize,
    segs: Vec<String>,
    /// longest dependency chain built so far (for the model cost estimate)
    depth: usize,
}

impl SpecBuilder {
    fn new(ni: usize, nl: usize) -> Self {
        SpecBuilder { ni, nl, cur: 0, segs: vec![], depth: 1 }
    }
    fn base(&self) -> usize {
        self.ni + self.nl
    }
    /// number of signals defined so far
    fn sig(&self) -> usize {
        self.base() + self.cur
    }
    /// largest code defined so far
    fn top(&self) -> usize {
        2 * self.sig() + 1
    }
    /// code of allocating gate `k`
    fn gate(&self, k: usize) -> usize {
        2 * (self.base() + 1 + k)
    }
    fn x(&mut self, a: usize, b: usize) {
        self.segs.push(format!("x{}.{}", a, b));
        self.cur += 1;
    }
    fn c(&mut self, count: usize, a0: usize, da: i64, b0: usize, db: i64) {
        if count > 0 {
            self.segs.push(format!("c{}.{}.{}.{}.{}", count, a0, da, b0, db));
            self.cur += count;
        }
    }
    fn p(&mut self, lo1: usize, n1: usize, lo2: usize, n2: usize) {
        if n1 * n2 > 0 {
            self.segs.push(format!("p{}.{}.{}.{}", lo1, n1, lo2, n2));
            self.cur += n1 * n2;
        }
    }
    fn g(&mut self, count: usize, seed: u64, win: usize) {
        if count > 0 {
            self.segs.push(format!("g{}.{}.{}", count, seed, win));
            self.cur += count;
        }
    }
    fn k(&mut self, pairs: usize, seed: u64) {
        if pairs > 0 {
            self.segs.push(format!("k{}.{}", pairs, seed));
            self.cur += 2 * pairs;
        }
    }
    fn o(&mut self, out: usize, a: usize, b: usize) {
        self.segs.push(format!("o{}.{}.{}", out, a, b));
    }
    fn gs(&self) -> String {
        if self.segs.is_empty() {
            "-".into()
        } else {
            self.segs.join("+")
        }
    }
}

/// A window start such that `lo .. lo+w` lies within the defined codes.
fn window_at(rng: &mut Rng, top: usize, w: usize) -> usize {
    if top < w + 4 {
        return 2.min(top);
    }
    (pick_code(rng, top as u64) as usize).min(top + 1 - w).max(2)
}

/// Gates probing the structural-hash / constant-fold machinery at the codes defined so far:
/// all pairs between small windows of codes (top of the range, next to powers of two, anywhere;
/// a window with itself gives `x&x`, `x&!x`, swapped and duplicate pairs), arithmetic progressions
/// of pairs (equal sum, equal difference, adjacent) and pairs colliding under combined-key
/// functions.  `small` = the case also runs through the model.
fn probe_block(rng: &mut Rng, sb: &mut SpecBuilder, small: bool) {
    let top = sb.top();
    if top < 8 {
        return;
    }
    // the colliding pairs first: in the shapes whose bulk is inputs / latches (and for gates listed in
    // order without merges) the codes defined so far are renumbered to themselves
    if small {
        let all = key_fns();
        let sub: Vec<KeyFn> = (0..150).map(|_| *rng.pick(&all)).collect();
        for ((a, b), (a2, b2)) in collision_pairs(rng, top as u64, 24, &sub) {
            sb.x(a as usize, b as usize);
            sb.x(a2 as usize, b2 as usize);
        }
    } else {
        sb.k(key_fns().len(), rng.next() >> 16);
    }
    let bulk_top = top;
    let top = sb.top();
    let (nwin, wmax) = if small { (2, 5) } else { (6, 20) };
    for i in 0..nwin {
        let w1 = rng.range(2, wmax) as usize;
        let w2 = rng.range(2, wmax) as usize;
        let lo1 = match i {
            0 => (top + 1).saturating_sub(w1).max(2),
            1 => (bulk_top + 1).saturating_sub(w1).max(2),
            _ => window_at(rng, top, w1),
        };
        let lo2 = if rng.chance(1, 3) { lo1 } else { window_at(rng, top, w2) };
        sb.p(lo1, w1.min(top + 1 - lo1), lo2, w2.min(top + 1 - lo2));
        if rng.chance(1, 3) {
            // the same pairs again, swapped
            sb.p(lo2, w2.min(top + 1 - lo2), lo1, w1.min(top + 1 - lo1));
        }
    }
    let n = if small { 6 } else { 48 };
    if top > 4 * n + 16 {
        for _ in 0..3 {
            let a0 = rng.range(2 * n as u64 + 4, (top - 2 * n) as u64) as usize;
            let b0 = rng.range(n as u64 + 2, a0 as u64 - n as u64) as usize;
            match rng.below(4) {
                0 => sb.c(n, a0, 1, b0, -1),  // equal sum
                1 => sb.c(n, a0, 1, b0, 1),   // equal difference
                2 => sb.c(n, a0, 2, a0 - 2, 2), // neighbours
                _ => sb.c(n, a0, -2, b0, 2),
            }
        }
    }
}

const DIMS: [&str; 7] = ["inputs", "latches", "gates", "depth", "fanout", "dups", "roots"];

/// (dimension, size) pairs for the sizes that come from source constants.
fn scale_jobs(sizes: &[usize], cap: u32) -> Vec<(usize, usize)> {
    let (lo, hi) = (1u64 << 10, (1u64 << cap) + 64);
    let mut consts: Vec<u64> = source_consts().into_iter().filter(|&c| c >= lo && c <= hi).collect();
    consts.sort_unstable();
    consts.dedup();
    consts.reverse();
    let mut jobs = vec![];
    let mut seen: HashSet<(usize, usize)> = HashSet::new();
    let mut rot = 0;
    for c in consts {
        for s in [c + 9, c + 8, c + 1, c, c - 1] {
            if sizes.contains(&(s as usize)) {
                for d in 0..DIMS.len() {
                    if seen.insert((d, s as usize)) {
                        jobs.push((d, s as usize));
                    }
                }
            }
        }
        for s in [5 * (c + 1), 4 * c + 4, 3 * (c + 1), 2 * c + 1, 2 * c] {
            if sizes.contains(&(s as usize)) {
                for _ in 0..2 {
                    let d = rot % DIMS.len();
                    rot += 1;
                    if seen.insert((d, s as usize)) {
                        jobs.push((d, s as usize));
                    }
                }
            }
        }
    }
    jobs
}

pub fn gen_scale_case(rng: &mut Rng, thorough: bool) -> String {
    let idx = SCALE_IDX.fetch_add(1, Ordering::Relaxed);
    let cap = if thorough { 21 } else { 19 };
    let sizes = scale_sizes(10, cap);
    let above: Vec<usize> = sizes.iter().copied().filter(|&s| s > 1 << cap).collect();
    let (model_budget, impl_budget, model_case_ms) = if thorough { (150_000, 600_000, 12_000) } else { (14_000, 17_000, 2_500) };

    // schedule: the first cases take every dimension beyond 2^cap; then the sizes derived from
    // source constants (largest first; c-1 .. c+9 for every dimension, the multiples for two
    // dimensions each); then sizes next to powers of two, dimension rotating
    let jobs = scale_jobs(&sizes, cap);
    // TOP cases: every dimension beyond 2^cap, then three ill-formed circuits of that size
    // (a cycle through all gates, an undefined literal / a redefinition after all definitions)
    const TOP: usize = 10;
    let forced = match idx {
        7 => "cycle",
        8 => "undef",
        9 => "dup",
        _ => "",
    };
    let (dim, mut size) = if idx < DIMS.len() {
        (DIMS[idx], *rng.pick(&above))
    } else if idx < TOP {
        (["depth", "inputs", "gates"][idx - DIMS.len()], *rng.pick(&above))
    } else if idx - TOP < jobs.len() {
        let (d, s) = jobs[idx - TOP];
        (DIMS[d], s)
    } else {
        (DIMS[idx % DIMS.len()], *rng.pick(&sizes))
    };
    // stay within the implementation budget: shrink the late big cases
    let spent = SCALE_IMPL_MS.load(Ordering::Relaxed);
    while idx >= TOP && size > 4096 && spent + est_impl_ms(2 * size) > impl_budget {
        size /= 4;
    }

    let mut cfg = {
        let c = rng.below(8);
        (c & 4 != 0, c & 2 != 0, c & 1 != 0)
    };
    if rng.chance(1, 2) {
        cfg.1 = true; // structural hashing is where the size-dependent machinery is
    }
    if idx < DIMS.len() {
        cfg.1 = idx != 4;
    }
    let num = *rng.pick(&["i", "i", "i", "r", "h", "b"]);
    let pol = if rng.chance(1, 2) { 0 } else { *rng.pick(&[1usize, 2, 3, 7, 64]) };
    let mut ord = match rng.below(4) {
        0 => "r".to_string(),
        1 => format!("s{}", rng.next() >> 20),
        _ => "f".to_string(),
    };
    let small_n = |rng: &mut Rng| rng.range(1, 12) as usize;
    let mut outputs = String::from("-");
    let mut bad = String::from("-");
    let mut constraints = String::from("-");
    let mut fairness = String::from("-");
    let mut justice = String::from("-");
    let mut ln = String::from("-");
    let mut shape = dim.to_string();
    let mut sb;
    // a first estimate decides whether the model runs; the shapes below keep to it
    let small = {
        let (b, g, d) = match dim {
            "inputs" | "latches" => (size, 600, 1),
            "fanout" => (size / 2 + 4, size + 600, 1),
            "depth" => (8, size + 600, size),
            "roots" => (16, 900, 1),
            _ => (16, size + 600, 1),
        };
        let ms = est_model_ms(b, g, d);
        ms <= model_case_ms && SCALE_MODEL_MS.load(Ordering::Relaxed) + ms <= model_budget
    };
    match dim {
        "inputs" => {
            sb = SpecBuilder::new(size, rng.below(3) as usize);
            ln = format!("g{}.{}", sb.nl, rng.next() >> 20);
        }
        "latches" => {
            sb = SpecBuilder::new(rng.below(5) as usize, size);
            ln = format!("g{}.{}", size, rng.next() >> 20);
        }
        "gates" => {
            sb = SpecBuilder::new(small_n(rng) * small_n(rng), rng.below(3) as usize);
            let win = *rng.pick(&[0usize, 0, 3, 8, 64, 1024]);
            sb.g(size, rng.next() >> 20, win);
            shape = format!("gates-w{}", win);
            ln = format!("g{}.{}", sb.nl, rng.next() >> 20);
        }
        "depth" => {
            sb = SpecBuilder::new(1 + small_n(rng), rng.below(2) as usize);
            let b = sb.base();
            let cyc = rng.chance(1, 8) || forced == "cycle";
            if cyc {
                // the bottom gate hangs on the top gate: a cycle through all `size` gates
                sb.x(sb.gate(size.max(2) - 1) ^ rng.below(2) as usize, 2);
                sb.c(size.max(2) - 1, sb.gate(0), 2, 2 + rng.below(2) as usize, 0);
                shape = "depth-cycle".into();
            } else if rng.chance(1, 2) || b < 2 {
                sb.c(size, 2 * b, 2, 2 + rng.below(2) as usize, 0);
            } else {
                sb.c(size, 2 * b, 2, 2 * (b - 1) + 1, 2);
                shape = "depth-fib".into();
            }
            sb.depth = size;
            if rng.chance(2, 3) {
                ord = if rng.chance(1, 2) { "r".into() } else { format!("s{}", rng.next() >> 20) };
            }
            outputs = format!("{}", sb.gate(sb.cur - 1) ^ rng.below(2) as usize);
        }
        "fanout" => {
            sb = SpecBuilder::new(size / 2 + 4, rng.below(2) as usize);
            sb.x(2, 5);
            let h = sb.gate(0) ^ rng.below(2) as usize;
            sb.c(size, h, 0, 6, 1);
        }
        "dups" => {
            sb = SpecBuilder::new(2 + small_n(rng), rng.below(2) as usize);
            let b = sb.base();
            match rng.below(4) {
                0 => {
                    sb.c(size, 4, 0, 3, 0);
                    shape = "dups-same".into();
                }
                1 => {
                    sb.c(size, 2 * b, 2, 2 * b, 2);
                    shape = "dups-idem".into();
                    sb.depth = size;
                }
                2 => {
                    sb.c(size, 2 * b, 2, 2 * b + 1, 2);
                    shape = "dups-contra".into();
                    sb.depth = size;
                }
                _ => {
                    // the same few pairs over and over, alternately swapped
                    let w = rng.range(2, 4) as usize;
                    let reps = size / (2 * w * w) + 1;
                    for _ in 0..reps.min(40) {
                        sb.p(2, w, 2, w);
                    }
                    sb.c(size.saturating_sub(reps.min(40) * w * w), 5, 0, 2, 0);
                    shape = "dups-window".into();
                }
            }
            if sb.depth > 1 && !small {
                ord = "f".into(); // keeps the recursion of the analysis in the oracle irrelevant; DFS depth is the `depth` dimension
            }
        }
        _ => {
            sb = SpecBuilder::new(small_n(rng) + 2, rng.below(3) as usize);
            sb.g(200 + rng.below(300) as usize, rng.next() >> 20, 0);
            ln = format!("g{}.{}", sb.nl, rng.next() >> 20);
        }
    }
    probe_block(rng, &mut sb, small);

    // one ill-formed variant at scale now and then (the `depth-cycle` shape is one already)
    let mut defect = "none";
    if (idx >= TOP && shape != "depth-cycle" && rng.chance(1, 6)) || forced == "undef" || forced == "dup" {
        let which = match forced {
            "undef" => 0,
            "dup" => 2,
            _ => rng.below(3),
        };
        match which {
            0 => {
                defect = "undef";
                let v = sb.sig() + 2 + rng.below(3) as usize;
                let other = pick_code(rng, sb.top() as u64) as usize;
                sb.x(2 * v + rng.below(2) as usize, other);
            }
            1 => {
                defect = "cycle";
                let g = sb.cur;
                sb.x(sb.gate(g + 1) ^ rng.below(2) as usize, 2);
                sb.x(sb.gate(g) ^ rng.below(2) as usize, 3);
            }
            _ => {
                defect = "dup";
                let v = match rng.below(4) {
                    0 => 1,
                    1 => sb.sig(),
                    2 => sb.base().max(1),
                    _ => rng.range(1, sb.sig() as u64) as usize,
                };
                sb.o(2 * v + rng.below(2) as usize, 2, 4);
            }
        }
    }

    let total = sb.sig();
    let all_gates = format!("c{}.{}.2", sb.cur, sb.gate(0));
    if dim == "roots" {
        // `size` root literals spread over the sections
        let part = |rng: &mut Rng, n: usize| match rng.below(3) {
            0 => format!("g{}.{}", n, rng.next() >> 20),
            1 => format!("c{}.{}.{}", n, rng.below(4), 0),
            _ => format!("c{}.2.1+c{}.{}.-1", n.min(2 * total), n - n.min(2 * total), 2 * total + 1),
        };
        match rng.below(4) {
            0 => outputs = part(rng, size),
            1 => bad = part(rng, size),
            2 => {
                constraints = part(rng, size / 2);
                fairness = part(rng, size - size / 2);
            }
            _ => justice = format!("{};e;{};7", part(rng, size / 2), part(rng, size - size / 2)),
        }
        outputs = if outputs == "-" { all_gates.clone() } else { format!("{}+{}", outputs, all_gates) };
    } else if cfg.0 && dim != "depth" {
        outputs = all_gates.clone();
    } else if dim == "depth" && cfg.0 && rng.chance(1, 2) {
        outputs = format!("{}+{}", outputs, all_gates);
    } else {
        let extra = format!("g{}.{}", rng.below(6), rng.next() >> 20);
        outputs = if outputs == "-" { extra } else { format!("{}+{}", outputs, extra) };
        if rng.chance(1, 3) {
            bad = format!("g{}.{}", 1 + rng.below(4), rng.next() >> 20);
        }
        if rng.chance(1, 3) {
            justice = format!("g{}.{};e", 1 + rng.below(3), rng.next() >> 20);
        }
    }
    if outputs.starts_with("g0.") {
        outputs = "-".into();
    }

    // the model keeps every DFS path alive: deep recursion only when the depth is small
    let deep_walk = if ord == "f" && !cfg.0 { 1 } else { sb.depth };
    let model_ms = est_model_ms(sb.base(), sb.cur, deep_walk);
    let big = !small || model_ms > 2 * model_case_ms;
    if !big {
        SCALE_MODEL_MS.fetch_add(model_ms, Ordering::Relaxed);
    }
    SCALE_IMPL_MS.fetch_add(est_impl_ms(total), Ordering::Relaxed);
    format!(
        "renumber cfg={}{}{} ni={} nl={} ord={} num={} pol={} gs={} ln={} outputs={} bad={} constraints={} justice={} fairness={} shape={} size={} defect={}{}",
        cfg.0 as u8,
        cfg.1 as u8,
        cfg.2 as u8,
        sb.ni,
        sb.nl,
        ord,
        num,
        pol,
        sb.gs(),
        ln,
        outputs,
        bad,
        constraints,
        justice,
        fairness,
        shape,
        size,
        defect,
        if big { " big=1" } else { "" }
    )
}
