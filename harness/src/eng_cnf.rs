//! Engine `cnf`: the DIMACS-family parsers (CNF, WCNF, GCNF, SAT solver log) of `flussab-cnf`.
//!
//! Case: `cnf fmt=<cnf|wcnf|gcnf|log> ty=<i8|i16|i32|i64|isize> cfg=<0|1> k=<fault offset|-> ls=<0|1>
//!        d=<hex> [x=<expected observation>] [t=<corrupted token line:col:len>]`
//!        scale cases: `d` in segment syntax (`common::data_field`), `big=1` (model skipped), `ns=<n>` (number
//!        of extra read schedules), `dim=`/`n=` (informational: scale dimension and size)
//! Observation (also what the Lean driver prints):
//!   `H:<vars>:<clauses>[:<extra>]` or `H:-`, `|C:<tag>:<lits or ->` per clause, then
//!   `|END`, `|E:io`, `|E:syn:<line>:<col>` or `|E:panic`;  log: `S:<sat|unsat|none>|A:<lits>|END`.
//!   With `ls=1` (one line per read) every item carries `@<bytes delivered by the source>`.
//!   An item longer than 512 bytes is printed as `<first 16 bytes>~<len>:<fnv1a-64>`, a whole text longer
//!   than 32768 bytes as `D<items>:<len>:<fnv1a-64>|<final outcome>` (`short_item`, `join_obs`).
//!   State after the final result: the item function is called again `RECALLS` times on the same
//!   object (`next_clause`; `parse_log` on the same `LineReader`) and every outcome is appended as
//!   `|AGAIN:<item | END | E:…>` (the driver re-runs the model on the state it is left in; a
//!   parser whose constructor failed has no object to ask).  `header()` is asked again after every
//!   call; `|HDRDRIFT:<when>=<header>` appears only if the answer changed (the model has one
//!   header), `|AGAINVARIANT:<schedule>=<outcomes>` only if a schedule's re-calls differ.
//! Oracles: C01 (same observation under every schedule), C03 (write∘parse), C04 (fault ⇒ io),
//! C05 (no panic), C06 (independent reading), C07/C03 (expected value `x`), C08 (location in
//! range / on the corrupted token `t`), C09 (no line pulled beyond the completing one);
//! re-calls: C05 (no panic), C08 (location still inside the input, not before the earlier error),
//! C01 (same under every schedule); header asked again: C03 / C06 (`drift_oracles`).
use crate::common::*;
use flussab::{DeferredReader, DeferredWriter};
use flussab_cnf::{cnf, gcnf, sat_solver_log, wcnf, Dimacs, InnerParseError, ParseError};

pub fn err_obs(e: &ParseError) -> String {
    match &**e {
        InnerParseError::IoError(_) => "E:io".into(),
        InnerParseError::SyntaxError(s) => format!("E:syn:{}:{}", s.location.line, s.location.column),
    }
}

fn lits_str<L: Dimacs>(lits: &[L]) -> String {
    if lits.is_empty() {
        "-".into()
    } else {
        lits.iter().map(|l| l.dimacs().to_string()).collect::<Vec<_>>().join(",")
    }
}

/// What a run looks like: items in order, each with the number of bytes the source had
/// delivered when it was returned, then the final outcome.
pub struct RunObs {
    pub items: Vec<(String, usize)>,
    pub fin: String,
}

/// A run of a DIMACS-family parser object: what it handed out up to its final outcome (`obs`),
/// and what it said when it was asked again afterwards.
pub struct Run {
    pub obs: RunObs,
    /// what the item function (`next_clause` / `parse_log`) returned when it was called again,
    /// `RECALLS` times, on the same object after its final outcome `fin`: an item text, `END`,
    /// `E:io`, `E:syn:<line>:<col>`, `E:panic` (after which no further call is made)
    pub again: Vec<String>,
    /// `header()` was queried again after every call of `next_clause` (items, final outcome,
    /// re-calls) and this is the first answer that differed from the one given right after
    /// construction: (when, what it said then)
    pub hdr_drift: Option<(String, String)>,
}

impl std::ops::Deref for Run {
    type Target = RunObs;
    fn deref(&self) -> &RunObs {
        &self.obs
    }
}

/// How often the item function is called again after its final outcome.
pub const RECALLS: usize = 2;

thread_local! {
    /// Number of re-calls the parser runners make (`RECALLS`, or 0 for the schedule variants that
    /// are run without them: every input is re-called under the one-shot schedule, the 1-byte
    /// schedule and two more that rotate with the input, which keeps the cost of a case down).
    pub static RECALL_N: std::cell::Cell<usize> = std::cell::Cell::new(RECALLS);
}

/// Run `f` with the re-calls switched on or off.
pub fn with_recalls<T>(on: bool, f: impl FnOnce() -> T) -> T {
    // restored on unwinding too (a harness panic is caught per case by `main`)
    struct Restore(usize);
    impl Drop for Restore {
        fn drop(&mut self) {
            RECALL_N.with(|c| c.set(self.0));
        }
    }
    let _restore = Restore(RECALL_N.with(|c| c.replace(if on { RECALLS } else { 0 })));
    f()
}

/// Whether schedule variant number `i` (1-based position in `schedules`) of an input of `len`
/// bytes is run with re-calls.
pub fn recalls_on(i: usize, name: &str, len: usize) -> bool {
    name == "1-byte" || (i + len) % 3 == 0
}

/// `|AGAIN:<outcome>` per re-call (part of the observation; the Lean driver runs the model's
/// item function again on the state the model is left in).
pub fn again_text(again: &[String]) -> String {
    again.iter().map(|o| format!("|AGAIN:{}", o)).collect()
}

impl Run {
    pub fn new(items: Vec<(String, usize)>, fin: String) -> Run {
        Run { obs: RunObs { items, fin }, again: vec![], hdr_drift: None }
    }
    pub fn again_text(&self) -> String {
        again_text(&self.again)
    }
    /// Observation suffix for state that the model does not have: present only if it is wrong.
    pub fn drift_text(&self) -> String {
        match &self.hdr_drift {
            Some((when, h)) => format!("|HDRDRIFT:{}={}", when, h),
            None => String::new(),
        }
    }
}

impl RunObs {
    pub fn text(&self, with_delivered: bool) -> String {
        let mut v: Vec<String> = self
            .items
            .iter()
            .map(|(s, d)| if with_delivered { format!("{}@{}", s, d) } else { s.clone() })
            .collect();
        v.push(self.fin.clone());
        v.join("|")
    }
    /// The observation of engine `cnf`: as `text`, with long items / long texts digested.
    pub fn ctext(&self, with_delivered: bool) -> String {
        let v: Vec<String> = self
            .items
            .iter()
            .map(|(s, d)| if with_delivered { format!("{}@{}", short_item(s), d) } else { short_item(s) })
            .collect();
        join_obs(v, &self.fin)
    }
}

/// FNV-1a 64 of a text, 16 hex digits (the Lean driver computes the same: `Driver.cnfFnv`).
pub fn fnv_hex(s: &str) -> String {
    let mut h: u64 = 0xcbf29ce484222325;
    for b in s.as_bytes() {
        h ^= *b as u64;
        h = h.wrapping_mul(0x100000001b3);
    }
    format!("{:016x}", h)
}

/// An item of more than 512 bytes is shown as its first 16 bytes, `~<len>:<fnv of the item>`.
pub fn short_item(s: &str) -> String {
    if s.len() <= 512 {
        s.to_string()
    } else {
        format!("{}~{}:{}", &s[..16], s.len(), fnv_hex(s))
    }
}

/// Items (already shortened) and the final outcome, `|`-joined; a text of more than 32768 bytes
/// is shown as `D<items>:<len>:<fnv of the text>|<final outcome>` (scale cases: observations stay
/// small, every byte of the full observation still decides equality).
pub fn join_obs(mut items: Vec<String>, fin: &str) -> String {
    let n = items.len();
    items.push(fin.to_string());
    let t = items.join("|");
    if t.len() <= 32768 {
        t
    } else {
        format!("D{}:{}:{}|{}", n, t.len(), fnv_hex(&t), fin)
    }
}

/// The observation text of a run with the given items and outcome (what a generator expects).
pub fn obs_text(items: &[String], fin: &str) -> String {
    join_obs(items.iter().map(|s| short_item(s)).collect(), fin)
}

/// Marker "chunk sizes" of the two extra schedule variants that build the parser through its
/// convenience constructors (`Parser::from_read`, `Parser::from_boxed_dyn_read`; default chunk
/// size) instead of `Parser::new(LineReader::new(reader))`.
pub const CTOR_FROM_READ: usize = usize::MAX;
pub const CTOR_BOXED: usize = usize::MAX - 1;
/// `SNIFF_BASE + k` (k < 2000): default chunk size, and the caller looks at the head of the stream
/// with `reader.request(k)` (k = 1000: the whole stream and one byte more) before it hands the
/// reader to the parser — e.g. to tell formats apart.  The parser must not care.
pub const SNIFF_BASE: usize = usize::MAX - 4096;

/// C04 for the result of a schedule / constructor variant that differs from the one-shot run
/// (`vnote` = `|VARIANT:<name>=<text>`, possibly clipped): the items it handed out must be the
/// items of the fault-free run, it must not end cleanly, and a syntax error must be the
/// fault-free run's own.
pub fn fault_variant_oracle(vnote: &str, free_text: &str) -> Vec<String> {
    let mut fails = vec![];
    let Some(rest) = vnote.strip_prefix("|VARIANT:") else { return fails };
    let Some((name, vtext)) = rest.split_once('=') else { return fails };
    if vtext.chars().count() == 160 {
        return fails; // clipped: nothing reliable to compare
    }
    // digested observations (`#T…`, `D<items>:…`, `D:…`) stand for the whole item list
    let digested = |t: &str| t.starts_with("#T") || (t.starts_with('D') && t[1..].starts_with(|c: char| c == ':' || c.is_ascii_digit()));
    if digested(vtext) || digested(free_text) {
        return fails;
    }
    let mut v: Vec<&str> = vtext.split('|').collect();
    let mut f: Vec<&str> = free_text.split('|').collect();
    let (vfin, ffin) = (v.pop().unwrap_or(""), f.pop().unwrap_or(""));
    if v.first() == Some(&"H:-") {
        v.remove(0);
        if !f.is_empty() { f.remove(0); }
    }
    let prefix_ok = v.len() <= f.len() && v.iter().zip(f.iter()).all(|(a, b)| a == b);
    if vfin == "END" {
        fails.push(format!("C04:source failed but the input was reported as completely parsed ({})", name));
    } else if vfin.starts_with("E:syn") && !(vfin == ffin && prefix_ok && v.len() == f.len()) {
        fails.push(format!("C04:syntax error {} reported for data that ends where the source failed ({}; fault-free run: {})", vfin, name, free_text));
    } else if !prefix_ok {
        fails.push(format!("C04:item handed out before the I/O error differs from the fault-free run ({}): {} vs {}", name, vtext, free_text));
    }
    fails
}

/// Applies a marker "chunk size" to a fresh reader (see `SNIFF_BASE`, `CTOR_*`).
pub fn prepare_reader(reader: &mut DeferredReader, chunk: usize, total: usize) {
    if chunk < SNIFF_BASE {
        reader.set_chunk_size(chunk);
    } else if chunk < CTOR_BOXED {
        let k = chunk - SNIFF_BASE;
        let _ = reader.request(if k == 1000 { total + 1 } else { k });
    }
}

fn run_typed<L: Dimacs + 'static>(fmt: &str, cfg: bool, src: SchedSource, chunk: usize) -> Run {
    let delivered = |s: &SchedSource| s.0.borrow().log.len();
    let mut reader = DeferredReader::from_read(src.clone());
    let total = src.0.borrow().data.len();
    prepare_reader(&mut reader, chunk, total);
    let mut items = vec![];
    macro_rules! drive {
        ($module:ident, $hdr:expr, $item:expr) => {{
            let config = $module::Config::default().ignore_header(cfg);
            let parser = if chunk == CTOR_FROM_READ {
                $module::Parser::<L>::from_read(src.clone(), config)
            } else if chunk == CTOR_BOXED {
                $module::Parser::<L>::from_boxed_dyn_read(Box::new(src.clone()), config)
            } else {
                $module::Parser::<L>::new(flussab::text::LineReader::new(reader), config)
            };
            match parser {
                Err(e) => return Run::new(items, err_obs(&e)),
                Ok(mut p) => {
                    let hdr_of = |p: &$module::Parser<L>| match p.header() {
                        Some(h) => $hdr(h),
                        None => "H:-".to_string(),
                    };
                    let h0 = hdr_of(&p);
                    items.push((h0.clone(), delivered(&src)));
                    let mut hdr_drift: Option<(String, String)> = None;
                    // the header is a fact about the document: whenever it is asked for, before,
                    // between or after the clauses, the answer is the one given first
                    let recheck = |p: &$module::Parser<L>, drift: &mut Option<(String, String)>, when: String| {
                        if drift.is_none() {
                            let h = hdr_of(p);
                            if h != h0 {
                                *drift = Some((when, h));
                            }
                        }
                    };
                    let fin = loop {
                        match p.next_clause() {
                            Ok(Some(c)) => {
                                let s = $item(c);
                                items.push((s, delivered(&src)));
                                recheck(&p, &mut hdr_drift, format!("after-clause-{}", items.len() - 1));
                            }
                            Ok(None) => break "END".to_string(),
                            Err(e) => break err_obs(&e),
                        }
                    };
                    recheck(&p, &mut hdr_drift, format!("after-{}", fin));
                    // the item function called again after its final outcome
                    let mut again = vec![];
                    for i in 0..RECALL_N.with(|c| c.get()) {
                        let o = catch(|| match p.next_clause() {
                            Ok(Some(c)) => short_item(&$item(c)),
                            Ok(None) => "END".to_string(),
                            Err(e) => err_obs(&e),
                        })
                        .unwrap_or_else(|| "E:panic".to_string());
                        let stop = o == "E:panic";
                        again.push(o);
                        if stop {
                            break;
                        }
                        recheck(&p, &mut hdr_drift, format!("after-recall-{}", i + 1));
                    }
                    return Run { obs: RunObs { items, fin }, again, hdr_drift };
                }
            }
        }};
    }
    match fmt {
        "cnf" => drive!(
            cnf,
            |h: cnf::Header| format!("H:{}:{}", h.var_count, h.clause_count),
            |c: &[L]| format!("C:0:{}", lits_str(c))
        ),
        "wcnf" => drive!(
            wcnf,
            |h: wcnf::Header| format!("H:{}:{}:{}", h.var_count, h.clause_count, h.top_weight),
            |c: (u64, &[L])| format!("C:{}:{}", c.0, lits_str(c.1))
        ),
        "gcnf" => drive!(
            gcnf,
            |h: gcnf::Header| format!("H:{}:{}:{}", h.var_count, h.clause_count, h.group_count),
            |c: (usize, &[L])| format!("C:{}:{}", c.0, lits_str(c.1))
        ),
        "log" => {
            let mut lr = flussab::text::LineReader::new(reader);
            let config = || sat_solver_log::Config::default().ignore_unknown_lines(cfg);
            let sat_str = |s: Option<bool>| match s {
                Some(true) => "sat",
                Some(false) => "unsat",
                None => "none",
            };
            let fin = match sat_solver_log::parse_log::<L>(&mut lr, config()) {
                Ok(log) => {
                    items.push((format!("S:{}", sat_str(log.satisfiable)), delivered(&src)));
                    items.push((format!("A:{}", lits_str(&log.assignment)), delivered(&src)));
                    "END".to_string()
                }
                Err(e) => err_obs(&e),
            };
            // `parse_log` called again on the same `LineReader`
            let mut again = vec![];
            for _ in 0..RECALL_N.with(|c| c.get()) {
                let o = catch(|| match sat_solver_log::parse_log::<L>(&mut lr, config()) {
                    Ok(log) => short_item(&format!("L:{}:{}", sat_str(log.satisfiable), lits_str(&log.assignment))),
                    Err(e) => err_obs(&e),
                })
                .unwrap_or_else(|| "E:panic".to_string());
                let stop = o == "E:panic";
                again.push(o);
                if stop {
                    break;
                }
            }
            Run { obs: RunObs { items, fin }, again, hdr_drift: None }
        }
        _ => panic!("bad fmt"),
    }
}

/// A user-defined literal type with a small `MAX_DIMACS` that enforces the trait's contract
/// (`from_dimacs` is only ever given a non-zero value of magnitude at most `MAX_DIMACS`).
#[derive(Clone, Copy, PartialEq, Eq, Debug)]
pub struct ChkD<const M: isize>(isize);

impl<const M: isize> Dimacs for ChkD<M> {
    const MAX_DIMACS: isize = M;
    fn from_dimacs(value: isize) -> Self {
        assert!(value != 0 && value.unsigned_abs() <= M as usize, "from_dimacs({}) outside 1..={}", value, M);
        ChkD(value)
    }
    fn dimacs(self) -> isize {
        self.0
    }
}

/// The document parsed with the checked literal type whose `MAX_DIMACS` is `m` (1..=16).
pub fn run_parser_chk(fmt: &str, cfg: bool, src: SchedSource, m: usize) -> Option<Run> {
    let r = catch(|| match m {
        1 => run_typed::<ChkD<1>>(fmt, cfg, src.clone(), 16384),
        2 => run_typed::<ChkD<2>>(fmt, cfg, src.clone(), 16384),
        3 => run_typed::<ChkD<3>>(fmt, cfg, src.clone(), 16384),
        4 => run_typed::<ChkD<4>>(fmt, cfg, src.clone(), 16384),
        5 => run_typed::<ChkD<5>>(fmt, cfg, src.clone(), 16384),
        6 => run_typed::<ChkD<6>>(fmt, cfg, src.clone(), 16384),
        7 => run_typed::<ChkD<7>>(fmt, cfg, src.clone(), 16384),
        8 => run_typed::<ChkD<8>>(fmt, cfg, src.clone(), 16384),
        9 => run_typed::<ChkD<9>>(fmt, cfg, src.clone(), 16384),
        10 => run_typed::<ChkD<10>>(fmt, cfg, src.clone(), 16384),
        11 => run_typed::<ChkD<11>>(fmt, cfg, src.clone(), 16384),
        12 => run_typed::<ChkD<12>>(fmt, cfg, src.clone(), 16384),
        13 => run_typed::<ChkD<13>>(fmt, cfg, src.clone(), 16384),
        14 => run_typed::<ChkD<14>>(fmt, cfg, src.clone(), 16384),
        15 => run_typed::<ChkD<15>>(fmt, cfg, src.clone(), 16384),
        16 => run_typed::<ChkD<16>>(fmt, cfg, src.clone(), 16384),
        _ => Run::new(vec![], "SKIP".into()),
    });
    match r {
        Some(o) if o.fin == "SKIP" => None,
        Some(o) => Some(o),
        None => Some(Run::new(vec![], "E:panic".into())),
    }
}

pub fn run_parser(fmt: &str, ty: &str, cfg: bool, src: SchedSource, chunk: usize) -> Run {
    let r = catch(|| match ty {
        "i8" => run_typed::<i8>(fmt, cfg, src.clone(), chunk),
        "i16" => run_typed::<i16>(fmt, cfg, src.clone(), chunk),
        "i32" => run_typed::<i32>(fmt, cfg, src.clone(), chunk),
        "i64" => run_typed::<i64>(fmt, cfg, src.clone(), chunk),
        "isize" => run_typed::<isize>(fmt, cfg, src.clone(), chunk),
        _ => panic!("bad type"),
    });
    r.unwrap_or(Run::new(vec![], "E:panic".into()))
}

/// The schedules every input is parsed under (C01): (name, events, chunk size).
pub fn schedules(rng: &mut Rng, len: usize) -> Vec<(String, Vec<Ev>, usize)> {
    let mut v: Vec<(String, Vec<Ev>, usize)> = vec![
        ("one-shot".into(), vec![], 16384),
        ("1-byte".into(), vec![Ev::Give(1); len + 2], 1),
        ("chunk2".into(), (0..len + 2).map(|i| Ev::Give(1 + i % 2)).collect(), 2),
        ("chunk8-intr".into(), {
            let mut s = vec![];
            for i in 0..len + 2 {
                if i % 3 == 0 { s.push(Ev::Intr); }
                s.push(Ev::Give(1 + (i * 7) % 11));
            }
            s
        }, 8),
    ];
    let chunk = *rng.pick(&[1usize, 2, 3, 7, 8, 9, 16, 4096]);
    let mut s = vec![];
    for _ in 0..len + 2 {
        if rng.chance(1, 6) { s.push(Ev::Intr); }
        s.push(Ev::Give(rng.range(1, 12) as usize));
    }
    v.push((format!("random-c{}", chunk), s, chunk));
    // the parsers' convenience constructors, under a short-read schedule when the input is small
    let short = |m: usize| -> Vec<Ev> { if len <= 4096 { (0..len + 2).map(|i| Ev::Give(1 + (i * m) % 13)).collect() } else { vec![] } };
    // the caller sniffed the head of the stream before building the parser
    let k = *rng.pick(&[1usize, 2, 4, 8, 1000]);
    v.push((format!("sniff{}", k), short(3), SNIFF_BASE + k));
    v.push(("ctor-from_read".into(), short(5), CTOR_FROM_READ));
    v.push(("ctor-boxed".into(), short(7), CTOR_BOXED));
    if len >= 2 && len <= 48 {
        // every two-piece split of a short input
        let cut = rng.range(1, (len - 1) as u64) as usize;
        v.push((format!("split@{}", cut), vec![Ev::Give(cut), Ev::Give(len)], 16384));
    }
    v
}

/// A source that hands out at most one line per `read` (C09).
pub fn line_schedule(data: &[u8]) -> Vec<Ev> {
    let mut ev = vec![];
    let mut n = 0;
    for b in data {
        n += 1;
        if *b == b'\n' {
            ev.push(Ev::Give(n));
            n = 0;
        }
    }
    if n > 0 {
        ev.push(Ev::Give(n));
    }
    ev
}

// ------------------------------------------------------------------ independent reading (C06)

#[derive(Debug, Clone)]
pub struct RefDoc {
    pub header: Option<Vec<String>>, // numerals after "p <fmt>"
    pub clauses: Vec<(String, Vec<String>, usize)>, // (tag, literals, index of the completing line)
}

fn canon_num(tok: &str) -> Option<String> {
    let (neg, digits) = match tok.strip_prefix('-') {
        Some(d) => (true, d),
        None => (false, tok),
    };
    if digits.is_empty() || !digits.bytes().all(|b| b.is_ascii_digit()) {
        return None;
    }
    let t = digits.trim_start_matches('0');
    if t.is_empty() {
        Some("0".into())
    } else if neg {
        Some(format!("-{}", t))
    } else {
        Some(t.to_string())
    }
}

/// Whitespace tokenizer with arbitrary-precision numerals; `None` if the text is not of the shape
/// this simple reader understands (then the oracle makes no claim).
pub fn reference_read(fmt: &str, data: &[u8]) -> Option<RefDoc> {
    let text = std::str::from_utf8(data).ok()?;
    let mut header = None;
    let mut clauses = vec![];
    let mut cur: Vec<String> = vec![];
    let mut tag: Option<String> = None;
    let lines: Vec<&str> = text.split('\n').collect();
    for (li, line) in lines.iter().enumerate() {
        let line = line.strip_suffix('\r').unwrap_or(line);
        let trimmed = line.trim_start_matches([' ', '\t']);
        if trimmed.starts_with('c') {
            continue;
        }
        if trimmed.starts_with('p') {
            if header.is_some() || !clauses.is_empty() || !cur.is_empty() || tag.is_some() {
                return None;
            }
            let toks: Vec<&str> = trimmed.split([' ', '\t']).filter(|t| !t.is_empty()).collect();
            if toks.len() < 2 || toks[0] != "p" || toks[1] != fmt {
                return None;
            }
            header = Some(toks[2..].iter().map(|t| canon_num(t)).collect::<Option<Vec<_>>>()?);
            continue;
        }
        for tok in trimmed.split([' ', '\t', '\r']).filter(|t| !t.is_empty()) {
            if fmt != "cnf" && tag.is_none() {
                let t = if fmt == "gcnf" {
                    canon_num(tok.strip_prefix('{')?.strip_suffix('}')?)?
                } else {
                    canon_num(tok)?
                };
                if t.starts_with('-') {
                    return None;
                }
                tag = Some(t);
                continue;
            }
            let n = canon_num(tok)?;
            if n == "0" {
                clauses.push((tag.take().unwrap_or_else(|| "0".into()), std::mem::take(&mut cur), li));
            } else {
                cur.push(n);
            }
        }
    }
    if !cur.is_empty() || tag.is_some() {
        return None;
    }
    Some(RefDoc { header, clauses })
}

fn dec_le(a: &str, b: &str) -> bool {
    // |a| <= b for canonical numerals, b non-negative
    let a = a.trim_start_matches('-');
    a.len() < b.len() || (a.len() == b.len() && a <= b)
}

fn max_dimacs(ty: &str) -> String {
    match ty {
        "i8" => i8::MAX.to_string(),
        "i16" => i16::MAX.to_string(),
        "i32" => i32::MAX.to_string(),
        _ => i64::MAX.to_string(),
    }
}

/// Text-level oracles for the result of a read schedule that differs from the one-shot run
/// (besides the C01 failure this difference already is): what the other properties say about it.
pub fn variant_oracles(
    delivered: &[u8], fault: bool, sname: &str, text: &str, expect: Option<&String>,
    tok: Option<(usize, usize, usize)>, text_lines: bool,
) -> Vec<String> {
    let mut fails = vec![];
    let fin = text.rsplit('|').next().unwrap_or("");
    if fin == "E:panic" {
        fails.push(format!("C05:parser panicked under schedule {}", sname));
    }
    if fault && fin == "END" {
        fails.push(format!("C04:source failed but the input was reported as completely parsed (schedule {})", sname));
    }
    if let (Some(x), false) = (expect, fault) {
        if text != x {
            fails.push(format!("C03:under schedule {} parsed {} but the written value is {}", sname, text, x));
            fails.push(format!("C07:under schedule {} parsed {} but the rendered value is {}", sname, text, x));
        }
    }
    if text_lines {
        if let Some(rest) = fin.strip_prefix("E:syn:") {
            if let Some((l, col)) = rest.split_once(':') {
                if let (Ok(l), Ok(col)) = (l.parse::<usize>(), col.parse::<usize>()) {
                    let mut lines: Vec<&[u8]> = delivered.split(|b| *b == b'\n').collect();
                    if lines.last().map(|l| l.is_empty()).unwrap_or(false) {
                        lines.pop();
                    }
                    let len_of = |l: usize| if l >= 1 && l <= lines.len() { lines[l - 1].len() } else { 0 };
                    if l < 1 || l > lines.len() + 1 || col < 1 || col > len_of(l) + 1 {
                        fails.push(format!("C08:error {}:{} outside the input (schedule {})", l, col, sname));
                    } else if let Some((tl, tc, tn)) = tok {
                        if l != tl || col < tc || col > tc + tn {
                            fails.push(format!("C08:error at {}:{} but the corrupted token is at {}:{}..{} (schedule {})", l, col, tl, tc, tc + tn, sname));
                        }
                    }
                }
            }
        }
    }
    fails
}

// ------------------------------------------------------------------ state after the final result

fn syn_pos(o: &str) -> Option<(usize, usize)> {
    let (l, c) = o.strip_prefix("E:syn:")?.split_once(':')?;
    Some((l.parse().ok()?, c.parse().ok()?))
}

/// What the properties say about the outcomes of calling the item function (`what`) again on the
/// same parser object after its final outcome `fin` — whatever such a call returns:
/// * C05: it returns, it does not panic;
/// * C08: a syntax error still names a place inside the input (line within the input, column
///   within that line + 1), and a place at or after the one the earlier error named — the parser
///   only moves forward, so the token that stops a later call cannot lie before the token that
///   stopped an earlier one.
/// Used by the `cnf` and `btor2` engines (`eng_btor2` adds the line-independence clause).
pub fn recall_oracles(delivered: &[u8], fin: &str, again: &[String], what: &str, sname: &str) -> Vec<String> {
    let mut fails = vec![];
    if !again.iter().any(|o| o == "E:panic" || o.starts_with("E:syn:")) {
        return fails;
    }
    let mut lines: Vec<&[u8]> = delivered.split(|b| *b == b'\n').collect();
    if lines.last().map(|l| l.is_empty()).unwrap_or(false) {
        lines.pop();
    }
    let len_of = |l: usize| if l >= 1 && l <= lines.len() { lines[l - 1].len() } else { 0 };
    let mut prev_out = fin.to_string();
    let mut prev_err: Option<(usize, usize)> = syn_pos(fin);
    for (i, o) in again.iter().enumerate() {
        if o == "E:panic" {
            fails.push(format!("C05:{} panicked when it was called again (call {} after {}, schedule {})", what, i + 1, prev_out, sname));
        }
        if let Some((l, col)) = syn_pos(o) {
            if l < 1 || l > lines.len() + 1 || col < 1 || col > len_of(l) + 1 {
                fails.push(format!(
                    "C08:{} called again after {} reports a syntax error at {}:{}, outside the input ({} lines, line {} has {} bytes, call {}, schedule {})",
                    what, prev_out, l, col, lines.len(), l, len_of(l), i + 1, sname
                ));
            } else if let Some((pl, pc)) = prev_err {
                if (l, col) < (pl, pc) {
                    fails.push(format!(
                        "C08:{} called again reports a syntax error at {}:{}, before the earlier error at {}:{} (call {}, schedule {})",
                        what, l, col, pl, pc, i + 1, sname
                    ));
                }
            }
            prev_err = Some((l, col));
        }
        prev_out = o.clone();
    }
    fails
}

/// C03 / C06: the header is a fact about the document.  `header()` asked again — between the
/// clauses, after the final result, after further calls — must say what it said first; otherwise
/// the value obtained by parsing depends on when the caller looks at it (write∘parse is no longer
/// the identity for a caller that reads the header last), and it is not what the text says.
fn drift_oracles(run: &Run, sname: &str) -> Vec<String> {
    let mut fails = vec![];
    if let Some((when, h)) = &run.hdr_drift {
        let h0 = run.items.first().map(|x| x.0.as_str()).unwrap_or("?");
        fails.push(format!("C03:header() returned {} right after construction but {} {} (schedule {}): the parsed value depends on when it is read", h0, h, when, sname));
        fails.push(format!("C06:header() returns {} {} but the header line of the text says {} (schedule {})", h, when, h0, sname));
    }
    fails
}

fn item_fn(fmt: &str) -> &'static str {
    if fmt == "log" { "parse_log" } else { "next_clause" }
}

// ------------------------------------------------------------------ the case runner

pub struct Case {
    pub fmt: String,
    pub ty: String,
    pub cfg: bool,
    pub k: Option<usize>,
    pub ls: bool,
    /// `ls=2`: like `ls=1` but the source hands out one BYTE per read, so that `@<delivered>` is
    /// exactly how far the parser has looked (read boundaries fall inside `\r\n`, inside tokens …)
    pub lsb: bool,
    pub data: Vec<u8>,
    pub expect: Option<String>,
    pub tok: Option<(usize, usize, usize)>,
    /// `ns=<count>`: run only that many of the non-one-shot schedules (which ones rotates with
    /// the input length); used by the scale cases with more than 2^19 items
    pub ns: Option<usize>,
}

impl Case {
    pub fn parse(line: &str) -> Case {
        let (_, f) = Fields::parse(line);
        Case {
            fmt: f.get("fmt").into(),
            ty: f.get("ty").into(),
            cfg: f.get("cfg") == "1",
            k: match f.get("k") { "-" => None, s => Some(s.parse().unwrap()) },
            ls: matches!(f.opt("ls"), Some("1") | Some("2")),
            lsb: f.opt("ls") == Some("2"),
            data: data_field(f.get("d")),
            expect: f.opt("x").map(|s| s.to_string()),
            tok: f.opt("t").map(|s| {
                let v: Vec<usize> = s.split(':').map(|x| x.parse().unwrap()).collect();
                (v[0], v[1], v[2])
            }),
            ns: f.opt("ns").map(|s| s.parse().unwrap()),
        }
    }
    pub fn line(&self) -> String {
        format!(
            "cnf fmt={} ty={} cfg={} k={} ls={} d={}{}{}",
            self.fmt, self.ty, self.cfg as u8,
            match self.k { Some(k) => k.to_string(), None => "-".into() },
            if self.lsb { 2 } else { self.ls as u8 }, compact_field(&self.data),
            match &self.expect { Some(x) => format!(" x={}", x), None => String::new() },
            match &self.tok { Some((l, c, n)) => format!(" t={}:{}:{}", l, c, n), None => String::new() },
        )
    }
}

pub fn write_back(fmt: &str, ty: &str, obs: &RunObs) -> Option<Vec<u8>> {
    // re-emit the parsed value with the crate's writers (C03 converse)
    let mut out: Vec<u8> = vec![];
    {
        let mut w = DeferredWriter::from_write(&mut out);
        for (s, _) in &obs.items {
            let p: Vec<&str> = s.split(':').collect();
            match p[0] {
                "H" => {
                    if p[1] == "-" { continue; }
                    let v: usize = p[1].parse().ok()?;
                    let c: usize = p[2].parse().ok()?;
                    match fmt {
                        "cnf" => cnf::write_header(&mut w, cnf::Header { var_count: v, clause_count: c }),
                        "wcnf" => wcnf::write_header(&mut w, wcnf::Header { var_count: v, clause_count: c, top_weight: p[3].parse().ok()? }),
                        "gcnf" => gcnf::write_header(&mut w, gcnf::Header { var_count: v, clause_count: c, group_count: p[3].parse().ok()? }),
                        _ => return None,
                    }
                }
                "C" => {
                    let lits: Vec<isize> = if p[2] == "-" { vec![] } else { p[2].split(',').map(|x| x.parse().unwrap()).collect() };
                    macro_rules! wr {
                        ($t:ty) => {{
                            let l: Vec<$t> = lits.iter().map(|x| <$t as Dimacs>::from_dimacs(*x)).collect();
                            match fmt {
                                "cnf" => cnf::write_clause(&mut w, &l),
                                "wcnf" => wcnf::write_clause(&mut w, p[1].parse().unwrap(), &l),
                                "gcnf" => gcnf::write_clause(&mut w, p[1].parse().unwrap(), &l),
                                _ => {}
                            }
                        }};
                    }
                    match ty {
                        "i8" => wr!(i8),
                        "i16" => wr!(i16),
                        "i32" => wr!(i32),
                        "i64" => wr!(i64),
                        _ => wr!(isize),
                    }
                }
                _ => return None,
            }
        }
        use std::io::Write;
        w.flush().ok()?;
    }
    Some(out)
}

pub fn run_case(line: &str) -> (String, Vec<String>) {
    let c = Case::parse(line);
    let mut fails: Vec<String> = vec![];
    let delivered: Vec<u8> = match c.k { Some(k) => c.data[..k.min(c.data.len())].to_vec(), None => c.data.clone() };
    let fault = c.k.is_some();
    let mk = |sched: Vec<Ev>| SchedSource::new(delivered.clone(), fault, sched);

    if c.ls {
        // C09: one line per read
        let sched = if c.lsb { vec![Ev::Give(1); delivered.len() + 2] } else { line_schedule(&delivered) };
        let obs = run_parser(&c.fmt, &c.ty, c.cfg, mk(sched), 16384);
        if obs.fin == "E:panic" {
            fails.push("C05:parser panicked".into());
        }
        fails.extend(drift_oracles(&obs, "one line per read"));
        fails.extend(recall_oracles(&delivered, &obs.fin, &obs.again, item_fn(&c.fmt), "one line per read"));
        if c.fmt != "log" {
            if let Some(rd) = reference_read(&c.fmt, &delivered) {
                if obs.fin == "END" {
                    // line starts
                    let mut starts = vec![0usize];
                    for (i, b) in delivered.iter().enumerate() {
                        if *b == b'\n' { starts.push(i + 1); }
                    }
                    let line_end = |li: usize| if li + 1 < starts.len() { starts[li + 1] } else { delivered.len() };
                    let clause_items: Vec<&(String, usize)> = obs.items.iter().filter(|(s, _)| s.starts_with("C:")).collect();
                    for (i, (_, d)) in clause_items.iter().enumerate() {
                        if let Some((_, _, li)) = rd.clauses.get(i) {
                            if *d > line_end(*li) {
                                fails.push(format!("C09:clause {} returned after {} bytes were pulled, its line ends at {}", i, d, line_end(*li)));
                            }
                        }
                    }
                }
            }
        }
        return (obs.ctext(true) + &obs.again_text() + &obs.drift_text(), fails);
    }

    // ---- C01: every schedule gives the same observation
    let mut rng = Rng::new(delivered.len() as u64 * 31 + delivered.first().copied().unwrap_or(0) as u64);
    let mut scheds = schedules(&mut rng, delivered.len());
    if let Some(ns) = c.ns {
        let others = scheds.split_off(1);
        let m = others.len();
        scheds.extend(others.into_iter().enumerate().filter(|(i, _)| (i + m - delivered.len() % m) % m < ns).map(|(_, s)| s));
    }
    let heap0 = heap_mark();
    let base = run_parser(&c.fmt, &c.ty, c.cfg, mk(scheds[0].1.clone()), scheds[0].2);
    let (peak, largest) = heap_peak_since(heap0);
    // C05: memory bounded by a constant multiple of the input (the reader's first chunk included)
    if peak > 64 * delivered.len() + (1 << 20) {
        fails.push(format!("C05:parsing {} bytes allocated {} bytes at peak (largest request {})", delivered.len(), peak, largest));
    }
    let base_text = base.ctext(false);
    // state after the final result (re-calls, header asked again): oracles on every schedule; a
    // schedule whose re-calls differ from the one-shot run's is a C01 failure and part of the
    // observation, as is a header that changed (the model has neither)
    fails.extend(drift_oracles(&base, "one-shot"));
    fails.extend(recall_oracles(&delivered, &base.fin, &base.again, item_fn(&c.fmt), "one-shot"));
    let mut state_note = base.drift_text();
    let mut again_note = String::new();
    // results under the other schedules; those that differ from the one-shot run are kept so that
    // the value-level oracles below also see what the cold (byte-wise) scanner paths accepted
    let mut variants: Vec<(String, Run)> = vec![];
    let mut variant_note = String::new();
    // fault-free run of the whole data (C04)
    let free: Option<Run> = if fault { Some(with_recalls(false, || run_parser(&c.fmt, &c.ty, c.cfg, SchedSource::new(c.data.clone(), false, vec![]), 16384))) } else { None };
    for (i, (name, ev, chunk)) in scheds.iter().enumerate().skip(1) {
        let rc = recalls_on(i, name, delivered.len());
        let ro = with_recalls(rc, || run_parser(&c.fmt, &c.ty, c.cfg, mk(ev.clone()), *chunk));
        let o = ro.ctext(false);
        if state_note.is_empty() {
            // (reported for the first schedule that shows it)
            fails.extend(drift_oracles(&ro, name));
            state_note = ro.drift_text();
        }
        if rc && (ro.again != base.again || ro.fin != base.fin) {
            fails.extend(recall_oracles(&delivered, &ro.fin, &ro.again, item_fn(&c.fmt), name));
        }
        if fault && name.starts_with("sniff") {
            // the caller's own look-ahead may have met the failure before the parser started:
            // the outcome may then differ from the one-shot run, but C04 still binds it
            if ro.fin == "E:panic" {
                fails.push(format!("C05:parser panicked under schedule {}", name));
            }
            if c.fmt != "log" {
                fails.extend(fault_variant_oracle(&format!("|VARIANT:{}={}", name, o), &free.as_ref().unwrap().ctext(false)));
            }
            continue;
        }
        if o != base_text {
            if variants.is_empty() {
                fails.push(format!("C01:result depends on the read schedule: one-shot={} {}={}", base_text, name, o));
                // the model has one answer for every schedule and constructor: a variant that
                // differs is part of the observation, so that the correspondence breaks too
                variant_note = format!("|VARIANT:{}={}", name, o.chars().take(160).collect::<String>());
            }
            if ro.fin == "E:panic" {
                fails.push(format!("C05:parser panicked under schedule {}", name));
            }
            if ro.fin.starts_with("E:syn:") && base.fin.starts_with("E:syn:") && ro.fin != base.fin && variants.is_empty() {
                // same bytes, two different "offending tokens": one of the two locations is wrong
                fails.push(format!("C08:error location depends on how the bytes arrive: one-shot {} but {} {}", base.fin, name, ro.fin));
            }
            variants.push((name.clone(), ro));
        } else if rc && ro.again != base.again && again_note.is_empty() {
            fails.push(format!(
                "C01:what {} returns when called again after {} depends on the read schedule: one-shot={} {}={}",
                item_fn(&c.fmt), base.fin, base.again.join(","), name, ro.again.join(",")
            ));
            again_note = format!("|AGAINVARIANT:{}={}", name, ro.again.join(","));
        }
    }
    if base.fin == "E:panic" {
        fails.push("C05:parser panicked".into());
    }
    // ---- C05 with a user-defined literal type: literals beyond its MAX_DIMACS are an error, they
    // are never handed to `from_dimacs`
    if delivered.len() <= 2048 {
        for m in [1 + delivered.len() % 16, 1 + (delivered.len() / 16 + 7) % 16] {
            if let Some(o) = run_parser_chk(&c.fmt, c.cfg, mk(vec![]), m) {
                if o.fin == "E:panic" || o.again.iter().any(|a| a == "E:panic") {
                    fails.push(format!("C05:parser panicked with a literal type whose MAX_DIMACS is {} (from_dimacs outside its range, or another panic)", m));
                }
            }
        }
    }
    // ---- C04: a failing source ends in an I/O error (or the fault-free run's own syntax error)
    if fault {
        let free = free.unwrap();
        if c.fmt != "log" {
            fails.extend(fault_variant_oracle(&variant_note, &free.ctext(false)));
        }
        let n = base.items.len();
        // a header that is absent because the fault hit before it is not an item
        let skip = if n > 0 && base.items[0].0 == "H:-" { 1 } else { 0 };
        let prefix_ok = (skip..n).all(|i| i < free.items.len() && free.items[i].0 == base.items[i].0);
        if base.fin == "END" {
            fails.push("C04:source failed but the input was reported as completely parsed".into());
        } else if base.fin.starts_with("E:syn") && !(base.fin == free.fin && prefix_ok && free.items.len() == n) {
            fails.push(format!("C04:syntax error {} reported for data that ends where the source failed (fault-free run: {})", base.fin, free.ctext(false)));
        } else if c.fmt != "log" && !prefix_ok {
            fails.push(format!("C04:item handed out before the I/O error differs from the fault-free run: {} vs {}", base_text, free.ctext(false)));
        }
    }
    // ---- C08: error location designates a position inside the input (under every schedule)
    let mut all_runs: Vec<(&str, &RunObs)> = vec![("one-shot", &base.obs)];
    all_runs.extend(variants.iter().map(|(n, r)| (n.as_str(), &r.obs)));
    for (sname, run) in all_runs.iter() {
    if let Some(rest) = run.fin.strip_prefix("E:syn:") {
        let (l, col) = rest.split_once(':').unwrap();
        let (l, col): (usize, usize) = (l.parse().unwrap(), col.parse().unwrap());
        // lines of the input; an unterminated last line counts, a trailing newline does not open one
        let mut lines: Vec<&[u8]> = delivered.split(|b| *b == b'\n').collect();
        if lines.last().map(|l| l.is_empty()).unwrap_or(false) {
            lines.pop();
        }
        let len_of = |l: usize| if l <= lines.len() { lines[l - 1].len() } else { 0 };
        if l < 1 || l > lines.len() + 1 {
            fails.push(format!("C08:error line {} outside 1..={} (schedule {})", l, lines.len() + 1, sname));
        } else if col < 1 || col > len_of(l) + 1 {
            fails.push(format!("C08:error column {} outside 1..={} of line {} (schedule {})", col, len_of(l) + 1, l, sname));
        }
        if let Some((tl, tc, tn)) = c.tok {
            if l != tl || col < tc || col > tc + tn {
                fails.push(format!("C08:error at {}:{} but the corrupted token is at {}:{}..{} (schedule {})", l, col, tl, tc, tc + tn, sname));
            }
        }
    }
    }
    // ---- C07 / C03: the value that was rendered
    if let Some(x) = &c.expect {
        for (sname, run) in all_runs.iter().skip(1) {
            if !fault && &run.ctext(false) != x {
                fails.push(format!("C07:under schedule {} parsed {} but the rendered value is {}", sname, run.ctext(false), x));
                fails.push(format!("C03:under schedule {} parsed {} but the written value is {}", sname, run.ctext(false), x));
                break;
            }
        }
        if !fault && &base_text != x {
            fails.push(format!("C07:parsed {} but the rendered value is {}", base_text, x));
            // the writers' output is one of the layouts: the same mismatch breaks write∘parse = id
            fails.push(format!("C03:parsed {} but the written value is {}", base_text, x));
        }
    }
    // ---- C06: independent reading of accepted inputs
    let mut accepted: Vec<&RunObs> = vec![&base.obs];
    accepted.extend(variants.iter().map(|(_, r)| &r.obs));
    for run in accepted.iter().filter(|r| !fault && r.fin == "END" && c.fmt != "log") {
        match reference_read(&c.fmt, &delivered) {
            None => {}
            Some(rd) => {
                let want: Vec<String> = rd.clauses.iter().map(|(t, l, _)| format!("C:{}:{}", t, if l.is_empty() { "-".into() } else { l.join(",") })).collect();
                let got: Vec<String> = run.items.iter().filter(|(s, _)| s.starts_with("C:")).map(|(s, _)| s.clone()).collect();
                if want != got {
                    let i = (0..got.len().min(want.len())).find(|&i| got[i] != want[i]).unwrap_or(got.len().min(want.len()));
                    let show = |v: &Vec<String>| -> String {
                        if v.len() <= 12 && v.iter().all(|s| s.len() <= 200) { format!("{:?}", v) } else { format!("[{} clauses; clause {}: {}]", v.len(), i, v.get(i).map(|s| short_item(s)).unwrap_or_else(|| "<none>".into())) }
                    };
                    fails.push(format!("C06:returned clauses {} differ from the text {}", show(&got), show(&want)));
                }
                let maxd = max_dimacs(&c.ty);
                let mut lit_limit = maxd.clone();
                if let Some(h) = &rd.header {
                    let hs = format!("H:{}", h.join(":"));
                    if run.items[0].0 != hs {
                        fails.push(format!("C06:returned header {} differs from the text {}", run.items[0].0, hs));
                    }
                    if !c.cfg {
                        if h[0] != "0" { lit_limit = h[0].clone(); }
                        if h[1] != "0" && h[1] != rd.clauses.len().to_string() {
                            fails.push(format!("C06:accepted {} clauses, header declares {}", rd.clauses.len(), h[1]));
                        }
                        if c.fmt == "gcnf" && h.len() > 2 && h[2] != "0" {
                            for (t, _, _) in &rd.clauses {
                                if !dec_le(t, &h[2]) {
                                    fails.push(format!("C06:accepted group {} beyond declared {}", t, h[2]));
                                }
                            }
                        }
                    }
                    if !dec_le(&h[0], &maxd) {
                        fails.push(format!("C06:accepted variable count {} beyond the literal type", h[0]));
                    }
                }
                for (_, l, _) in &rd.clauses {
                    for x in l {
                        if !dec_le(x, &lit_limit) {
                            fails.push(format!("C06:accepted literal {} beyond limit {}", x, lit_limit));
                        }
                    }
                }
            }
        }
    }
    if !fault && base.fin == "END" && c.fmt != "log" {
        // ---- C03 converse: parse(write(parse(t))) = parse(t)
        if let Some(bytes) = write_back(&c.fmt, &c.ty, &base) {
            let again = with_recalls(false, || run_parser(&c.fmt, &c.ty, c.cfg, SchedSource::new(bytes.clone(), false, vec![]), 16384)).ctext(false);
            let norm = |s: &str| s.replace("H:-|", "").replace("H:-", "");
            // a missing header stays missing; otherwise identical
            if norm(&again) != norm(&base_text) {
                fails.push(format!("C03:parse(write(parse(t))) = {} but parse(t) = {}", again, base_text));
            }
        }
    }
    (base_text + &base.again_text() + &state_note + &again_note + &variant_note, fails)
}
