//! Engine `stream` (C10): inputs of any length generated on the fly (never materialised), parsed
//! by the streaming parsers, with the peak live heap measured by the counting allocator.
//! Case: `stream fmt=<cnf|aag|aig> n=<items> chunk=<c> read=<bytes per read> big=<size of one large item, 0 = none>`
//! Observation: `items=<n>|END` (the Lean driver predicts it from the parameters).
//! (`lg=<size>` is accepted for `big=<size>`: a case line that contains ` big=1…` is taken for the
//! harness-wide flag `big=1` and its observation replaced by `BIG`.)
//! Oracle: peak live heap ≤ 8·chunk + 4·max_item + 64 KiB, independent of `n`.
//! `fmt=aag|aig`: an AIGER file whose `n` section entries (all nine sections and the symbol table,
//! `n/10` resp. `n/9` entries each) are produced on demand and read through the streaming section
//! API; `big` is the length of the comment.
//! `--opt scale` (`gen_scale`): `n`, `chunk`, `read` and `big` from `common::scale_sizes`, each
//! beyond 2^20.
use crate::common::*;
use flussab::DeferredReader;
use flussab_cnf::cnf;
use flussab_aiger::{ascii, binary};
use std::io::{self, Read};

/// An AIGER document with `n` section entries, produced item by item.
#[derive(Clone)]
struct AigerDoc {
    bin: bool,
    /// entries per section: inputs (aag: items; aig: only the header number), latches, outputs, bad,
    /// constraints, justice properties (one literal each), fairness, and gates, symbols
    c: [usize; 9],
    big: usize,
}

impl AigerDoc {
    fn new(bin: bool, n: usize, big: usize) -> AigerDoc {
        let kinds = if bin { 9 } else { 10 };
        let q = n / kinds;
        let mut c = [q; 9];
        if q == 0 {
            // fewer entries than sections: all of them are outputs
            c = [0; 9];
            c[2] = n;
        } else {
            // the justice section has two entries per property (size and literal); the rest goes
            // to the symbol table
            c[8] = n - (kinds - 1) * q;
            if bin { c[0] = q + 1; }
        }
        AigerDoc { bin, c, big }
    }
    fn m(&self) -> usize { self.c[0] + self.c[1] + self.c[7] }
    /// Bytes of item `i` (0 = header, then the entries in file order, then the comment).
    fn item(&self, i: usize, out: &mut Vec<u8>) -> bool {
        use std::io::Write;
        let [ni, nl, no, nb, nc, nj, nf, na, ns] = self.c;
        let m = self.m();
        let lit = |i: usize| (i * 13) % (2 * m + 2);
        if i == 0 {
            writeln!(out, "{} {} {} {} {} {} {} {} {} {}", if self.bin { "aig" } else { "aag" }, m, ni, nl, no, na, nb, nc, nj, nf).unwrap();
            return true;
        }
        let mut i = i - 1;
        if !self.bin {
            if i < ni { writeln!(out, "{}", 2 * (i + 1)).unwrap(); return true; }
            i -= ni;
        }
        if i < nl {
            if self.bin { writeln!(out, "{}", lit(i)).unwrap(); } else { writeln!(out, "{} {}", 2 * (ni + i + 1), lit(i)).unwrap(); }
            return true;
        }
        i -= nl;
        for count in [no, nb, nc] {
            if i < count { writeln!(out, "{}", lit(i)).unwrap(); return true; }
            i -= count;
        }
        if i < nj { out.extend_from_slice(b"1\n"); return true; }
        i -= nj;
        for count in [nj, nf] {
            if i < count { writeln!(out, "{}", lit(i)).unwrap(); return true; }
            i -= count;
        }
        if i < na {
            if self.bin { out.extend_from_slice(&[2, 2]); } else { writeln!(out, "{} {} {}", 2 * (ni + nl + i + 1), lit(i), lit(i + 1)).unwrap(); }
            return true;
        }
        i -= na;
        if i < ns { writeln!(out, "o{} n{}", i % no.max(1), i).unwrap(); return true; }
        i -= ns;
        if i == 0 && self.big > 0 {
            out.extend_from_slice(b"c\n");
            for k in 0..self.big { out.push(if k % 100 == 99 { b'\n' } else { b'x' }); }
            out.push(b'\n');
            return true;
        }
        false
    }
}

/// The AIGER document as a byte source: one item per refill of `cur`, `read` bytes per call.
struct AigerStream {
    doc: AigerDoc,
    i: usize,
    cur: Vec<u8>,
    off: usize,
    read: usize,
    pub max_item: usize,
    pub total: usize,
}

impl Read for AigerStream {
    fn read(&mut self, buf: &mut [u8]) -> io::Result<usize> {
        if self.off >= self.cur.len() {
            self.cur.clear();
            self.off = 0;
            if !self.doc.item(self.i, &mut self.cur) {
                return Ok(0);
            }
            self.i += 1;
            self.max_item = self.max_item.max(self.cur.len());
        }
        let k = buf.len().min(self.read).min(self.cur.len() - self.off);
        buf[..k].copy_from_slice(&self.cur[self.off..self.off + k]);
        self.off += k;
        self.total += k;
        Ok(k)
    }
}

/// Drive the streaming section API over the whole file, counting the entries handed out.
fn count_aiger(bin: bool, reader: DeferredReader) -> Result<usize, String> {
    let e = |e: flussab_aiger::ParseError| crate::eng_aiger::err_obs(&e);
    let lr = flussab::text::LineReader::new(reader);
    let mut items = 0usize;
    macro_rules! mid {
        ($s:ident) => {{
            let mut s = $s.outputs().map_err(e)?;
            while s.next_output().map_err(e)?.is_some() { items += 1; }
            let mut s = s.bad_state_properties().map_err(e)?;
            while s.next_bad_state_property().map_err(e)?.is_some() { items += 1; }
            let mut s = s.invariant_constraints().map_err(e)?;
            while s.next_invariant_constraint().map_err(e)?.is_some() { items += 1; }
            let mut s = s.justice_properties().map_err(e)?;
            while s.next_justice_property_size().map_err(e)?.is_some() { items += 1; }
            let mut s = s.justice_property_local_fairness_constraints().map_err(e)?;
            while s.next_justice_property_local_fairness_constraint().map_err(e)?.is_some() { items += 1; }
            let mut s = s.fairness_constraints().map_err(e)?;
            while s.next_fairness_constraint().map_err(e)?.is_some() { items += 1; }
            let mut s = s.and_gates().map_err(e)?;
            while s.next_and_gate().map_err(e)?.is_some() { items += 1; }
            let mut s = s.symbols().map_err(e)?;
            while s.next_symbol().map_err(e)?.is_some() { items += 1; }
            s.comment().map_err(e)?;
        }};
    }
    if bin {
        let p = binary::Parser::<u32>::new(lr, binary::Config::default()).map_err(e)?;
        let mut s = p.latches().map_err(e)?;
        while s.next_latch().map_err(e)?.is_some() { items += 1; }
        mid!(s);
    } else {
        let p = ascii::Parser::<u32>::new(lr, ascii::Config::default()).map_err(e)?;
        let mut s = p.inputs().map_err(e)?;
        while s.next_input().map_err(e)?.is_some() { items += 1; }
        let mut s = s.latches().map_err(e)?;
        while s.next_latch().map_err(e)?.is_some() { items += 1; }
        mid!(s);
    }
    Ok(items)
}

fn run_aiger(bin: bool, n: usize, chunk: usize, read: usize, big: usize) -> (String, Vec<String>) {
    let mut fails = vec![];
    let doc = AigerDoc::new(bin, n, big);
    let stats = std::rc::Rc::new(std::cell::RefCell::new((0usize, 0usize)));
    struct Probe { inner: AigerStream, stats: std::rc::Rc<std::cell::RefCell<(usize, usize)>> }
    impl Read for Probe {
        fn read(&mut self, buf: &mut [u8]) -> io::Result<usize> {
            let r = self.inner.read(buf);
            *self.stats.borrow_mut() = (self.inner.max_item, self.inner.total);
            r
        }
    }
    let src = AigerStream { doc, i: 0, cur: vec![], off: 0, read, max_item: 0, total: 0 };
    let base = heap_mark();
    let res = catch(|| {
        let mut reader = DeferredReader::from_read(Probe { inner: src, stats: stats.clone() });
        reader.set_chunk_size(chunk);
        count_aiger(bin, reader)
    });
    let (peak, largest) = heap_peak_since(base);
    let (max_item, total) = *stats.borrow();
    let obs = match res {
        None => "E:panic".to_string(),
        Some(Err(e)) => e,
        Some(Ok(items)) => format!("items={}|END", items),
    };
    let bound = 8 * chunk + 4 * max_item + (64 << 10);
    if peak > bound {
        fails.push(format!(
            "C10:peak live heap {} bytes (largest request {}) exceeds 8*chunk + 4*max_item + 64KiB = {} after streaming {} bytes of AIGER",
            peak, largest, bound, total
        ));
    }
    if obs != format!("items={}|END", n) {
        fails.push(format!("C10:AIGER stream of {} entries parsed as {}", n, obs));
    }
    (obs, fails)
}

/// Produces `n` clauses `"<a> -<b> <c> 0\n"` on demand; clause `big_at` has `big` literals.
struct ClauseStream {
    n: usize,
    i: usize,
    cur: Vec<u8>,
    off: usize,
    read: usize,
    big: usize,
    pub max_item: usize,
    pub total: usize,
}

impl ClauseStream {
    fn next_item(&mut self) -> bool {
        if self.i >= self.n {
            return false;
        }
        self.cur.clear();
        self.off = 0;
        let i = self.i;
        if self.big > 0 && i == self.n / 3 {
            for k in 0..self.big {
                self.cur.extend_from_slice(format!("{} ", (k % 9000) as i64 - 4500 + if k % 9000 == 4500 { 1 } else { 0 }).as_bytes());
            }
            self.cur.extend_from_slice(b"0\n");
        } else {
            self.cur.extend_from_slice(format!("{} -{} {} 0\n", 1 + i % 97, 1 + (i * 7) % 1013, 1 + (i * 13) % 31).as_bytes());
            if i % 1000 == 0 {
                self.cur.extend_from_slice(b"c a comment line\n");
            }
        }
        self.max_item = self.max_item.max(self.cur.len());
        self.i += 1;
        true
    }
}

impl Read for ClauseStream {
    fn read(&mut self, buf: &mut [u8]) -> io::Result<usize> {
        if self.off >= self.cur.len() && !self.next_item() {
            return Ok(0);
        }
        let k = buf.len().min(self.read).min(self.cur.len() - self.off);
        buf[..k].copy_from_slice(&self.cur[self.off..self.off + k]);
        self.off += k;
        self.total += k;
        Ok(k)
    }
}

pub fn run_case(line: &str) -> (String, Vec<String>) {
    let (_, f) = Fields::parse(line);
    let n = f.num("n");
    let chunk = f.num("chunk");
    let read = f.num("read").max(1);
    // `lg=` is `big=` under a name that the harness-wide flag `big=1` cannot be confused with
    let big = match f.opt("lg") { Some(x) => x.parse().unwrap(), None => f.num("big") };
    match f.opt("fmt") {
        Some("aag") => return run_aiger(false, n, chunk, read, big),
        Some("aig") => return run_aiger(true, n, chunk, read, big),
        _ => {}
    }
    let mut fails = vec![];
    let src = ClauseStream { n, i: 0, cur: vec![], off: 0, read, big, max_item: 0, total: 0 };
    // the source is moved into the reader; keep its statistics via a shared cell
    let stats = std::rc::Rc::new(std::cell::RefCell::new((0usize, 0usize)));
    struct Probe { inner: ClauseStream, stats: std::rc::Rc<std::cell::RefCell<(usize, usize)>> }
    impl Read for Probe {
        fn read(&mut self, buf: &mut [u8]) -> io::Result<usize> {
            let r = self.inner.read(buf);
            *self.stats.borrow_mut() = (self.inner.max_item, self.inner.total);
            r
        }
    }
    let base = heap_mark();
    let res = catch(|| {
        let mut reader = DeferredReader::from_read(Probe { inner: src, stats: stats.clone() });
        reader.set_chunk_size(chunk);
        let mut p = cnf::Parser::<i32>::new(flussab::text::LineReader::new(reader), cnf::Config::default())
            .map_err(|e| crate::eng_cnf::err_obs(&e))?;
        let mut items = 0usize;
        let mut sum = 0i64;
        loop {
            match p.next_clause() {
                Ok(Some(c)) => {
                    items += 1;
                    sum = sum.wrapping_add(c.iter().map(|x| *x as i64).sum::<i64>());
                }
                Ok(None) => return Ok((items, sum)),
                Err(e) => return Err(crate::eng_cnf::err_obs(&e)),
            }
        }
    });
    let (peak, largest) = heap_peak_since(base);
    let (max_item, total) = *stats.borrow();
    let obs = match res {
        None => "E:panic".to_string(),
        Some(Err(e)) => e,
        Some(Ok((items, _))) => format!("items={}|END", items),
    };
    let bound = 8 * chunk + 4 * max_item + (64 << 10);
    if peak > bound {
        fails.push(format!(
            "C10:peak live heap {} bytes (largest request {}) exceeds 8*chunk + 4*max_item + 64KiB = {} after streaming {} bytes",
            peak, largest, bound, total
        ));
    }
    if obs != format!("items={}|END", n) {
        fails.push(format!("C10:stream of {} clauses parsed as {}", n, obs));
    }
    (obs, fails)
}

/// `--opt scale`: every parameter from the scale sizes.  `n` up to 2^21 + 64 items, 2^24 + 64 in
/// the thorough tier (the parsers
/// run at several million items per second; nothing is materialised), chunk and read sizes from one
/// byte to 2 MiB, one large item (a clause of `big` literals, a comment of `big` bytes) up to 2 MiB.
pub fn gen_scale(rng: &mut Rng, thorough: bool) -> String {
    let sizes = scale_sizes(10, 21);
    let fmt = *rng.pick(&["cnf", "cnf", "aag", "aig"]);
    let small: &[usize] = &[1, 2, 7, 64, 4096, 16384];
    let pick = |rng: &mut Rng, with_small: bool| -> usize {
        if with_small && rng.chance(1, 3) { *rng.pick(small) } else { *rng.pick(&sizes) }
    };
    let chunk = pick(rng, true);
    let read = pick(rng, true);
    // thorough: up to 2^24 items (a stream of ~200 MB)
    let mut n = if thorough { *rng.pick(&scale_sizes(10, 24)) } else { pick(rng, false) };
    // every byte a read call (and a refill) with chunk or read size 1..7: fewer items in the quick tier
    if (chunk < 64 || read < 64) && !thorough { n = n.min(1 << 18); }
    let big = if rng.chance(1, 2) { pick(rng, false) } else { 0 };
    format!("stream fmt={} n={} chunk={} read={} lg={}", fmt, n, chunk, read, big)
}

pub fn gen_case(rng: &mut Rng, thorough: bool) -> String {
    // `vh gen stream --opt scale`: main.rs does not pass the option down to this engine
    let args: Vec<String> = std::env::args().collect();
    if args.windows(2).any(|w| w[0] == "--opt" && w[1].split('+').any(|o| o == "scale")) {
        return gen_scale(rng, thorough);
    }
    let n = if thorough {
        *rng.pick(&[200_000usize, 1_000_000, 3_000_000])
    } else {
        *rng.pick(&[20_000usize, 100_000, 300_000])
    };
    let chunk = *rng.pick(&[1usize, 64, 4096, 16384]);
    let read = *rng.pick(&[1usize, 7, 64, 16384]);
    // with chunk 1 every byte is a read call: keep those inputs smaller
    let n = if chunk == 1 || read == 1 { n / 20 } else { n };
    let big = if rng.chance(1, 3) { *rng.pick(&[10_000usize, 200_000]) } else { 0 };
    format!("stream fmt=cnf n={} chunk={} read={} big={}", n, chunk, read, big)
}
