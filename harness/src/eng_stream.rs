//! Engine `stream` (C10): inputs of any length generated on the fly (never materialised), parsed
//! by the streaming parsers, with the peak live heap measured by the counting allocator.
//! Case: `stream fmt=<cnf|btor2> n=<items> chunk=<c> read=<bytes per read> big=<size of one large item, 0 = none>`
//! Observation: `items=<n>|END` (the Lean driver predicts it from the parameters).
//! Oracle: peak live heap ≤ 8·chunk + 4·max_item + 64 KiB, independent of `n`.
use crate::common::*;
use flussab::DeferredReader;
use flussab_cnf::cnf;
use std::io::{self, Read};

/// Produces `n` clauses `"<a> -<b> <c> 0\n"` on demand; clause `big_at` has `big` literals.
struct ClauseStream {
    n: usize,
    i: usize,
    cur: Vec<u8>,
    off: usize,
    read: usize,
    big: usize,
    pub max_item: usize,
    pub total: usize,
}

impl ClauseStream {
    fn next_item(&mut self) -> bool {
        if self.i >= self.n {
            return false;
        }
        self.cur.clear();
        self.off = 0;
        let i = self.i;
        if self.big > 0 && i == self.n / 3 {
            for k in 0..self.big {
                self.cur.extend_from_slice(format!("{} ", (k % 9000) as i64 - 4500 + if k % 9000 == 4500 { 1 } else { 0 }).as_bytes());
            }
            self.cur.extend_from_slice(b"0\n");
        } else {
            self.cur.extend_from_slice(format!("{} -{} {} 0\n", 1 + i % 97, 1 + (i * 7) % 1013, 1 + (i * 13) % 31).as_bytes());
            if i % 1000 == 0 {
                self.cur.extend_from_slice(b"c a comment line\n");
            }
        }
        self.max_item = self.max_item.max(self.cur.len());
        self.i += 1;
        true
    }
}

impl Read for ClauseStream {
    fn read(&mut self, buf: &mut [u8]) -> io::Result<usize> {
        if self.off >= self.cur.len() && !self.next_item() {
            return Ok(0);
        }
        let k = buf.len().min(self.read).min(self.cur.len() - self.off);
        buf[..k].copy_from_slice(&self.cur[self.off..self.off + k]);
        self.off += k;
        self.total += k;
        Ok(k)
    }
}

pub fn run_case(line: &str) -> (String, Vec<String>) {
    let (_, f) = Fields::parse(line);
    let n = f.num("n");
    let chunk = f.num("chunk");
    let read = f.num("read").max(1);
    let big = f.num("big");
    let mut fails = vec![];
    let src = ClauseStream { n, i: 0, cur: vec![], off: 0, read, big, max_item: 0, total: 0 };
    // the source is moved into the reader; keep its statistics via a shared cell
    let stats = std::rc::Rc::new(std::cell::RefCell::new((0usize, 0usize)));
    struct Probe { inner: ClauseStream, stats: std::rc::Rc<std::cell::RefCell<(usize, usize)>> }
    impl Read for Probe {
        fn read(&mut self, buf: &mut [u8]) -> io::Result<usize> {
            let r = self.inner.read(buf);
            *self.stats.borrow_mut() = (self.inner.max_item, self.inner.total);
            r
        }
    }
    let base = heap_mark();
    let res = catch(|| {
        let mut reader = DeferredReader::from_read(Probe { inner: src, stats: stats.clone() });
        reader.set_chunk_size(chunk);
        let mut p = cnf::Parser::<i32>::new(flussab::text::LineReader::new(reader), cnf::Config::default())
            .map_err(|e| crate::eng_cnf::err_obs(&e))?;
        let mut items = 0usize;
        let mut sum = 0i64;
        loop {
            match p.next_clause() {
                Ok(Some(c)) => {
                    items += 1;
                    sum = sum.wrapping_add(c.iter().map(|x| *x as i64).sum::<i64>());
                }
                Ok(None) => return Ok((items, sum)),
                Err(e) => return Err(crate::eng_cnf::err_obs(&e)),
            }
        }
    });
    let (peak, largest) = heap_peak_since(base);
    let (max_item, total) = *stats.borrow();
    let obs = match res {
        None => "E:panic".to_string(),
        Some(Err(e)) => e,
        Some(Ok((items, _))) => format!("items={}|END", items),
    };
    let bound = 8 * chunk + 4 * max_item + (64 << 10);
    if peak > bound {
        fails.push(format!(
            "C10:peak live heap {} bytes (largest request {}) exceeds 8*chunk + 4*max_item + 64KiB = {} after streaming {} bytes",
            peak, largest, bound, total
        ));
    }
    if obs != format!("items={}|END", n) {
        fails.push(format!("C10:stream of {} clauses parsed as {}", n, obs));
    }
    (obs, fails)
}

pub fn gen_case(rng: &mut Rng, thorough: bool) -> String {
    let n = if thorough {
        *rng.pick(&[200_000usize, 1_000_000, 3_000_000])
    } else {
        *rng.pick(&[20_000usize, 100_000, 300_000])
    };
    let chunk = *rng.pick(&[1usize, 64, 4096, 16384]);
    let read = *rng.pick(&[1usize, 7, 64, 16384]);
    // with chunk 1 every byte is a read call: keep those inputs smaller
    let n = if chunk == 1 || read == 1 { n / 20 } else { n };
    let big = if rng.chance(1, 3) { *rng.pick(&[10_000usize, 200_000]) } else { 0 };
    format!("stream fmt=cnf n={} chunk={} read={} big={}", n, chunk, read, big)
}
