import Flussab.Proof.CnfTokens
open Flussab Flussab.PM Flussab.Cnf
#print Cnf.nonTerminatingLinebreaks
#print Cnf.clauseLits
#print Cnf.clauseAlt
#print Cnf.parseHeader
#print Cnf.Parser.new
#print Cnf.Parser.nextClause
#print Cnf.varCount
#print Cnf.litInt
example (f) : skipLinesLoop (f+1) = (do if ← «matches» (orParse comment newline) then skipLinesLoop f else pure ()) := by
  rw [skipLinesLoop]
example (p f) : nextClauseLoop p (f+1) = sorry := by
  rw [nextClauseLoop]
  trace_state
  sorry
example (l limit f lit acc) : clauseLitsLoop l limit (f+1) lit acc = sorry := by
  rw [clauseLitsLoop]
  trace_state
  sorry
