import Flussab.Spec.Layout
open Flussab Flussab.Cnf Flussab.Spec
def j0 : Junk := [(JunkLine.comment [120], [BlankCh.tab]), (JunkLine.blank .crlf, [])]
def l1 : Layout := { lead := [.sp] }
def l2 : Layout := { lead := [.sp], junk := j0 }
def l3 : Layout := { lead := [.sp], junk := j0, trailer := none }
def l4 : Layout := { lead := [.sp], junk := j0, header := { zVars := 2 }, trailer := none }
