example : ((2 ^ (64 - 1) : Nat) : Int) = 2 ^ 63 := by simp
example : ((2 ^ (64 - 1) : Nat) : Int) = 2 ^ 63 := by decide
example (x : Int) (h1 : -(2 ^ 63 : Int) ≤ x) (h2 : x < 2 ^ 63) : -(((2 ^ (64 - 1) : Nat) : Int)) ≤ x ∧ x ≤ ((2 ^ (64 - 1) : Nat) : Int) - 1 := by
  have : ((2 ^ (64 - 1) : Nat) : Int) = 2 ^ 63 := by simp
  omega
