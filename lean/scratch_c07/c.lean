import scratch_c07.b
