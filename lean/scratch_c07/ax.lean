import Flussab.Proof.CnfHeader
#print axioms Flussab.CnfP.parseAll_render
#check @Flussab.CnfP.parseAll_render
