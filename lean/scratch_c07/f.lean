import Flussab.Spec.CnfDomain
open Flussab Flussab.Cnf Flussab.Spec
#eval decide (CnfWF .gcnf ⟨8⟩ false (some ⟨127, 2, 3⟩) [⟨3, [1, -127]⟩, ⟨0, []⟩])
#eval decide (CnfWF .gcnf ⟨8⟩ false (some ⟨127, 2, 3⟩) [⟨4, [1, -127]⟩, ⟨0, []⟩])
#eval decide (CnfWF .gcnf ⟨8⟩ true (some ⟨127, 2, 3⟩) [⟨4, [1, -127]⟩, ⟨0, []⟩])
#eval decide (CnfWF .cnf ⟨8⟩ true none [⟨0, [1, -128]⟩, ⟨0, []⟩])
