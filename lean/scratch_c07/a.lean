import Flussab.Model.Cnf
import Flussab.Props.C16
import Flussab.Props.C13
open Flussab Flussab.PM Flussab.Cnf

theorem run_pure' {α} (a : α) (lr : LR) : (pure a : PM α).run lr = (.ok a, lr) := rfl
theorem run_bind' {α β} (x : PM α) (g : α → PM β) (lr : LR) :
    (x >>= g).run lr = match x.run lr with
      | (.ok a, lr') => (g a).run lr'
      | (.error e, lr') => (.error e, lr') := by
  show (ExceptT.bind x g).run lr = _
  simp only [ExceptT.bind, ExceptT.run, ExceptT.mk, ExceptT.bindCont]
  show (StateT.bind _ _) lr = _
  simp only [StateT.bind]
  rcases x lr with ⟨r, lr'⟩
  cases r <;> rfl
theorem run_scan' {α} (f : View → α × View) (lr : LR) :
    (scan f).run lr = (.ok (f lr.v).1, { lr with v := (f lr.v).2 }) := rfl
theorem run_get' (lr : LR) : (get : PM LR).run lr = (.ok lr, lr) := rfl
example (lr : LR) (n) (h : n ≤ lr.v.demanded) : (advance n).run lr = (.ok (), { lr with v := { lr.v with rest := lr.v.rest.drop n, pos := lr.v.pos + n } }) := by
  simp only [advance, run_bind', run_get', View.advance, h]
  rfl
set_option pp.explicit false
#print Cnf.word
#print Cnf.comment
#print Cnf.clauseLitsLoop
