import Flussab.Model.Cnf
import Flussab.Props.C16
import Flussab.Props.C13
open Flussab Flussab.PM Flussab.Cnf

namespace Flussab.CnfP
set_option linter.unusedSimpArgs false

theorem run_pure {α} (a : α) (lr : LR) : (pure a : PM α).run lr = (.ok a, lr) := rfl
theorem run_bind {α β} (x : PM α) (g : α → PM β) (lr : LR) :
    (x >>= g).run lr = match x.run lr with
      | (.ok a, lr') => (g a).run lr'
      | (.error e, lr') => (.error e, lr') := by
  show (ExceptT.bind x g).run lr = _
  simp only [ExceptT.bind, ExceptT.run, ExceptT.mk]
  show (StateT.bind _ _) lr = _
  simp only [StateT.bind]
  rcases x lr with ⟨r, lr'⟩
  cases r <;> rfl
theorem run_scan {α} (f : View → α × View) (lr : LR) :
    (scan f).run lr = (.ok (f lr.v).1, { lr with v := (f lr.v).2 }) := rfl
theorem run_get (lr : LR) : (get : PM LR).run lr = (.ok lr, lr) := rfl

structure Good (N : Nat) (lr : LR) : Prop where
  bound : N < PM.usizeMax
  fault : lr.v.fault = false
  ioErr : lr.v.ioErr = false
  line : lr.line ≤ lr.v.pos + 1
  len : lr.v.pos + lr.v.rest.length = N

def Run {α} (N : Nat) (m : PM α) (lr : LR) (a : α) (post : VBytes) : Prop :=
  ∃ lr', m.run lr = (.ok a, lr') ∧ Good N lr' ∧ lr'.v.rest = post

def Steps {α} (N : Nat) (m : PM α) (a : α) (pre post : VBytes) : Prop :=
  ∀ lr, Good N lr → lr.v.rest = pre → Run N m lr a post

theorem Steps.bind {α β N} {x : PM α} {g : α → PM β} {a b r0 r1 r2}
    (h1 : Steps N x a r0 r1) (h2 : Steps N (g a) b r1 r2) : Steps N (x >>= g) b r0 r2 := by
  intro lr hg hr
  obtain ⟨lr1, e1, g1, q1⟩ := h1 lr hg hr
  obtain ⟨lr2, e2, g2, q2⟩ := h2 lr1 g1 q1
  exact ⟨lr2, by rw [run_bind, e1]; exact e2, g2, q2⟩

theorem Steps.pure {α N} (a : α) (r) : Steps N (pure a : PM α) a r r :=
  fun lr hg hr => ⟨lr, rfl, hg, hr⟩

/-- scanning view: same stream in front, same position, healthy -/
structure VOk (v0 v : View) : Prop where
  rest : v.rest = v0.rest
  pos : v.pos = v0.pos
  fault : v.fault = false
  ioErr : v.ioErr = false

theorem VOk.demand {v0 v : View} (h : VOk v0 v) (k : Nat) :
    VOk v0 (v.demand k) ∧ v0.pos + k + 1 ≤ (v.demand k).peeked := by
  obtain ⟨h1, h2, h3, h4⟩ := h
  unfold View.demand
  by_cases hk : k < v.rest.length
  · simp only [hk, ↓reduceIte]
    exact ⟨⟨h1, h2, h3, h4⟩, by first | omega | (dsimp only; omega)⟩
  · simp only [hk, ↓reduceIte]
    exact ⟨⟨h1, h2, h3, by simp [h3, h4]⟩, by first | omega | (dsimp only; omega)⟩



def AllBlank (bl : VBytes) : Prop := ∀ b ∈ bl, isBlank b = true
def NB (r : VBytes) : Prop := ∀ b, r.head? = some b → isBlank b = false
def WE (r : VBytes) : Prop := isWordEnd r.head? = true

theorem takeWhile_blank {bl rest : VBytes} (hbl : AllBlank bl) (hnb : NB rest) :
    (bl ++ rest).takeWhile isBlank = bl := by
  induction bl with
  | nil =>
    cases rest with
    | nil => rfl
    | cons b t => simp [List.takeWhile, hnb b rfl]
  | cons b bl ih =>
    simp only [List.cons_append, List.takeWhile, hbl b (by simp)]
    rw [ih (fun x hx => hbl x (by simp [hx]))]

theorem tabs_eq (v : View) (off : Nat) {bl rest : VBytes} (h : v.rest.drop off = bl ++ rest)
    (hbl : AllBlank bl) (hnb : NB rest) :
    Text.tabsOrSpaces v off = (off + bl.length, v.demand (off + bl.length)) := by
  obtain ⟨h1, h2⟩ := C16.tabs_or_spaces_spec v off
  rw [h, takeWhile_blank hbl hnb] at h1 h2
  exact Prod.ext h1 h2

theorem fixed_eq (v : View) {pat rest : VBytes} (h : v.rest = pat ++ rest) (hne : pat ≠ []) :
    Text.fixed v 0 pat = (pat.length, v.demand (pat.length - 1)) := by
  obtain ⟨h1, _, _, h4, _⟩ := C16.fixed_spec v 0 pat
  have hp : pat <+: v.rest.drop 0 := by rw [List.drop_zero, h]; exact List.prefix_append _ _
  have a := h1 hp
  have b := h4 hne hp
  simp only [Nat.zero_add] at a b
  exact Prod.ext a b

theorem run_advance (lr : LR) (n : Nat) (h1 : lr.v.pos + n ≤ lr.v.peeked) (h2 : n ≤ lr.v.rest.length) :
    (advance n).run lr = (.ok (), { lr with v := { lr.v with rest := lr.v.rest.drop n, pos := lr.v.pos + n } }) := by
  have h : n ≤ lr.v.demanded := by unfold View.demanded; omega
  simp only [advance, run_bind, run_get, View.advance, h]
  rfl

theorem run_reqAt (k : Nat) (lr : LR) :
    (reqAt k).run lr = (.ok lr.v.rest[k]?, { lr with v := lr.v.demand k }) := rfl

theorem word_ok {N} (pat bl rest : VBytes) (hne : pat ≠ []) (hbl : AllBlank bl) (hnb : NB rest)
    (hwe : WE (bl ++ rest)) : Steps N (word pat) (some ()) (pat ++ bl ++ rest) rest := by
  intro lr hg hr
  have hr' : lr.v.rest = pat ++ (bl ++ rest) := by rw [hr, List.append_assoc]
  have v0 : VOk lr.v lr.v := ⟨rfl, rfl, hg.fault, hg.ioErr⟩
  obtain ⟨v1, p1⟩ := v0.demand (pat.length - 1)
  obtain ⟨v2, p2⟩ := v1.demand pat.length
  obtain ⟨v3, p3⟩ := v2.demand (pat.length + bl.length)
  have hlen : 0 < pat.length := List.length_pos_iff.mpr hne
  have hoff : (pat.length != 0) = true := by simp; omega
  have hget : ((lr.v.demand (pat.length - 1)).rest)[pat.length]? = (bl ++ rest).head? := by
    rw [v1.rest, hr']; simp [List.getElem?_append_right, List.head?_eq_getElem?]
  have hdrop : ((lr.v.demand (pat.length - 1)).demand pat.length).rest.drop pat.length = bl ++ rest := by
    rw [v2.rest, hr']; simp
  have hwe' : isWordEnd (List.head? (bl ++ rest)) = true := hwe
  unfold word Run
  simp only [run_bind, run_scan, fixed_eq lr.v hr' hne, hoff, ↓reduceIte, isEndOfWord, run_reqAt,
    run_pure, hget, hwe', tabs_eq _ _ hdrop hbl hnb]
  rw [run_advance]
  · refine ⟨_, rfl, ⟨hg.bound, v3.fault, v3.ioErr, ?_, ?_⟩, ?_⟩
    · have := hg.line; have := v3.pos; dsimp only; omega
    · have hl := hg.len; rw [hr'] at hl; simp only [List.length_append] at hl
      have := v3.pos; dsimp only; rw [v3.rest, hr']; simp only [List.length_drop, List.length_append]; omega
    · dsimp only; rw [v3.rest, hr']; simp
  · dsimp only; rw [v3.pos]; omega
  · dsimp only; rw [v3.rest, hr']; simp

end Flussab.CnfP
