import Flussab.Spec.Layout
open Flussab Flussab.Cnf Flussab.Spec
def cs : List Clause := [⟨3, [1, -2]⟩, ⟨0, []⟩, ⟨7, [-127]⟩]
def brk : Sep := .brk [.tab] .crlf [.sp] [(JunkLine.comment [32, 49, 13], [BlankCh.sp]), (JunkLine.blank .lf, [])]
def j0 : Junk := [(JunkLine.comment [120], [BlankCh.tab]), (JunkLine.blank .crlf, [])]
def hl : HeaderLayout := { zVars := 2, beforeEol := [.sp], eol := .crlf }
def c1 : ClauseLayout := { pre := [.sp], junk := [(JunkLine.blank .lf, [BlankCh.sp])], zTag := 1, tagSep := brk, lits := [(1, brk), (0, .blank {})], termNeg := true, termZeros := 1, post := [.sp] }
def c2 : ClauseLayout := { tagSep := brk, eol := .crlf }
def c3 : ClauseLayout := { lits := [(3, brk)] }
def lay : Layout := { lead := [.sp], junk := j0, header := hl, clauses := [c1, c2, c3], trailer := none }
def show' (b : VBytes) : String := String.ofList (b.map fun x => Char.ofNat x.toNat)
#eval show' (lay.render .wcnf (some ⟨127, 3, 9⟩) cs)
#eval decide (lay.Fits cs)
#eval (parseAll .wcnf ⟨8⟩ false (LR.init (lay.render .wcnf (some ⟨127, 3, 9⟩) cs) false))
#eval (parseAll .gcnf ⟨8⟩ false (LR.init (lay.render .gcnf (some ⟨127, 3, 9⟩) cs) false))
#eval (parseAll .cnf ⟨8⟩ false (LR.init (lay.render .cnf (some ⟨127, 3, 0⟩) cs) false))
#eval (parseAll .cnf ⟨8⟩ false (LR.init (lay.render .cnf none cs) false))
#eval (parseAll .cnf ⟨8⟩ false (LR.init ({lay with trailer := some ([.sp], [(.comment [], [.sp])])}.render .cnf none cs) false))
#eval (parseAll .cnf ⟨8⟩ false (LR.init ({lay with trailer := some ([.sp], [(.comment [], [.sp])])}.render .cnf none []) false))
#eval (Layout.canonical cs).render .wcnf (some ⟨127, 3, 9⟩) cs == writeDoc .wcnf (some ⟨127, 3, 9⟩) cs
