/-
C11 — the buffered writer delivers exactly the written bytes, in order, once.

Model: `Flussab.Writer` (L4, `DeferredWriter` + `write::text::ascii_digits`) over `Flussab.Sink`
(any schedule of short writes, `Interrupted`, `Ok(0)`, terminal errors; `write_all` is std's
documented loop).  `Op.bytes w op` is what an op adds to the written stream.
-/
import Flussab.Proof.WriterOps
import Flussab.Proof.Decimal

namespace Flussab.C11
open Flussab Writer Sink

/-- Run a history (results dropped). -/
def runOps : List Op → Writer → Writer
  | [], w => w
  | op :: ops, w => runOps ops (op.run w).2

/-- Everything the history writes, in order. -/
def written : List Op → Writer → WBytes
  | [], _ => []
  | op :: ops, w => op.bytes w ++ written ops (op.run w).2

/-- State invariant kept by every op on a sink that never panics (C14, writer half): the buffer
never exceeds its capacity — which is what `copy_from_nonoverlapping`, `set_len` and the in-place
digit writer rely on — and no panic reaches the caller. -/
structure Inv (w : Writer) : Prop where
  noPanic : w.sink.NoPanic
  inBuf : w.buf.length ≤ w.cap
  unpanicked : w.panicked = false

theorem op_keeps_inv (w : Writer) (op : Op) (hv : op.Valid) (h : Inv w) :
    (∃ r, (op.run w).1 = some r) ∧ Inv (op.run w).2 ∧ (op.run w).2.cap = w.cap := by
  obtain ⟨r, w', e, st, _, _⟩ := op_step w op hv h.noPanic h.inBuf h.unpanicked
  rw [e]
  exact ⟨⟨r, rfl⟩, ⟨st.noPanic, st.inv, st.unpanicked⟩, st.cap⟩

theorem history_keeps_inv (ops : List Op) (w : Writer) (hv : ∀ op ∈ ops, op.Valid) (h : Inv w) :
    Inv (runOps ops w) ∧ (runOps ops w).cap = w.cap := by
  induction ops generalizing w with
  | nil => exact ⟨h, rfl⟩
  | cons op ops ih =>
    obtain ⟨_, h1, c1⟩ := op_keeps_inv w op (hv op (by simp)) h
    obtain ⟨h2, c2⟩ := ih (op.run w).2 (fun o ho => hv o (by simp [ho])) h1
    exact ⟨h2, by simp only [runOps]; rw [c2, c1]⟩

/-- The cold path's `split_at(capacity - len)` index is in range: the cold path is only entered
when the slice does not fit. -/
theorem cold_split_ok (w : Writer) (bs : WBytes) (h : ¬ w.buf.length + bs.length ≤ w.cap)
    (hinv : w.buf.length ≤ w.cap) : w.cap - w.buf.length ≤ bs.length := by omega

theorem runOps_append (ops : List Op) (last : Op) (w : Writer) :
    runOps (ops ++ [last]) w = (last.run (runOps ops w)).2 := by
  induction ops generalizing w with
  | nil => simp [runOps]
  | cons op ops ih => simp only [List.cons_append, runOps]; exact ih _

/-- Good-sink invariant over a history: nothing is ever lost, and no error is parked. -/
theorem good_sink_history (ops : List Op) (w : Writer) (hv : ∀ op ∈ ops, op.Valid) (hg : w.sink.Good)
    (hinv : w.buf.length ≤ w.cap) (hup : w.panicked = false) (he : w.ioError = false) :
    (runOps ops w).sink.Good ∧ (runOps ops w).buf.length ≤ (runOps ops w).cap ∧
    (runOps ops w).panicked = false ∧ (runOps ops w).ioError = false ∧
    (runOps ops w).sink.sunk ++ (runOps ops w).buf = w.sink.sunk ++ w.buf ++ written ops w := by
  induction ops generalizing w with
  | nil => exact ⟨hg, hinv, hup, he, by simp [runOps, written]⟩
  | cons op ops ih =>
    obtain ⟨r, w', e, st, hgood, _⟩ := op_step w op (hv op (by simp)) hg.noPanic hinv hup
    obtain ⟨he', hr⟩ := hgood hg he
    obtain ⟨d, hd1, _, hd3⟩ := st.grow
    have hex := hd3 hr he' he
    have hrun : (op.run w).2 = w' := by rw [e]
    obtain ⟨i1, i2, i3, i4, i5⟩ := ih w' (fun o ho => hv o (by simp [ho])) (hg.of_suffix st.sched)
      st.inv st.unpanicked he'
    simp only [runOps, written, hrun]
    refine ⟨i1, i2, i3, i4, ?_⟩
    rw [i5, hd1, List.append_assoc w.sink.sunk d, hex]
    simp [List.append_assoc]

/-- **Good sink: exact delivery.**  With a sink that never fails (short writes and `Interrupted`
allowed), after any history followed by a `flush` — or by dropping the writer — the sink has
received exactly what it had, then what was buffered, then everything written, in order, once;
`flush` returns `Ok`. -/
theorem good_sink_exact (ops : List Op) (w : Writer) (hv : ∀ op ∈ ops, op.Valid) (hg : w.sink.Good)
    (hinv : w.buf.length ≤ w.cap) (hup : w.panicked = false) (he : w.ioError = false)
    (last : Op) (hlast : last = .flush ∨ last = .drop) :
    (runOps (ops ++ [last]) w).sink.sunk = w.sink.sunk ++ w.buf ++ written ops w ∧
    (runOps (ops ++ [last]) w).buf = [] ∧
    (last = .flush → (Op.flush.run (runOps ops w)).1 = some false) := by
  obtain ⟨k1, k2, k3, k4, k5⟩ := good_sink_history ops w hv hg hinv hup he
  rw [runOps_append]
  have hvl : last.Valid := by rcases hlast with h | h <;> subst h <;> trivial
  obtain ⟨r, w', e, st, hgood, hspec⟩ := op_step (runOps ops w) last hvl k1.noPanic k2 k3
  obtain ⟨he', hr⟩ := hgood k1 k4
  obtain ⟨d, hd1, _, hd3⟩ := st.grow
  have hex := hd3 hr he' k4
  have hbytes : last.bytes (runOps ops w) = [] := by rcases hlast with h | h <;> subst h <;> rfl
  have hbuf : w'.buf = [] := by
    rcases hlast with h | h <;> subst h
    · exact hspec.1
    · exact hspec
  rw [e]
  refine ⟨?_, hbuf, ?_⟩
  · simp only
    rw [hd1, ← k5]
    rw [hbuf, hbytes] at hex
    simp only [List.append_nil] at hex
    rw [hex]
  · intro hl; subst hl
    rw [e]
    simp only [Op.reported] at hr
    rw [hr]

/-- **Failing sink: in-order, duplicate-free selection.**  With any sink that does not panic
(short writes, `Interrupted`, `Ok(0)`, terminal errors at any call), after any history the bytes
the sink has received since the start, followed by what is still buffered, are a sub-sequence of
(initially buffered bytes ++ everything written): in order, nothing twice, nothing invented. -/
theorem bad_sink_selection (ops : List Op) (w : Writer) (hv : ∀ op ∈ ops, op.Valid) (h : Inv w) :
    ∃ d, (runOps ops w).sink.sunk = w.sink.sunk ++ d ∧
      (d ++ (runOps ops w).buf).Sublist (w.buf ++ written ops w) := by
  induction ops generalizing w with
  | nil => exact ⟨[], by simp [runOps], by simp [runOps, written]⟩
  | cons op ops ih =>
    obtain ⟨r, w', e, st, _, _⟩ := op_step w op (hv op (by simp)) h.noPanic h.inBuf h.unpanicked
    obtain ⟨d1, hd1, hs1, _⟩ := st.grow
    have hrun : (op.run w).2 = w' := by rw [e]
    obtain ⟨d2, hd2, hs2⟩ := ih w' (fun o ho => hv o (by simp [ho])) ⟨st.noPanic, st.inv, st.unpanicked⟩
    simp only [runOps, written, hrun]
    refine ⟨d1 ++ d2, by rw [hd2, hd1, List.append_assoc], ?_⟩
    have h1 : (d1 ++ (d2 ++ (runOps ops w').buf)).Sublist (d1 ++ (w'.buf ++ written ops w')) :=
      List.Sublist.append (List.Sublist.refl d1) hs2
    have h2 : (d1 ++ w'.buf ++ written ops w').Sublist (w.buf ++ op.bytes w ++ written ops w') :=
      List.Sublist.append hs1 (List.Sublist.refl _)
    simpa [List.append_assoc] using h1.trans (by simpa [List.append_assoc] using h2)

/-- **Write calls always succeed** (on any sink that does not panic): `write`, `write_all`,
`ascii_digits`, `flush_defer_err` never report an error. -/
theorem writes_never_fail (w : Writer) (op : Op) (hv : op.Valid) (h : Inv w)
    (hop : ∀ (r : Nat × WBytes), op ≠ .flush ∧ op ≠ .check ∧ op ≠ .ptr r.1 r.2) : (op.run w).1 = some false := by
  cases op with
  | write bs =>
    obtain ⟨w', e, _⟩ := write_spec w bs h.noPanic h.inBuf h.unpanicked
    simp [Op.run, e]
  | digits sg b x =>
    obtain ⟨r, w', e, _⟩ := op_step w (.digits sg b x) hv h.noPanic h.inBuf h.unpanicked
    simp only [Op.run] at e ⊢
    split <;> simp_all
  | ptr len bs => exact absurd rfl (hop (len, bs)).2.2
  | flush => exact absurd rfl (hop (0, [])).1
  | flushDefer =>
    obtain ⟨w2, e2, _⟩ := flushDeferErr_spec w h.noPanic h.inBuf
    simp [Op.run, e2]
  | check => exact absurd rfl (hop (0, [])).2.1
  | drop =>
    obtain ⟨w2, e2, _⟩ := flushDeferErr_spec w h.noPanic h.inBuf
    simp [Op.run, Writer.drop, h.unpanicked, e2]

/-- **No sink call while an error is parked, and the error stays parked** until a `flush` or
`check_io_error` reports it. -/
theorem no_sink_call_while_parked (w : Writer) (op : Op) (hv : op.Valid) (h : Inv w)
    (hp : w.ioError = true) :
    (op.run w).2.sink = w.sink ∧
    ((op ≠ .flush ∧ op ≠ .check) → (op.run w).2.ioError = true) := by
  obtain ⟨r, w', e, st, _, _⟩ := op_step w op hv h.noPanic h.inBuf h.unpanicked
  rw [e]
  obtain ⟨hs, hk⟩ := st.parked hp
  refine ⟨hs, fun hne => hk ?_⟩
  cases op <;> simp_all [Op.reported]

/-- **The error is reported exactly once**: `check_io_error` returns the parked flag and clears
it; `flush` returns `Err` iff an error was parked or its own write to the sink failed, and
clears it; so the next report after it finds nothing (unless the sink fails again). -/
theorem error_reported_once (w : Writer) (h : Inv w) :
    ((Op.check.run w).1 = some w.ioError ∧ (Op.check.run w).2.ioError = false) ∧
    (∃ r, (Op.flush.run w).1 = some r ∧ (Op.flush.run w).2.ioError = false ∧ (w.ioError = true → r = true)) ∧
    (w.ioError = true → (Op.check.run (Op.check.run w).2).1 = some false ∧
      (Op.check.run (Op.flush.run w).2).1 = some false) := by
  obtain ⟨r, w', e, st, _, hspec⟩ := op_step w .flush trivial h.noPanic h.inBuf h.unpanicked
  refine ⟨⟨rfl, rfl⟩, ⟨r, by rw [e], by rw [e]; exact hspec.2.1, hspec.2.2⟩, fun _ => ⟨rfl, ?_⟩⟩
  rw [e]
  simp only [Op.run, checkIoError]
  rw [hspec.2.1]

/-- **Canonical decimal text**: what `ascii_digits` appends reads back to the value, has a `-`
exactly for negative values, no leading zeros, and never exceeds `MAX_LEN` for a value of the
type (so the in-place path stays inside the reserved room). -/
theorem digits_canonical (x : Int) :
    (0 ≤ x → intDigits x = natDigits x.natAbs) ∧ (x < 0 → intDigits x = 45 :: natDigits x.natAbs) ∧
    Text.decVal (natDigits x.natAbs) = x.natAbs ∧ natDigits x.natAbs ≠ [] ∧
    (∀ b ∈ natDigits x.natAbs, isDigit b = true) ∧
    (x.natAbs ≠ 0 → (natDigits x.natAbs).head? ≠ some 48) ∧ (x = 0 → intDigits x = [48]) := by
  obtain ⟨s1, s2, s3, s4, s5⟩ := digitsOf_spec x.natAbs
  rw [natDigits_eq]
  refine ⟨fun h => by simp [intDigits, natDigits_eq]; omega, fun h => by simp [intDigits, natDigits_eq, h],
    s1, s3, s2, s4, fun h => by subst h; simp [intDigits, natDigits_eq]; exact s5 rfl⟩

theorem digits_fit (signed : Bool) (bits : Nat) (hb : 1 ≤ bits) (x : Int)
    (hfit : (IntTy.mk signed bits).fits x = true) : (Op.digits signed bits x).Valid :=
  intDigits_length_le signed bits x hfit hb

/-- Non-vacuity: a concrete history on a short-writing sink and on a failing sink. -/
example :
    let w : Writer := { sink := { sched := [.accept 2, .intr, .accept 1] }, cap := 4 }
    let ops : List Op := [.write [1, 2, 3], .digits true 8 (-128), .write [9]]
    w.sink.Good ∧ (∀ op ∈ ops, op.Valid) ∧
    (runOps (ops ++ [.flush]) w).sink.sunk = [1, 2, 3, 45, 49, 50, 56, 9] ∧
    (let wf : Writer := { sink := { sched := [.accept 2, .fail] }, cap := 4 }
     (runOps (ops ++ [.flush]) wf).sink.sunk = [1, 2] ∧
     (Op.flush.run (runOps ops wf)).1 = some true) := by
  refine ⟨?_, ?_, by decide, by decide⟩
  · intro e he; simp at he; rcases he with rfl | rfl | rfl <;> simp
  · intro op hop; simp at hop; rcases hop with rfl | rfl | rfl <;> simp [Op.Valid] <;> decide

end Flussab.C11
