/-
C01 (BTOR2 part) — the keyword scanner `ascii_lowercase` does not depend on how much input is
buffered.

`ascii_lowercase` proceeds in 8-byte steps; at each step `buf_len() < offset + 8` decides between
a byte-wise cold path (which requests bytes, so the buffer may grow) and an 8-byte SWAR kernel on
the buffered bytes.  The model (`Btor2.asciiLowercaseMulti`) takes the buffered amount at every
step as a parameter `bl : offset → amount`; the kernel is `Gen.asciiLowercaseU64`, regenerated
from the source on every check run.  The theorems say that for EVERY such `bl` (bounded by the
stream: buffered bytes exist) the scanner returns the end of the longest run of `a..z` — the
reference the token models are written against — never panics, and leaves the reader in the
abstract state of the reference except that it may have demanded fewer bytes.
-/
import Flussab.Proof.Btor2Lower

namespace Flussab.C01
open Flussab Flussab.Btor2

/-- **The SWAR kernel**: for every 8 buffered bytes it returns the number (0..8) of leading
`a..z` bytes and the word masked to exactly those bytes. -/
theorem btor2_lowercase_kernel (b0 b1 b2 b3 b4 b5 b6 b7 : UInt8) (rest : VBytes) :
    let l := b0 :: b1 :: b2 :: b3 :: b4 :: b5 :: b6 :: b7 :: rest
    let run := (l.take 8).takeWhile isLower
    Gen.asciiLowercaseU64 (Text.le64 l) = (Text.le64 run, run.length) ∧ run.length ≤ 8 := by
  intro l run
  refine ⟨SwarLower.lower_list b0 b1 b2 b3 b4 b5 b6 b7 rest, ?_⟩
  have := takeWhile_take_length isLower l 8
  simp only [run]; omega

/-- **No overflow check of the kernel fires**, for all 2^64 words. -/
theorem btor2_lowercase_kernel_no_panic (w : BitVec 64) : Gen.asciiLowercaseU64NoPanic w = true :=
  SwarLower.lower_noPanic w

/-- **`lowercase_eq_spec`**: for every view, offset and every sequence `bl` of buffered amounts
(`bl o ≤` length of the stream in front of the cursor), `ascii_lowercase` does not panic, returns
the offset just past the longest run of `a..z` at `off` — what the reference `lowercaseRun`
returns — and its view equals the reference's view (stream, position, mark, end-of-stream and
I/O-error flags) except for the look-ahead ghost, which is at most the reference's: no byte beyond
the one that ends the run was demanded. -/
theorem btor2_lowercase_eq_spec (v : View) (off : Nat) (bl : Nat → Nat)
    (hbl : ∀ o, bl o ≤ v.rest.length) :
    ∃ v', asciiLowercaseMulti v off bl = some ((lowercaseRun v off).1, v') ∧
      (lowercaseRun v off).1 = off + ((v.rest.drop off).takeWhile isLower).length ∧
      SameButPeek v' (lowercaseRun v off).2 ∧
      v.peeked ≤ v'.peeked ∧ v'.peeked ≤ (lowercaseRun v off).2.peeked := by
  have hr := runLen_le isLower (v.rest.drop off)
  simp only [List.length_drop] at hr
  obtain ⟨v', e, s, p1, p2⟩ := loop_spec bl (v.rest.length + 2) v off hbl (by omega)
  refine ⟨v', e, ?_, s, p1, p2⟩
  simp only [lowercaseRun, scanWhile, runLen_eq_takeWhile]

/-- The result does not depend on the buffered amounts at all. -/
theorem btor2_lowercase_buffer_independent (v : View) (off : Nat) (bl₁ bl₂ : Nat → Nat)
    (h₁ : ∀ o, bl₁ o ≤ v.rest.length) (h₂ : ∀ o, bl₂ o ≤ v.rest.length) :
    (asciiLowercaseMulti v off bl₁).map (·.1) = (asciiLowercaseMulti v off bl₂).map (·.1) := by
  obtain ⟨_, e1, _⟩ := btor2_lowercase_eq_spec v off bl₁ h₁
  obtain ⟨_, e2, _⟩ := btor2_lowercase_eq_spec v off bl₂ h₂
  rw [e1, e2]; rfl

/-- The special case of a constant buffered amount (e.g. everything / nothing buffered). -/
theorem btor2_lowercase_eq_spec_const (v : View) (off bl : Nat) (hbl : bl ≤ v.rest.length) :
    (asciiLowercaseMulti v off (fun _ => bl)).map (·.1) =
      some (off + ((v.rest.drop off).takeWhile isLower).length) := by
  obtain ⟨_, e, r, _⟩ := btor2_lowercase_eq_spec v off (fun _ => bl) (fun _ => hbl)
  rw [e, ← r]; rfl

/-- Non-vacuity: the 10-letter keyword `constraint` followed by a space, scanned with nothing
buffered (cold path twice), with everything buffered (SWAR step, then cold step), and with
exactly 8 bytes buffered at the first step and 11 at the second; a run that ends with the
stream; an empty run. -/
example :
    let kw : VBytes := [99, 111, 110, 115, 116, 114, 97, 105, 110, 116, 32]
    (asciiLowercaseMulti (View.init kw false) 0 (fun _ => 0)).map (·.1) = some 10 ∧
    (asciiLowercaseMulti (View.init kw false) 0 (fun _ => 11)).map (·.1) = some 10 ∧
    (asciiLowercaseMulti (View.init kw false) 0 (fun o => if o = 0 then 8 else 11)).map (·.1) = some 10 ∧
    (asciiLowercaseMulti (View.init (kw.take 10) true) 0 (fun _ => 10)).map (·.1) = some 10 ∧
    ((asciiLowercaseMulti (View.init (kw.take 10) true) 0 (fun _ => 10)).map (·.2.ioErr)) = some true ∧
    (asciiLowercaseMulti (View.init kw false) 10 (fun _ => 11)).map (·.1) = some 10 := by
  decide +kernel

end Flussab.C01
