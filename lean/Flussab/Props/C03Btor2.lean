/-
C03 (BTOR2 part) — write ∘ parse = id.

`Btor2.writeLine` is the model of `Line::write_into` (keywords from the tables regenerated from
the source, numbers as canonical decimal text), `Btor2.nextLine` the model of `Parser::next_line`
(of the code after the `fix:` commits F10–F12).  The domain `Line.wf` is what the public
constructors allow — non-zero `u64` ids / sorts / widths (`NonZeroU64`), `u64` indices, constants
accepted by the models of the `TryFrom<&str>` validators (`binaryConstOk`, `hexConstOk`,
`decimalConstOk` — after F12 only decimal digits, an optional leading `-`, and — as the crate's
own test suite requires — also a lone `-`) — minus what the text format cannot express: a
`justice` line needs at least one condition (and fewer than `2^64`); a symbol is non-empty, has no
space or newline and does not start with `;`; a comment has no newline.
-/
import Flussab.Proof.Btor2Document
import Flussab.Proof.Btor2Wf

namespace Flussab.C03
open Flussab Flussab.Btor2 PM

/-- **The keyword part**: for every operator value, `node_token` maps the keyword
`Value::write_into` emits (`op.name()`) back to the token of that operator.  `decide` over the
tables generated from `token.rs` / `btor2.rs` on every check run. -/
theorem btor2_keyword_roundtrip (op : Op) :
    Gen.Btor2.nodeToken (opName op) = some (.value (Btor2Tables.opToken op)) :=
  Btor2Tables.keyword_roundtrip op

/-- The keywords the writer emits as byte literals are read back as the token they were written
for (each literal is the keyword plus one space). -/
theorem btor2_literal_keywords_roundtrip :
    (∀ k, Gen.Btor2.nodeToken (Gen.Btor2.assignmentKindKw k).dropLast = some (.assignment k)) ∧
    (∀ k, Gen.Btor2.nodeToken (Gen.Btor2.singleValueOutputKindKw k).dropLast = some (.output k)) ∧
    Gen.Btor2.nodeToken Gen.Btor2.kwOutputJustice.dropLast = some .justice ∧
    Gen.Btor2.nodeToken Gen.Btor2.kwConstBinary.dropLast = some (.value .const) ∧
    Gen.Btor2.nodeToken Gen.Btor2.kwConstDecimal.dropLast = some (.value .constd) ∧
    Gen.Btor2.nodeToken Gen.Btor2.kwConstHex.dropLast = some (.value .consth) ∧
    Gen.Btor2.nodeToken Gen.Btor2.kwConstOne.dropLast = some (.value .one) ∧
    Gen.Btor2.nodeToken Gen.Btor2.kwConstOnes.dropLast = some (.value .ones) ∧
    Gen.Btor2.nodeToken Gen.Btor2.kwConstZero.dropLast = some (.value .zero) ∧
    Gen.Btor2.nodeToken Gen.Btor2.kwValueVariantInput.dropLast = some (.value .input) ∧
    Gen.Btor2.nodeToken Gen.Btor2.kwValueVariantState.dropLast = some (.value .state) :=
  ⟨fun k => (Btor2Tables.assignment_roundtrip k).2, fun k => (Btor2Tables.output_roundtrip k).2,
   Btor2Tables.justice_roundtrip.2, Btor2Tables.const_roundtrip.1, Btor2Tables.const_roundtrip.2.2.1,
   Btor2Tables.const_roundtrip.2.2.2.2.1, Btor2Tables.const_roundtrip.2.2.2.2.2.2.1,
   Btor2Tables.const_roundtrip.2.2.2.2.2.2.2.2.1, Btor2Tables.const_roundtrip.2.2.2.2.2.2.2.2.2.2.1,
   Btor2Tables.const_roundtrip.2.2.2.2.2.2.2.2.2.2.2.2.1,
   Btor2Tables.const_roundtrip.2.2.2.2.2.2.2.2.2.2.2.2.2.2.1⟩

/-- **`btor2_roundtrip`**: for every well-formed line `l` (every line kind: comment lines, sorts,
all six constant forms, inputs, states, every unary / binary / ternary operator with its
indices, `init` / `next`, `output` / `bad` / `constraint` / `fair`, `justice` with any number of
conditions; with or without symbol, with or without trailing comment) and whatever follows it
(`T`), `next_line` on the bytes `write_into` emits returns exactly `l` — no error, no panic —
having consumed exactly the line: the cursor is at `T` behind the newline, or, for a line that ends
in a comment, ON that newline (`comment_body` leaves it; the next call's `skip_whitespace` takes it).
The line counter is advanced exactly when the newline was consumed.  (`h1`, `h2`: the line and
byte counters do not overflow `usize`.) -/
theorem btor2_roundtrip (l : Line) (hwf : l.wf = true) (lr : LR) (T : VBytes)
    (hr : lr.v.rest = writeLine l ++ T) (h1 : lr.line + 1 ≤ usizeMax)
    (h2 : lr.v.pos + (writeLine l).length ≤ usizeMax) :
    ∃ lr', nextLine.run lr = (.ok (some l), lr') ∧
      lr'.v.rest = (if l.endsInComment then 10 :: T else T) ∧
      lr'.v.pos = lr.v.pos + (if l.endsInComment then (writeLine l).length - 1 else (writeLine l).length) ∧
      lr'.line = lr.line + (if l.endsInComment then 0 else 1) ∧
      lr'.v.sawEnd = lr.v.sawEnd ∧ lr'.v.ioErr = lr.v.ioErr := by
  obtain ⟨r, lr', hrun, hres, le⟩ := run_of_wp_false (nextLine_exact l hwf hr h1 h2)
  subst hres
  refine ⟨lr', hrun, ?_, ?_, ?_, le.sawEnd, le.ioErr⟩
  · rw [le.rest, hr]
    cases hc : l.endsInComment
    · simp
    · simp only [↓reduceIte]
      have hlen : 0 < (writeLine l).length := by simp [writeLine]
      have hlast : writeLine l = (writeLine l).take ((writeLine l).length - 1) ++ [10] := by
        simp only [writeLine]
        simp
      rw [List.drop_append_of_le_length (by omega)]
      conv => lhs; rw [hlast]
      simp
  · rw [le.pos]
  · rw [le.line]; cases l.endsInComment <;> simp

/-- From the initial state of a reader over `write(l) ++ T` (the usual case). -/
theorem btor2_roundtrip_init (l : Line) (hwf : l.wf = true) (T : VBytes) (fault : Bool)
    (hsize : (writeLine l).length < 2 ^ 63) :
    ∃ lr', nextLine.run (LR.init (writeLine l ++ T) fault) = (.ok (some l), lr') ∧
      lr'.v.rest = (if l.endsInComment then 10 :: T else T) := by
  obtain ⟨lr', h, hrest, _⟩ := btor2_roundtrip l hwf (LR.init (writeLine l ++ T) fault) T rfl
    (by simp [LR.init, usizeMax]) (by simp only [LR.init, View.init, usizeMax]; omega)
  exact ⟨lr', h, hrest⟩

/-- The validators of the constant types are what makes a constant round-trip: a string is in
the domain iff the model of `TryFrom<&str>` accepts it (F12: for `DecimalConst` that is now
"decimal digits after an optional minus sign"; `"1f"` is rejected). -/
theorem btor2_const_domain :
    (∀ s, (Const.binary s).wf = binaryConstOk s) ∧ (∀ s, (Const.hex s).wf = hexConstOk s) ∧
    (∀ s, (Const.decimal s).wf = decimalConstOk s) ∧
    decimalConstOk [49, 102] = false ∧ decimalConstOk [45, 57, 48] = true ∧ decimalConstOk [45] = true ∧
    decimalConstOk [] = false ∧ decimalConstOk [49, 45] = false :=
  ⟨fun _ => rfl, fun _ => rfl, fun _ => rfl, by decide, by decide, by decide, by decide, by decide⟩

/-- The last line of the crate's own round-trip test:
`74 justice 3 55 56 57 justice ;justice property`. -/
private def exLine : Line :=
  .node { id := 74, variant := .output (.justice [55, 56, 57]),
          symbol := some [106, 117, 115, 116, 105, 99, 101],
          comment := some [106, 117, 115, 116, 105, 99, 101, 32, 112, 114, 111, 112, 101, 114, 116, 121] }

/-- Non-vacuity: that line is in the domain, is written as expected, and is read back. -/
example :
    exLine.wf = true ∧
    writeLine exLine = [55, 52, 32, 106, 117, 115, 116, 105, 99, 101, 32, 51, 32, 53, 53, 32, 53, 54, 32, 53, 55,
      32, 106, 117, 115, 116, 105, 99, 101, 32, 59, 106, 117, 115, 116, 105, 99, 101, 32, 112, 114, 111, 112,
      101, 114, 116, 121, 10] ∧
    (match (nextLine.run (LR.init (writeLine exLine ++ [49]) false)).1 with
      | .ok r => r | .error _ => none) = some exLine := by
  decide +kernel

/-- **Documents**: any list of well-formed lines, each written by `write_into` one after the other,
is parsed back — `Parser::new`, then `next_line` until it returns `None` — to exactly that list,
with a clean end (from a source that does not fail; of any length below `2^63` bytes). -/
theorem btor2_document_roundtrip (ls : List Line) (hwf : ∀ l ∈ ls, l.wf = true)
    (hsize : ((ls.map writeLine).flatten).length < 2 ^ 63) :
    parseAll (LR.init (ls.map writeLine).flatten false) = (ls, none) := by
  have hlen : ls.length ≤ ((ls.map writeLine).flatten).length := by
    clear hwf hsize
    induction ls with
    | nil => simp
    | cons l ls ih =>
      have := writeLine_length_pos l
      simp only [List.map_cons, List.flatten_cons, List.length_append, List.length_cons]; omega
  obtain ⟨h1, h2⟩ := driveLines_doc ls hwf ((ls.map writeLine).flatten.length + 2) []
    (LR.init (ls.map writeLine).flatten false) false (by simp [LR.init, View.init, docText]) rfl rfl
    (by omega) (by simp only [LR.init, usizeMax]; simp; omega)
    (by simp only [LR.init, View.init, usizeMax]; omega)
  unfold parseAll
  have hl : (LR.init (ls.map writeLine).flatten false).v.rest.length = (ls.map writeLine).flatten.length := rfl
  rw [hl]
  generalize driveLines ((ls.map writeLine).flatten.length + 2) [] (LR.init (ls.map writeLine).flatten false) = r at *
  obtain ⟨items, fin, lr'⟩ := r
  simp only [List.reverse_nil, List.nil_append] at h1 h2
  simp only [h1, h2]

/-- **`btor2_parsed_is_wf`** (the converse): every line `next_line` returns — from any reader
state, over any input — is in the domain of the round trip: its ids are non-zero `u64`s, its
indices `u64`s, its constant is accepted by the model of the `TryFrom` validator, a `justice` line
has exactly the (positive) number of conditions it announces, symbol and comment are of the shape
the writer can emit. -/
theorem btor2_parsed_is_wf (lr lr' : LR) (l : Line) (hr : nextLine.run lr = (.ok (some l), lr')) :
    l.wf = true :=
  (nextLine_val (lr := lr)).of_run.1 (some l) lr' hr l rfl

/-- **`parse ∘ write ∘ parse = parse`, one line**: a line that was parsed from anywhere is read
back from the bytes `write_into` emits for it. -/
theorem btor2_parse_write_parse_line (lr lr' : LR) (l : Line) (hr : nextLine.run lr = (.ok (some l), lr'))
    (lr2 : LR) (T : VBytes) (h2 : lr2.v.rest = writeLine l ++ T) (hl : lr2.line + 1 ≤ usizeMax)
    (hp : lr2.v.pos + (writeLine l).length ≤ usizeMax) :
    ∃ lr2', nextLine.run lr2 = (.ok (some l), lr2') := by
  obtain ⟨lr2', h, _⟩ := btor2_roundtrip l (btor2_parsed_is_wf lr lr' l hr) lr2 T h2 hl hp
  exact ⟨lr2', h⟩

/-- **`parse ∘ write ∘ parse = parse`, whole documents**: the lines a parse of ANY input handed out
(whatever its final outcome, whatever the kind of source), written one after the other by
`write_into`, are parsed back to exactly those lines with a clean end. -/
theorem btor2_parse_write_parse (b : VBytes) (fault : Bool)
    (hsize : (((parseAll (LR.init b fault)).1.map writeLine).flatten).length < 2 ^ 63) :
    parseAll (LR.init ((parseAll (LR.init b fault)).1.map writeLine).flatten false) =
      ((parseAll (LR.init b fault)).1, none) := by
  refine btor2_document_roundtrip _ ?_ hsize
  intro l hl
  unfold parseAll at hl
  have := driveLines_wf ((LR.init b fault).v.rest.length + 2) [] (LR.init b fault) (by simp)
  rcases hd : driveLines ((LR.init b fault).v.rest.length + 2) [] (LR.init b fault) with ⟨items, fin, lr'⟩
  rw [hd] at this hl
  exact this l hl

end Flussab.C03
