/-
C05 (BTOR2 part) — every input terminates with `Ok` or `Err`, never a panic.

The model of `flussab-btor2` (`Model/Btor2Token.lean`, `Model/Btor2.lean`: token.rs and parser.rs
function by function, after the `fix:` commits for F10–F12) makes every Rust panic site an explicit
value `PErr.panic site`: `advance` / slice beyond scanned data, `buf()[0]`, the `from_utf8().unwrap()`
on a rejected numeral, `NonZeroU64::new(..).unwrap()`, the checked column subtraction of
`give_up_at` (F11: `exceeds_count` at a mark nobody had set), the checked additions of
`line_at_offset`, and the fuel of every loop.  The theorems say that, from every state satisfying
the `LineReader` invariant `Inv b f` — in particular from the initial state over ANY input `b`
(`b.length < 2^63`) delivered by a source that fails at its end (`f = true`) or not — none of
them is reached.  Termination is by construction (the model is total); "out of fuel" is one of
the excluded panic sites.

The 8-byte SWAR kernel's own overflow checks are excluded in `C01.btor2_lowercase_kernel_no_panic`
(`Props/C01Btor2.lean`).
-/
import Flussab.Proof.Btor2ParserSafe

namespace Flussab.C05
open Flussab Flussab.Btor2 PM

/-- A run that satisfies `Wp (Err b f) …` does not end in a panic. -/
theorem btor2_no_panic_of_wp {α : Type} {b : VBytes} {f : Bool} {m : PM α} {lr : LR}
    {Q : α → LR → Prop} (h : Wp (Err b f) m lr Q) (site : String) (lr' : LR) :
    m.run lr ≠ (.error (.panic site), lr') := by
  intro hr
  have := (h.of_run).2 _ _ hr
  exact this.2

variable {b : VBytes} {f : Bool} {lr : LR}

/-- **Number tokens** (`uint`, `positive_int`, `nonnegative_int`, and through them `node_id`,
`sort_id` and the `required_*` variants) never panic: `buf()[0]` and `&buf()[..offset]` are within
scanned data, the rejected numeral is ASCII, `NonZeroU64::new(0)` is unreachable, and — F11 —
`exceeds_count` reports at a mark that `positive_int` / `nonnegative_int` have just set, so the
column subtraction cannot underflow. -/
theorem btor2_number_tokens_no_panic (h : Inv b f lr) (site : String) (lr' : LR) :
    uint.run lr ≠ (.error (.panic site), lr') ∧
    positiveInt.run lr ≠ (.error (.panic site), lr') ∧
    nonnegativeInt.run lr ≠ (.error (.panic site), lr') ∧
    requiredNodeId.run lr ≠ (.error (.panic site), lr') ∧
    requiredSortId.run lr ≠ (.error (.panic site), lr') ∧
    requiredPositiveInt.run lr ≠ (.error (.panic site), lr') ∧
    requiredNonnegativeInt.run lr ≠ (.error (.panic site), lr') :=
  ⟨btor2_no_panic_of_wp (uint_ok (E := Err b f) h) site lr',
   btor2_no_panic_of_wp (positiveInt_ok h) site lr',
   btor2_no_panic_of_wp (nonnegativeInt_ok h) site lr',
   btor2_no_panic_of_wp (requiredNodeId_ok h) site lr',
   btor2_no_panic_of_wp (requiredSortId_ok h) site lr',
   btor2_no_panic_of_wp (requiredPositiveInt_ok h) site lr',
   btor2_no_panic_of_wp (requiredNonnegativeInt_ok h) site lr'⟩

/-- A value returned by `positive_int` is a non-zero `u64` (so `NonZeroU64::new` succeeds), one
returned by `nonnegative_int` is a `u64`. -/
theorem btor2_number_tokens_in_range (h : Inv b f lr) :
    (∀ v lr', positiveInt.run lr = (.ok (some v), lr') → 0 < v ∧ v < 2 ^ 64) ∧
    (∀ v lr', nonnegativeInt.run lr = (.ok (some v), lr') → v < 2 ^ 64) :=
  ⟨fun v lr' hr => ((positiveInt_ok h).of_run.1 _ _ hr).2 v rfl,
   fun v lr' hr => ((nonnegativeInt_ok h).of_run.1 _ _ hr).2 v rfl⟩

/-- **The other token functions** never panic. -/
theorem btor2_tokens_no_panic (h : Inv b f lr) (site : String) (lr' : LR) :
    newline.run lr ≠ (.error (.panic site), lr') ∧
    space.run lr ≠ (.error (.panic site), lr') ∧
    requiredSpace.run lr ≠ (.error (.panic site), lr') ∧
    skipWhitespace.run lr ≠ (.error (.panic site), lr') ∧
    commentStart.run lr ≠ (.error (.panic site), lr') ∧
    commentBody.run lr ≠ (.error (.panic site), lr') ∧
    symbolName.run lr ≠ (.error (.panic site), lr') ∧
    eof.run lr ≠ (.error (.panic site), lr') ∧
    requiredHexConstant.run lr ≠ (.error (.panic site), lr') ∧
    requiredDecimalConstant.run lr ≠ (.error (.panic site), lr') ∧
    requiredBinaryConstant.run lr ≠ (.error (.panic site), lr') ∧
    nodeToken.run lr ≠ (.error (.panic site), lr') ∧
    sortToken.run lr ≠ (.error (.panic site), lr') ∧
    (unexpected : PM Unit).run lr ≠ (.error (.panic site), lr') :=
  ⟨btor2_no_panic_of_wp (newline_ok (E := Err b f) h) site lr',
   btor2_no_panic_of_wp (space_ok (E := Err b f) h) site lr',
   btor2_no_panic_of_wp (requiredSpace_ok h) site lr',
   btor2_no_panic_of_wp (skipWhitespace_ok (E := Err b f) h) site lr',
   btor2_no_panic_of_wp (commentStart_ok (E := Err b f) h) site lr',
   btor2_no_panic_of_wp (commentBody_ok h) site lr',
   btor2_no_panic_of_wp (symbolName_ok (E := Err b f) h) site lr',
   btor2_no_panic_of_wp (eof_ok (E := Err b f) h) site lr',
   btor2_no_panic_of_wp (requiredHexConstant_ok h) site lr',
   btor2_no_panic_of_wp (requiredDecimalConstant_ok h) site lr',
   btor2_no_panic_of_wp (requiredBinaryConstant_ok h) site lr',
   btor2_no_panic_of_wp (nodeToken_ok (E := Err b f) h) site lr',
   btor2_no_panic_of_wp (sortToken_ok (E := Err b f) h) site lr',
   btor2_no_panic_of_wp (unexpected_ok (Q := fun _ _ => True) h) site lr'⟩

/-- **`next_line` never panics** and keeps the invariant, so the statement iterates over any
number of calls; a returned line has consumed input. -/
theorem btor2_next_line_no_panic (h : Inv b f lr) :
    (∀ site lr', nextLine.run lr ≠ (.error (.panic site), lr')) ∧
    (∀ r lr', nextLine.run lr = (.ok r, lr') → Inv b f lr' ∧ lr.v.pos ≤ lr'.v.pos ∧
      (r.isSome = true → lr.v.pos < lr'.v.pos)) :=
  ⟨fun site lr' => btor2_no_panic_of_wp (nextLine_ok h) site lr',
   fun r lr' hr => ((nextLine_ok h).of_run.1 r lr' hr).1⟩

/-- **Parsing a whole document never panics and never runs out of fuel**: for every input `b`
(shorter than `2^63` bytes, so that line/column arithmetic cannot overflow) and either kind of
source, the final outcome of `Parser::new` + `next_line` until the end is a clean end or an
`io` / `syntax` error. -/
theorem btor2_parse_no_panic (b : VBytes) (fault : Bool) (hsize : b.length < 2 ^ 63) (site : String) :
    (parseAll (LR.init b fault)).2 ≠ some (.panic site) := by
  intro hp
  have hinv := inv_init b fault (SizeOK.of_lt hsize)
  have hlen : (LR.init b fault).v.rest.length < (LR.init b fault).v.rest.length + 2 := by omega
  obtain ⟨h1, _⟩ := driveLines_ok ((LR.init b fault).v.rest.length + 2) [] (LR.init b fault) hinv hlen
  unfold parseAll at hp
  generalize driveLines ((LR.init b fault).v.rest.length + 2) [] (LR.init b fault) = r at *
  obtain ⟨items, fin, lr'⟩ := r
  simp only at hp h1
  exact (h1 _ hp).2

/-- Non-vacuity / regression for F11: an overflowing number on line 2 is a syntax error at the
number (line 2, column 15) — on the pinned tree this was a panic — and a complete document parses
to its two lines. -/
example :
    -- "1 sort bitvec 1\n2 sort bitvec 99999999999999999999\n"
    (parseAll (LR.init ([49, 32, 115, 111, 114, 116, 32, 98, 105, 116, 118, 101, 99, 32, 49, 10,
      50, 32, 115, 111, 114, 116, 32, 98, 105, 116, 118, 101, 99, 32] ++ List.replicate 20 57 ++ [10]) false))
      = ([.node { id := 1, variant := .sort (.bitVec 1) }], some (.syn 2 15)) ∧
    -- "1 sort bitvec 8\n2 input 1 x ;c\n"
    (parseAll (LR.init [49, 32, 115, 111, 114, 116, 32, 98, 105, 116, 118, 101, 99, 32, 56, 10,
      50, 32, 105, 110, 112, 117, 116, 32, 49, 32, 120, 32, 59, 99, 10] false))
      = ([.node { id := 1, variant := .sort (.bitVec 8) },
          .node { id := 2, variant := .value 1 .input, symbol := some [120], comment := some [99] }], none) := by
  decide +kernel

end Flussab.C05
