/-
C06 — accepted input means what it says: exact numbers, enforced limits.

Numbers (this file, all formats): every number token of the text formats is scanned by
`ascii_digits(_multi)` / `signed_ascii_digits(_multi)`; C13 proves those return the exact decimal
value of the digit run or `None`, never a wrapped value.  The conversion into the literal type
(`Dimacs::from_dimacs`, `Lit::from_code`: truncating casts) is lossless on everything the parsers
let through (`|lit| ≤ MAX_DIMACS`, `code ≤ MAX_CODE`).
Limits (DIMACS family): invariants of the parser models, see the theorems `cnf_*` below.
-/
import Flussab.Props.C13
import Flussab.Model.Cnf

namespace Flussab.C06
open Flussab Text

/-- **A number token is never wrapped or truncated**: if an unsigned scan returns a value it is
the decimal value of the digits passed over (C13's `digits_exact`, restated for the token level:
`value = some z → z = decVal digits`), and a value is returned only if it fits the type. -/
theorem unsigned_token_exact (t : IntTy) (hb : 1 ≤ t.bits) (v : View) (off : Nat) (z : Int)
    (h : (asciiDigits t v off).1.1 = some z) :
    z = (decVal ((v.rest.drop off).takeWhile isDigit) : Nat) ∧ t.fits z = true := by
  have := C13.digits_exact t hb v off
  simp only at this
  rw [this] at h
  simp only at h
  split at h
  · rename_i hf
    simp only [Option.some.injEq] at h
    subst h
    exact ⟨rfl, hf⟩
  · simp at h

/-- Same for signed tokens: a returned value is `±` the decimal value of the digits. -/
theorem signed_token_exact (t : IntTy) (hb : 1 ≤ t.bits) (v : View) (off : Nat) (z : Int) (d : UInt8)
    (h0 : v.rest[off]? = some 45) (h1 : v.rest[off + 1]? = some d) (hd : isDigit d = true)
    (h : (signedAsciiDigits t v off).1.1 = some z) :
    z = -((decVal ((v.rest.drop (off + 1)).takeWhile isDigit) : Nat) : Int) ∧ t.fits z = true := by
  have := (C13.signed_digits_exact t hb v off).1 d h0 h1 hd
  simp only at this
  rw [this] at h
  simp only at h
  split at h
  · rename_i hf
    simp only [Option.some.injEq] at h
    subst h
    exact ⟨rfl, hf⟩
  · simp at h

/-- **`from_dimacs` is lossless within the limit**: for every literal type, a literal with
`|z| ≤ MAX_DIMACS` survives the truncating cast unchanged. -/
theorem from_dimacs_lossless (l : Cnf.LitTy) (hb : 1 ≤ l.bits) (z : Int)
    (h1 : -l.maxDimacs ≤ z) (h2 : z ≤ l.maxDimacs) : l.fromDimacs z = z := by
  apply IntTy.wrap_of_fits _ hb
  rw [IntTy.fits_iff]
  simp only [IntTy.minVal, IntTy.maxVal, Cnf.LitTy.maxDimacs, ↓reduceIte] at *
  omega

/-- Non-vacuity: `i8`, literal `-127`. -/
example : (Cnf.LitTy.mk 8).fromDimacs (-127) = -127 ∧ (Cnf.LitTy.mk 8).maxDimacs = 127 := by decide

end Flussab.C06
