/-
Tie between the whole-file drivers of the two AIGER parsers — `Parser::parse` of
`/repo/flussab-aiger/src/ascii.rs` and of `/repo/flussab-aiger/src/binary.rs` — and the hand-written model
`Model/Aiger.lean` (`parseAscii`, `parseBinary`): the statements.  (Proofs: `Proof/TieAigerParse.lean`.)

`Flussab.Gen.AigerParse.parse` (file `Gen/AigerParseGen.lean`, unit `tools/unit_aigerparse.py`) and
`Flussab.Gen.AigerBinParse.parse` (file `Gen/AigerBinParseGen.lean`, unit `tools/unit_aigerbinparse.py`, a
subclass) are produced by `tools/gen_core.py` from the Rust source on every check run.

Correspondence.  The reader is the state `LR` of the parser monad `PM`; `self: Parser<'a, L>` without its reader is
the parameter `p : Aiger.Parser`; the typestate variable `aag_reader`, re-bound to a different struct by every
transition, is alpha-renamed per re-binding (`aag_reader`, `aag_reader1`, …) and is the one record `Aiger.St` for
all section structs, `Aiger.Parser` for `ParseSymbols` (as in the units aigersections / aigersymbols).  The calls
of the typestate API are the *model* functions `Aiger.Parser.inputs`, `Aiger.nextX`, `Aiger.toX`,
`Aiger.nextSymbol`, `Aiger.comment`, which are tied to the source text of those methods by
`Props/TieAigerSections.lean`, `Props/TieAigerBinSections.lean` and `Props/TieAigerSymbols.lean` (under the
hypotheses stated there: `bin = false` / `true` for the transitions shared by the two formats, `total ≤ usize::MAX`
for the justice sizes); a `&mut self` call `r.next_x()?` is `let t ← Aiger.nextX r; r := t.2` with value `t.1`.
`Aig<L>` / `OrderedAig<L>` is the model's record `Aiger.Aig` / `Aiger.OrderedAig` (`..Default::default()` = the
defaults of the Lean structure; `Vec<T>` = `List T` in push order; `push` = `++ [x]`); `into_owned_name()` and
`to_owned()` keep the bytes.  Indexing is checked (`Model/AigerParseExt.lean`: `index`, `pushAt`); the three index
expressions of `parse()` are those of the justice bookkeeping, and the contract gives their panic the model's
site name "justice property index out of bounds" — so the equalities below also cover the panicking runs and no
reachability argument is needed (that the site is unreachable on a parse is `Aiger.justiceLitsLoop_ok`).
Every `while let` loop gets the fuel of the model's `whileSome` at that place (`r.left + 1`; symbol table:
`rest.length + 2`), the inner `while` the fuel `justice_properties.len() + 1` of `Aiger.justiceSeek`, and the
model's out-of-fuel values.

* `parse_tied`, `parse_bin_tied`: **unconditional** equalities of `PM` computations — for every parser record
  (whatever its `bin` flag, counts, literal type) and every reader state the generated function returns the same
  `Aig` / `OrderedAig` (or throws the same error / panics at the same site) and leaves the same reader state as
  the model.  The model reads `max_var_index` (binary: and `input_count`) from the parser record returned by the
  last transition, the code from `self`; `Aiger.parseAscii_post` / `parseBinary_post` show they coincide.
* per-loop lemmas, fuel for fuel, for every continuation `K` that maps `Ctl.fuel` to `rpanic "fuel"`
  (`Ctl.brk` carries the loop-carried locals):
  `section_loop_generic` — the shape `while let Some(x) = r.next_x()? { a.push(x) }` is `whileSome`;
  `inputs_loop_tied`, `latches_loop_tied`, `outputs_loop_tied`, `bad_loop_tied`, `constraints_loop_tied`,
  `fairness_loop_tied`, `and_gates_loop_tied`, `symbols_loop_tied` and their `_bin_` versions — its instances;
  `justice_sizes_loop_tied` — the sizes are collected and one empty vector is pushed per size (F7);
  `justice_seek_loop_tied` — the inner `while` is `justiceSeek`; a failed bounds check = running out of fuel =
  the model's `none` = `rpanic "justice property index out of bounds"`;
  `justice_lits_loop_tied` — the distributing loop is `justiceLitsLoop` (the checked
  `aig.justice_properties[jp].push(..)` after a successful seek cannot fail), for continuations that ignore the
  cursor `justice_property`, which is dead after the loop.

Nothing of the two `parse` functions is left untranslated.
-/
import Flussab.Proof.TieAigerParse

namespace Flussab
namespace TieAigerParse

open TieAigerParseAux PM Aiger

/-! ### the whole functions -/

theorem parse_tied (p : Aiger.Parser) : Gen.AigerParse.parse p = Aiger.parseAscii p := Ascii.parse_eq p

theorem parse_bin_tied (p : Aiger.Parser) : Gen.AigerBinParse.parse p = Aiger.parseBinary p := Bin.parse_eq p

/-! ### the loops -/

/-- Any loop `L` that satisfies the two equations of a generated
`while let Some(x) = r.next_x()? { a.push(x) }` loop (`pack a r` = its tuple of loop-carried variables). -/
theorem section_loop_generic {σ α A T R β : Type} (next : σ → PM (Option α × σ)) (push : A → α → A)
    (pack : A → σ → T) (L : Nat → T → PM (Ctl T R))
    (hz : ∀ a r, L 0 (pack a r) = pure Ctl.fuel)
    (hs : ∀ f a r, L (f + 1) (pack a r) = next r >>= fun t =>
      match t.1 with
      | some x => L f (pack (push a x) t.2)
      | none => pure (Ctl.brk (pack a t.2)))
    (n : Nat) (a : A) (r : σ) (K : Ctl T R → PM β) (hK : K Ctl.fuel = rpanic "fuel") :
    (L n (pack a r) >>= K) =
      (whileSome next n r [] >>= fun p => K (Ctl.brk (pack (p.1.foldl push a) p.2))) :=
  loop_generic next push pack L hz hs n a r K hK

section ascii
open Gen.AigerParse
variable {β : Type} (n : Nat) (a : Aig) (r : St) (K : Ctl (Aig × St) Aig → PM β) (hK : K Ctl.fuel = rpanic "fuel")
include hK

theorem inputs_loop_tied : (parse.loop1 n (a, r) >>= K) =
    (whileSome nextInput n r [] >>= fun p => K (Ctl.brk ({ a with inputs := a.inputs ++ p.1 }, p.2))) :=
  Ascii.loop1_bind n a r K hK

theorem latches_loop_tied : (parse.loop2 n (a, r) >>= K) =
    (whileSome nextLatchAscii n r [] >>= fun p => K (Ctl.brk ({ a with latches := a.latches ++ p.1 }, p.2))) :=
  Ascii.loop2_bind n a r K hK

theorem outputs_loop_tied : (parse.loop3 n (a, r) >>= K) =
    (whileSome nextOutput n r [] >>= fun p => K (Ctl.brk ({ a with outputs := a.outputs ++ p.1 }, p.2))) :=
  Ascii.loop3_bind n a r K hK

theorem bad_loop_tied : (parse.loop4 n (a, r) >>= K) =
    (whileSome nextBad n r [] >>= fun p => K (Ctl.brk ({ a with bad := a.bad ++ p.1 }, p.2))) :=
  Ascii.loop4_bind n a r K hK

theorem constraints_loop_tied : (parse.loop5 n (a, r) >>= K) =
    (whileSome nextConstraint n r [] >>= fun p =>
      K (Ctl.brk ({ a with constraints := a.constraints ++ p.1 }, p.2))) :=
  Ascii.loop5_bind n a r K hK

theorem fairness_loop_tied : (parse.loop9 n (a, r) >>= K) =
    (whileSome nextFairness n r [] >>= fun p => K (Ctl.brk ({ a with fairness := a.fairness ++ p.1 }, p.2))) :=
  Ascii.loop9_bind n a r K hK

theorem and_gates_loop_tied : (parse.loop10 n (a, r) >>= K) =
    (whileSome nextAndGateAscii n r [] >>= fun p => K (Ctl.brk ({ a with gates := a.gates ++ p.1 }, p.2))) :=
  Ascii.loop10_bind n a r K hK

end ascii

section ascii_justice
open Gen.AigerParse
variable {β : Type}

theorem justice_sizes_loop_tied (n : Nat) (a : Aig) (sz : List Nat) (r : St)
    (K : Ctl (Aig × List Nat × St) Aig → PM β) (hK : K Ctl.fuel = rpanic "fuel") :
    (parse.loop6 n (a, sz, r) >>= K) =
      (whileSome nextJusticeSize n r [] >>= fun p =>
        K (Ctl.brk ({ a with justice := a.justice ++ p.1.map fun _ => [] }, sz ++ p.1, p.2))) :=
  Ascii.loop6_bind n a sz r K hK

theorem justice_seek_loop_tied (a : Aig) (sizes : List Nat) (n jp : Nat) (K : Ctl Nat Aig → PM β)
    (hK : K Ctl.fuel = rpanic "justice property index out of bounds") :
    (parse.loop8 a sizes n jp >>= K) =
      (match justiceSeek a.justice sizes n jp with
        | none => rpanic "justice property index out of bounds"
        | some jp' => K (Ctl.brk jp')) :=
  Ascii.loop8_bind a sizes n jp K hK

theorem justice_lits_loop_tied (sizes : List Nat) (n : Nat) (a : Aig) (jp : Nat) (r : St)
    (K : Ctl (Aig × Nat × St) Aig → PM β) (hK : K Ctl.fuel = rpanic "fuel")
    (hjp : ∀ a jp jp' r, K (Ctl.brk (a, jp, r)) = K (Ctl.brk (a, jp', r))) :
    (parse.loop7 sizes n (a, jp, r) >>= K) =
      (justiceLitsLoop sizes n r a.justice jp >>= fun p => K (Ctl.brk ({ a with justice := p.1 }, 0, p.2))) :=
  Ascii.loop7_bind sizes n a jp r K hK hjp

theorem symbols_loop_tied (p : Parser) (n : Nat) (a : Aig) (K : Ctl Aig Aig → PM β)
    (hK : K Ctl.fuel = rpanic "fuel") :
    (parse.loop11 p n a >>= K) =
      (whileSome (fun (_ : Unit) => do pure (← nextSymbol p, ())) n () [] >>= fun q =>
        K (Ctl.brk { a with symbols := a.symbols ++ q.1 })) :=
  Ascii.loop11_bind p n a K hK

end ascii_justice

section binary
open Gen.AigerBinParse
variable {β : Type} (n : Nat) (a : OrderedAig) (r : St) (K : Ctl (OrderedAig × St) OrderedAig → PM β)
  (hK : K Ctl.fuel = rpanic "fuel")
include hK

theorem latches_bin_loop_tied : (parse.loop1 n (a, r) >>= K) =
    (whileSome nextLatchBin n r [] >>= fun p => K (Ctl.brk ({ a with latches := a.latches ++ p.1 }, p.2))) :=
  Bin.loop1_bind n a r K hK

theorem outputs_bin_loop_tied : (parse.loop2 n (a, r) >>= K) =
    (whileSome nextOutput n r [] >>= fun p => K (Ctl.brk ({ a with outputs := a.outputs ++ p.1 }, p.2))) :=
  Bin.loop2_bind n a r K hK

theorem bad_bin_loop_tied : (parse.loop3 n (a, r) >>= K) =
    (whileSome nextBad n r [] >>= fun p => K (Ctl.brk ({ a with bad := a.bad ++ p.1 }, p.2))) :=
  Bin.loop3_bind n a r K hK

theorem constraints_bin_loop_tied : (parse.loop4 n (a, r) >>= K) =
    (whileSome nextConstraint n r [] >>= fun p =>
      K (Ctl.brk ({ a with constraints := a.constraints ++ p.1 }, p.2))) :=
  Bin.loop4_bind n a r K hK

theorem fairness_bin_loop_tied : (parse.loop8 n (a, r) >>= K) =
    (whileSome nextFairness n r [] >>= fun p => K (Ctl.brk ({ a with fairness := a.fairness ++ p.1 }, p.2))) :=
  Bin.loop8_bind n a r K hK

theorem and_gates_bin_loop_tied : (parse.loop9 n (a, r) >>= K) =
    (whileSome nextAndGateBin n r [] >>= fun p => K (Ctl.brk ({ a with gates := a.gates ++ p.1 }, p.2))) :=
  Bin.loop9_bind n a r K hK

end binary

section binary_justice
open Gen.AigerBinParse
variable {β : Type}

theorem justice_sizes_bin_loop_tied (n : Nat) (a : OrderedAig) (sz : List Nat) (r : St)
    (K : Ctl (OrderedAig × List Nat × St) OrderedAig → PM β) (hK : K Ctl.fuel = rpanic "fuel") :
    (parse.loop5 n (a, sz, r) >>= K) =
      (whileSome nextJusticeSize n r [] >>= fun p =>
        K (Ctl.brk ({ a with justice := a.justice ++ p.1.map fun _ => [] }, sz ++ p.1, p.2))) :=
  Bin.loop5_bind n a sz r K hK

theorem justice_seek_bin_loop_tied (a : OrderedAig) (sizes : List Nat) (n jp : Nat) (K : Ctl Nat OrderedAig → PM β)
    (hK : K Ctl.fuel = rpanic "justice property index out of bounds") :
    (parse.loop7 a sizes n jp >>= K) =
      (match justiceSeek a.justice sizes n jp with
        | none => rpanic "justice property index out of bounds"
        | some jp' => K (Ctl.brk jp')) :=
  Bin.loop7_bind a sizes n jp K hK

theorem justice_lits_bin_loop_tied (sizes : List Nat) (n : Nat) (a : OrderedAig) (jp : Nat) (r : St)
    (K : Ctl (OrderedAig × Nat × St) OrderedAig → PM β) (hK : K Ctl.fuel = rpanic "fuel")
    (hjp : ∀ a jp jp' r, K (Ctl.brk (a, jp, r)) = K (Ctl.brk (a, jp', r))) :
    (parse.loop6 sizes n (a, jp, r) >>= K) =
      (justiceLitsLoop sizes n r a.justice jp >>= fun p => K (Ctl.brk ({ a with justice := p.1 }, 0, p.2))) :=
  Bin.loop6_bind sizes n a jp r K hK hjp

theorem symbols_bin_loop_tied (p : Parser) (n : Nat) (a : OrderedAig) (K : Ctl OrderedAig OrderedAig → PM β)
    (hK : K Ctl.fuel = rpanic "fuel") :
    (parse.loop10 p n a >>= K) =
      (whileSome (fun (_ : Unit) => do pure (← nextSymbol p, ())) n () [] >>= fun q =>
        K (Ctl.brk { a with symbols := a.symbols ++ q.1 })) :=
  Bin.loop10_bind p n a K hK

end binary_justice

/-! ### the generated code runs -/

/-- A parser record after the header `aag 1 1 0 0 0`. -/
def exampleP : Aiger.Parser :=
  { bin := false, lit := ⟨8⟩, maxLit := 3,
    header := { maxVarIndex := 1, inputCount := 1, latchCount := 0, outputCount := 0, andGateCount := 0 } }

/-- The generated ASCII `parse` on the body `"2\n"`: one input, literal 2, nothing else, end of file. -/
example : (match Gen.AigerParse.parse exampleP (LR.init [50, 10] false) with
    | (.ok a, lr) => a.maxVarIndex == 1 && a.inputs == [2] && a.latches.isEmpty && a.symbols.isEmpty
        && a.comment.isNone && lr.v.pos == 2
    | _ => false) = true := by
  decide

end TieAigerParse
end Flussab
