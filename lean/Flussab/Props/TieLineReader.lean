/-
Tie between the `impl LineReader` of `/repo/flussab/src/text.rs` (line counting and the construction of
syntax-error locations) and `Model/LineReader.lean` — the statements.  (Proofs: `Proof/TieLineReader.lean`.)

`Flussab.Gen.LineReader.*` is produced by `tools/gen_core.py` from the Rust source on every check run, with
every `usize` addition and subtraction as the checked debug-build operation.  The model performs the same
checks (`line_at_offset` overflow, column underflow) but names its panic sites itself, so the equations
are stated for the states in which no check fails — exactly the states the no-panic theorems of C05
establish for every parser — and `give_up_at_cold_underflow` says that outside them both sides panic and
neither produces a location.  These are the functions behind every `line:column` of property C08.
-/
import Flussab.Proof.TieLineReader

namespace Flussab
namespace TieLineReader

open TieLineReaderAux

/-- `line_at_offset`: `line += 1; line_start = position() + offset`. -/
theorem line_at_offset_tied (off : Nat) (lr : LR) (h1 : lr.line + 1 ≤ PM.usizeMax)
    (h2 : lr.v.pos + off ≤ PM.usizeMax) :
    Gen.LineReader.lineAtOffset off lr = PM.lineAtOffset off lr := lineAtOffset_eq off lr h1 h2

/-- `give_up_at_cold`: a parked I/O error wins; otherwise `line : position - line_start + 1`. -/
theorem give_up_at_cold_tied {α : Type} (pos : Nat) (lr : LR) (hpos : lr.lineStart ≤ pos ∨ lr.v.ioErr = true)
    (h : pos - lr.lineStart + 1 ≤ PM.usizeMax) :
    (Gen.LineReader.giveUpAtCold pos () : PM α) lr = PM.giveUpAt pos lr := giveUpAtCold_eq pos lr hpos h

theorem give_up_at_cold_underflow {α : Type} (pos : Nat) (lr : LR) (hp : pos < lr.lineStart)
    (he : lr.v.ioErr = false) :
    (∃ s, ((Gen.LineReader.giveUpAtCold pos () : PM α) lr).1 = .error (.panic s)) ∧
    (∃ s, ((PM.giveUpAt pos : PM α) lr).1 = .error (.panic s)) := giveUpAtCold_underflow pos lr hp he

theorem give_up_at_tied {α : Type} (pos : Nat) (lr : LR) (hpos : lr.lineStart ≤ pos ∨ lr.v.ioErr = true)
    (h : pos - lr.lineStart + 1 ≤ PM.usizeMax) :
    (Gen.LineReader.giveUpAt pos () : PM α) lr = PM.giveUpAt pos lr := giveUpAt_eq pos lr hpos h

theorem give_up_tied {α : Type} (lr : LR) (hpos : lr.lineStart ≤ lr.v.pos ∨ lr.v.ioErr = true)
    (h : lr.v.pos - lr.lineStart + 1 ≤ PM.usizeMax) :
    (Gen.LineReader.giveUp () : PM α) lr = PM.giveUp lr := giveUp_eq lr hpos h

/-- Non-vacuity: an error at position 7 on line 3 starting at offset 5 is reported at `3:3`. -/
example : ((Gen.LineReader.giveUpAt 7 () : PM Unit)
    { v := { rest := [1, 2, 3], pos := 6 }, line := 3, lineStart := 5 }).1 = .error (.syn 3 3) := by
  rfl

end TieLineReader
end Flussab
