/-
Tie between the `Parsed<T, E>` combinators of `/repo/flussab/src/parser.rs` and the combinator model
`Model/Parsed.lean` that the C15 theorems are about.

`Flussab.Gen.Parsed.*` (file `Gen/ParsedGen.lean`) is produced by `tools/gen_core.py` from the Rust source on
every check run, over `ParsedR` (the shape of the Rust enum, `Model/ParsedExt.lean`).  Each theorem says that
the generated combinator, seen through `ParsedR.toModel`, returns what the model combinator returns (the model
additionally counts closure invocations; that count is a statement about the model, C15).  Closures are
pure functions here, as in the model; a closure that receives `&mut T` (`and_also`, `and_do`) is a function
returning the new value of the referent (and its result), exactly the model's convention — the rewrite of
`if let PAT(value) = &mut self { .. g(value) .. } self` that this needs is documented in `tools/unit_parsed.py`.
`err_into` is `self.map_err(From::from)`: the conversion between the error types is the parameter `fromE` (the
model's `conv`).  `impl ResultExt for Result` (`err_into`, `and_also`, `and_do`) is the unit `resultext`
(`Gen/ResultExtGen.lean`; std's `Result::map_err` is the contract `ParsedExt.resultMapErr`; `f(value)?` with
identical error types is `if let Err(e) = f(value) { return Err(e) }`).  With these every combinator of
`parser.rs` is translated.

The same file justifies the hand-written combinator contracts the token units use
(`CnfTokenExt.orGiveUp / orParse / mapErr …`): they are these functions under the "errors are thrown"
encoding of `ParseError`.
-/
import Flussab.Gen.ParsedGen
import Flussab.Gen.ResultExtGen

namespace Flussab
namespace TieParsed

variable {α β ε ε' : Type}

open ParsedR in
theorem or_give_up_tied (p : ParsedR α ε) (err : Unit → ε) :
    Gen.Parsed.orGiveUp (β := β) (ε' := ε') p err = (p.toModel.orGiveUp err).1 := by
  rcases p with (_ | _) | _ <;> rfl

open ParsedR in
theorem optional_tied (p : ParsedR α ε) :
    Gen.Parsed.optional (β := β) (ε' := ε') p = p.toModel.optional := by
  rcases p with (_ | _) | _ <;> rfl

open ParsedR in
theorem matches_tied (p : ParsedR α ε) :
    Gen.Parsed.matches_ (β := β) (ε' := ε') p = p.toModel.matches := by
  rcases p with (_ | _) | _ <;> rfl

open ParsedR in
theorem or_parse_tied (p : ParsedR α ε) (parse : Unit → ParsedR α ε) :
    (Gen.Parsed.orParse (β := β) (ε' := ε') p parse : ParsedR α ε).toModel =
      (p.toModel.orParse (fun u => (parse u).toModel)).1 := by
  rcases p with (_ | _) | _ <;> rfl

open ParsedR in
theorem or_always_parse_tied (p : ParsedR α ε) (parse : Unit → Except ε α) :
    Gen.Parsed.orAlwaysParse (β := β) (ε' := ε') p parse = (p.toModel.orAlwaysParse parse).1 := by
  rcases p with (_ | _) | _ <;> rfl

open ParsedR in
theorem and_then_tied (p : ParsedR α ε) (parse : α → Except ε β) :
    (Gen.Parsed.andThen (ε' := ε') p parse : ParsedR β ε).toModel = (p.toModel.andThen parse).1 := by
  rcases p with (_ | v) | _
  · rfl
  · show (ParsedR.res (parse v)).toModel = _
    simp only [Parsed.andThen, ParsedR.toModel]
    cases parse v <;> rfl
  · rfl

open ParsedR in
theorem and_also_tied (p : ParsedR α ε) (parse : α → α × Except ε Unit) :
    (Gen.Parsed.andAlso (β := β) (ε' := ε') p parse : ParsedR α ε).toModel = (p.toModel.andAlso parse).1 := by
  rcases p with (_ | v) | _
  · rfl
  · show (match parse v with
        | (v', r0) => (match r0 with
          | .error err => (ParsedR.res (Except.error err) : ParsedR α ε)
          | _ => ParsedR.res (Except.ok v'))).toModel = _
    simp only [Parsed.andAlso, ParsedR.toModel]
    rcases parse v with ⟨v', _ | ⟨⟩⟩ <;> rfl
  · rfl

open ParsedR in
theorem and_do_tied (p : ParsedR α ε) (action : α → α) :
    (Gen.Parsed.andDo (β := β) (ε' := ε') p action : ParsedR α ε).toModel = (p.toModel.andDo action).1 := by
  rcases p with (_ | _) | _ <;> rfl

open ParsedR in
theorem map_tied (p : ParsedR α ε) (f : α → β) :
    (Gen.Parsed.map (ε' := ε') p f : ParsedR β ε).toModel = (p.toModel.map f).1 := by
  rcases p with (_ | _) | _ <;> rfl

open ParsedR in
theorem map_err_tied (p : ParsedR α ε) (f : ε → ε') :
    (Gen.Parsed.mapErr (β := β) p f : ParsedR α ε').toModel = (p.toModel.mapErr f).1 := by
  rcases p with (_ | _) | _ <;> rfl

open ParsedR in
theorem from_result_tied (r : Except ε α) :
    (Gen.Parsed.fromResult (β := β) (ε' := ε') r : ParsedR α ε).toModel = Parsed.ofResult r := by
  cases r <;> rfl

open ParsedR in
theorem err_into_tied (p : ParsedR α ε) (conv : ε → ε') :
    (Gen.Parsed.errInto (β := β) conv p : ParsedR α ε').toModel = (p.toModel.errInto conv).1 := by
  rcases p with (_ | _) | _ <;> rfl

theorem result_err_into_tied (r : Except ε α) (conv : ε → ε') :
    Gen.ResultExt.errInto (β := β) conv r = (ResultExt.errInto r conv).1 := by
  cases r <;> rfl

theorem result_and_also_tied (r : Except ε α) (f : α → α × Except ε Unit) :
    Gen.ResultExt.andAlso (β := β) (ε' := ε') r f = (ResultExt.andAlso r f).1 := by
  rcases r with _ | v
  · rfl
  · show (match f v with
        | (v', r0) => (match r0 with
          | .error e => (Except.error e : Except ε α)
          | _ => Except.ok v')) = _
    simp only [ResultExt.andAlso]
    rcases f v with ⟨v', _ | ⟨⟩⟩ <;> rfl

theorem result_and_do_tied (r : Except ε α) (action : α → α) :
    Gen.ResultExt.andDo (β := β) (ε' := ε') r action = (ResultExt.andDo r action).1 := by
  cases r <;> rfl

/-- Non-vacuity: a fall-through input runs the alternative. -/
example : (Gen.Parsed.orParse (α := Nat) (β := Nat) (ε := Nat) (ε' := Nat) .fallthrough fun _ => .res (.ok 7)).toModel = .ok 7 := rfl

end TieParsed
end Flussab
