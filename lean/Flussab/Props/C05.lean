/-
C05 — every input terminates with `Ok` or `Err`, never a panic, with bounded resources
(DIMACS family: `cnf`, `wcnf`, `gcnf`, SAT solver log).

*Termination* is Lean's totality: `Cnf.Parser.new`, `Cnf.Parser.nextClause`, `Cnf.parseLog`,
`Cnf.parseAll` are total functions (no `partial def`); their loops take explicit fuel and return
`PErr.panic "fuel"` when it runs out.  The theorems below show that no `PErr.panic _` — in
particular not `"fuel"` — is ever the outcome, for all three formats, every literal type, both
`ignore_header` settings, every byte string and both kinds of source end (`fault`).

The theorems quantify over the parser states `lr` with `PM.Inv b fault lr` (`Proof/PMHoare.lean`):
the reader is a cursor into the input `b`, `line_start ≤ position`, no newline consumed since
`line_start`, line bookkeeping right.  `initial_state` puts the initial state there, and the
`…_keeps_state` theorems show every successful call stays there, so the statements cover every
call of a parse that has not yet reported an error.

Explicit hypothesis (part of `PM.Inv`): `b.length < 2^63` (`PM.SizeOK b` is the weaker
`b.length + 3 ≤ usize::MAX`) — `line_at_offset` uses checked additions on `usize`; inputs of
2^64 bytes and more, where `position()` itself wraps, are outside the model (DESIGN §3.1).
-/
import Flussab.Proof.CnfParserSafe

namespace Flussab.C05
open Flussab Cnf PM

/-- An outcome allowed by the error postcondition is not a panic. -/
theorem err_not_panic {b : VBytes} {f : Bool} {e : PErr} {lr : LR} (h : Err b f e lr) (s : String) :
    e ≠ .panic s := by
  intro he; subst he; exact h.2

/-- The state of a freshly constructed `LineReader` over any input satisfies the invariant. -/
theorem initial_state (b : VBytes) (fault : Bool) (hb : b.length < 2 ^ 63) :
    Inv b fault (LR.init b fault) :=
  inv_init b fault (SizeOK.of_lt hb)

/-- **`Parser::new` (header parsing) never panics**: `cnf` / `wcnf` / `gcnf`, every literal
type, both `ignore_header` settings. -/
theorem cnf_new_no_panic (fmt : Format) (l : LitTy) (ignoreHeader : Bool) (b : VBytes) (fault : Bool)
    (lr : LR) (h : Inv b fault lr) (s : String) :
    ((Parser.new fmt l ignoreHeader).run lr).1 ≠ .error (.panic s) := by
  obtain ⟨_, herr⟩ := (parserNew_ok fmt l ignoreHeader h).of_run
  intro hp
  exact err_not_panic (herr (.panic s) ((Parser.new fmt l ignoreHeader).run lr).2
    (Prod.ext hp rfl)) s rfl

theorem cnf_new_keeps_state (fmt : Format) (l : LitTy) (ignoreHeader : Bool) (b : VBytes)
    (fault : Bool) (lr lr' : LR) (p : Parser) (h : Inv b fault lr)
    (hr : (Parser.new fmt l ignoreHeader).run lr = (.ok p, lr')) : Inv b fault lr' :=
  ((parserNew_ok fmt l ignoreHeader h).of_run.1 p lr' hr).1

/-- Directly from the initial state, for every byte string. -/
theorem cnf_new_no_panic_init (fmt : Format) (l : LitTy) (ignoreHeader : Bool) (b : VBytes)
    (fault : Bool) (hb : b.length < 2 ^ 63) (s : String) :
    ((Parser.new fmt l ignoreHeader).run (LR.init b fault)).1 ≠ .error (.panic s) :=
  cnf_new_no_panic fmt l ignoreHeader b fault _ (initial_state b fault hb) s

/-- **`next_clause` never panics**, for every parser record `p` (format, literal type, limits,
counters — whatever a header set them to). -/
theorem cnf_next_clause_no_panic (p : Parser) (b : VBytes) (fault : Bool) (lr : LR)
    (h : Inv b fault lr) (s : String) : (p.nextClause.run lr).1 ≠ .error (.panic s) := by
  obtain ⟨_, herr⟩ := (nextClause_ok p h).of_run
  intro hp
  exact err_not_panic (herr (.panic s) (p.nextClause.run lr).2 (Prod.ext hp rfl)) s rfl

theorem cnf_next_clause_keeps_state (p p' : Parser) (b : VBytes) (fault : Bool) (lr lr' : LR)
    (c : Option Clause) (h : Inv b fault lr) (hr : p.nextClause.run lr = (.ok (c, p'), lr')) :
    Inv b fault lr' :=
  ((nextClause_ok p h).of_run.1 (c, p') lr' hr).1

/-- **`parse_log` never panics**, for every literal type and both `ignore_unknown_lines`
settings. -/
theorem log_no_panic (l : LitTy) (ignoreUnknown : Bool) (b : VBytes) (fault : Bool) (lr : LR)
    (h : Inv b fault lr) (s : String) :
    ((parseLog l ignoreUnknown).run lr).1 ≠ .error (.panic s) := by
  obtain ⟨_, herr⟩ := (parseLog_ok l ignoreUnknown h).of_run
  intro hp
  exact err_not_panic (herr (.panic s) ((parseLog l ignoreUnknown).run lr).2 (Prod.ext hp rfl)) s rfl

/-- **Parsing a whole document is total and panic free**: `Parser::new` followed by
`next_clause` until it returns `None` or an error ends, for every input, in a clean end, an I/O
error or a syntax error — never in a panic and never by running out of the explicit fuel of the
model's loops (that `parseAll` returns at all is Lean's totality). -/
theorem cnf_parse_all_total (fmt : Format) (l : LitTy) (ignoreHeader : Bool) (b : VBytes)
    (fault : Bool) (hb : b.length < 2 ^ 63) :
    (parseAll fmt l ignoreHeader (LR.init b fault)).final = none ∨
    (parseAll fmt l ignoreHeader (LR.init b fault)).final = some .io ∨
    ∃ line col, (parseAll fmt l ignoreHeader (LR.init b fault)).final = some (.syn line col) := by
  obtain ⟨herr, _⟩ := parseAllS_ok fmt l ignoreHeader (initial_state b fault hb)
  rw [parseAllS_fst] at herr
  cases hf : (parseAll fmt l ignoreHeader (LR.init b fault)).final with
  | none => exact Or.inl rfl
  | some e =>
    cases e with
    | io => exact Or.inr (Or.inl rfl)
    | syn ln c => exact Or.inr (Or.inr ⟨ln, c, rfl⟩)
    | panic s => exact absurd rfl (err_not_panic (herr _ hf) s)

/-- **Bounded literal buffer**: a clause returned by `next_clause` has no more literals than the
call consumed bytes (so the parser's `Vec` of literals is bounded by the input read so far). -/
theorem parser_buffers_bounded (p p' : Parser) (b : VBytes) (fault : Bool) (lr lr' : LR)
    (c : Clause) (h : Inv b fault lr) (hr : p.nextClause.run lr = (.ok (some c, p'), lr')) :
    c.lits.length ≤ lr'.v.pos - lr.v.pos ∧ lr.v.pos < lr'.v.pos := by
  obtain ⟨_, _, hc, _⟩ := (nextClause_ok p h).of_run.1 (some c, p') lr' hr
  have := hc c rfl
  omega

/-! ### non-vacuity -/

/-- The invariant is satisfiable: the initial state over a concrete document. -/
example : Inv [112, 32, 99, 110, 102, 32, 49, 32, 49, 10, 49, 32, 48, 10] false
    (LR.init [112, 32, 99, 110, 102, 32, 49, 32, 49, 10, 49, 32, 48, 10] false) :=
  initial_state _ _ (by decide)

/-- All three outcomes of `cnf_parse_all_total` occur: `"p cnf 1 1\n1 0\n"` parses cleanly, with
a failing source it ends in an I/O error, and `"1 x"` is a syntax error at 1:3. -/
example :
    (parseAll .cnf ⟨32⟩ false
      (LR.init [112, 32, 99, 110, 102, 32, 49, 32, 49, 10, 49, 32, 48, 10] false)).final = none ∧
    (parseAll .cnf ⟨32⟩ false
      (LR.init [112, 32, 99, 110, 102, 32, 49, 32, 49, 10, 49, 32, 48, 10] true)).final = some .io ∧
    (parseAll .cnf ⟨32⟩ false (LR.init [49, 32, 120] false)).final = some (.syn 1 3) ∧
    (parseAll .cnf ⟨32⟩ false
      (LR.init [112, 32, 99, 110, 102, 32, 49, 32, 49, 10, 49, 32, 48, 10] false)).items =
        [{ tag := 0, lits := [1] }] := by
  decide +kernel

/-- `parser_buffers_bounded` has instances: `"1 -2 0\n"` yields a clause of two literals after
consuming seven bytes. -/
example :
    (({ fmt := .cnf, lit := ⟨32⟩, litLimit := 5 } : Parser).nextClause.run
      (LR.init [49, 32, 45, 50, 32, 48, 10] false)).1.toOption.map (·.1) =
      some (some { tag := 0, lits := [1, -2] }) := by
  decide +kernel

end Flussab.C05
