/-
Tie between the AIGER format writers — `impl Writer` of `/repo/flussab-aiger/src/ascii.rs` and of
`/repo/flussab-aiger/src/binary.rs` — and the writer functions of `Model/Aiger.lean` (the functions the C03
round-trip theorems are about) — the statements.  (Proofs: `Proof/TieAigerWrite.lean`.)

`Flussab.Gen.AigerWrite.*` (`Gen/AigerWriteGen.lean`, unit `tools/unit_aigerwrite.py`) and
`Flussab.Gen.AigerBinWrite.*` (`Gen/AigerBinWriteGen.lean`, unit `tools/unit_aigerbinwrite.py`) are produced by
`tools/gen_core.py` from the Rust source on every check run; they call the *generated* `DeferredWriter`
(`Gen/WriterGen.lean`, `Gen/WriteTextGen.lean`).

Shape of each theorem, for a writer `w` with `buf.len() ≤ capacity` and values within `usize`
(`< 2 ^ 64`: what `ascii_digits::<usize>` can be given; this is `Op.Valid` of the `digits` ops, `dig_valid`):

  (run)    generated function `f args w = AigerWriteExt.runSeq (opsF args) w` — the list `opsF args` of model ops
           (`Writer.Op.write bs` per `write_all_defer_err`, `dig n = .digits false 64 n` per `ascii_digits`), run
           with the model's `Op.run` in sequence; a panic of the sink ends the sequence, as in Rust;
  (bytes)  `C11.written (opsF args) w = Aiger.writeF args` — the bytes this history writes in the sense of C11
           are the hand model's bytes, for every writer state.

`runSeq` is C11's `runOps` when no op panics (`runSeq_runOps`), so with `C11.good_sink_exact` the two say: on a
sink that does not fail, after the function and a flush, the sink has received exactly `Aiger.writeF args`
(`sink_gets_model_bytes`).

Binary writer: the state is `AigerWriteExt.BinWriter` (writer + the `code` counter), `runSeqB` runs ops on the
writer field.  `write_latch`: (run) + new counter = `(code + 2) % 2 ^ 64`, and `Aiger.binWriteLatch` in the
model's `WM` monad emits exactly the ops' bytes and ends with the same counter (`wmOut`).

`write_header` (both writers): the trimming loop `while let Some((0, rest)) = fields.split_last()` is tied to
`Aiger.trimFields` (fuel `fields.len() + 1` never runs out), the `for &field in fields` loop to one `write` + one
`digits` op per remaining field; the binary writer also sets `code = headerCode h` first.
`write_binary_uint`: the loop over the 10-byte array with *checked* indexing is tied to
`Aiger.writeBinaryUintAux 10` (fuel 10 = array length): the generated function panics (`bytes[len]` out of range)
exactly when the model returns `none`, otherwise it writes the model's bytes (the `&= 0x7f` fix-up of the last
byte included); `uint_no_panic`: for `code < 2 ^ 64` neither happens.  `write_and_gate` (binary): the swap, the
`assert!(code_0 <= self.code)` panic (before anything is written), the two deltas and the counter bump agree with
`Aiger.binWriteAndGate` in `WM` for gate inputs and counter within `usize`.

Not translated (recorded in the units' `skip`): `new` of both writers and the whole-file drivers `write_aig`,
`write_ordered_aig`; that `Aiger.writeAig` / `Aiger.binWriteOrderedAig` call the pieces in the order of the Rust
drivers is not part of this tie.  (The drivers are translated by the units `aigerwritedoc` / `aigerbinwritedoc` and tied
in `Props/TieAigerWriteDoc.lean`.)
-/
import Flussab.Proof.TieAigerWrite

namespace Flussab
namespace TieAigerWrite

open TieAigerWriteAux AigerWriteExt
open Writer (Op)

/-! ### the ops are inside C11's domain and write the model's bytes -/

/-- A `usize` value is a valid argument of `ascii_digits::<usize>` (its text has at most `MAX_LEN` = 20 bytes). -/
theorem dig_valid (n : Nat) (hn : n < 2 ^ 64) : (dig n).Valid := TieAigerWriteAux.dig_valid n hn

theorem lit_bytes (c : Nat) (w : Writer) : C11.written (opsLit c) w = Aiger.writeLit c :=
  TieAigerWriteAux.lit_bytes c w

theorem latch_ascii_bytes (l : Aiger.Latch) (w : Writer) :
    C11.written (opsLatchAscii l) w = Aiger.writeLatchAscii l := TieAigerWriteAux.latch_ascii_bytes l w

theorem and_gate_ascii_bytes (g : Aiger.AndGate) (w : Writer) :
    C11.written (opsAndGateAscii g) w = Aiger.writeAndGateAscii g := TieAigerWriteAux.and_gate_ascii_bytes g w

theorem symbol_bytes (s : Aiger.Symbol) (w : Writer) : C11.written (opsSymbol s) w = Aiger.writeSymbol s :=
  TieAigerWriteAux.symbol_bytes s w

theorem comment_bytes (c : List UInt8) (w : Writer) : C11.written (opsComment c) w = Aiger.writeComment c :=
  TieAigerWriteAux.comment_bytes c w

/-- The bytes of `binary::Writer::write_latch` with the counter at `code`: what `Aiger.binWriteLatch` emits. -/
theorem latch_bin_bytes (l : Aiger.OLatch) (code : Nat) (w : Writer) :
    C11.written (opsLatchBin l code) w = Aiger.natText l.next ++ Aiger.writeInit l.init code :=
  TieAigerWriteAux.latch_bin_bytes l code w

/-! ### ASCII writer (`ascii.rs`) -/

theorem ascii_write_lit_tied (w : Writer) (c : Nat) (h : w.buf.length ≤ w.cap) (hc : c < 2 ^ 64) :
    Gen.AigerWrite.writeLit c w = runSeq (opsLit c) w := TieAigerWriteAux.ascii_write_lit_eq w c h hc

theorem ascii_write_count_tied (w : Writer) (c : Nat) (h : w.buf.length ≤ w.cap) (hc : c < 2 ^ 64) :
    Gen.AigerWrite.writeCount c w = runSeq (opsLit c) w := TieAigerWriteAux.ascii_write_count_eq w c h hc

theorem ascii_write_latch_tied (w : Writer) (l : Aiger.Latch) (h : w.buf.length ≤ w.cap)
    (hs : l.state < 2 ^ 64) (hn : l.next < 2 ^ 64) :
    Gen.AigerWrite.writeLatch l w = runSeq (opsLatchAscii l) w := TieAigerWriteAux.ascii_write_latch_eq w l h hs hn

theorem ascii_write_and_gate_tied (w : Writer) (g : Aiger.AndGate) (h : w.buf.length ≤ w.cap)
    (ho : g.out < 2 ^ 64) (h0 : g.in0 < 2 ^ 64) (h1 : g.in1 < 2 ^ 64) :
    Gen.AigerWrite.writeAndGate g w = runSeq (opsAndGateAscii g) w :=
  TieAigerWriteAux.ascii_write_and_gate_eq w g h ho h0 h1

theorem ascii_write_symbol_tied (w : Writer) (s : Aiger.Symbol) (h : w.buf.length ≤ w.cap) (hi : s.index < 2 ^ 64) :
    Gen.AigerWrite.writeSymbol s w = runSeq (opsSymbol s) w := TieAigerWriteAux.ascii_write_symbol_eq w s h hi

theorem ascii_write_comment_tied (w : Writer) (c : List UInt8) (h : w.buf.length ≤ w.cap) :
    Gen.AigerWrite.writeComment c w = runSeq (opsComment c) w := TieAigerWriteAux.ascii_write_comment_eq w c h

/-! ### binary writer (`binary.rs`) -/

theorem bin_write_lit_tied (s : BinWriter) (c : Nat) (h : s.writer.buf.length ≤ s.writer.cap) (hc : c < 2 ^ 64) :
    Gen.AigerBinWrite.writeLit c s = runSeqB (opsLit c) s := TieAigerWriteAux.bin_write_lit_eq s c h hc

theorem bin_write_count_tied (s : BinWriter) (c : Nat) (h : s.writer.buf.length ≤ s.writer.cap) (hc : c < 2 ^ 64) :
    Gen.AigerBinWrite.writeCount c s = runSeqB (opsLit c) s := TieAigerWriteAux.bin_write_count_eq s c h hc

theorem bin_write_symbol_tied (s : BinWriter) (y : Aiger.Symbol) (h : s.writer.buf.length ≤ s.writer.cap)
    (hi : y.index < 2 ^ 64) :
    Gen.AigerBinWrite.writeSymbol y s = runSeqB (opsSymbol y) s := TieAigerWriteAux.bin_write_symbol_eq s y h hi

theorem bin_write_comment_tied (s : BinWriter) (c : List UInt8) (h : s.writer.buf.length ≤ s.writer.cap) :
    Gen.AigerBinWrite.writeComment c s = runSeqB (opsComment c) s := TieAigerWriteAux.bin_write_comment_eq s c h

/-- `binary::Writer::write_latch`: the ops of `opsLatchBin l self.code` on the writer, then (unless the sink
panicked) `self.code = self.code.wrapping_add(2)`; no panic of its own. -/
theorem bin_write_latch_tied (s : BinWriter) (l : Aiger.OLatch) (h : s.writer.buf.length ≤ s.writer.cap)
    (hn : l.next < 2 ^ 64) (hc : s.code < 2 ^ 64) :
    Gen.AigerBinWrite.writeLatch l s =
      match runSeqB (opsLatchBin l s.code) s with
      | (none, s') => (none, s')
      | (some _, s') => (some (), { s' with code := (s.code + 2) % 2 ^ 64 }) :=
  TieAigerWriteAux.bin_write_latch_eq s l h hn hc

/-- … and the model `Aiger.binWriteLatch` started at the same counter never throws, emits exactly the bytes of
those ops, and ends with the same counter. -/
theorem bin_write_latch_model (l : Aiger.OLatch) (code : Nat) (w : Writer) :
    wmOut (Aiger.binWriteLatch l) code = some (C11.written (opsLatchBin l code) w, (code + 2) % 2 ^ 64) :=
  TieAigerWriteAux.bin_write_latch_model l code w

/-- `binary::Writer::write_binary_uint(code)`, any `code`: it panics (checked index `bytes[len]`, `len = 10`) iff
`Aiger.writeBinaryUint code = writeBinaryUintAux 10 code` is `none`; otherwise it is one `write` of the model's
bytes.  Neither `len - 1` nor `bytes[len - 1]` nor `&bytes[..len]` can panic. -/
theorem bin_write_binary_uint_tied (s : BinWriter) (code : Nat) (h : s.writer.buf.length ≤ s.writer.cap) :
    Gen.AigerBinWrite.writeBinaryUint code s =
      match Aiger.writeBinaryUint code with
      | none => (none, s)
      | some bs => runSeqB [.write bs] s := TieAigerWriteAux.bin_write_binary_uint_eq s code h

/-- `Aiger.binWriteUint` in `WM`: `throw` iff `none`, otherwise emits the bytes; the counter is untouched. -/
theorem bin_write_uint_model (code c : Nat) :
    wmOut (Aiger.binWriteUint code) c = (Aiger.writeBinaryUint code).map fun bs => (bs, c) :=
  TieAigerWriteAux.bin_write_uint_model code c

/-- A `usize` needs at most ten 7-bit groups: no panic, 1 to 10 bytes. -/
theorem uint_no_panic (code : Nat) (h : code < 2 ^ 64) :
    ∃ bs, Aiger.writeBinaryUint code = some bs ∧ 1 ≤ bs.length ∧ bs.length ≤ 10 :=
  TieAigerWriteAux.uint_no_panic code h

/-- `binary::Writer::write_and_gate` for gate inputs and counter within `usize`; `(c0, c1) = gateCodes g` are the
input codes after the swap.  The two deltas encode (`b0`, `b1`); the generated function panics without writing
when `c0 > self.code` (`assert!`) and otherwise writes `b0`, `b1` and bumps the counter (a sink panic ends it
early); the model `Aiger.binWriteAndGate` throws in the same case and otherwise emits `b0 ++ b1` and ends with the
same counter.  (The checked subtractions `self.code - code_0`, `code_0 - code_1` cannot panic.) -/
theorem bin_write_and_gate_tied (s : BinWriter) (g : Aiger.OGate) (h : s.writer.buf.length ≤ s.writer.cap)
    (h0 : g.in0 < 2 ^ 64) (h1 : g.in1 < 2 ^ 64) (hc : s.code < 2 ^ 64) :
    ∃ b0 b1, Aiger.writeBinaryUint (s.code - (gateCodes g).1) = some b0 ∧
      Aiger.writeBinaryUint ((gateCodes g).1 - (gateCodes g).2) = some b1 ∧
      Gen.AigerBinWrite.writeAndGate g s =
        (if s.code < (gateCodes g).1 then (none, s) else
          match runSeqB [.write b0, .write b1] s with
          | (none, s') => (none, s')
          | (some _, s') => (some (), { s' with code := (s.code + 2) % 2 ^ 64 })) ∧
      wmOut (Aiger.binWriteAndGate g) s.code =
        (if s.code < (gateCodes g).1 then none else some (b0 ++ b1, (s.code + 2) % 2 ^ 64)) :=
  TieAigerWriteAux.bin_write_and_gate_eq s g h h0 h1 hc

/-! ### `write_header` -/

theorem header_bytes (bin : Bool) (h : Aiger.Header) (w : Writer) :
    C11.written (opsHeader bin h) w = Aiger.writeHeader bin h := TieAigerWriteAux.header_bytes bin h w

/-- The trimming loop of `ascii::Writer::write_header` on the nine fields: leaves with `Aiger.trimFields`, the fuel
does not run out, the writer is untouched. -/
theorem ascii_header_trim_tied (h : Aiger.Header) (w : Writer) :
    Gen.AigerWrite.writeHeader.loop1 ((Aiger.headerFields h).length + 1) (Aiger.headerFields h) w =
      (some (Ctl.brk (Aiger.trimFields (Aiger.headerFields h))), w) := by
  have := TieAigerWriteAux.a_loop1 9 (Aiger.headerFields h).reverse w (by simp [Aiger.headerFields])
  simpa [Aiger.trimFields, Aiger.headerFields] using this

theorem ascii_write_header_tied (w : Writer) (h : Aiger.Header) (hw : w.buf.length ≤ w.cap) (hf : HeaderFits h) :
    Gen.AigerWrite.writeHeader h w = runSeq (opsHeader false h) w := TieAigerWriteAux.ascii_write_header_eq w h hw hf

/-- `binary::Writer::write_header`: first `self.code = headerCode h`, then the ops on the writer. -/
theorem bin_write_header_tied (s : BinWriter) (h : Aiger.Header) (hw : s.writer.buf.length ≤ s.writer.cap)
    (hf : HeaderFits h) :
    Gen.AigerBinWrite.writeHeader h s = runSeqB (opsHeader true h) { s with code := headerCode h } :=
  TieAigerWriteAux.bin_write_header_eq s h hw hf

/-- … and `Aiger.binWriteHeader` emits exactly those bytes and sets the same counter. -/
theorem bin_write_header_model (h : Aiger.Header) (code : Nat) (w : Writer) :
    wmOut (Aiger.binWriteHeader h) code = some (C11.written (opsHeader true h) w, headerCode h) :=
  TieAigerWriteAux.bin_write_header_model h code w

/-! ### composition with C11 -/

/-- On a sink that never panics no op panics, and `runSeq` is the history runner of C11. -/
theorem runSeq_runOps (ops : List Op) (w : Writer) (hv : ∀ op ∈ ops, op.Valid) (hi : C11.Inv w) :
    runSeq ops w = (some (), C11.runOps ops w) := TieAigerWriteAux.runSeq_runOps ops w hv hi

/-- **What reaches the sink.**  A sink that does not fail (short writes and `Interrupted` allowed), a writer in
its initial condition (no parked error, not panicked, `len ≤ capacity`): after running the ops of a format piece
and flushing (or dropping) the writer, the sink has received what it had, then what was buffered, then exactly
the bytes `C11.written ops w` — which the `*_bytes` theorems above identify with the hand model's
`Aiger.writeLit` / `writeLatchAscii` / `writeAndGateAscii` / `writeSymbol` / `writeComment` / `writeHeader`. -/
theorem sink_gets_model_bytes (ops : List Op) (w : Writer) (hv : ∀ op ∈ ops, op.Valid) (hg : w.sink.Good)
    (hinv : w.buf.length ≤ w.cap) (hup : w.panicked = false) (he : w.ioError = false)
    (last : Op) (hlast : last = .flush ∨ last = .drop) :
    runSeq ops w = (some (), C11.runOps ops w) ∧
    (C11.runOps (ops ++ [last]) w).sink.sunk = w.sink.sunk ++ w.buf ++ C11.written ops w :=
  ⟨TieAigerWriteAux.runSeq_runOps ops w hv ⟨hg.noPanic, hinv, hup⟩,
   (C11.good_sink_exact ops w hv hg hinv hup he last hlast).1⟩

/-- Non-vacuity: a header within `usize` whose four optional counts are trimmed, a gate whose assertion holds and
one whose assertion fails, and the deltas of the first. -/
example :
    (let h : Aiger.Header := { maxVarIndex := 3, inputCount := 1, latchCount := 1, outputCount := 1, andGateCount := 1 }
     HeaderFits h ∧ Aiger.trimFields (Aiger.headerFields h) = [3, 1, 1, 1, 1] ∧ headerCode h = 4) ∧
    gateCodes { in0 := 2, in1 := 5 } = (5, 2) ∧ ¬ (6 < (gateCodes { in0 := 2, in1 := 5 }).1) ∧
    (4 < (gateCodes { in0 := 2, in1 := 5 }).1) ∧
    Aiger.writeBinaryUint (6 - 5) = some [1] ∧ Aiger.writeBinaryUint 300 = some [172, 2] := by
  refine ⟨⟨?_, by decide, by decide⟩, by decide, by decide, by decide, by decide, by decide⟩
  intro f hf
  simp only [Aiger.headerFields, List.mem_cons, List.not_mem_nil, or_false] at hf
  omega

end TieAigerWrite
end Flussab
