/-
C08 (BTOR2 part) — syntax errors designate a position inside the input.

Every syntax error of the BTOR2 parser is raised by `give_up` (at the cursor) or by
`exceeds_count` (at the mark, which — after F11 — `positive_int` / `nonnegative_int` set at the
first byte of the number).  With the line bookkeeping invariant of `Proof/PMHoare.lean` both lie on
the current line, hence `(line, column)` is inside the input.
-/
import Flussab.Proof.Btor2ParserSafe
import Flussab.Proof.Btor2ErrorAt

namespace Flussab.C08
open Flussab Flussab.Btor2 PM Lines

/-- **Range**: for every input and either kind of source, a syntax error `line:column` of a whole
parse satisfies `1 ≤ line ≤ nlines b + 1` and `1 ≤ column ≤ lineLen b line + 1`. -/
theorem btor2_error_in_range (b : VBytes) (fault : Bool) (hsize : b.length < 2 ^ 63) (l c : Nat) :
    (parseAll (LR.init b fault)).2 = some (.syn l c) → InRange b l c := by
  intro hs
  have hinv := inv_init b fault (SizeOK.of_lt hsize)
  have hlen : (LR.init b fault).v.rest.length < (LR.init b fault).v.rest.length + 2 := by omega
  obtain ⟨h1, _⟩ := driveLines_ok ((LR.init b fault).v.rest.length + 2) [] (LR.init b fault) hinv hlen
  unfold parseAll at hs
  generalize driveLines ((LR.init b fault).v.rest.length + 2) [] (LR.init b fault) = r at *
  obtain ⟨items, fin, lr'⟩ := r
  simp only at hs h1
  exact (h1 _ hs).2.1

/-- **An out-of-range number is reported at its first byte** (F11): if `positive_int` /
`nonnegative_int` fail with a syntax error, it is at the line and column of the cursor they were
called at — the start of the numeral. -/
theorem btor2_number_error_at_token_start {b : VBytes} {f : Bool} {lr : LR} (h : Inv b f lr)
    (l c : Nat) (lr' : LR) :
    (positiveInt.run lr = (.error (.syn l c), lr') → l = lr.line ∧ c = lr.v.pos - lr.lineStart + 1) ∧
    (nonnegativeInt.run lr = (.error (.syn l c), lr') → l = lr.line ∧ c = lr.v.pos - lr.lineStart + 1) := by
  refine ⟨fun hr => ?_, fun hr => ?_⟩
  · rcases (positiveInt_err_at_start h).of_run.2 _ _ hr with h1 | h1
    · cases h1
    · cases h1; exact ⟨rfl, rfl⟩
  · rcases (nonnegativeInt_err_at_start h).of_run.2 _ _ hr with h1 | h1
    · cases h1
    · cases h1; exact ⟨rfl, rfl⟩

/-- **Every `required_*` token reports its syntax error at the first byte of the token**: the space
between tokens, node / sort ids, widths and counts, indices, the node and the sort keyword, the
three constant forms.  If one of them fails with `syntax line:column` from the state `lr`, then
`line` is the current line and `column` the column of the cursor of `lr` — where the missing,
garbled, `0`-prefixed or out-of-range token starts.  (From any state; the two error exits are
`unexpected` after a Fallthrough that consumed nothing and `exceeds_count` at the mark.) -/
theorem btor2_required_error_at_token_start (lr lr' : LR) (l c : Nat) :
    (requiredSpace.run lr = (.error (.syn l c), lr') ∨
     requiredNodeId.run lr = (.error (.syn l c), lr') ∨
     requiredSortId.run lr = (.error (.syn l c), lr') ∨
     requiredPositiveInt.run lr = (.error (.syn l c), lr') ∨
     requiredNonnegativeInt.run lr = (.error (.syn l c), lr') ∨
     (orGiveUp nodeToken unexpected).run lr = (.error (.syn l c), lr') ∨
     (orGiveUp sortToken unexpected).run lr = (.error (.syn l c), lr') ∨
     requiredBinaryConstant.run lr = (.error (.syn l c), lr') ∨
     requiredDecimalConstant.run lr = (.error (.syn l c), lr') ∨
     requiredHexConstant.run lr = (.error (.syn l c), lr')) →
    l = lr.line ∧ c = lr.v.pos - lr.lineStart + 1 := by
  intro h
  rcases h with h | h | h | h | h | h | h | h | h | h
  · exact (requiredSpace_at (lr := lr)).of_run.2 _ _ h
  · exact (requiredId_at (lr := lr)).of_run.2 _ _ h
  · exact (requiredId_at (lr := lr)).of_run.2 _ _ h
  · exact (requiredId_at (lr := lr)).of_run.2 _ _ h
  · exact (requiredNonneg_at (lr := lr)).of_run.2 _ _ h
  · exact (requiredKeyword_at (lr := lr) Gen.Btor2.nodeToken).of_run.2 _ _ h
  · exact (requiredKeyword_at (lr := lr) Gen.Btor2.sortToken).of_run.2 _ _ h
  · exact (requiredConstant_at (lr := lr) binaryString (scanWhile_scanLa _)).of_run.2 _ _ h
  · exact (requiredConstant_at (lr := lr) decimalString decimalString_scanLa).of_run.2 _ _ h
  · exact (requiredConstant_at (lr := lr) hexString (scanWhile_scanLa _)).of_run.2 _ _ h

/-- Non-vacuity / regression for F11: `2 uext 1 1 18446744073709551616` — the error is at line 1,
column 12, the first byte of the overflowing pad width (on the pinned tree: column 1). -/
example :
    (parseAll (LR.init [50, 32, 117, 101, 120, 116, 32, 49, 32, 49, 32,
      49, 56, 52, 52, 54, 55, 52, 52, 48, 55, 51, 55, 48, 57, 53, 53, 49, 54, 49, 54, 10] false))
      = ([], some (.syn 1 12)) := by
  decide +kernel

/-- The catalogue clause of C08 for the numeric-overflow class (F11), at document level: replace a
numeral token of an accepted document by a digit string whose value does not fit in `u64`; if the
result is rejected, the error is on the line of the token and its column lies on the token.
(Proved at token level — `btor2_number_error_at_token_start`, and for every kind of token
`btor2_required_error_at_token_start`.  Lifting it to documents needs that the parse of the
modified line behaves like the parse of the original one up to the replaced token — prefix
determinism *inside* a line, a relational pass over the parser that has not been done; between
lines it is available: `C04.btor2_fault_prefix`, `C06.btor2_accepted_is_canonical`.  The whole catalogue — also replaced keywords, `0`-prefixed numerals, garbage —
is checked on the implementation by the `corrupt` family of engine `btor2`, whose token spans
come from the writer.)  Not discharged. -/
def btor2_overflow_error_on_token_full : Prop :=
  ∀ (pre tok tok' post : VBytes) (l c : Nat),
    (parseAll (LR.init (pre ++ tok ++ post) false)).2 = none →
    (parseAll (LR.init (pre ++ tok' ++ post) false)).2 = some (.syn l c) →
    tok ≠ [] → tok.all isDigit = true → tok'.all isDigit = true → 2 ^ 64 ≤ Text.decVal tok' →
    (pre = [] ∨ pre.getLast? = some 32 ∨ pre.getLast? = some 10) →
    (post.head? = some 32 ∨ post.head? = some 10) →
    l = 1 + pre.count 10 ∧
    (pre.reverse.takeWhile (· != 10)).length + 1 ≤ c ∧
    c ≤ (pre.reverse.takeWhile (· != 10)).length + 1 + tok'.length

end Flussab.C08
