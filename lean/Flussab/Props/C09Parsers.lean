/-
C09 (parser layer) — DIMACS items are delivered without reading past the line that completes
them.

`View.peeked` is the look-ahead ghost of the reader: every stream offset below it has been
demanded (`request_byte_at_offset`); by `C09.reads_only_when_demanded` (Props/C09.lean) a reader
pulls data from its source only for demanded offsets.  The theorems bound it at the moment an
item is handed out:

    peeked ≤ pos   ∨   sawEnd = true

— nothing beyond the cursor has been demanded, and the cursor is right behind the line end that
completes the item (the last token of a header / clause is `interactive_end_of_line`, whose
`newline` scanner passes over the LF / CRLF and does **not** scan the blanks of the next line) —
or the reader has observed the end of the input (last line without newline).  So with a source
that hands out one line per read, no line after the one completing the item has been requested.
In addition `peeked ≤ pos + 1` always holds at that point (also in the `sawEnd` case).

Exact shape of the bound, for the record: between the tokens of an item the parsers are "tight",
`peeked ≤ pos + 1` (every token ends with `tabs_or_spaces`, which looks at the first non-blank
byte).  A token that falls through can have looked one byte further (a `-` or a digit run not
followed by a word end, a lone `\r`, a `p` not followed by a word end), but then no alternative
tried afterwards succeeds and the call fails (`Proof/CnfLookahead.lean`).

These are partial-correctness statements (about calls that return an item); no hypothesis on the
input is needed, not even the size bound of C05.
-/
import Flussab.Proof.CnfLookahead

namespace Flussab.C09
open Flussab Cnf PM

/-- The look-ahead state between the calls of a parse (`Cnf.Ready`): at most the byte under the
cursor has been demanded, or the header scan stopped in front of a lone `\r` / a `p` that is not
a header word (then `next_clause` fails). -/
theorem ready_iff (lr : LR) :
    Ready lr ↔ (lr.v.peeked ≤ lr.v.pos + 1 ∨
      ((lr.v.rest[0]? = some 13 ∧ lr.v.rest[1]? ≠ some 10) ∨ lr.v.rest[0]? = some 112)) := Iff.rfl

theorem initial_ready (b : VBytes) (fault : Bool) : Ready (LR.init b fault) :=
  Or.inl (by simp [Tight, LR.init, View.init])

/-- **`next_clause` hands out a clause without look-ahead** (`cnf` / `wcnf` / `gcnf`, every
literal type and parser configuration, every input). -/
theorem cnf_item_no_lookahead (p p' : Parser) (lr lr' : LR) (c : Clause) (h : Ready lr)
    (hr : p.nextClause.run lr = (.ok (some c, p'), lr')) :
    (lr'.v.peeked ≤ lr'.v.pos ∨ lr'.v.sawEnd = true) ∧ lr'.v.peeked ≤ lr'.v.pos + 1 := by
  obtain ⟨h1, h2⟩ := (nextClause_ready p h).of_run.1 (some c, p') lr' hr c rfl
  exact ⟨h1.imp id And.left, h2⟩

/-- … and leaves the parser ready for the next call. -/
theorem cnf_item_ready (p p' : Parser) (lr lr' : LR) (c : Clause) (h : Ready lr)
    (hr : p.nextClause.run lr = (.ok (some c, p'), lr')) : Ready lr' :=
  Or.inl (cnf_item_no_lookahead p p' lr lr' c h hr).2

/-- **`Parser::new` returns a header without look-ahead**, and in every case leaves the parser
ready for `next_clause`. -/
theorem cnf_header_no_lookahead (fmt : Format) (l : LitTy) (ignoreHeader : Bool) (lr lr' : LR)
    (p : Parser) (h : lr.v.peeked ≤ lr.v.pos + 1)
    (hr : (Parser.new fmt l ignoreHeader).run lr = (.ok p, lr')) :
    (p.header.isSome = true →
      (lr'.v.peeked ≤ lr'.v.pos ∨ lr'.v.sawEnd = true) ∧ lr'.v.peeked ≤ lr'.v.pos + 1) ∧
    Ready lr' := by
  obtain ⟨h1, h2⟩ := (parserNew_la fmt l ignoreHeader).of_run.1 p lr' hr
  exact ⟨fun hh => ⟨(h1 hh h).1.imp id And.left, (h1 hh h).2⟩, h2 h⟩

/-- The states of a whole-document parse at which something has been handed out: after
`Parser::new` (flag: a header was present) and after every returned clause (flag `true`). -/
inductive Delivered (fmt : Format) (l : LitTy) (ignoreHeader : Bool) (b : VBytes) (fault : Bool) :
    Bool → Parser → LR → Prop
  | new {p : Parser} {lr : LR} :
      (Parser.new fmt l ignoreHeader).run (LR.init b fault) = (.ok p, lr) →
      Delivered fmt l ignoreHeader b fault p.header.isSome p lr
  | next {item : Bool} {p p' : Parser} {lr lr' : LR} {c : Clause} :
      Delivered fmt l ignoreHeader b fault item p lr →
      p.nextClause.run lr = (.ok (some c, p'), lr') →
      Delivered fmt l ignoreHeader b fault true p' lr'

/-- **Whole documents**: at every point of a parse of any input at which a header or a clause
has just been handed out, nothing behind the cursor has been demanded or the end of the input has
been observed. -/
theorem cnf_document_no_lookahead (fmt : Format) (l : LitTy) (ignoreHeader : Bool) (b : VBytes)
    (fault : Bool) (item : Bool) (p : Parser) (lr : LR)
    (h : Delivered fmt l ignoreHeader b fault item p lr) :
    Ready lr ∧ (item = true →
      (lr.v.peeked ≤ lr.v.pos ∨ lr.v.sawEnd = true) ∧ lr.v.peeked ≤ lr.v.pos + 1) := by
  induction h with
  | new hr =>
    obtain ⟨h1, h2⟩ := cnf_header_no_lookahead fmt l ignoreHeader _ _ _
      (by simp [LR.init, View.init]) hr
    exact ⟨h2, h1⟩
  | next _ hr ih =>
    exact ⟨cnf_item_ready _ _ _ _ _ ih.1 hr, fun _ => cnf_item_no_lookahead _ _ _ _ _ ih.1 hr⟩

/-! ### non-vacuity -/

/-- For the examples: `(pos, peeked, sawEnd)` after `Parser::new` and after each of the clauses
returned by up to `n` further calls. -/
def lookaheadTrace (fmt : Format) (l : LitTy) (b : VBytes) (n : Nat) : List (Nat × Nat × Bool) :=
  match (Parser.new fmt l false).run (LR.init b false) with
  | (.ok p, lr) => (lr.v.pos, lr.v.peeked, lr.v.sawEnd) :: go n p lr
  | _ => []
where
  go : Nat → Parser → LR → List (Nat × Nat × Bool)
    | 0, _, _ => []
    | n + 1, p, lr =>
      match p.nextClause.run lr with
      | (.ok (some _, p'), lr') => (lr'.v.pos, lr'.v.peeked, lr'.v.sawEnd) :: go n p' lr'
      | _ => []

/-- `"p cnf 2 2\n1 2 0\n  -1 0"`: after the header the cursor is at offset 10 = `peeked`; after
the first clause at 16 = `peeked` (the two blanks that start the next line have not been looked
at); the last clause has no newline: the end of the input has been observed.
`"px"` is no header: `Parser::new` returns having looked at two bytes without consuming any (the
`Dead` case of `Ready`), and `next_clause` then fails. -/
example :
    lookaheadTrace .cnf ⟨32⟩
      [112, 32, 99, 110, 102, 32, 50, 32, 50, 10, 49, 32, 50, 32, 48, 10, 32, 32, 45, 49, 32, 48] 3 =
      [(10, 10, false), (16, 16, false), (22, 23, true)] ∧
    lookaheadTrace .cnf ⟨32⟩ [112, 120] 1 = [(0, 2, false)] := by
  decide +kernel

end Flussab.C09
