/-
C16 — text scanning helpers pass over exactly what they document, and no further.

The scanners are `Flussab.Text.*` over the abstract view (L1').  `v.rest.drop off` is the input
at the scan offset.  Each theorem gives (a) the returned offset as a closed formula, (b) the view
afterwards as `v.demand j` for an explicit `j` — which by `demand_effect` leaves the stream, the
position and the mark alone (scanners never consume) and raises the look-ahead ghost to exactly
`pos + j + 1` (the highest byte looked at is the one that decides).  `Rel.reqAt`
(Flussab/Proof/View.lean) lifts `demand` to every concrete reader, and C09's
`reads_only_when_demanded` turns the look-ahead bound into a bound on the bytes pulled from the
source.  No bound on lengths: the property's "enumerated up to a small length" is a ∀ here.
-/
import Flussab.Model.Text
import Flussab.Proof.View

namespace Flussab.C16
open Flussab Text

/-- What demanding offset `k` does to a view: nothing is consumed; the look-ahead ghost becomes
`max peeked (pos + k + 1)`; the end-of-stream flag is raised exactly if `k` is beyond the stream. -/
theorem demand_effect (v : View) (k : Nat) :
    (v.demand k).rest = v.rest ∧ (v.demand k).pos = v.pos ∧ (v.demand k).mark = v.mark ∧
    (v.demand k).peeked = max v.peeked (v.pos + k + 1) ∧
    ((v.demand k).sawEnd = (v.sawEnd || decide (v.rest.length ≤ k))) := by
  unfold View.demand
  by_cases hk : k < v.rest.length
  · simp [hk]; omega
  · simp [hk]; omega

/-- Every concrete reader implements `demand` by `request_byte_at_offset`, whatever its schedule. -/
theorem demand_on_reader (r : Reader) (v : View) (h : Rel r v) (k : Nat) :
    Rel (r.requestByteAt k).2 (v.demand k) := (h.reqAt k).2

theorem runLen_eq_takeWhile (p : UInt8 → Bool) (bs : VBytes) :
    runLen p bs = (bs.takeWhile p).length := by
  induction bs with
  | nil => rfl
  | cons b bs ih => simp only [runLen, List.takeWhile]; split <;> simp_all

/-- `tabs_or_spaces`: advanced exactly over the run of spaces and tabs; looks at the run and the
one byte that ends it. -/
theorem tabs_or_spaces_spec (v : View) (off : Nat) :
    (tabsOrSpaces v off).1 = off + ((v.rest.drop off).takeWhile isBlank).length ∧
    (tabsOrSpaces v off).2 = v.demand (off + ((v.rest.drop off).takeWhile isBlank).length) := by
  simp [tabsOrSpaces, runLen_eq_takeWhile]

/-- `newline`: one LF (`+1`) or CRLF (`+2`), otherwise nothing — a lone CR, a CR at the end of
the input and anything else leave the offset unchanged.  It looks at the byte at `off`, and at
`off + 1` only if the first is a CR. -/
theorem newline_spec (v : View) (off : Nat) :
    (v.rest[off]? = some 10 → newline v off = (off + 1, v.demand off)) ∧
    (v.rest[off]? = some 13 → v.rest[off + 1]? = some 10 →
        newline v off = (off + 2, (v.demand off).demand (off + 1))) ∧
    (v.rest[off]? = some 13 → v.rest[off + 1]? ≠ some 10 →
        newline v off = (off, (v.demand off).demand (off + 1))) ∧
    (v.rest[off]? ≠ some 10 → v.rest[off]? ≠ some 13 → newline v off = (off, v.demand off)) := by
  refine ⟨?_, ?_, ?_, ?_⟩
  · intro h; simp [newline, h]
  · intro h1 h2; simp [newline, h1, h2]
  · intro h1 h2
    unfold newline
    rw [h1]
    simp only
  · intro h1 h2
    unfold newline
    split
    · rename_i h; exact absurd h h1
    · rename_i h; exact absurd h h2
    · rfl

/-- `next_newline`: everything up to and including the next LF, or up to the end of input if
there is none; it looks no further than that LF. -/
theorem next_newline_spec (v : View) (off : Nat) :
    let n := ((v.rest.drop off).takeWhile (· != 10)).length
    (nextNewline v off).2 = v.demand (off + n) ∧
    (v.rest[off + n]? = some 10 → (nextNewline v off).1 = off + n + 1) ∧
    (v.rest[off + n]? = none → (nextNewline v off).1 = off + n ∧ off + n ≥ v.rest.length) ∧
    (v.rest[off + n]? = some 10 ∨ v.rest[off + n]? = none) := by
  intro n
  have hn : runLen (· != 10) (v.rest.drop off) = n := runLen_eq_takeWhile _ _
  have hterm : v.rest[off + n]? = some 10 ∨ v.rest[off + n]? = none := by
    -- the byte after the maximal run of non-LF bytes is an LF or does not exist
    have : (v.rest.drop off)[n]? = some 10 ∨ (v.rest.drop off)[n]? = none := by
      show (v.rest.drop off)[((v.rest.drop off).takeWhile (· != 10)).length]? = some 10 ∨
        (v.rest.drop off)[((v.rest.drop off).takeWhile (· != 10)).length]? = none
      generalize v.rest.drop off = l
      induction l with
      | nil => right; simp
      | cons b bs ih =>
        simp only [List.takeWhile]
        by_cases hb : (b != 10) = true
        · simp only [hb, List.length_cons, List.getElem?_cons_succ]; exact ih
        · left; simp only [hb, List.length_nil]; simp at hb; simp [hb]
    simpa [List.getElem?_drop] using this
  refine ⟨by simp [nextNewline, hn], ?_, ?_, hterm⟩
  · intro h; simp [nextNewline, hn, h]
  · intro h
    refine ⟨by simp [nextNewline, hn, h], ?_⟩
    exact List.getElem?_eq_none_iff.mp h

/-- `matchLen pat bs` is the length of the longest common prefix, capped at `pat.length`. -/
theorem matchLen_spec (pat bs : VBytes) :
    matchLen pat bs ≤ pat.length ∧ pat.take (matchLen pat bs) = bs.take (matchLen pat bs) ∧
    (matchLen pat bs = pat.length ↔ pat <+: bs) ∧
    (matchLen pat bs < pat.length → bs[matchLen pat bs]? ≠ pat[matchLen pat bs]?) := by
  induction pat generalizing bs with
  | nil => cases bs <;> simp [matchLen]
  | cons p ps ih =>
    cases bs with
    | nil => simp [matchLen]
    | cons b bs =>
      by_cases hpb : p = b
      · subst hpb
        obtain ⟨i1, i2, i3, i4⟩ := ih bs
        simp only [matchLen, beq_self_eq_true, ↓reduceIte]
        refine ⟨by simp; omega, by simp [i2], ?_, ?_⟩
        · simp only [List.length_cons, Nat.add_right_cancel_iff, List.cons_prefix_cons, true_and]
          exact i3
        · intro h
          simp only [List.length_cons, Nat.add_lt_add_iff_right] at h
          simpa using i4 h
      · have : (p == b) = false := by simp [hpb]
        simp only [matchLen, this]
        refine ⟨by simp, by simp, ?_, ?_⟩
        · simp [hpb]
        · intro _; simp; exact fun h => hpb h.symm

/-- `fixed`: advanced over the pattern if it is fully present, otherwise not at all; it stops
requesting at the first mismatching byte (or at the end of the input / of the pattern): the
highest offset it looks at is `off + m` where `m` is the length of the common prefix, and nothing
at all for the empty pattern. -/
theorem fixed_spec (v : View) (off : Nat) (pat : VBytes) :
    let m := matchLen pat (v.rest.drop off)
    (pat <+: v.rest.drop off → (fixed v off pat).1 = off + pat.length) ∧
    (¬ pat <+: v.rest.drop off → (fixed v off pat).1 = off) ∧
    (pat = [] → (fixed v off pat).2 = v) ∧
    (pat ≠ [] → pat <+: v.rest.drop off → (fixed v off pat).2 = v.demand (off + pat.length - 1)) ∧
    (¬ pat <+: v.rest.drop off → (fixed v off pat).2 = v.demand (off + m) ∧ m < pat.length ∧
        (v.rest.drop off)[m]? ≠ pat[m]?) := by
  intro m
  obtain ⟨h1, _, h3, h4⟩ := matchLen_spec pat (v.rest.drop off)
  refine ⟨?_, ?_, ?_, ?_, ?_⟩
  · intro hp; simp [fixed, h3.mpr hp]
  · intro hp
    have : matchLen pat (v.rest.drop off) ≠ pat.length := fun h => hp (h3.mp h)
    simp [fixed, this]
  · intro hp; subst hp; simp [fixed, matchLen]
  · intro hne hp
    have : pat.isEmpty = false := by cases pat <;> simp_all
    simp [fixed, h3.mpr hp, this]
  · intro hp
    have hne : matchLen pat (v.rest.drop off) ≠ pat.length := fun h => hp (h3.mp h)
    have hlt : m < pat.length := Nat.lt_of_le_of_ne h1 hne
    exact ⟨by simp [fixed, hne, m], hlt, h4 hlt⟩

/-- **Scanners never consume**: stream, position and mark are what they were. -/
theorem scanners_do_not_consume (v : View) (off : Nat) (pat : VBytes) :
    ((tabsOrSpaces v off).2.rest = v.rest ∧ (tabsOrSpaces v off).2.pos = v.pos) ∧
    ((newline v off).2.rest = v.rest ∧ (newline v off).2.pos = v.pos) ∧
    ((nextNewline v off).2.rest = v.rest ∧ (nextNewline v off).2.pos = v.pos) ∧
    ((fixed v off pat).2.rest = v.rest ∧ (fixed v off pat).2.pos = v.pos) := by
  have d := demand_effect
  refine ⟨?_, ?_, ?_, ?_⟩
  · simp only [tabsOrSpaces]; exact ⟨(d v _).1, (d v _).2.1⟩
  · simp only [newline]
    split
    · exact ⟨(d v _).1, (d v _).2.1⟩
    · split
      · exact ⟨by rw [(d _ _).1, (d v _).1], by rw [(d _ _).2.1, (d v _).2.1]⟩
      · exact ⟨by rw [(d _ _).1, (d v _).1], by rw [(d _ _).2.1, (d v _).2.1]⟩
    · exact ⟨(d v _).1, (d v _).2.1⟩
  · simp only [nextNewline]; exact ⟨(d v _).1, (d v _).2.1⟩
  · simp only [fixed]
    split
    · split
      · exact ⟨rfl, rfl⟩
      · exact ⟨(d v _).1, (d v _).2.1⟩
    · exact ⟨(d v _).1, (d v _).2.1⟩

/-- Non-vacuity / sanity on concrete inputs (CR at end of input, lone CR, CRLF, cut pattern). -/
example :
    (newline (View.init [13] false) 0).1 = 0 ∧ (newline (View.init [13, 10] false) 0).1 = 2 ∧
    (newline (View.init [13, 97] false) 0).1 = 0 ∧
    (fixed (View.init [112, 32, 99] false) 0 [112, 32, 99, 110, 102]).1 = 0 ∧
    (fixed (View.init [112, 32, 99] false) 0 [112, 32, 99, 110, 102]).2.peeked = 4 ∧
    (fixed (View.init [112, 120, 99] false) 0 [112, 32, 99]).2.peeked = 2 ∧
    (nextNewline (View.init [97, 98] false) 0).1 = 2 ∧
    (tabsOrSpaces (View.init [32, 9, 32, 48] false) 1).1 = 3 := by decide

end Flussab.C16
