/-
C04 for the AIGER formats, remaining clauses — every item handed out before the error is the item
the same parser hands out at that index when the source does not fail, and a syntax error reported
over a failing source is the syntax error the data has anyway.

`Props/C04Aiger.lean` has: a failing source is never reported as a clean end, never as `Ok`, and an
I/O error is only reported for a failing source.  Here, for the STREAMING interface
(`Parser::new`, every `next_*`, the transition functions, `next_symbol`, `comment`) driven to its
final result, and for whole-file `parse()`, ASCII and binary, every literal type of at most 64 bits:

`r₁ := runStream bin l stream (LR.init b true)` : the source delivers the bytes `b`, then fails.
`r₂ := runStream bin l stream (LR.init (b ++ more) false)` : the fault-free run over any input that
extends what was delivered (`more = []` included).

* `aiger_fault_prefix`: `r₁.items <+: r₂.items`, and `r₁` ends in `io` or in a syntax error (never
  a clean end, never a panic);
* `aiger_fault_syntax_same`: if `r₁` ends in a syntax error, `r₂` ends in the same syntax error
  after the same items;
* `aiger_parse_fault_prefix`, `aiger_parse_fault_syntax_same`: the same for `mode=parse`
  (`runParse`: whole-file `parse()`, which hands out nothing before it returns);
  `aag_parse_fault_syntax_same`, `aig_parse_fault_syntax_same`: the statement about `parse()`
  itself;
* `aiger_item_fault_same`: per call of a section reader, from related states.

`runStream` / `runParse` (`Model/AigerRun.lean`, new with this property) are the drive of
`Driver/EngAiger.lean` (`mode=stream|skip|parse`) with items as values instead of text: that file
had the only copy of the calling sequence, and it lives outside the model.

Proof (Proof/Sim.lean, Proof/AigerSim.lean, Proof/AigerSimParse.lean, Proof/AigerSimRun.lean,
Proof/AigerSimDrive.lean): a reader that has not hit the end of its data cannot tell `b` from
`b ++ more`; every function of the token layer and of the parsers commutes with extending the
stream as long as its run ends with `sawEnd = false`; an item is handed out with `peeked ≤ pos`
(C09) — hence `sawEnd = false` — and a syntax error is raised with `sawEnd = false` (C04); once
the failing run has seen the end of its data it hands out nothing more.

Hypothesis: `b.length + 3 ≤ usize::MAX` (as in C05), on the delivered bytes only.
-/
import Flussab.Proof.AigerSimDrive
import Flussab.Props.C09Aiger
import Flussab.Props.C04Aiger

namespace Flussab.C04
open Flussab Flussab.Aiger PM

/-- **Items handed out before the error are the items of the fault-free run**, and the failing
run ends in `io` or a syntax error (ASCII and binary, streaming and skipping mode, every `b` and
`more`). -/
theorem aiger_fault_prefix (bin : Bool) (l : LitTy) (stream : Bool) (hl : l.bits ≤ 64)
    (b more : VBytes) (hb : b.length + 3 ≤ usizeMax) :
    (runStream bin l stream (LR.init b true)).items <+:
      (runStream bin l stream (LR.init (b ++ more) false)).items ∧
    ((runStream bin l stream (LR.init b true)).final = some .io ∨
      ∃ line col, (runStream bin l stream (LR.init b true)).final = some (.syn line col)) :=
  ⟨(runStream_prefix bin l stream hl b more hb).1, (runStream_prefix bin l stream hl b more hb).2.1⟩

/-- **A syntax error of the failing run is the outcome of the fault-free run**, after the same
items. -/
theorem aiger_fault_syntax_same (bin : Bool) (l : LitTy) (stream : Bool) (hl : l.bits ≤ 64)
    (b more : VBytes) (hb : b.length + 3 ≤ usizeMax) (line col : Nat)
    (h : (runStream bin l stream (LR.init b true)).final = some (.syn line col)) :
    (runStream bin l stream (LR.init (b ++ more) false)).final = some (.syn line col) ∧
    (runStream bin l stream (LR.init (b ++ more) false)).items =
      (runStream bin l stream (LR.init b true)).items :=
  (runStream_prefix bin l stream hl b more hb).2.2 line col h

/-- `mode=parse`: whole-file `parse()` over a failing source hands out nothing (so the prefix
clause holds) and ends in `io` or a syntax error. -/
theorem aiger_parse_fault_prefix (bin : Bool) (l : LitTy) (hl : l.bits ≤ 64) (b more : VBytes)
    (hb : b.length + 3 ≤ usizeMax) :
    (runParse bin l (LR.init b true)).items <+: (runParse bin l (LR.init (b ++ more) false)).items ∧
    ((runParse bin l (LR.init b true)).final = some .io ∨
      ∃ line col, (runParse bin l (LR.init b true)).final = some (.syn line col)) := by
  obtain ⟨h1, h2, _⟩ := runParse_fault bin l hl b more hb
  exact ⟨by rw [h1]; exact List.nil_prefix, h2⟩

/-- `mode=parse`: a syntax error of the failing run is the outcome of the fault-free run. -/
theorem aiger_parse_fault_syntax_same (bin : Bool) (l : LitTy) (hl : l.bits ≤ 64) (b more : VBytes)
    (hb : b.length + 3 ≤ usizeMax) (line col : Nat)
    (h : (runParse bin l (LR.init b true)).final = some (.syn line col)) :
    (runParse bin l (LR.init (b ++ more) false)).final = some (.syn line col) ∧
    (runParse bin l (LR.init (b ++ more) false)).items = (runParse bin l (LR.init b true)).items := by
  obtain ⟨h1, _, h3⟩ := runParse_fault bin l hl b more hb
  rw [h3 line col h, h1]
  exact ⟨rfl, rfl⟩

/-- Whole-file ASCII `parse()` itself. -/
theorem aag_parse_fault_syntax_same (l : LitTy) (hl : l.bits ≤ 64) (b more : VBytes)
    (hb : b.length + 3 ≤ usizeMax) (line col : Nat) (lr1 : LR)
    (hr : (parseAag l).run (LR.init b true) = (.error (.syn line col), lr1)) :
    ∃ s, (parseAag l).run (LR.init (b ++ more) false) = (.error (.syn line col), s) :=
  parseAag_syntax_same l hl b more hb line col lr1 hr

/-- Whole-file binary `parse()` itself. -/
theorem aig_parse_fault_syntax_same (l : LitTy) (hl : l.bits ≤ 64) (b more : VBytes)
    (hb : b.length + 3 ≤ usizeMax) (line col : Nat) (lr1 : LR)
    (hr : (parseAig l).run (LR.init b true) = (.error (.syn line col), lr1)) :
    ∃ s, (parseAig l).run (LR.init (b ++ more) false) = (.error (.syn line col), s) :=
  parseAig_syntax_same l hl b more hb line col lr1 hr

/-- The states related by the per-call theorem: the initial ones are. -/
theorem aiger_initial_related (b more : VBytes) (hb : b.length + 3 ≤ usizeMax) :
    AInv (LR.init b true) ∧ J (LR.init b true) ∧ Tight (LR.init b true) ∧
    ext more (LR.init b true) = LR.init (b ++ more) false :=
  ⟨⟨b, inv_init b true hb⟩, J_init b true, C09.aiger_initial_tight b true, ext_init b more⟩

/-- Per call of a section reader (`next_input`, `next_latch`, …, binary `next_and_gate`), from any
state of an error-free drive of a failing source (`AInv`, `J`, `Tight` hold initially and after
every returned item): a returned item is returned, with the same section state, by the same call
over the longer fault-free stream, in the corresponding state; a syntax error is the same syntax
error. -/
theorem aiger_item_fault_same {α : Type} {next : St → PM (Option α × St)}
    (hn : C09.SectionReader next) (more : VBytes) (s : St) (lr : LR) (hI : AInv lr) (hs : SInv s)
    (hJ : J lr) (ht : Tight lr) :
    (∀ a s' lr1, (next s).run lr = (.ok (some a, s'), lr1) →
      (next s).run (ext more lr) = (.ok (some a, s'), ext more lr1) ∧
      AInv lr1 ∧ SInv s' ∧ J lr1 ∧ Tight lr1) ∧
    (∀ line col lr1, (next s).run lr = (.error (.syn line col), lr1) →
      ∃ t, (next s).run (ext more lr) = (.error (.syn line col), t)) := by
  have hA : StepA next := by
    cases hn with
    | lit a => exact nextLit_A a
    | latchAscii => exact nextLatchAscii_A
    | latchBin => exact nextLatchBin_A
    | justiceSize => exact nextJusticeSize_A
    | gateAscii => exact nextAndGateAscii_A
    | gateBin => exact nextAndGateBin_A
  exact hA.fault_same more s lr hI hs hJ ht

/-! ### non-vacuity -/

/-- `"aag 3 1 1 1 1\n2\n4 6 1\n6\n6 2 4\ni0 x\nc\nhi\n"` cut inside the and-gate line: header, input,
latch and output are handed out, then the I/O error; the fault-free run over the whole file hands
out the same four items and three more. -/
example :
    runStream false ⟨8⟩ true (LR.init ((C05.exAag).take 27) true) =
      { items := [.header { maxVarIndex := 3, inputCount := 1, latchCount := 1, outputCount := 1,
                            andGateCount := 1 },
                  .input 2, .latch { state := 4, next := 6, init := some true }, .output 6],
        final := some .io } ∧
    runStream false ⟨8⟩ true (LR.init ((C05.exAag).take 27 ++ (C05.exAag).drop 27) false) =
      { items := [.header { maxVarIndex := 3, inputCount := 1, latchCount := 1, outputCount := 1,
                            andGateCount := 1 },
                  .input 2, .latch { state := 4, next := 6, init := some true }, .output 6,
                  .gate { in0 := 2, in1 := 4, out := 6 },
                  .symbol { kind := .input, index := 0, name := [120] },
                  .comment (some [104, 105])],
        final := none } := by
  decide +kernel

/-- Binary: `"aig 6 5 0 0 1\n" ++ [0x0A, 0x02] ++ "i0 x\n"` cut between the two varints of the gate
(after a byte that is `0x0A`): only the header is handed out; cut behind the gate: header and
gate; the fault-free run hands out both and goes on. -/
example :
    (runStream true ⟨64⟩ true (LR.init ((C05.exAigLf).take 15) true)).items.length = 1 ∧
    (runStream true ⟨64⟩ true (LR.init ((C05.exAigLf).take 15) true)).final = some .io ∧
    (runStream true ⟨64⟩ true (LR.init ((C05.exAigLf).take 16) true)).items.getLast? =
      some (.ogate { in0 := 2, in1 := 0 }) ∧
    (runStream true ⟨64⟩ true (LR.init C05.exAigLf false)).items.drop 1 =
      [.ogate { in0 := 2, in1 := 0 }, .symbol { kind := .input, index := 0, name := [120] },
       .comment none] ∧
    (runStream true ⟨64⟩ true (LR.init C05.exAigLf false)).final = none := by
  decide +kernel

/-- The hypothesis of `aiger_fault_syntax_same` / `aiger_parse_fault_syntax_same` is satisfiable:
`"aag 1 1 0 0 0\n3\n"` (an odd input literal) from a failing source ends in the syntax error `2:1`
after the header, and so does the fault-free run over `… ++ "c\n"`; `parse()` likewise. -/
example :
    (runStream false ⟨8⟩ true (LR.init [97,97,103,32,49,32,49,32,48,32,48,32,48,10,51,10] true)).final =
      some (.syn 2 1) ∧
    (runStream false ⟨8⟩ true (LR.init [97,97,103,32,49,32,49,32,48,32,48,32,48,10,51,10] true)).items.length = 1 ∧
    (runStream false ⟨8⟩ true (LR.init ([97,97,103,32,49,32,49,32,48,32,48,32,48,10,51,10] ++ [99,10]) false)).final =
      some (.syn 2 1) ∧
    (runParse false ⟨8⟩ (LR.init [97,97,103,32,49,32,49,32,48,32,48,32,48,10,51,10] true)).final =
      some (.syn 2 1) ∧
    C05.errOf ((parseAag ⟨8⟩).run (LR.init [97,97,103,32,49,32,49,32,48,32,48,32,48,10,51,10] true)) =
      some (.syn 2 1) ∧
    C05.errOf ((parseAig ⟨8⟩).run (LR.init [97,105,103,32,49,32,49,32,48,32,48,32,48,10,105,57,32,120,10] true)) =
      some (.syn 2 2) := by
  decide +kernel

/-- `mode=parse` over the fault-free file hands out the parsed value; cut short, nothing. -/
example :
    (runParse false ⟨8⟩ (LR.init C05.exAag false)).items.length = 8 ∧
    (runParse false ⟨8⟩ (LR.init C05.exAag false)).final = none ∧
    runParse false ⟨8⟩ (LR.init ((C05.exAag).take 27) true) = { items := [], final := some .io } := by
  decide +kernel

/-- The per-call theorem speaks about real calls: from the initial state over `"2\n"` (which
satisfies its hypotheses by `aiger_initial_related`) `next_input` returns the literal 2. -/
example :
    (∃ s' lr1, (nextInput (St.mk (Parser.mk false ⟨8⟩ (Header.mk 3 1 0 0 0 0 0 0 0) 7 0) 1 0)).run
      (LR.init [50, 10] true) = (.ok (some 2, s'), lr1)) ∧
    AInv (LR.init [50, 10] true) ∧ J (LR.init [50, 10] true) ∧ Tight (LR.init [50, 10] true) := by
  refine ⟨⟨_, _, rfl⟩, (aiger_initial_related [50, 10] [] (by decide)).1,
    (aiger_initial_related [50, 10] [] (by decide)).2.1,
    (aiger_initial_related [50, 10] [] (by decide)).2.2.1⟩

end Flussab.C04
