/-
C08 (BTOR2 part), the catalogue clause for the numeric-overflow class at DOCUMENT level: replace a
whitespace-delimited all-digit token of an accepted document by a digit string whose value does not
fit in `u64`; if the result is rejected with a syntax error, the error is on the line of the token
and its column lies on the token.

This discharges `C08.btor2_overflow_error_on_token_full` (`Props/C08Btor2.lean`) exactly as stated —
no hypothesis on the kind of position is needed — and sharpens the upper bound (`column` is at most
the LAST byte of the replacement, not one behind it).

Why no side condition: an all-digit word of an accepted document sits at one of
* a numeral position (node id, sort id, operand, bit width, array sorts, pad width, slice indices,
  `justice` count and conditions): `positive_int` / `nonnegative_int` reject the replacement at its
  first byte (`exceeds_count` at the mark; with a leading `0`, `positive_int` falls through and
  `unexpected` reports the same byte) — column = first byte of the token;
* a keyword position: impossible in an accepted document (both runs fail there);
* a binary constant (`const`): the scanner stops at the first digit `2..9` of the replacement and
  `trailer` reports that byte — column inside the token; if the replacement has binary digits only
  it is accepted;
* a decimal / hexadecimal constant, a symbol, or the text of a comment: the replacement is consumed
  like the original and the REST of the document is parsed from a state that differs only in
  position — the modified document is accepted too (or the model panics in an overflow check of
  `line_at_offset`, which needs an input of more than `2^64 - 1` bytes), so the hypothesis "rejected with a syntax
  error" is not met.

Proof (`Proof/Btor2Catalogue*.lean`): a relational weakest-precondition calculus for two runs of
the parser monad; a pass over every function of the BTOR2 model from two states over `r ++ tok ++
post` / `r ++ tok' ++ post` (`r` a suffix of `pre`: prefix determinism inside a line), and a second
pass from two "shifted" states with the same unconsumed input (what is returned does not depend on
the position).  No size hypothesis is needed.
-/
import Flussab.Proof.Btor2CatalogueLine
import Flussab.Props.C08Btor2

namespace Flussab.C08
open Flussab Flussab.Btor2 PM

/-- **A replaced numeral token is reported on the token** (document level, sharp bounds): the
column is between the first and the last byte of the replacement. -/
theorem btor2_overflow_error_on_token_strict (pre tok tok' post : VBytes) (l c : Nat)
    (hacc : (parseAll (LR.init (pre ++ tok ++ post) false)).2 = none)
    (hrej : (parseAll (LR.init (pre ++ tok' ++ post) false)).2 = some (.syn l c))
    (hne : tok ≠ []) (hd : tok.all isDigit = true) (hd' : tok'.all isDigit = true)
    (hbig : 2 ^ 64 ≤ Text.decVal tok')
    (hpre : pre = [] ∨ pre.getLast? = some 32 ∨ pre.getLast? = some 10)
    (hpost : post.head? = some 32 ∨ post.head? = some 10) :
    l = 1 + pre.count 10 ∧
    (pre.reverse.takeWhile (· != 10)).length + 1 ≤ c ∧
    c < (pre.reverse.takeWhile (· != 10)).length + 1 + tok'.length :=
  Cat.overflow_located pre tok tok' post l c hacc hrej hne hd hd' hbig hpre hpost

/-- The statement of `btor2_overflow_error_on_token_full`, as a theorem. -/
theorem btor2_overflow_error_on_token (pre tok tok' post : VBytes) (l c : Nat)
    (hacc : (parseAll (LR.init (pre ++ tok ++ post) false)).2 = none)
    (hrej : (parseAll (LR.init (pre ++ tok' ++ post) false)).2 = some (.syn l c))
    (hne : tok ≠ []) (hd : tok.all isDigit = true) (hd' : tok'.all isDigit = true)
    (hbig : 2 ^ 64 ≤ Text.decVal tok')
    (hpre : pre = [] ∨ pre.getLast? = some 32 ∨ pre.getLast? = some 10)
    (hpost : post.head? = some 32 ∨ post.head? = some 10) :
    l = 1 + pre.count 10 ∧
    (pre.reverse.takeWhile (· != 10)).length + 1 ≤ c ∧
    c ≤ (pre.reverse.takeWhile (· != 10)).length + 1 + tok'.length := by
  obtain ⟨h1, h2, h3⟩ :=
    btor2_overflow_error_on_token_strict pre tok tok' post l c hacc hrej hne hd hd' hbig hpre hpost
  exact ⟨h1, h2, Nat.le_of_lt h3⟩

/-- `btor2_overflow_error_on_token_full` is discharged. -/
theorem btor2_overflow_error_on_token_full_holds : btor2_overflow_error_on_token_full :=
  fun pre tok tok' post l c hacc hrej hne hd hd' hbig hpre hpost =>
    btor2_overflow_error_on_token pre tok tok' post l c hacc hrej hne hd hd' hbig hpre hpost

/-! ### non-vacuity -/

/-! In the examples `[49, 56, 52, 52, …, 49, 54]` (20 bytes) is `18446744073709551616` = `2^64` and
`[49, 32, 115, 111, 114, 116, 32, 98, 105, 116, 118, 101, 99, 32, 49, 10]` is `1 sort bitvec 1\n`. -/

/-- All hypotheses hold — bit width of `1 sort bitvec 8\n` replaced by `2^64`: error at `1:15`, the
first byte of the replacement; the token occupies columns 15–34. -/
example :
    (parseAll (LR.init ([49, 32, 115, 111, 114, 116, 32, 98, 105, 116, 118, 101, 99, 32] ++ [56] ++ [10])
      false)).2 = none ∧
    (parseAll (LR.init ([49, 32, 115, 111, 114, 116, 32, 98, 105, 116, 118, 101, 99, 32] ++ ([49, 56, 52, 52, 54, 55, 52, 52, 48, 55, 51, 55, 48, 57, 53, 53, 49, 54, 49, 54] : VBytes) ++ [10])
      false)).2 = some (.syn 1 15) ∧
    ([56] : VBytes) ≠ [] ∧ ([56] : VBytes).all isDigit = true ∧ ([49, 56, 52, 52, 54, 55, 52, 52, 48, 55, 51, 55, 48, 57, 53, 53, 49, 54, 49, 54] : VBytes).all isDigit = true ∧
    2 ^ 64 ≤ Text.decVal ([49, 56, 52, 52, 54, 55, 52, 52, 48, 55, 51, 55, 48, 57, 53, 53, 49, 54, 49, 54] : VBytes) ∧
    ([49, 32, 115, 111, 114, 116, 32, 98, 105, 116, 118, 101, 99, 32] : VBytes).getLast? = some 32 ∧
    ([10] : VBytes).head? = some 10 ∧
    1 + ([49, 32, 115, 111, 114, 116, 32, 98, 105, 116, 118, 101, 99, 32] : VBytes).count 10 = 1 ∧
    (([49, 32, 115, 111, 114, 116, 32, 98, 105, 116, 118, 101, 99, 32] : VBytes).reverse.takeWhile
      (· != 10)).length + 1 = 15 := by
  decide +kernel

/-- A node id at the start of the second line (`pre` ends in a newline): `2:1`; the same with a
leading `0` (`positive_int` falls through, `unexpected` reports the same byte). -/
example :
    (parseAll (LR.init (([49, 32, 115, 111, 114, 116, 32, 98, 105, 116, 118, 101, 99, 32, 49, 10] : VBytes) ++ [50] ++ [32, 105, 110, 112, 117, 116, 32, 49, 10]) false)).2 = none ∧
    (parseAll (LR.init (([49, 32, 115, 111, 114, 116, 32, 98, 105, 116, 118, 101, 99, 32, 49, 10] : VBytes) ++ ([49, 56, 52, 52, 54, 55, 52, 52, 48, 55, 51, 55, 48, 57, 53, 53, 49, 54, 49, 54] : VBytes) ++ [32, 105, 110, 112, 117, 116, 32, 49, 10]) false)).2 =
      some (.syn 2 1) ∧
    (parseAll (LR.init (([49, 32, 115, 111, 114, 116, 32, 98, 105, 116, 118, 101, 99, 32, 49, 10] : VBytes) ++ ([48, 49, 56, 52, 52, 54, 55, 52, 52, 48, 55, 51, 55, 48, 57, 53, 53, 49, 54, 49, 54] : VBytes) ++ [32, 105, 110, 112, 117, 116, 32, 49, 10]) false)).2 =
      some (.syn 2 1) ∧
    ([49, 32, 115, 111, 114, 116, 32, 98, 105, 116, 118, 101, 99, 32, 49, 10] : VBytes).getLast? = some 10 ∧ 1 + ([49, 32, 115, 111, 114, 116, 32, 98, 105, 116, 118, 101, 99, 32, 49, 10] : VBytes).count 10 = 2 ∧
    (([49, 32, 115, 111, 114, 116, 32, 98, 105, 116, 118, 101, 99, 32, 49, 10] : VBytes).reverse.takeWhile (· != 10)).length + 1 = 1 ∧ 2 ^ 64 ≤ Text.decVal ([48, 49, 56, 52, 52, 54, 55, 52, 52, 48, 55, 51, 55, 48, 57, 53, 53, 49, 54, 49, 54] : VBytes) := by
  decide +kernel

/-- An operand in the middle of a document, with lines (one ending in a comment) behind it:
`3 add 1 2 <2^64>` on line 3 is reported at `3:11`. -/
example :
    (parseAll (LR.init ([49, 32, 115, 111, 114, 116, 32, 98, 105, 116, 118, 101, 99, 32, 49, 10, 50, 32,
      105, 110, 112, 117, 116, 32, 49, 10, 51, 32, 97, 100, 100, 32, 49, 32, 50, 32] ++ [50] ++
      [10, 52, 32, 111, 117, 116, 112, 117, 116, 32, 51, 32, 59, 32, 49, 50, 32, 120, 10]) false)).2 = none ∧
    (parseAll (LR.init ([49, 32, 115, 111, 114, 116, 32, 98, 105, 116, 118, 101, 99, 32, 49, 10, 50, 32,
      105, 110, 112, 117, 116, 32, 49, 10, 51, 32, 97, 100, 100, 32, 49, 32, 50, 32] ++ ([49, 56, 52, 52, 54, 55, 52, 52, 48, 55, 51, 55, 48, 57, 53, 53, 49, 54, 49, 54] : VBytes) ++
      [10, 52, 32, 111, 117, 116, 112, 117, 116, 32, 51, 32, 59, 32, 49, 50, 32, 120, 10]) false)).2 =
      some (.syn 3 11) := by
  decide +kernel

/-- A binary constant: `2 const 1 1` with the constant replaced by `199999999999999999999` — the
scanner takes the `1`, `trailer` reports the first `9`: `2:12`, one byte INSIDE the token (which
starts at column 11).  The column is not always the first byte of the token. -/
example :
    (parseAll (LR.init (([49, 32, 115, 111, 114, 116, 32, 98, 105, 116, 118, 101, 99, 32, 49, 10] : VBytes) ++ [50, 32, 99, 111, 110, 115, 116, 32, 49, 32] ++ [49] ++ [10]) false)).2 =
      none ∧
    (parseAll (LR.init (([49, 32, 115, 111, 114, 116, 32, 98, 105, 116, 118, 101, 99, 32, 49, 10] : VBytes) ++ [50, 32, 99, 111, 110, 115, 116, 32, 49, 32] ++
      [49, 57, 57, 57, 57, 57, 57, 57, 57, 57, 57, 57, 57, 57, 57, 57, 57, 57, 57, 57, 57] ++ [10]) false)).2 =
      some (.syn 2 12) ∧
    ((([49, 32, 115, 111, 114, 116, 32, 98, 105, 116, 118, 101, 99, 32, 49, 10] : VBytes) ++ [50, 32, 99, 111, 110, 115, 116, 32, 49, 32]).reverse.takeWhile (· != 10)).length + 1 = 11 ∧
    2 ^ 64 ≤ Text.decVal [49, 57, 57, 57, 57, 57, 57, 57, 57, 57, 57, 57, 57, 57, 57, 57, 57, 57, 57, 57, 57] := by
  decide +kernel

/-- Where the hypothesis "rejected" fails: in a decimal constant, in the text of a comment and as a
symbol the replacement is accepted. -/
example :
    (parseAll (LR.init (([49, 32, 115, 111, 114, 116, 32, 98, 105, 116, 118, 101, 99, 32, 49, 10] : VBytes) ++ [50, 32, 99, 111, 110, 115, 116, 100, 32, 49, 32] ++ ([49, 56, 52, 52, 54, 55, 52, 52, 48, 55, 51, 55, 48, 57, 53, 53, 49, 54, 49, 54] : VBytes) ++ [10]) false)).2 =
      none ∧
    (parseAll (LR.init ([59, 32, 99, 32] ++ ([49, 56, 52, 52, 54, 55, 52, 52, 48, 55, 51, 55, 48, 57, 53, 53, 49, 54, 49, 54] : VBytes) ++ (([32, 55, 10] : VBytes) ++ ([49, 32, 115, 111, 114, 116, 32, 98, 105, 116, 118, 101, 99, 32, 49, 10] : VBytes))) false)).2 = none ∧
    (parseAll (LR.init (([49, 32, 115, 111, 114, 116, 32, 98, 105, 116, 118, 101, 99, 32, 49, 10] : VBytes) ++ [50, 32, 105, 110, 112, 117, 116, 32, 49, 32] ++ ([49, 56, 52, 52, 54, 55, 52, 52, 48, 55, 51, 55, 48, 57, 53, 53, 49, 54, 49, 54] : VBytes) ++
      [32, 59, 32, 120, 10]) false)).2 = none := by
  decide +kernel

end Flussab.C08
