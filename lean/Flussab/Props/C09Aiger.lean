/-
C09 (parser layer) for the AIGER formats — items are delivered without reading past the byte
that completes them.

`View.peeked` is the look-ahead ghost of the reader: every stream offset below it has been
demanded (`request_byte_at_offset`); by `C09.reads_only_when_demanded` (Props/C09.lean) a reader
pulls data from its source only for demanded offsets.  For AIGER the bound at the moment an item
is handed out is the strongest possible one and needs no "or the end was observed" alternative:

    peeked ≤ pos

— nothing at or behind the cursor has been demanded — because every item ends with a consumed
newline (header, every literal / latch / size / ASCII gate line, every symbol line) or with the
last byte of a varint (binary gates: `peeked ≤ pos` right after the second varint).  The
precondition is `peeked ≤ pos + 1` ("tight": at most the byte under the cursor has been demanded),
which holds initially (`aiger_initial_tight`) and after every returned item (`peeked ≤ pos`), and
is preserved by calls that return `None` (they do not touch the reader) and by the draining loops
of the transition functions (`aiger_drain_tight`).  So with a source that hands out one line per
read, no line after the one completing an item has been requested when the item is returned; for
a binary gate not even the rest of its raw line.

These are partial-correctness statements about calls that return; no hypothesis on the input.
Not covered: `comment()` — `remaining_file_content` reads to the end of the input by design; and
a `next_symbol` that returns `None` may have looked at the byte after a `c` (to tell the comment
header from an invariant-constraint symbol), which is harmless because `comment()` follows.
-/
import Flussab.Proof.AigerLookahead

namespace Flussab.C09
open Flussab Flussab.Aiger PM

theorem aiger_initial_tight (b : VBytes) (fault : Bool) : Tight (LR.init b fault) := by
  simp [Tight, LR.init, View.init]

theorem aiger_flush_tight (lr : LR) (h : lr.v.peeked ≤ lr.v.pos) : lr.v.peeked ≤ lr.v.pos + 1 := by
  omega

/-- **`Parser::new` returns the header without look-ahead** (both formats, every literal type). -/
theorem aiger_header_no_lookahead (bin : Bool) (l : LitTy) (lr lr' : LR) (p : Parser)
    (h : lr.v.peeked ≤ lr.v.pos + 1) (hr : (Parser.new bin l).run lr = (.ok p, lr')) :
    lr'.v.peeked ≤ lr'.v.pos :=
  (Wp.of_run (Parser.new_la bin l h)).1 p lr' hr

/-- The `next_*` functions of both formats. -/
inductive SectionReader : {α : Type} → (St → PM (Option α × St)) → Prop where
  | lit (assigning : Bool) : SectionReader (nextLit assigning)
  | latchAscii : SectionReader nextLatchAscii
  | latchBin : SectionReader nextLatchBin
  | justiceSize : SectionReader nextJusticeSize
  | gateAscii : SectionReader nextAndGateAscii
  | gateBin : SectionReader nextAndGateBin

theorem SectionReader.la {α : Type} {next : St → PM (Option α × St)} (h : SectionReader next) :
    StepLA next := by
  cases h with
  | lit a => exact nextLit_la a
  | latchAscii => exact nextLatchAscii_la
  | latchBin => exact nextLatchBin_la
  | justiceSize => exact nextJusticeSize_la
  | gateAscii => exact nextAndGateAscii_la
  | gateBin => exact nextAndGateBin_la

/-- **Every section item is handed out without look-ahead**: inputs, latches (ASCII and binary,
all reset forms), outputs, bad-state, constraint, justice sizes and literals, fairness, ASCII and
gates, and binary and gates (`peeked ≤ pos` after the second varint). -/
theorem aiger_item_no_lookahead {α : Type} {next : St → PM (Option α × St)} (hn : SectionReader next)
    (s s' : St) (lr lr' : LR) (item : α) (h : lr.v.peeked ≤ lr.v.pos + 1)
    (hr : (next s).run lr = (.ok (some item, s'), lr')) : lr'.v.peeked ≤ lr'.v.pos :=
  ((Wp.of_run (hn.la s lr h)).1 _ lr' hr).1 rfl

/-- An exhausted section returns `None` without touching the reader. -/
theorem aiger_none_untouched {α : Type} {next : St → PM (Option α × St)} (hn : SectionReader next)
    (s s' : St) (lr lr' : LR) (h : lr.v.peeked ≤ lr.v.pos + 1)
    (hr : (next s).run lr = (.ok (none, s'), lr')) : lr' = lr :=
  ((Wp.of_run (hn.la s lr h)).1 _ lr' hr).2 rfl

/-- The draining loops (`while let Some(_) = next()? {}`, used by `parse()` and by the transition
functions) leave the reader tight. -/
theorem aiger_drain_tight {α : Type} {next : St → PM (Option α × St)} (hn : SectionReader next)
    (fuel : Nat) (s : St) (acc : List α) (lr lr' : LR) (r : List α × St)
    (h : lr.v.peeked ≤ lr.v.pos + 1) (hr : (whileSome next fuel s acc).run lr = (.ok r, lr')) :
    lr'.v.peeked ≤ lr'.v.pos + 1 :=
  (Wp.of_run (whileSome_la hn.la fuel s acc lr h)).1 r lr' hr

/-- **`next_symbol` hands out a symbol without look-ahead.** -/
theorem aiger_symbol_no_lookahead (p : Parser) (lr lr' : LR) (sym : Symbol)
    (h : lr.v.peeked ≤ lr.v.pos + 1) (hr : (nextSymbol p).run lr = (.ok (some sym), lr')) :
    lr'.v.peeked ≤ lr'.v.pos :=
  (Wp.of_run (nextSymbol_la p h)).1 _ lr' hr rfl

/-- A varint is read without look-ahead: exactly its bytes are demanded. -/
theorem aig_varint_no_lookahead (lr lr' : LR) (n : Nat) (h : lr.v.peeked ≤ lr.v.pos + 1)
    (hr : binaryUint.run lr = (.ok n, lr')) : lr'.v.peeked ≤ lr'.v.pos :=
  (Wp.of_run binaryUint_la).1 n lr' hr h

/-! ### non-vacuity -/

/-- `"aig 6 5 0 0 1\n" ++ [0x0A, 0x02] ++ "i0 x\n"` -/
def exAig : VBytes := [97,105,103,32,54,32,53,32,48,32,48,32,49,10, 10,2, 105,48,32,120,10]

def afterNew : Except PErr Parser × LR := (Parser.new true ⟨64⟩).run (LR.init exAig false)

/-- On a real run: after the header exactly the 14 header bytes have been demanded, and after the
binary gate (whose first byte is a newline byte) exactly 16. -/
example : (match afterNew with
    | (.ok p, lr1) =>
      lr1.v.peeked == 14 && lr1.v.pos == 14 &&
      (match (nextAndGateBin { p, left := 1 }).run lr1 with
       | (.ok (some _, _), lr2) => lr2.v.peeked == 16 && lr2.v.pos == 16
       | _ => false)
    | _ => false) = true := by decide +kernel

end Flussab.C09
