/-
C04 — a failing source is always reported as an I/O error (DIMACS family and solver log, at the
level of the parser models).

`LR.init b true` is a reader over a source that delivers the bytes `b` and then fails.  The view
parks the error at the moment a request first hits the end of the data (`View.demand`), and only
`give_up_at` (via `check_io_error`) takes it — and then reports it.  The invariant of
`Proof/PMHoare.lean` carries this as `FInv`: *failing source ∧ end seen → error parked*.  Hence

* the end of the data is never mistaken for a clean end of input (`…_never_clean_end`,
  `log_fault_never_ok`): `eof` only matches when no error is parked;
* a syntax error is only reported while the reader has **not** seen the end of the data
  (`…_syntax_only_before_end`): at every `give_up` the parked error wins, so a syntax error is
  about bytes the parser actually saw and never "because the data ended where the source failed";
* conversely an I/O error is only ever reported for a failing source (`io_error_only_from_fault`).

Hypothesis as in C05: `b.length < 2^63`.
-/
import Flussab.Proof.CnfParserSafe

namespace Flussab.C04
open Flussab Cnf PM

/-- **A failing source is never reported as completely parsed** (`cnf` / `wcnf` / `gcnf`, every
literal type, both `ignore_header` settings, every delivered byte string). -/
theorem cnf_fault_never_clean_end (fmt : Format) (l : LitTy) (ignoreHeader : Bool) (b : VBytes)
    (hb : b.length < 2 ^ 63) : (parseAll fmt l ignoreHeader (LR.init b true)).final ≠ none := by
  obtain ⟨_, hnone⟩ := parseAllS_ok fmt l ignoreHeader (inv_init b true (SizeOK.of_lt hb))
  rw [parseAllS_fst] at hnone
  intro h
  exact absurd (hnone h) (by simp)

/-- The same for a single `next_clause` call from any state of an error-free parse: it does not
return `None` (clean end) when the source is a failing one. -/
theorem next_clause_fault_never_clean_end (p p' : Parser) (b : VBytes) (lr lr' : LR)
    (h : Inv b true lr) : p.nextClause.run lr ≠ (.ok (none, p'), lr') := by
  intro hr
  obtain ⟨_, _, _, hn⟩ := (nextClause_ok p h).of_run.1 (none, p') lr' hr
  exact absurd (hn rfl).1 (by simp)

/-- **A syntax error is only reported before the end of the data has been seen.**
`parseAllS` is `parseAll` together with the reader state in which it ended (`parseAllS_fst`);
if the outcome for a failing source is a syntax error, that state has `sawEnd = false`: no
request has hit the end of the delivered data, so the error is about bytes that were there. -/
theorem cnf_fault_syntax_only_before_end (fmt : Format) (l : LitTy) (ignoreHeader : Bool)
    (b : VBytes) (hb : b.length < 2 ^ 63) (line col : Nat)
    (h : (parseAll fmt l ignoreHeader (LR.init b true)).final = some (.syn line col)) :
    (parseAllS fmt l ignoreHeader (LR.init b true)).2.v.sawEnd = false := by
  obtain ⟨herr, _⟩ := parseAllS_ok fmt l ignoreHeader (inv_init b true (SizeOK.of_lt hb))
  rw [← parseAllS_fst] at h
  exact (herr _ h).2.2 rfl

theorem parse_all_with_state (fmt : Format) (l : LitTy) (ignoreHeader : Bool) (lr : LR) :
    (parseAllS fmt l ignoreHeader lr).1 = parseAll fmt l ignoreHeader lr :=
  parseAllS_fst fmt l ignoreHeader lr

/-- Per call: a syntax error from `next_clause` on a failing source leaves `sawEnd = false`. -/
theorem next_clause_fault_syntax_only_before_end (p : Parser) (b : VBytes) (lr lr' : LR)
    (line col : Nat) (h : Inv b true lr) (hr : p.nextClause.run lr = (.error (.syn line col), lr')) :
    lr'.v.sawEnd = false :=
  ((nextClause_ok p h).of_run.2 _ lr' hr).2.2 rfl

/-- **`parse_log` never returns `Ok` for a failing source**, and its syntax errors are raised
before the end of the data has been seen. -/
theorem log_fault_never_ok (l : LitTy) (ignoreUnknown : Bool) (b : VBytes) (hb : b.length < 2 ^ 63)
    (r : SolverLog) (lr' : LR) : (parseLog l ignoreUnknown).run (LR.init b true) ≠ (.ok r, lr') := by
  intro hr
  have := ((parseLog_ok l ignoreUnknown (inv_init b true (SizeOK.of_lt hb))).of_run.1 r lr' hr).2
  exact absurd this (by simp)

theorem log_fault_syntax_only_before_end (l : LitTy) (ignoreUnknown : Bool) (b : VBytes)
    (hb : b.length < 2 ^ 63) (line col : Nat) (lr' : LR)
    (hr : (parseLog l ignoreUnknown).run (LR.init b true) = (.error (.syn line col), lr')) :
    lr'.v.sawEnd = false :=
  ((parseLog_ok l ignoreUnknown (inv_init b true (SizeOK.of_lt hb))).of_run.2 _ lr' hr).2.2 rfl

/-- **Only a failing source yields an I/O error.** -/
theorem io_error_only_from_fault (fmt : Format) (l : LitTy) (ignoreHeader : Bool) (b : VBytes)
    (fault : Bool) (hb : b.length < 2 ^ 63)
    (h : (parseAll fmt l ignoreHeader (LR.init b fault)).final = some .io) : fault = true := by
  obtain ⟨herr, _⟩ := parseAllS_ok fmt l ignoreHeader (inv_init b fault (SizeOK.of_lt hb))
  rw [← parseAllS_fst] at h
  exact (herr _ h).2

/-! ### non-vacuity -/

/-- A document cut in the middle of a clause by a failing source: I/O error, not the syntax
error the same bytes give with a clean end; and a syntax error in front of the cut is still
reported as such, with the end of the data unseen. -/
example :
    (parseAll .cnf ⟨32⟩ false (LR.init [49, 32, 50] true)).final = some .io ∧
    (parseAll .cnf ⟨32⟩ false (LR.init [49, 32, 50] false)).final = some (.syn 1 4) ∧
    (parseAll .cnf ⟨32⟩ false (LR.init [49, 32, 120, 32, 48, 10] true)).final = some (.syn 1 3) ∧
    (parseAllS .cnf ⟨32⟩ false (LR.init [49, 32, 120, 32, 48, 10] true)).2.v.sawEnd = false ∧
    (match ((parseLog ⟨32⟩ false).run
        (LR.init [115, 32, 83, 65, 84, 73, 83, 70, 73, 65, 66, 76, 69, 10] true)).1 with
      | .error .io => true | _ => false) = true := by
  decide +kernel

end Flussab.C04
