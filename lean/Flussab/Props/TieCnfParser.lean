/-
Tie between the streaming parser of `/repo/flussab-cnf/src/cnf.rs` (`impl<'a, L: Dimacs> Parser<'a, L>`) and the
hand-written model `Model/Cnf.lean` — the statements.  (Proofs: `Proof/TieCnfParser.lean`.)

`Flussab.Gen.CnfParser.*` (file `Gen/CnfParserGen.lean`) is produced by `tools/gen_core.py`
(`tools/unit_cnfparser.py`) from the Rust source on every check run: `new`, `parse_header`, `header`,
`next_clause`.  The generated code acts on the pair (parser fields `Cnf.ParserS`, reader `LR`) in the monad
`PPM = StateT Cnf.ParserS PM`; the model's functions take and return the record `Cnf.Parser` explicitly.
Calls into token.rs are the token models of `Model/CnfToken.lean` (tied to token.rs by `Props/TieCnfToken.lean`;
`unexpected` by correspondence runs), the `Parsed` combinators are the contracts of
`Model/CnfParserExt.lean`, `unexpected_statement` (chooses a message) is `Cnf.unexpected`.

Correspondence of the records (`ofModel`): the generated record has the Rust fields; the model record lacks
`lit_buf` (the model returns the literals) and `lit_limit_is_hard` (selects a message only) and has the extra
constants `fmt`, `lit`, `groupLimit`.  `ofModel p hard buf` is the generated record with the model's values and
the given two extra fields; every generated record is of this form (`ofModel_surjective`).  A thrown
`ParseError` leaves only the reader state on both sides.

* `parse_header_tied`: for every state, the generated `parse_header` leaves the parser fields alone and acts on
  the reader exactly like `Cnf.parseHeader .cnf l`.
* `new_tied`: for every initial record (the struct literal overwrites it) and reader state, `Parser::new` returns
  and leaves `ofModel p hard []` where `p` is the model's `Cnf.Parser.new .cnf l ignore_header` and
  `hard = hardAfterNew ..` (false iff a non-zero header variable count was used).  Hypothesis `l.bits ≤ 64`
  (every `Dimacs` type is at most 64 bits wide): `header.var_count as isize` is translated as the wrapping cast;
  it is the identity because `var_count::<L>` returns at most `L::MAX_DIMACS ≤ isize::MAX`.
* `next_clause_tied`: for every model record `p` of plain CNF (`p.fmt = .cnf`; `L` is `p.lit`), every `hard`, `buf`
  and reader state, the generated `next_clause` on `ofModel p hard buf` returns the literals of the clause the
  model returns (`None` for `None`) and leaves `ofModel p' hard lits` (`lits = []` for `None`: the buffer was
  cleared) where `p'` is the model's new record.  No hypothesis on fuel: the loops' fuel is never used up.
* `header_tied`: the accessor.
Conventions as in §11.5 of DESIGN.md: `usize` addition (`clause_count += 1`) is unchecked.
-/
import Flussab.Proof.TieCnfParser

namespace Flussab
namespace TieCnfParser

open TieCnfParserAux CnfParserExt

export TieCnfParserAux (ofModel hardAfterNew litsOf)

/-- Every generated parser record corresponds to a model record. -/
theorem ofModel_surjective (l : Cnf.LitTy) (s : Cnf.ParserS) :
    ∃ p : Cnf.Parser, p.fmt = .cnf ∧ p.lit = l ∧ ofModel p s.litLimitIsHard s.litBuf = s :=
  ⟨{ fmt := .cnf, lit := l, clauseCount := s.clauseCount, clauseLimit := s.clauseLimit,
     clauseLimitActive := s.clauseLimitActive, litLimit := s.litLimit, header := s.header }, rfl, rfl, rfl⟩

theorem parse_header_tied (l : Cnf.LitTy) :
    Gen.CnfParser.parseHeader l = tok (Cnf.parseHeader .cnf l) := parseHeader_eq l

/-- The same, run on a parser record. -/
theorem parse_header_run (l : Cnf.LitTy) (s : Cnf.ParserS) :
    (Gen.CnfParser.parseHeader l).run s = (Cnf.parseHeader .cnf l >>= fun h => pure (h, s)) := by
  rw [parseHeader_eq]; rfl

theorem new_tied (l : Cnf.LitTy) (hl : l.bits ≤ 64) (cfg : Cnf.Config) (s0 : Cnf.ParserS) :
    (Gen.CnfParser.new l cfg).run s0 =
      (Cnf.Parser.new .cnf l cfg.ignoreHeader >>= fun p =>
        pure (ofModel p (hardAfterNew cfg.ignoreHeader p) [], ofModel p (hardAfterNew cfg.ignoreHeader p) [])) :=
  new_eq l hl cfg s0

theorem header_tied (s : Cnf.ParserS) : Gen.CnfParser.header.run s = pure (s.header, s) := rfl

theorem next_clause_tied (p : Cnf.Parser) (hfmt : p.fmt = .cnf) (hard : Bool) (buf : List Int) :
    (Gen.CnfParser.nextClause p.lit).run (ofModel p hard buf) =
      (Cnf.Parser.nextClause p >>= fun r => pure (r.1.map (·.lits), ofModel r.2 hard (litsOf r.1))) :=
  nextClause_eq p hfmt hard buf

end TieCnfParser
end Flussab
