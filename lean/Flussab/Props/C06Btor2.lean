/-
C06 (BTOR2 part) — accepted input means what it says: numbers.

Every number of a BTOR2 line — node ids, sort ids, bit widths, the two sorts of an array sort,
operands, pad widths, slice indices, the condition count of a `justice` line and its conditions —
is read by `positive_int` (`NonZeroU64`) or `nonnegative_int` (`u64`) (`required_*` = the same,
with Fallthrough turned into an error).  The theorems say that a returned number is exactly what the
text says: with `ds` the longest run of ASCII digits at the cursor,

* the value is the decimal value of `ds` — all of `ds`, never a wrapped or truncated value
  (`C13.digits_exact` for `u64`, composed with the token logic),
* `ds` is non-empty and canonical: no leading zero unless it is `0` itself,
* exactly `ds` is consumed — the cursor moves by `ds.length`, nothing else is skipped,
* the value is `< 2^64`, and `> 0` for the `NonZeroU64` positions (so the `unwrap` cannot fail and
  no id / sort / width is ever zero).

Conversely a digit run whose value does not fit in `u64`, or with a leading zero, never yields a
value.  Partial-correctness statements about calls that return; from any reader state, over any input.
(The whole-line statement — every line returned is in the domain of the round trip, hence is read
back from its own canonical text — is `C03.btor2_parsed_is_wf` / `btor2_parse_write_parse`.)
-/
import Flussab.Proof.Btor2Numbers
import Flussab.Proof.Btor2Canonical

namespace Flussab.C06
open Flussab Btor2 PM

/-- **`uint` is exact.** -/
theorem btor2_uint_exact (lr lr' : LR) (v : Nat) (hr : uint.run lr = (.ok (some (some v)), lr')) :
    let ds := lr.v.rest.takeWhile isDigit
    v = Text.decVal ds ∧ ds ≠ [] ∧ (ds = [48] ∨ ds.head? ≠ some 48) ∧ v < 2 ^ 64 ∧
    lr'.v.pos = lr.v.pos + ds.length ∧ lr'.v.rest = lr.v.rest.drop ds.length := by
  obtain ⟨h1, h2, h3, h4, h5, h6⟩ := (uint_exact_pc (lr := lr)).of_run.1 _ lr' hr v rfl
  exact ⟨h1, h2, h3, h4, h5, h6⟩

/-- **`positive_int`** (node ids, sort ids, bit widths, `justice` counts): exact and non-zero. -/
theorem btor2_positive_int_exact (lr lr' : LR) (v : Nat) (hr : positiveInt.run lr = (.ok (some v), lr')) :
    let ds := lr.v.rest.takeWhile isDigit
    v = Text.decVal ds ∧ ds ≠ [] ∧ ds.head? ≠ some 48 ∧ 0 < v ∧ v < 2 ^ 64 ∧
    lr'.v.pos = lr.v.pos + ds.length ∧ lr'.v.rest = lr.v.rest.drop ds.length := by
  obtain ⟨⟨h1, h2, h3, h4, h5, h6⟩, h0⟩ := (positiveInt_exact_pc (lr := lr)).of_run.1 _ lr' hr v rfl
  refine ⟨h1, h2, ?_, h0, h4, h5, h6⟩
  rcases h3 with h | h
  · -- `ds = "0"` would give the value 0
    rw [h] at h1; simp [Text.decVal] at h1; omega
  · exact h

/-- **`nonnegative_int`** (pad widths, slice indices): exact. -/
theorem btor2_nonnegative_int_exact (lr lr' : LR) (v : Nat)
    (hr : nonnegativeInt.run lr = (.ok (some v), lr')) :
    let ds := lr.v.rest.takeWhile isDigit
    v = Text.decVal ds ∧ ds ≠ [] ∧ (ds = [48] ∨ ds.head? ≠ some 48) ∧ v < 2 ^ 64 ∧
    lr'.v.pos = lr.v.pos + ds.length ∧ lr'.v.rest = lr.v.rest.drop ds.length := by
  obtain ⟨h1, h2, h3, h4, h5, h6⟩ := (nonnegativeInt_exact_pc (lr := lr)).of_run.1 _ lr' hr v rfl
  exact ⟨h1, h2, h3, h4, h5, h6⟩

/-- The `required_*` variants (`required_node_id`, `required_sort_id`, `required_positive_int`
are one function in the model) return exactly such numbers. -/
theorem btor2_required_numbers_exact (lr lr' : LR) (v : Nat) :
    (requiredNodeId.run lr = (.ok v, lr') ∨ requiredSortId.run lr = (.ok v, lr') ∨
      requiredPositiveInt.run lr = (.ok v, lr') →
      v = Text.decVal (lr.v.rest.takeWhile isDigit) ∧ 0 < v ∧ v < 2 ^ 64 ∧
      lr'.v.rest = lr.v.rest.drop (lr.v.rest.takeWhile isDigit).length) ∧
    (requiredNonnegativeInt.run lr = (.ok v, lr') →
      v = Text.decVal (lr.v.rest.takeWhile isDigit) ∧ v < 2 ^ 64 ∧
      lr'.v.rest = lr.v.rest.drop (lr.v.rest.takeWhile isDigit).length) := by
  refine ⟨fun h => ?_, fun h => ?_⟩
  · have key : requiredNodeId.run lr = (.ok v, lr') := by
      rcases h with h | h | h <;> exact h
    obtain ⟨⟨h1, _, _, h4, _, h6⟩, h0⟩ := (requiredId_exact_pc (lr := lr)).of_run.1 v lr' key
    exact ⟨h1, h0, h4, h6⟩
  · obtain ⟨h1, _, _, h4, _, h6⟩ := (requiredNonneg_exact_pc (lr := lr)).of_run.1 v lr' h
    exact ⟨h1, h4, h6⟩

/-- **Out-of-range and non-canonical numerals are rejected**: if `uint` returns a value, the digit
run at the cursor has a value below `2^64` and no leading zero (contrapositive: `2^64` and above,
and `007`, never become a number). -/
theorem btor2_number_rejects (lr lr' : LR) (v : Nat) (hr : uint.run lr = (.ok (some (some v)), lr')) :
    Text.decVal (lr.v.rest.takeWhile isDigit) < 2 ^ 64 ∧
    ¬ (2 ≤ (lr.v.rest.takeWhile isDigit).length ∧ (lr.v.rest.takeWhile isDigit).head? = some 48) :=
  (uint_rejects_pc (lr := lr)).of_run.1 _ lr' hr v rfl

/-- **Accepted text is canonical** — the whole-line form of "accepted input means what it says":
when `next_line` returns the line `l` (from any reader state, over any input), the bytes it
consumed are spaces / newlines followed by exactly the bytes `Line::write_into` emits for `l`:
single spaces between tokens, every number in canonical decimal, the keyword of the very operator
/ kind / constant form that is returned, constant digits, symbol and comment as written.  For a
line without trailing comment that includes its newline; for one that ends in a comment the
newline is not consumed (the cursor rests on it) — or the input ended there. -/
theorem btor2_accepted_is_canonical (lr lr' : LR) (l : Line) (hr : nextLine.run lr = (.ok (some l), lr')) :
    ∃ ws : VBytes, ws.all (fun b => b == 32 || b == 10) = true ∧
      (l.endsInComment = false → lr.v.rest = ws ++ writeLine l ++ lr'.v.rest) ∧
      (l.endsInComment = true → lr.v.rest = ws ++ writeLineUnterminated l ++ lr'.v.rest ∧
        (lr'.v.rest[0]? = some 10 ∨ lr'.v.rest = [])) := by
  obtain ⟨ws, hws, h1, h2⟩ := (nextLine_c (lr := lr)).of_run.1 (some l) lr' hr l rfl
  refine ⟨ws, hws, fun hc => ?_, fun hc => ?_⟩
  · have := h1 hc; unfold Step at this; rw [this]
  · obtain ⟨hs, hend⟩ := h2 hc
    unfold Step at hs
    exact ⟨hs, hend.imp id (fun h => h.1)⟩

/-- For the example: the returned value of a run, `none` on an error. -/
private def okv {α : Type} : Except PErr α → Option α
  | .ok a => some a
  | .error _ => none

/-- Non-vacuity: `18446744073709551615` (`u64::MAX`) is read exactly; `18446744073709551616` and
`007` are rejected (`Res(Err(..))`), `0` is a value for `nonnegative_int` and a Fallthrough for
`positive_int`. -/
example :
    okv (nonnegativeInt.run (LR.init [49, 56, 52, 52, 54, 55, 52, 52, 48, 55, 51, 55, 48, 57, 53, 53, 49, 54, 49, 53, 10] false)).1
      = some (some 18446744073709551615) ∧
    okv (uint.run (LR.init [49, 56, 52, 52, 54, 55, 52, 52, 48, 55, 51, 55, 48, 57, 53, 53, 49, 54, 49, 54, 10] false)).1
      = some (some none) ∧
    okv (uint.run (LR.init [48, 48, 55, 10] false)).1 = some (some none) ∧
    okv (nonnegativeInt.run (LR.init [48, 10] false)).1 = some (some 0) ∧
    okv (positiveInt.run (LR.init [48, 10] false)).1 = some none := by
  decide +kernel

end Flussab.C06
