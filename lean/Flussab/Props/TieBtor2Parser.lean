/-
Tie between the BTOR2 line parser of `/repo/flussab-btor2/src/parser.rs` (`impl<'a> Parser<'a>`) and the
hand-written model `Model/Btor2.lean` — the statements.  (Proofs: `Proof/TieBtor2Parser.lean`.)

`Flussab.Gen.Btor2Parser.*` (file `Gen/Btor2ParserGen.lean`) is produced by `tools/gen_core.py`
(`tools/unit_btor2parser.py`) from the Rust source on every check run: `new`, `try_node` (+ its `for` loop
`tryNode.loop1`), `try_comment`, `next_line`; not the `from_*` constructors.  The generated code acts on the pair
(parser fields `Btor2.ParserS` = the scratch buffers `node_buf`, `const_buf`, `symbol_buf`; reader `LR`) in the
monad `BPM = StateT Btor2.ParserS PM`.  Calls into token.rs are the token models `Btor2.*` of
`Model/Btor2Token.lean` (tied to token.rs by `Props/TieBtor2Token.lean`; `unexpected` and the two keyword tables
as that file says); the `Parsed` combinators, and the three `impl Line` methods of btor2.rs that `next_line`
calls (`has_comment`, `update_comment`, `update_bufs` — hand-written, NOT translated), are the contracts of
`Model/Btor2ParserExt.lean`.

The placeholders.  The Rust `try_node` returns a `Node<'static>` whose string / slice payloads are placeholders
(`""`, `"".into()`, `&[]`) and leaves the real contents in the three buffers; `next_line` patches them in
(`update_comment`, `update_bufs`).  The generated code does exactly that (placeholders are `[]`); the model builds
the final values directly.  The theorems therefore relate (placeholder value, buffers afterwards) to the model's
value; the buffers are ghost state on the model side:
  `stripV v`            the placeholder variant of `v`
  `vbufs v s`           the buffers after parsing the variant `v` from buffers `s`: `const_buf` replaced for the three
                        textual constants, `node_buf` for `justice`, everything else — stale contents included — unchanged
  `placeT (sym, hc)`    the placeholder `(symbol, comment)` pair: `Some("")` for a symbol, `Some("")` iff a comment started
  `sbufs sym s`         `symbol_buf` replaced by the symbol if there is one
  `place (node, hc)`    the placeholder node; `nbufs r s` = `sbufs` after `vbufs` for the node of `r`
  `lbufs r s`           the buffers after `next_line` returned `r`: those of its node, unchanged for a comment line / EOF
A thrown `ParseError` leaves only the reader state on both sides.  Every equation below is between `BPM`
computations, i.e. it holds for every reader state and every initial contents of the buffers; no hypotheses.

What is tied:
* `next_line_tied` / `next_line_run` — THE RESULT: the generated `next_line`, run from any buffers `s`, reads what the
  model's `Btor2.nextLine` reads, fails exactly when it fails (same error, same reader state), returns the SAME
  `Option Line` — every placeholder has been replaced by the right buffer contents, the comment body is in place — and
  leaves the buffers `lbufs r s`.  `next_line_result`: forgetting the buffers, it is `Btor2.nextLine`.
* `try_node_tied` / `try_node_run`: the generated `try_node` = the model's `Btor2.tryNode`, returning `place` of the
  model's `(node, has_comment)` and leaving `nbufs r s`.
* `try_node_is_fragments`: the generated `try_node` is, literally, `node_id`, `required_space`, the keyword,
  then `genVariant` (verbatim copy of the generated `match node_token { .. }`), then `genTrailerK` (verbatim copy
  of the generated symbol / comment chain, the rest as continuation) and the `Node { .. }` literal.
* `variant_tied` / `variant_run` — the `NodeVariant` / `ValueVariant` match of `try_node`, i.e. the part that decides
  how many operands every keyword takes: `genVariant t` = `Btor2.nodeVariant t` (with `Btor2.valueVariant`),
  returning `stripV v` and leaving `vbufs v s`.
* `trailer_tied`: the symbol / comment chain = `Btor2.trailer`, passing `placeT tr` on and leaving `sbufs tr.1 s`.
* `justice_loop_tied`: the `for _ in 0..count` loop = `Btor2.justiceLoop`, for every fuel, count and accumulator
  (`node_buf` = the reversed accumulator).  Convention: the `for` loop is translated with the model's fuel
  `rest.length + 2` and the model's out-of-fuel value (see `tools/unit_btor2parser.py`); that the fuel is never
  used up is not shown here (both sides panic with "fuel" together).
* `fill_variant_spec`, `fill_symbol_spec`, `patch_node_spec`: `update_bufs` (hand contract) applied to a placeholder with
  the buffers `try_node` left restores the model's variant / symbol; `update_comment` then `update_bufs` replace every
  placeholder of a node and nothing else.
* `new_tied`, `try_comment_tied`, `check_io_error_tied`.

What is NOT tied here: `Line::has_comment` / `update_comment` / `update_bufs` of btor2.rs are hand-written contracts
(`Model/Btor2ParserExt.lean`), not translations; the `from_*` constructors; termination of the `justice` loop within
its fuel.  No discrepancy between the code and the model was found.
-/
import Flussab.Proof.TieBtor2Parser

namespace Flussab
namespace TieBtor2Parser

open TieBtor2ParserAux Btor2ParserExt

export TieBtor2ParserAux (genVariant genTrailerK vbufs stripV sbufs placeT place nbufs lbufs)

theorem try_node_is_fragments : Gen.Btor2Parser.tryNode = (do
    let t1 ← Btor2ParserExt.tok Flussab.Btor2.nodeId
    let t54 ← Btor2ParserExt.andThen t1 fun node_id => do
      Btor2ParserExt.tok Flussab.Btor2.requiredSpace
      let t2 ← Btor2ParserExt.tok Flussab.Btor2.nodeToken
      let t3 ← Btor2ParserExt.orGiveUp t2 do
        Btor2ParserExt.tok Flussab.Btor2.unexpected
      let variant ← genVariant t3
      genTrailerK fun t53 => do
        let (symbol, comment) := t53
        pure ({ id := node_id, variant := variant, symbol := symbol, comment := comment } : Btor2.Node)
    pure t54) := tryNode_decomp

theorem variant_tied (t : Gen.Btor2.NodeToken) :
    genVariant t = tok (Btor2.nodeVariant t) >>= fun v => modifyP (vbufs v) >>= fun _ => pure (stripV v) :=
  genVariant_eq t

/-- The same, run on buffers `s`. -/
theorem variant_run (t : Gen.Btor2.NodeToken) (s : Btor2.ParserS) :
    (genVariant t).run s = (Btor2.nodeVariant t >>= fun v => pure (stripV v, vbufs v s)) := by
  rw [genVariant_eq]
  funext lr
  show (tok (Btor2.nodeVariant t) >>= fun v => modifyP (vbufs v) >>= fun _ => pure (stripV v)) s lr = _
  rw [bpm_bind_apply, tok_apply, PM.bind_apply]
  rcases Btor2.nodeVariant t lr with ⟨_ | v, lr'⟩ <;> rfl

theorem trailer_tied {β : Type} (k : Option VBytes × Option VBytes → BPM β) :
    genTrailerK k = tok Btor2.trailer >>= fun tr => modifyP (sbufs tr.1) >>= fun _ => k (placeT tr) :=
  genTrailerK_eq k

theorem try_node_tied :
    Gen.Btor2Parser.tryNode = tok Btor2.tryNode >>= fun r => modifyP (nbufs r) >>= fun _ => pure (r.map place) :=
  tryNode_eq

/-- The same, run on buffers `s`. -/
theorem try_node_run (s : Btor2.ParserS) :
    Gen.Btor2Parser.tryNode.run s = (Btor2.tryNode >>= fun r => pure (r.map place, nbufs r s)) := by
  rw [tryNode_eq]
  funext lr
  show (tok Btor2.tryNode >>= fun r => modifyP (nbufs r) >>= fun _ => pure (r.map place)) s lr = _
  rw [bpm_bind_apply, tok_apply, PM.bind_apply]
  rcases Btor2.tryNode lr with ⟨_ | v, lr'⟩ <;> rfl

theorem next_line_tied :
    Gen.Btor2Parser.nextLine = tok Btor2.nextLine >>= fun r => modifyP (lbufs r) >>= fun _ => pure r :=
  nextLine_eq

/-- The same, run on buffers `s`: the model's line, and the buffers as ghost state. -/
theorem next_line_run (s : Btor2.ParserS) :
    Gen.Btor2Parser.nextLine.run s = (Btor2.nextLine >>= fun r => pure (r, lbufs r s)) := by
  rw [nextLine_eq]
  funext lr
  show (tok Btor2.nextLine >>= fun r => modifyP (lbufs r) >>= fun _ => pure r) s lr = _
  rw [bpm_bind_apply, tok_apply, PM.bind_apply]
  rcases Btor2.nextLine lr with ⟨_ | v, lr'⟩ <;> rfl

/-- Forgetting the buffers, the generated `next_line` is the model's. -/
theorem next_line_result (s : Btor2.ParserS) :
    (Prod.fst <$> Gen.Btor2Parser.nextLine.run s : PM (Option Btor2.Line)) = Btor2.nextLine := by
  rw [next_line_run]
  simp only [map_eq_pure_bind, bind_assoc, pure_bind, bind_pure]

theorem fill_variant_spec (v : Btor2.NodeVariant) (s : Btor2.ParserS) :
    updateVariant (vbufs v s).constBuf (vbufs v s).nodeBuf (stripV v) = v := fill_variant v s

theorem fill_symbol_spec (sym : Option VBytes) (s : Btor2.ParserS) :
    (sym.map fun _ => ([] : VBytes)).map (fun _ => (sbufs sym s).symbolBuf) = sym := fill_symbol sym s

theorem justice_loop_tied (fuel remaining : Nat) (acc : List Nat) :
    (modifyP (fun r => { r with nodeBuf := acc.reverse }) >>= fun _ => Gen.Btor2Parser.tryNode.loop1 fuel remaining) =
      tok (Btor2.justiceLoop fuel remaining acc) >>= fun ns => modifyP fun r => { r with nodeBuf := ns } :=
  loop_eq fuel remaining acc

theorem new_tied (cfg : Btor2.Config) (s0 : Btor2.ParserS) :
    (Gen.Btor2Parser.new cfg).run s0 =
      pure (({ nodeBuf := [], constBuf := [], symbolBuf := [] } : Btor2.ParserS),
            { nodeBuf := [], constBuf := [], symbolBuf := [] }) := new_eq cfg s0

theorem try_comment_tied : Gen.Btor2Parser.tryComment = tok Btor2.commentStart := tryComment_eq

theorem check_io_error_tied : Btor2TokenExt.checkIoErrorTry = Btor2.checkIoError := checkIoError_eq

theorem patch_node_spec (n : Btor2.Node) (c cb sb : VBytes) (nb : List Nat) :
    updateBufs (updateComment (.node n) c) cb sb nb =
      .node { id := n.id, variant := updateVariant cb nb n.variant, symbol := n.symbol.map (fun _ => sb),
              comment := some c } := patch_node n c cb sb nb

end TieBtor2Parser
end Flussab
