/-
Tie between the BTOR2 line parser of `/repo/flussab-btor2/src/parser.rs` (`impl<'a> Parser<'a>`) and the
hand-written model `Model/Btor2.lean` — the statements.  (Proofs: `Proof/TieBtor2Parser.lean`.)

`Flussab.Gen.Btor2Parser.*` (file `Gen/Btor2ParserGen.lean`) is produced by `tools/gen_core.py`
(`tools/unit_btor2parser.py`) from the Rust source on every check run: `new`, `try_node` (+ its `for` loop
`tryNode.loop1`), `try_comment`, `next_line`; not the `from_*` constructors.  The generated code acts on the pair
(parser fields `Btor2.ParserS` = the scratch buffers `node_buf`, `const_buf`, `symbol_buf`; reader `LR`) in the
monad `BPM = StateT Btor2.ParserS PM`.  Calls into token.rs are the token models `Btor2.*` of
`Model/Btor2Token.lean` (tied to token.rs by `Props/TieBtor2Token.lean`; `unexpected` and the two keyword tables
as that file says); the `Parsed` combinators, and the three `impl Line` methods of btor2.rs that `next_line`
calls (`has_comment`, `update_comment`, `update_bufs` — hand-written, NOT translated), are the contracts of
`Model/Btor2ParserExt.lean`.

The placeholders.  The Rust `try_node` returns a `Node<'static>` whose string / slice payloads are placeholders
(`""`, `"".into()`, `&[]`) and leaves the real contents in the three buffers; `next_line` patches them in.  The
generated code does exactly that (placeholders are `[]`); the model builds the final values directly.  The
theorems therefore relate (placeholder value, buffers afterwards) to the model's value: `stripV v` is the
placeholder variant of `v` and `vbufs v s` the buffers after parsing `v` from buffers `s` (`const_buf` replaced for
the three textual constants, `node_buf` for `justice`, everything else — stale contents included — unchanged).
A thrown `ParseError` leaves only the reader state on both sides.

What is tied (every statement for every reader state and every initial buffer contents, no hypotheses):
* `try_node_is_fragments`: the generated `try_node` is, literally, `node_id`, `required_space`, the keyword,
  then `genVariant` (verbatim copy of the generated `match node_token { .. }`), then `genTrailerK` (verbatim copy
  of the generated symbol / comment chain) and the `Node { .. }` literal.  This is the link between the
  generated definition and the two fragments the next theorems are about.
* `variant_tied` — the `NodeVariant` / `ValueVariant` match of `try_node`, i.e. the part that decides how many
  operands every keyword takes: for every keyword token, `genVariant t` reads exactly what the model's
  `Btor2.nodeVariant t` (with `Btor2.valueVariant`) reads, fails exactly when it fails, returns the placeholder
  `stripV v` of the model's variant `v` and leaves the buffers `vbufs v s`.
* `justice_loop_tied`: the `for _ in 0..count` loop = `Btor2.justiceLoop`, for every fuel, count and accumulator
  (`node_buf` = the reversed accumulator).  Convention: the `for` loop is translated with the model's fuel
  `rest.length + 2` and the model's out-of-fuel value (see `tools/unit_btor2parser.py`); that the fuel is never
  used up is not shown here.
* `new_tied`, `try_comment_tied`, `check_io_error_tied`, `patch_node_spec` (what `update_comment` followed by
  `update_bufs` makes of a placeholder node: every placeholder replaced, nothing else changed).

What is NOT tied here (stays tied by the correspondence runs only): the symbol / comment chain `genTrailerK`
against `Btor2.trailer`, hence `try_node` against `Btor2.tryNode` and `next_line` against `Btor2.nextLine`
(statements not registered: no proof yet).  No discrepancy between the code and the model was found in the parts
compared.
-/
import Flussab.Proof.TieBtor2Parser

namespace Flussab
namespace TieBtor2Parser

open TieBtor2ParserAux Btor2ParserExt

export TieBtor2ParserAux (genVariant genTrailerK vbufs stripV)

theorem try_node_is_fragments : Gen.Btor2Parser.tryNode = (do
    let t1 ← Btor2ParserExt.tok Flussab.Btor2.nodeId
    let t54 ← Btor2ParserExt.andThen t1 fun node_id => do
      Btor2ParserExt.tok Flussab.Btor2.requiredSpace
      let t2 ← Btor2ParserExt.tok Flussab.Btor2.nodeToken
      let t3 ← Btor2ParserExt.orGiveUp t2 do
        Btor2ParserExt.tok Flussab.Btor2.unexpected
      let variant ← genVariant t3
      genTrailerK fun t53 => do
        let (symbol, comment) := t53
        pure ({ id := node_id, variant := variant, symbol := symbol, comment := comment } : Btor2.Node)
    pure t54) := tryNode_decomp

theorem variant_tied (t : Gen.Btor2.NodeToken) :
    genVariant t = tok (Btor2.nodeVariant t) >>= fun v => modifyP (vbufs v) >>= fun _ => pure (stripV v) :=
  genVariant_eq t

/-- The same, run on buffers `s`. -/
theorem variant_run (t : Gen.Btor2.NodeToken) (s : Btor2.ParserS) :
    (genVariant t).run s = (Btor2.nodeVariant t >>= fun v => pure (stripV v, vbufs v s)) := by
  rw [genVariant_eq]
  funext lr
  show (tok (Btor2.nodeVariant t) >>= fun v => modifyP (vbufs v) >>= fun _ => pure (stripV v)) s lr = _
  rw [bpm_bind_apply, tok_apply, PM.bind_apply]
  rcases Btor2.nodeVariant t lr with ⟨_ | v, lr'⟩ <;> rfl

theorem justice_loop_tied (fuel remaining : Nat) (acc : List Nat) :
    (modifyP (fun r => { r with nodeBuf := acc.reverse }) >>= fun _ => Gen.Btor2Parser.tryNode.loop1 fuel remaining) =
      tok (Btor2.justiceLoop fuel remaining acc) >>= fun ns => modifyP fun r => { r with nodeBuf := ns } :=
  loop_eq fuel remaining acc

theorem new_tied (cfg : Btor2.Config) (s0 : Btor2.ParserS) :
    (Gen.Btor2Parser.new cfg).run s0 =
      pure (({ nodeBuf := [], constBuf := [], symbolBuf := [] } : Btor2.ParserS),
            { nodeBuf := [], constBuf := [], symbolBuf := [] }) := new_eq cfg s0

theorem try_comment_tied : Gen.Btor2Parser.tryComment = tok Btor2.commentStart := tryComment_eq

theorem check_io_error_tied : Btor2TokenExt.checkIoErrorTry = Btor2.checkIoError := checkIoError_eq

theorem patch_node_spec (n : Btor2.Node) (c cb sb : VBytes) (nb : List Nat) :
    updateBufs (updateComment (.node n) c) cb sb nb =
      .node { id := n.id, variant := updateVariant cb nb n.variant, symbol := n.symbol.map (fun _ => sb),
              comment := some c } := patch_node n c cb sb nb

end TieBtor2Parser
end Flussab
