/-
Tie between `Parser::new` of `/repo/flussab-aiger/src/ascii.rs` / `binary.rs` and the model `Aiger.Parser.new`
— the statements.  (Proofs: `Proof/TieAigerNew.lean`.)

The generated functions (regenerated from the source on every check run) parse the header through
`Aiger.Header.parse` (tied by `Props/TieAigerHeader`) and compute `max_lit = max_var_index * 2 + 1` with checked
`usize` arithmetic and, for the binary parser, the wrapping next-literal counter
`input_count.wrapping_add(1).wrapping_mul(2)` (defect F4 lived here).  The checked operations are shown never
to fail from the header's own bound `max_var_index ≤ (L::MAX_CODE - 1) / 2`, for every literal type whose
`MAX_CODE` fits a `usize`.
-/
import Flussab.Proof.TieAigerNew

namespace Flussab
namespace TieAigerNew

open TieAigerNewAux

theorem ascii_parser_new_tied (l : Aiger.LitTy) (hl : 1 ≤ l.maxCode) (hu : l.maxCode ≤ PM.usizeMax) :
    Gen.AigerNewAscii.new l () = Aiger.Parser.new false l := newAscii_eq l hl hu

theorem binary_parser_new_tied (l : Aiger.LitTy) (hl : 1 ≤ l.maxCode) (hu : l.maxCode ≤ PM.usizeMax) :
    Gen.AigerNewBinary.new l () = Aiger.Parser.new true l := newBinary_eq l hl hu

/-- Non-vacuity: both hypotheses hold for the 64-bit literal type. -/
example : 1 ≤ (⟨64⟩ : Aiger.LitTy).maxCode ∧ (⟨64⟩ : Aiger.LitTy).maxCode ≤ PM.usizeMax := by decide

end TieAigerNew
end Flussab
