/-
Tie between `/repo/flussab/src/deferred_reader.rs` and the hand-written reader model — the
statements.  (Proofs: `Proof/TieReader.lean`.)

`Flussab.Gen.Reader.*` (file `Gen/ReaderGen.lean`) is produced by `tools/gen_core.py` from the Rust
source on every check run.  Each theorem below says that a generated function *is* the function of
`Model/Reader.lean` that the property theorems (C01, C02, C09, C10, C14) are about — for every
reader state satisfying the safety invariant `Reader.Ok` (itself preserved by every operation,
`Props/C14.lean`), every argument, every source and schedule.  A change of a Rust function changes
the generated definition, and this file is re-checked against it by `lake build`.

Unsafe accesses (`get_unchecked`) and `debug_assert!`s are translated as *checked* operations that
panic when violated, so the equations also say: no unsafe block of the reader is ever entered with an
out-of-bounds range, and no debug assertion can fire (the model functions do not panic there).
-/
import Flussab.Proof.TieReader
import Flussab.Model.ReaderGenRun
import Flussab.Proof.ReaderOps
import Flussab.Props.C14

namespace Flussab
namespace TieReader

open TieReaderAux

/-! ### function by function -/

theorem request_more_tied (r : Reader) (h : r.Ok) : Gen.Reader.requestMore r = r.requestMore :=
  requestMore_eq r h

theorem request_tied (r : Reader) (h : r.Ok) (len : Nat) : Gen.Reader.request len r = r.request len :=
  request_eq r h len

theorem request_cold_tied (r : Reader) (h : r.Ok) (len : Nat) :
    Gen.Reader.requestCold len r = r.requestLoop (r.fuel + 1) len := requestCold_eq r h len

theorem request_byte_at_offset_tied (r : Reader) (h : r.Ok) (k : Nat) :
    Gen.Reader.requestByteAtOffset k r = r.requestByteAt k := requestByteAtOffset_eq r h k

theorem request_byte_at_offset_cold_tied (r : Reader) (h : r.Ok) (k : Nat) :
    Gen.Reader.requestByteAtOffsetCold k r = r.requestByteAt k := requestByteAtOffsetCold_eq r h k

theorem request_byte_tied (r : Reader) (h : r.Ok) : Gen.Reader.requestByte r = r.requestByteAt 0 :=
  requestByte_eq r h

/-- `advance`: same result and same state — in particular untouched when it panics (F14). -/
theorem advance_tied (r : Reader) (n : Nat) : Gen.Reader.advance n r = r.advance n := advance_eq r n

theorem advance_with_buf_tied (r : Reader) (h : r.Ok) (n : Nat) :
    Gen.Reader.advanceWithBuf n r = r.advanceWithBuf n := advanceWithBuf_eq r n h.inBuf

/-- `advance_unchecked` under its documented safety contract (`n ≤ buf_len()`) is `advance`. -/
theorem advance_unchecked_tied (r : Reader) (n : Nat) (hn : n ≤ r.bufLen) :
    Gen.Reader.advanceUnchecked n r = r.advance n := advanceUnchecked_eq r n hn

/-- `buf()`: the `get_unchecked` range lies inside the vector and is the model's window. -/
theorem buf_tied (r : Reader) (h : r.Ok) : Gen.Reader.buf r = (some r.window, r) := buf_eq r h.inBuf

theorem buf_len_tied (r : Reader) : Gen.Reader.bufLen r = (some r.bufLen, r) := rfl
theorem position_tied (r : Reader) : Gen.Reader.position r = (some r.position, r) := rfl
theorem mark_tied (r : Reader) : Gen.Reader.mark r = (some r.mark, r) := rfl
theorem set_mark_tied (r : Reader) : Gen.Reader.setMark r = (some (), r.setMark) := rfl
theorem set_mark_to_position_tied (r : Reader) (p : Nat) :
    Gen.Reader.setMarkToPosition p r = (some (), r.setMarkToPosition p) := rfl
theorem set_chunk_size_tied (r : Reader) (c : Nat) :
    Gen.Reader.setChunkSize c r = (some (), r.setChunkSize c) := rfl
theorem is_complete_tied (r : Reader) : Gen.Reader.isComplete r = (some r.isComplete, r) := rfl
theorem is_at_end_tied (r : Reader) : Gen.Reader.isAtEnd r = (some r.isAtEnd, r) := rfl
theorem io_error_tied (r : Reader) :
    Gen.Reader.ioError r = (some (ReaderExt.optOfBool r.ioError), r) := rfl
theorem check_io_error_tied (r : Reader) :
    Gen.Reader.checkIoError r =
      (some (if r.ioError then Except.error IoErr.other else Except.ok ()), r.checkIoError.2) :=
  checkIoError_eq r

/-! ### whole histories -/

/-- One call of the safe API: the generated code and the model agree on result and state. -/
theorem op_tied (r : Reader) (h : r.Ok) (op : Reader.Op) : genRun r op = op.run r := by
  cases op with
  | request n =>
    simp only [genRun, Reader.Op.run, request_eq r h n]
    rcases r.request n with ⟨_ | w, r'⟩ <;> rfl
  | reqAt k =>
    simp only [genRun, Reader.Op.run, requestByteAtOffset_eq r h k]
    rcases r.requestByteAt k with ⟨_ | w, r'⟩ <;> rfl
  | requestMore =>
    simp only [genRun, Reader.Op.run, requestMore_eq r h]
    rcases r.requestMore with ⟨_ | w, r'⟩ <;> rfl
  | advance n =>
    simp only [genRun, Reader.Op.run, advance_eq r n]
    rcases r.advance n with ⟨_ | w, r'⟩ <;> rfl
  | advanceWithBuf n =>
    simp only [genRun, Reader.Op.run, advanceWithBuf_eq r n h.inBuf]
    rcases r.advanceWithBuf n with ⟨_ | w, r'⟩ <;> rfl
  | setMark => rfl
  | setMarkTo p => rfl
  | setChunk c => rfl
  | checkIoError =>
    simp only [genRun, Reader.Op.run, checkIoError_eq r, Reader.checkIoError]
    cases r.ioError <;> simp

/-- **Every history of safe calls** (caught panics included, any source, any schedule) started in a
state satisfying the invariant: the code generated from `deferred_reader.rs` and the model produce
the same results and the same final state.  All theorems about `Reader.runAll` (C02, C09, C10, C14)
therefore speak about the translated source. -/
theorem history_tied (ops : List Reader.Op) (r : Reader) (h : r.Ok) (hv : ∀ op ∈ ops, op.Valid) :
    genRunAll ops r = Reader.runAll ops r := by
  induction ops generalizing r with
  | nil => rfl
  | cons op ops ih =>
    simp only [genRunAll, Reader.runAll, op_tied r h op]
    have hok := C14.op_preserves_ok r op h (hv op (by simp))
    rw [ih _ hok (fun o ho => hv o (by simp [ho]))]

/-- Non-vacuity: a fresh reader over any source with a positive chunk size satisfies the invariant. -/
example : (Reader.mk' { data := [1, 2, 3], fault := false, sched := [.intr, .give 2] }).Ok :=
  ⟨by decide, by decide, by decide, rfl, rfl, by decide⟩

end TieReader
end Flussab
