/-
C07 — DIMACS-family parsing is independent of layout.

`Spec.Layout` (Flussab/Spec/Layout.lean) is the layout grammar as data: a `Layout` value fixes
every optional choice of a text — blanks and tabs everywhere they may occur, `"\n"` or `"\r\n"` per
line end, comment lines and blank lines (junk) in front of the header, in front of every clause,
inside a clause that is broken over several lines and at the end, leading zeros per numeral, the
spelling of each terminator (`0`, `-0`, `00`, …), where a clause is broken over lines, whether the
final line end is present.  It covers every choice point of the generator `harness/src/gen_cnf.rs`
(`render`, `Out::*`), so the theorem is NOT `_partial`.

`cnf_parse_render`: for the three formats, every literal type, both settings of `ignore_header`,
every document `(header?, clauses)` in the explicit decidable domain `WF` and EVERY layout fitting
the clause list, the parser model (`Parser::new`, then `next_clause` until `None`) returns exactly
the document: header, all clauses in order, clean end — no error, no panic, never out of fuel.

Hypotheses.
* `WF` (= `Spec.CnfWF`, Flussab/Spec/CnfDomain.lean; each condition and the real inputs it excludes
  are documented there): literal type of 1..64 bits; header counts in range, `var_count ≤
  MAX_DIMACS`; literals non-zero with `|lit| ≤ MAX_DIMACS` and, unless `ignore_header`, `≤` a
  non-zero `var_count`; `clause_count = 0 ∨ = #clauses` unless `ignore_header`; plain CNF has no
  third header field and no clause tag; WCNF weights `< 2^64`; GCNF groups `< 2^64` and, unless
  `ignore_header`, `≤` a non-zero `group_count`.
* `ℓ.Fits cs`: one clause layout per clause, one literal layout per literal, no `'\n'` inside a
  comment body.
* the text is shorter than `2^64 - 1` bytes: `LineReader::line_at_offset` counts lines and
  positions in `usize` with checked arithmetic (the model returns `rpanic "line_at_offset
  overflow"` otherwise), so this bound cannot be dropped; no real input violates it.
* the source does not fail (`LR.init _ false`); failing sources are property C04.
-/
import Flussab.Proof.CnfHeader
import Flussab.Proof.CnfCanonical
import Flussab.Proof.CnfLog

namespace Flussab.C07
open Flussab Flussab.Cnf Flussab.Spec

/-- The domain of the theorem (see `Flussab/Spec/CnfDomain.lean`). -/
abbrev WF := @Spec.CnfWF

/-- **Layout independence** (CNF, WCNF, GCNF; with or without header). -/
theorem cnf_parse_render (fmt : Format) (l : LitTy) (ignoreHeader : Bool) (h : Option Header)
    (cs : List Clause) (ℓ : Layout) (hwf : WF fmt l ignoreHeader h cs) (hfit : ℓ.Fits cs)
    (hlen : (ℓ.render fmt h cs).length < 2 ^ 64 - 1) :
    Cnf.parseAll fmt l ignoreHeader (LR.init (ℓ.render fmt h cs) false) =
      { header := h, items := cs, final := none } :=
  CnfP.parseAll_render fmt l ignoreHeader h cs ℓ hwf hfit hlen

/-- The headerless case, spelled out: blanks, junk, clauses, trailer — no `p` line. -/
theorem cnf_parse_render_headerless (fmt : Format) (l : LitTy) (ignoreHeader : Bool)
    (cs : List Clause) (ℓ : Layout) (hwf : WF fmt l ignoreHeader none cs) (hfit : ℓ.Fits cs)
    (hlen : (ℓ.render fmt none cs).length < 2 ^ 64 - 1) :
    Cnf.parseAll fmt l ignoreHeader (LR.init (ℓ.render fmt none cs) false) =
      { header := none, items := cs, final := none } :=
  cnf_parse_render fmt l ignoreHeader none cs ℓ hwf hfit hlen

/-- Two layouts of the same document parse to the same result. -/
theorem cnf_layout_independent (fmt : Format) (l : LitTy) (ignoreHeader : Bool) (h : Option Header)
    (cs : List Clause) (ℓ₁ ℓ₂ : Layout) (hwf : WF fmt l ignoreHeader h cs) (hfit₁ : ℓ₁.Fits cs)
    (hfit₂ : ℓ₂.Fits cs) (hlen₁ : (ℓ₁.render fmt h cs).length < 2 ^ 64 - 1)
    (hlen₂ : (ℓ₂.render fmt h cs).length < 2 ^ 64 - 1) :
    Cnf.parseAll fmt l ignoreHeader (LR.init (ℓ₁.render fmt h cs) false) =
      Cnf.parseAll fmt l ignoreHeader (LR.init (ℓ₂.render fmt h cs) false) := by
  rw [cnf_parse_render fmt l ignoreHeader h cs ℓ₁ hwf hfit₁ hlen₁,
    cnf_parse_render fmt l ignoreHeader h cs ℓ₂ hwf hfit₂ hlen₂]

/-- The canonical layout is the writers' output (this is how C03 follows from C07). -/
theorem render_canonical (fmt : Format) (h : Option Header) (cs : List Clause) :
    (Layout.canonical cs).render fmt h cs = Cnf.writeDoc fmt h cs ∧ (Layout.canonical cs).Fits cs :=
  ⟨CnfP.render_canonical fmt h cs, CnfP.fits_canonical cs⟩

/-! ### non-vacuity: a document and a layout using every kind of choice -/

namespace Example

def doc : List Clause := [⟨3, [1, -2]⟩, ⟨0, []⟩, ⟨7, [-127]⟩]

/-- tab, CRLF, blank; a CRLF comment line followed by a blank; an empty line -/
def brk : Sep :=
  .brk [.tab] .crlf [.sp] [(JunkLine.comment [32, 49, 13], [BlankCh.sp]), (JunkLine.blank .lf, [])]

def lay : Layout :=
  { lead := [.sp]
    junk := [(JunkLine.comment [120], [BlankCh.tab]), (JunkLine.blank .crlf, [])]
    header := { zVars := 2, beforeEol := [.sp], eol := .crlf }
    clauses :=
      [ { pre := [.sp], junk := [(JunkLine.blank .lf, [BlankCh.sp])], zTag := 1, tagSep := brk,
          lits := [(1, brk), (0, .blank {})], termNeg := true, termZeros := 1, post := [.sp] },
        { tagSep := brk, eol := .crlf },
        { lits := [(3, brk)] } ]
    trailer := none }

/-- The hypotheses hold for this document and layout (GCNF, `i8`, header with all limits active,
the literal `-127 = -MAX_DIMACS`, group `3 = group_count`), so the theorem applies … -/
example : WF .gcnf ⟨8⟩ false (some ⟨127, 3, 7⟩) doc ∧ lay.Fits doc ∧
    (lay.render .gcnf (some ⟨127, 3, 7⟩) doc).length < 2 ^ 64 - 1 := by decide

/-- … and indeed (by evaluation of the model, independently of the theorem): -/
example :
    let r := Cnf.parseAll .gcnf ⟨8⟩ false (LR.init (lay.render .gcnf (some ⟨127, 3, 7⟩) doc) false)
    r.header = some ⟨127, 3, 7⟩ ∧ r.items = doc ∧ r.final = none := by decide +kernel

/-- Headerless WCNF with weights up to `u64::MAX`, trailer with junk. -/
example :
    let d : List Clause := [⟨18446744073709551615, [5, -9223372036854775807]⟩, ⟨0, []⟩]
    let ℓ : Layout := { lay with clauses := lay.clauses.take 2,
                                 trailer := some ([.tab], [(JunkLine.comment [], [BlankCh.sp])]) }
    let r := Cnf.parseAll .wcnf ⟨64⟩ true (LR.init (ℓ.render .wcnf none d) false)
    WF .wcnf ⟨64⟩ true none d ∧ ℓ.Fits d ∧ r.header = none ∧ r.items = d ∧ r.final = none := by
  decide +kernel

/-- The domain is tight: `-128` is an `i8` but not a DIMACS literal of that type (rejected),
a literal above the declared variable count is rejected unless the header is ignored. -/
example :
    ¬ WF .cnf ⟨8⟩ false none [⟨0, [-128]⟩] ∧
    (Cnf.parseAll .cnf ⟨8⟩ false (LR.init (Cnf.writeDoc .cnf none [⟨0, [-128]⟩]) false)).final ≠ none ∧
    ¬ WF .cnf ⟨8⟩ false (some ⟨2, 1, 0⟩) [⟨0, [3]⟩] ∧
    (Cnf.parseAll .cnf ⟨8⟩ false (LR.init (Cnf.writeDoc .cnf (some ⟨2, 1, 0⟩) [⟨0, [3]⟩]) false)).final ≠ none ∧
    WF .cnf ⟨8⟩ true (some ⟨2, 1, 0⟩) [⟨0, [3]⟩] := by decide +kernel

end Example

/-! ### SAT solver logs

`Spec.LogLayout` (Flussab/Spec/LogLayout.lean): a log is a list of lines — comment lines `"c …"`,
the solution line, value lines with any split of the assignment (also lines without literals),
the terminating value line, and (with `ignore_unknown_lines`) arbitrary other lines — each with
`"\n"` or `"\r\n"`, the last line end optional; numerals with leading zeros, blanks after `"v "`
and after every numeral, terminator `'-'? '0'^z "0"`.  This covers every choice of the generator
`gen_log` (harness/src/gen_cnf.rs), and more (solution line between value lines, tabs, leading
zeros), so the theorem is not `_partial`.  Not in the grammar although the parser accepts it: a
literal directly followed by the line end (`"v 1\n"`); the grammar puts at least one blank after
every literal, as the generator and the solvers do. -/

/-- **Layout independence of `parse_log`**: every layout of a log value parses to that value
(no error, no panic, never out of fuel).  `LogWF`: literal type of 1..64 bits, literals non-zero
with `|lit| ≤ MAX_DIMACS` (others are rejected by the parser). -/
theorem log_parse_render (l : LitTy) (ignoreUnknown : Bool) (v : SolverLog) (ℓ : LogLayout)
    (hwf : LogWF l v) (hfit : ℓ.Fits ignoreUnknown v) (hlen : (ℓ.render v).length < 2 ^ 64 - 1) :
    ((Cnf.parseLog l ignoreUnknown).run (LR.init (ℓ.render v) false)).1 = .ok v := by
  obtain ⟨lr', e⟩ := CnfP.parseLog_render l ignoreUnknown v ℓ hwf hfit hlen
  rw [e]

namespace Example

def logValue : SolverLog := ⟨some false, [1, -2, 127]⟩

/-- CRLF comment; value line with one literal; an empty (unknown) line; an empty value line; the
solution line between value lines; `"c "` with empty body; the final line with tab, leading
zeros and `-00`; an unknown `"c"` line; a last comment without line end. -/
def logLay : LogLayout :=
  { lines := [(.comment [120, 13], .lf), (.values [.sp] [(1, {})], .crlf), (.unknown [], .lf),
      (.values [] [], .lf), (.status, .crlf), (.comment [], .lf),
      (.final [] [(0, {}), (2, { head := .tab })] true 1 [.sp], .lf), (.unknown [99], .crlf),
      (.comment [49], .lf)]
    dropFinalEol := true }

example : LogWF ⟨8⟩ logValue ∧ logLay.Fits true logValue ∧
    (logLay.render logValue).length < 2 ^ 64 - 1 ∧
    logLay.render logValue =
      "c x\r\nv  01 \r\n\nv \ns UNSATISFIABLE\r\nc \nv -2 00127\t-00 \nc\r\nc 1".toUTF8.toList := by
  decide +kernel

def okIs (r : Except PErr SolverLog) (v : SolverLog) : Bool :=
  match r with | .ok w => decide (w = v) | .error _ => false
def isErr (r : Except PErr SolverLog) : Bool :=
  match r with | .ok _ => false | .error _ => true

example : okIs ((Cnf.parseLog ⟨8⟩ true).run (LR.init (logLay.render logValue) false)).1 logValue = true := by
  decide +kernel

/-- The strictness outside the grammar stays rejected: a bare `"c"` line or an empty line without
`ignore_unknown_lines`, a blank in front of a line, two blanks after `"s"`, a blank after the
solution word, an unterminated assignment. -/
example :
    let run (ign : Bool) (s : String) := ((Cnf.parseLog ⟨32⟩ ign).run (LR.init s.toUTF8.toList false)).1
    isErr (run false "c\nv 0\n") ∧ okIs (run true "c\nv 0\n") ⟨none, []⟩ ∧
    isErr (run false "\nv 0\n") ∧
    okIs (run true " v 1 0\n") ⟨none, []⟩ ∧ isErr (run false " v 1 0\n") ∧
    isErr (run true "s  SATISFIABLE\n") ∧ isErr (run true "s SATISFIABLE \n") ∧
    isErr (run true "v 1\n") ∧ okIs (run false "v 1\nv 0") ⟨none, [1]⟩ := by
  decide +kernel

end Example

end Flussab.C07
