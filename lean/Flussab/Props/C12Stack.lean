/-
C12 for the EXPLICIT-STACK model of `Renumber` — closes the gap "modelled, not verified: the
explicit-stack DFS of `Renumber` as fuelled recursion".

`Flussab/Model/AigStack.lean` mirrors the loop of `Renumber::transfer` literally: `State::{Transfer,
Input0, Input1, Return}`, `Vec<Continuation>` with push / pop / `get(len / 2)`, one `stepStack` per
loop iteration, `runStack` with an iteration fuel, and `initialize` / `new` / `renumber_aig` on top
(`renumberStackFuel`, entry point `renumberStack`).  `Flussab/Model/Aig.lean` has the same
algorithm as a recursive function (`transfer`, fuel = recursion depth, `path` = the `lit` fields of
the stack).

Proved here:
* *simulation of one call, unconditionally* (any `defs`, tables, stack, literal; cyclic or undefined
  inputs included): the machine started in `State::Transfer` reaches `State::Return` with exactly
  the tables and literal the recursive `transfer` returns and the stack restored, or returns the
  same error, in exactly `transferCost` iterations (`stack_transfer_simulates`);
* *the two can never disagree*, whatever the fuels (`stack_transfer_agrees`);
* *termination with an explicit bound*: inside a `renumber_aig` run every `transfer` call finishes
  within `stackFuel a = 14·gates + 6` iterations — successful, cyclic (`FoundCycle`) and undefined
  (`LitNotDefined`) calls alike (`transferStack_never_out_of_fuel`, `renumberStack_never_out_of_fuel`);
* *refinement of the whole run*: `renumberStack = renumberAig`, same `OrderedAig`, same final
  `lit_map` / `last_code` / `and_gates` / `and_gate_index`, same error
  (`renumberStack_refines`, `renumberStack_final_tables`, `renumberStackFuel_refines`);
* the C12 theorems (order, soundness, errors, acceptance, classification, leaf numbering, code
  bound) restated for the stack machine, generic in the options and in the iteration fuel.
Property theorems only; lemmas are in `Flussab/Proof/AigStack*.lean`.
-/
import Flussab.Props.C12
import Flussab.Proof.AigStackMain

namespace Flussab.C12
open Flussab Flussab.Aig

/-! ### one call of `Renumber::transfer` -/

/-- **Simulation of one call, no assumptions.**  For every `defs`, tables `st`, stack `stk` and
literal: if the recursive model (called with the stacked literals as `path`) is not cut off, the
loop of `Renumber::transfer`, started in `State::Transfer { lit }`, after exactly `transferCost`
iterations is in `State::Return { transferred }` with the recursive model's literal and tables and
with the stack as it was — or has returned the recursive model's error (`FoundCycle`,
`LitNotDefined`).  Graphs with cycles and undefined literals are included. -/
theorem stack_transfer_simulates (cfg : Config) (defs : Defs) (dfuel : Nat) (stk : Array Cont) (st : St)
    (lit : Nat) (h : transfer cfg defs dfuel (pathOf stk) st lit ≠ .outOfFuel) (K : Nat) :
    runStack cfg defs (transferCost cfg defs dfuel (pathOf stk) st lit + K) ⟨⟨st, stk⟩, .transfer lit⟩ =
      match transfer cfg defs dfuel (pathOf stk) st lit with
      | .ok r => runStack cfg defs K ⟨⟨r.2, stk⟩, .ret r.1⟩
      | .error e => .error e
      | .outOfFuel => .outOfFuel :=
  runStack_transfer cfg defs dfuel stk st lit h K

/-- **One top-level call** (empty stack, as `initialize` calls it): with `transferCost + 1`
iterations `transfer` returns the recursive model's literal, `lit_map`, `last_code`, `and_gates`,
`and_gate_index` and an empty stack, or the recursive model's error. -/
theorem stack_transfer_refines (cfg : Config) (defs : Defs) (dfuel : Nat) (st : St) (lit : Nat)
    (h : transfer cfg defs dfuel [] st lit ≠ .outOfFuel) (fuel : Nat)
    (hf : transferCost cfg defs dfuel [] st lit + 1 ≤ fuel) :
    transferStack cfg defs fuel ⟨st, #[]⟩ lit =
      match transfer cfg defs dfuel [] st lit with
      | .ok r => .ok (r.1, ⟨r.2, #[]⟩)
      | .error e => .error e
      | .outOfFuel => .outOfFuel := by
  rw [transferStack_eq cfg defs dfuel st lit h fuel hf]
  cases transfer cfg defs dfuel [] st lit <;> rfl

/-- **No disagreement, whatever the fuels**: if neither the recursive model nor the stack machine
is cut off, they return the same literal and tables, or the same error. -/
theorem stack_transfer_agrees (cfg : Config) (defs : Defs) (dfuel fuel : Nat) (st : St) (lit : Nat)
    (h : transfer cfg defs dfuel [] st lit ≠ .outOfFuel)
    (h' : transferStack cfg defs fuel ⟨st, #[]⟩ lit ≠ .outOfFuel) :
    transferStack cfg defs fuel ⟨st, #[]⟩ lit =
      match transfer cfg defs dfuel [] st lit with
      | .ok r => .ok (r.1, ⟨r.2, #[]⟩)
      | .error e => .error e
      | .outOfFuel => .outOfFuel := by
  rw [transferStack_agrees cfg defs dfuel fuel st lit h h']
  cases transfer cfg defs dfuel [] st lit <;> rfl

/-- More iterations never change a finished run of the loop. -/
theorem stack_run_fuel_monotone (cfg : Config) (defs : Defs) (n k : Nat) (s : StackState)
    (h : runStack cfg defs n s ≠ .outOfFuel) : runStack cfg defs (n + k) s = runStack cfg defs n s :=
  runStack_mono cfg defs n s h k

/-- **Termination of every call, with an explicit bound.**  In a `renumber_aig` run (`lit_defs` and
the leaf loops of `initialize` succeeded, some literals `pre` have been transferred already) the
next `transfer` call finishes within `stackFuel a = 14·gates + 6` loop iterations — whether it
succeeds, finds a cycle or an undefined literal — and refines the recursive model. -/
theorem transferStack_never_out_of_fuel (cfg : Config) (a : Aig) (defs : Defs) (st0 st : St)
    (pre : List Nat) (lit dfuel fuel : Nat) (h1 : litDefs a = .ok defs)
    (h2 : initLatches defs a.latches (initInputs a.inputs St.init) = .ok st0)
    (h3 : transferAll cfg defs dfuel pre st0 = .ok st)
    (hdf : 2 * a.gates.length + 3 ≤ dfuel) (hfu : stackFuel a ≤ fuel) :
    transferStack cfg defs fuel ⟨st, #[]⟩ lit ≠ .outOfFuel ∧
    transferStack cfg defs fuel ⟨st, #[]⟩ lit =
      match transfer cfg defs dfuel [] st lit with
      | .ok r => .ok (r.1, ⟨r.2, #[]⟩)
      | .error e => .error e
      | .outOfFuel => .outOfFuel := by
  obtain ⟨hne, heq⟩ := transferStack_refines (ready_in_run h1 h2 h3) cfg dfuel fuel hdf hfu lit
  refine ⟨by rw [heq]; exact liftRes_ne_outOfFuel hne, ?_⟩
  rw [heq]
  cases transfer cfg defs dfuel [] st lit <;> rfl

/-- The iteration count of a cyclic descent, stand-alone: a call that ends in an error takes at
most `6·(lit_map entries still missing) + 4·(stack slots still free) + 1` iterations. -/
theorem stack_failing_call_cost (cfg : Config) (a : Aig) (defs : Defs) (st0 st : St) (pre : List Nat)
    (lit dfuel : Nat) (e : Err) (h1 : litDefs a = .ok defs)
    (h2 : initLatches defs a.latches (initInputs a.inputs St.init) = .ok st0)
    (h3 : transferAll cfg defs dfuel pre st0 = .ok st)
    (he : transfer cfg defs dfuel [] st lit = .error e) :
    transferCost cfg defs dfuel [] st lit + 6 * st.litMap.length ≤
      6 * (definedVars a).length + 4 * (2 * a.gates.length + 1) + 1 := by
  have r := ready_in_run h1 h2 h3
  have := transferCost_err_le r.defsOk r.defsFull r.nodup cfg dfuel [] st lit e r.inv r.count
    (PathInv.nil a defs lit st) he
  simpa using this

/-! ### the whole `renumber_aig` run -/

/-- **Refinement.**  For every circuit and all 8 option combinations the explicit-stack machine
(default iteration fuel) and the recursive model (default depth fuel) return the same value: the
same ordered circuit and final `lit_map`, or the same error. -/
theorem renumberStack_refines (cfg : Config) (a : Aig) : renumberStack cfg a = renumberAig cfg a :=
  renumberStack_eq_renumberAig cfg a

/-- … with explicit fuels: `14·gates + 6` iterations per call against depth `2·gates + 3`. -/
theorem renumberStackFuel_refines (cfg : Config) (a : Aig) (dfuel fuel : Nat)
    (hdf : 2 * a.gates.length + 3 ≤ dfuel) (hfu : 14 * a.gates.length + 6 ≤ fuel) :
    renumberStackFuel cfg a fuel = renumber cfg a dfuel :=
  renumberStackFuel_eq_renumber cfg a dfuel fuel hdf hfu

/-- … and for ANY iteration fuel: a run that is not cut off returns what the recursive model
returns. -/
theorem renumberStackFuel_finished (cfg : Config) (a : Aig) (fuel : Nat)
    (h : renumberStackFuel cfg a fuel ≠ .outOfFuel) :
    renumberStackFuel cfg a fuel = renumberAig cfg a :=
  renumberStackFuel_eq_of_finished cfg a fuel h

/-- **Same final tables.**  `Renumber::new` of the stack machine ends with the `lit_map`,
`last_code`, `and_gates` and `and_gate_index` of the recursive model and with an empty stack (or
with the same error). -/
theorem renumberStack_final_tables (cfg : Config) (a : Aig) :
    newStack cfg a (stackFuel a) =
      match initState cfg a (defaultFuel a) with
      | .ok st => .ok ⟨st, #[]⟩
      | .error e => .error e
      | .outOfFuel => .outOfFuel := by
  rw [newStack_tables]
  cases initState cfg a (defaultFuel a) <;> rfl

/-- **Termination on every graph**: `14·gates + 6` loop iterations per `transfer` call are never
exhausted — well-formed, cyclic and ill-formed graphs alike. -/
theorem renumberStack_never_out_of_fuel (cfg : Config) (a : Aig) : renumberStack cfg a ≠ .outOfFuel := by
  rw [renumberStack_refines]; exact renumberAig_never_out_of_fuel cfg a

theorem renumberStackFuel_never_out_of_fuel (cfg : Config) (a : Aig) (fuel : Nat)
    (hfu : stackFuel a ≤ fuel) : renumberStackFuel cfg a fuel ≠ .outOfFuel := by
  rw [renumberStackFuel_eq_renumber cfg a (defaultFuel a) fuel (Nat.le_refl _) hfu]
  exact renumberAig_never_out_of_fuel cfg a

/-! ### C12 for the stack machine (generic in the options and in the iteration fuel) -/

/-- **Order** (`renumber_order`) for the stack machine. -/
theorem renumberStack_order (cfg : Config) (a : Aig) (fuel : Nat) (o : OrderedAig) (m : LitMap)
    (h : renumberStackFuel cfg a fuel = .ok (o, m)) :
    o.inputCount = a.inputs.length ∧ o.latches.length = a.latches.length ∧
    o.maxVarIndex = a.inputs.length + a.latches.length + o.gates.length ∧
    (∀ i (hi : i < o.gates.length), o.gates[i].in1 ≤ o.gates[i].in0 ∧
      o.gates[i].in0 < 2 * (a.inputs.length + a.latches.length + 1 + i)) ∧
    (o.outputs.length = a.outputs.length ∧ o.bad.length = a.bad.length ∧
      o.constraints.length = a.constraints.length ∧ o.fairness.length = a.fairness.length ∧
      o.justice.map List.length = a.justice.map List.length ∧
      o.latches.map (·.init) = a.latches.map (·.init)) ∧
    (∀ l ∈ o.latches.map (·.next) ++ o.outputs ++ o.bad ++ o.constraints ++ o.fairness ++
        o.justice.flatten, l ≤ 2 * o.maxVarIndex + 1) ∧
    (∀ k t, m.get k = some t → t ≤ 2 * o.maxVarIndex + 1) :=
  renumber_order cfg a _ o m (renumberStackFuel_ok h)

/-- **Soundness** (`renumber_sound`) for the stack machine. -/
theorem renumberStack_sound (cfg : Config) (a : Aig) (fuel : Nat) (o : OrderedAig) (m : LitMap)
    (h : renumberStackFuel cfg a fuel = .ok (o, m)) (σ : Nat → Bool) (hσ : Consistent a σ) :
    let vals := evalOrd o.gates (a.inputs.map (litVal σ)) (a.latches.map fun l => litVal σ l.state)
    o.latches.map (fun l => litValL vals l.next) = a.latches.map (fun l => litVal σ l.next) ∧
    o.outputs.map (litValL vals) = a.outputs.map (litVal σ) ∧
    o.bad.map (litValL vals) = a.bad.map (litVal σ) ∧
    o.constraints.map (litValL vals) = a.constraints.map (litVal σ) ∧
    o.fairness.map (litValL vals) = a.fairness.map (litVal σ) ∧
    o.justice.map (List.map (litValL vals)) = a.justice.map (List.map (litVal σ)) ∧
    (∀ k t, m.get k = some t → litValL vals t = litVal σ k) ∧
    (∀ g ∈ a.gates, cfg.trim = false → ∃ t, m.get g.out = some t) :=
  renumber_sound cfg a _ o m (renumberStackFuel_ok h) σ hσ

/-- **Errors** (`renumber_errors`) for the stack machine: a doubly defined variable is reported as
`LitAlreadyDefined` (any fuel — no `transfer` is reached); an undefined literal or a combinational
cycle below a transferred root never yields `Ok`. -/
theorem renumberStack_errors (cfg : Config) (a : Aig) (fuel : Nat) :
    (¬ (definedVars a).Nodup → ∃ l, renumberStackFuel cfg a fuel = .error (.alreadyDefined l)) ∧
    (∀ r v, r ∈ roots cfg a → DepStar a (r / 2) v → (Undefined a v ∨ OnCycle a v) →
      ∀ res, renumberStackFuel cfg a fuel ≠ .ok res) := by
  constructor
  · intro hn
    obtain ⟨l, hl⟩ := renumber_errors_duplicate cfg a (defaultFuel a) hn
    have e := renumberStackFuel_eq_renumber cfg a (defaultFuel a) (fuel + stackFuel a) (Nat.le_refl _)
      (by omega)
    rw [hl] at e
    -- the error does not depend on the fuel: cut-off is impossible, no `transfer` is reached
    by_cases hcut : renumberStackFuel cfg a fuel = .outOfFuel
    · exfalso
      unfold renumberStackFuel newStack at hcut
      cases h1 : litDefs a with
      | error e' => rw [h1] at hcut; simp at hcut
      | ok defs =>
        cases h2 : initLatches defs a.latches (initInputs a.inputs St.init) with
        | ok st0 => exact hn (init_nodup h1 h2)
        | error e' =>
          rw [h1] at hcut
          have hinit : ({ litMap := LitMap.insert [] 0 0, lastCode := 0, gates := [], index := [] } : St) =
              St.init := rfl
          simp only [initializeStack, hinit, h2] at hcut
          simp at hcut
    · exact ⟨l, by rw [renumberStackFuel_finished cfg a fuel hcut]; exact hl⟩
  · intro r v hr hd hv res hok
    exact renumber_errors_illfounded cfg a _ r v hr hd hv res (renumberStackFuel_ok hok)

/-- **The reported error is the corresponding one** (`renumber_error_is_corresponding`). -/
theorem renumberStack_error_is_corresponding (cfg : Config) (a : Aig) (fuel : Nat) (e : Err)
    (h : renumberStackFuel cfg a fuel = .error e) :
    (∃ l, e = .alreadyDefined l ∧ ¬ (definedVars a).Nodup) ∨
    ((definedVars a).Nodup ∧ ∃ r ∈ roots cfg a,
      ((∃ l, e = .notDefined l ∧ Undefined a (l / 2) ∧ DepStar a (r / 2) (l / 2)) ∨
       (∃ l, e = .foundCycle l ∧ OnCycle a (l / 2) ∧ DepStar a (r / 2) (l / 2)))) :=
  renumber_error_is_corresponding cfg a _ e (renumberStackFuel_error h)

/-- **Classification** (`renumberAig_classification`): doubly defined variable ⇒
`LitAlreadyDefined`; else some transferred root not well-founded ⇒ `LitNotDefined` or `FoundCycle`
(in particular: on a cyclic input the explicit stack does not grow for ever, the cycle error is
produced within the fuel); else `Ok`. -/
theorem renumberStack_classification (cfg : Config) (a : Aig) :
    (¬ (definedVars a).Nodup → ∃ l, renumberStack cfg a = .error (.alreadyDefined l)) ∧
    ((definedVars a).Nodup → (∃ r ∈ roots cfg a, ¬ Grounded a (r / 2)) →
      ∃ l, renumberStack cfg a = .error (.notDefined l) ∨ renumberStack cfg a = .error (.foundCycle l)) ∧
    ((definedVars a).Nodup → (∀ r ∈ roots cfg a, Grounded a (r / 2)) →
      ∃ o m, renumberStack cfg a = .ok (o, m)) := by
  rw [renumberStack_refines]; exact renumberAig_classification cfg a

/-- **Acceptance**: a well-formed graph is renumbered successfully, however deep it is. -/
theorem renumberStack_accepts_wellformed (cfg : Config) (a : Aig) (fuel : Nat)
    (hn : (definedVars a).Nodup) (hg : ∀ r ∈ roots cfg a, Grounded a (r / 2))
    (hfu : stackFuel a ≤ fuel) : ∃ o m, renumberStackFuel cfg a fuel = .ok (o, m) := by
  rw [renumberStackFuel_eq_renumber cfg a (defaultFuel a) fuel (Nat.le_refl _) hfu]
  exact renumber_accepts_wellformed cfg a _ hn hg (by unfold defaultFuel; omega)

/-- `Ok` exactly on the well-formed graphs. -/
theorem renumberStack_ok_iff_wellformed (cfg : Config) (a : Aig) :
    (∃ o m, renumberStack cfg a = .ok (o, m)) ↔
      ((definedVars a).Nodup ∧ ∀ r ∈ roots cfg a, Grounded a (r / 2)) := by
  rw [renumberStack_refines]; exact renumberAig_ok_iff_wellformed cfg a

/-- An undefined literal or a cycle below a transferred root yields `LitNotDefined` or
`FoundCycle` (`renumber_errors_kind`). -/
theorem renumberStack_errors_kind (cfg : Config) (a : Aig) (r v : Nat) (hn : (definedVars a).Nodup)
    (hr : r ∈ roots cfg a) (hd : DepStar a (r / 2) v) (hv : Undefined a v ∨ OnCycle a v) :
    ∃ l, renumberStack cfg a = .error (.notDefined l) ∨ renumberStack cfg a = .error (.foundCycle l) := by
  rw [renumberStack_refines]; exact renumber_errors_kind cfg a r v hn hr hd hv

/-- **Consecutive numbering of inputs and latches** (`renumber_leaf_numbering`). -/
theorem renumberStack_leaf_numbering (cfg : Config) (a : Aig) (fuel : Nat) (o : OrderedAig) (m : LitMap)
    (h : renumberStackFuel cfg a fuel = .ok (o, m)) :
    m.get 0 = some 0 ∧
    (∀ i (hi : i < a.inputs.length), m.get a.inputs[i] = some (2 * (i + 1))) ∧
    (∀ j (hj : j < a.latches.length),
      m.get a.latches[j].state = some (2 * (a.inputs.length + j + 1))) :=
  renumber_leaf_numbering cfg a _ o m (renumberStackFuel_ok h)

/-- **Codes fit** (`renumber_codes_fit`). -/
theorem renumberStack_codes_fit (cfg : Config) (a : Aig) (fuel : Nat) (o : OrderedAig) (m : LitMap)
    (h : renumberStackFuel cfg a fuel = .ok (o, m)) :
    o.gates.length ≤ a.gates.length ∧
    o.maxVarIndex ≤ a.inputs.length + a.latches.length + a.gates.length :=
  renumber_codes_fit cfg a _ o m (renumberStackFuel_ok h)

/-! ### Non-vacuity -/

/-- The hypotheses of `renumberStack_order` / `renumberStack_sound` are satisfiable (all options
on; `exAig`, `exSigma` of `Props/C12.lean`). -/
example : ∃ o m, renumberStack ⟨true, true, true⟩ exAig = .ok (o, m) ∧ o.gates = [⟨5, 2⟩, ⟨8, 6⟩] ∧
    o.outputs = [11, 3, 8] ∧ Consistent exAig exSigma :=
  ⟨_, _, rfl, rfl, rfl, rfl, by decide⟩

/-- … and with all options off. -/
example : ∃ o m, renumberStack ⟨false, false, false⟩ exAig = .ok (o, m) ∧ o.gates.length = 4 :=
  ⟨_, _, rfl, rfl⟩

/-- `renumberStackFuel_finished`: a smaller fuel that is still enough. -/
example : ∃ r, renumberStackFuel ⟨true, true, true⟩ exAig 20 = .ok r := ⟨_, rfl⟩

/-- … and one that is not (so the hypothesis is not void). -/
example : renumberStackFuel ⟨true, true, true⟩ exAig 5 = .outOfFuel := rfl

/-- `stack_transfer_simulates` / `stack_transfer_refines` / `stack_transfer_agrees`: a call that is
not cut off, on a non-empty stack (the frames of literals 7 and 9 are below), costing 7 iterations. -/
example : (∃ r, transfer ⟨false, true, true⟩ [(8, .andGate 2 4)]
      2 (pathOf #[.input0 7 ⟨0, 0, 7⟩, .input1 9 ⟨0, 0, 9⟩]) (initInputs [2, 4] St.init) 8 = .ok r) ∧
    transferCost ⟨false, true, true⟩ [(8, .andGate 2 4)]
      2 (pathOf #[.input0 7 ⟨0, 0, 7⟩, .input1 9 ⟨0, 0, 9⟩]) (initInputs [2, 4] St.init) 8 = 7 :=
  ⟨⟨_, rfl⟩, rfl⟩

/-- `transferStack_never_out_of_fuel`: its run hypotheses hold for `exAig` with two roots done. -/
example : ∃ defs st0 st, litDefs exAig = .ok defs ∧
    initLatches defs exAig.latches (initInputs exAig.inputs St.init) = .ok st0 ∧
    transferAll ⟨true, true, true⟩ defs (defaultFuel exAig) [9, 11] st0 = .ok st :=
  ⟨_, _, _, rfl, rfl, rfl⟩

/-- `stack_failing_call_cost`, `renumberStack_classification` (2nd part), `renumberStack_errors_kind`:
the cycle `4 → 6 → 4` of `exCyc` is found by the explicit stack, too … -/
example : renumberStack ⟨true, false, false⟩ exCyc = .error (.foundCycle 6) := rfl

example : ∃ defs st0, litDefs exCyc = .ok defs ∧
    initLatches defs exCyc.latches (initInputs exCyc.inputs St.init) = .ok st0 ∧
    transferAll ⟨true, false, false⟩ defs (defaultFuel exCyc) [] st0 = .ok st0 ∧
    transfer ⟨true, false, false⟩ defs (defaultFuel exCyc) [] st0 4 = .error (.foundCycle 6) :=
  ⟨_, _, rfl, rfl, rfl, rfl⟩

/-- … a dangling literal … -/
example : renumberStack ⟨true, false, false⟩ { inputs := [2], outputs := [5] } =
    .error (.notDefined 5) := rfl

/-- … and a latch state equal to an input (`renumberStack_errors`, first part; any fuel). -/
example : renumberStackFuel ⟨false, false, false⟩ { inputs := [2], latches := [⟨2, 2, none⟩] } 0 =
    .error (.alreadyDefined 2) := rfl

/-- `renumberStack_accepts_wellformed` / `renumberStack_ok_iff_wellformed`: `exAig` is well-formed
(`(definedVars exAig).Nodup` and groundedness are shown in `Props/C12.lean`). -/
example : (definedVars exAig).Nodup ∧ ∀ r ∈ roots ⟨true, true, true⟩ exAig, Grounded exAig (r / 2) :=
  (renumberStack_ok_iff_wellformed _ exAig).mp ⟨_, _, rfl⟩

end Flussab.C12
