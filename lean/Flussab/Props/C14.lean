/-
C14 — safe calls never expose memory outside the buffered data, even after panics.

What Lean decides here is the *index discipline* every `unsafe` block of the reader relies on
(`SAFETY buf[pos_in_buf..pos_in_buf+valid_len] must always be valid`): the invariant `Reader.Ok`
holds after every call of the safe API, for EVERY source — including sources that violate the
`Read` contract by reporting more bytes than the slice they were given — and including calls that
panic and are caught (`none` results: the state is what Rust leaves behind at the panic point).
That the compiled code has no UB given this discipline is outside the model (DESIGN.md §7).
-/
import Flussab.Proof.ReaderOps
import Flussab.Proof.WriterOps

namespace Flussab.C14
open Flussab Reader

/-- The invariant implies every index condition the `unsafe` blocks state: the exposed slice is
inside the buffer, has the buffered length, and byte requests below `buf_len()` index inside it. -/
theorem ok_implies_in_bounds (r : Reader) (h : r.Ok) :
    r.posInBuf + r.validLen ≤ r.buf.length ∧ r.window.length = r.bufLen ∧
    (∀ k, k < r.validLen → r.posInBuf + k < r.buf.length) ∧
    (∀ off, off + 8 ≤ r.bufLen → r.posInBuf + off + 8 ≤ r.buf.length) :=
  ⟨h.inBuf, h.window_length, fun k hk => by have := h.inBuf; omega,
   fun off ho => by have := h.inBuf; simp [bufLen] at ho; omega⟩

/-- The refill loop keeps the invariant whatever the source does, and a loop that panics (lying
source) leaves a window that only grew by honestly delivered bytes. -/
theorem request_ok_any (r : Reader) (h : r.Ok) (n : Nat) :
    (r.request n).2.Ok ∧ ((r.request n).1 = none →
      ∃ bs, (r.request n).2.window = r.window ++ bs ∧ (r.request n).2.position = r.position) := by
  unfold request
  rcases requestLoop_spec (r.fuel + 1) r n h with ⟨r', bs, e, ok, g, _⟩ | ⟨r', bs, e, ok, _, w, p, _⟩
  · rw [e]; exact ⟨ok, fun hn => by simp at hn⟩
  · rw [e]; exact ⟨ok, fun _ => ⟨bs, w, p⟩⟩

theorem request_byte_ok_any (r : Reader) (h : r.Ok) (k : Nat) :
    (r.requestByteAt k).2.Ok ∧ ((r.requestByteAt k).1 = none →
      ∃ bs, (r.requestByteAt k).2.window = r.window ++ bs ∧ (r.requestByteAt k).2.position = r.position) := by
  unfold requestByteAt
  rcases requestLoop_spec (r.fuel + 1) r (k + 1) h with ⟨r', bs, e, ok, g, _⟩ | ⟨r', bs, e, ok, _, w, p, _⟩
  · rw [e]; exact ⟨ok, fun hn => by simp at hn⟩
  · rw [e]; exact ⟨ok, fun _ => ⟨bs, w, p⟩⟩

/-- **Every call of the safe API preserves the invariant**, for every source and schedule
(lying `Ok(n)` included) and whether or not the call panics. -/
theorem op_preserves_ok (r : Reader) (op : Op) (h : r.Ok) (hv : op.Valid) : (op.run r).2.Ok := by
  cases op with
  | request n =>
    have := (request_ok_any r h n).1
    simp only [Op.run]; split <;> simp_all
  | reqAt k =>
    have := (request_byte_ok_any r h k).1
    simp only [Op.run]; split <;> simp_all
  | requestMore =>
    rcases requestMore_spec r h with ⟨_, e⟩ | ⟨_, r', bs, e, _, ok, _⟩ | ⟨_, r', e, _, ok, _⟩ <;>
      simp only [Op.run, e] <;> assumption
  | advance n =>
    rcases advance_spec r h n with ⟨_, r', e, eff, _⟩ | ⟨_, e⟩ <;> simp only [Op.run, e]
    · exact eff.ok
    · exact h
  | advanceWithBuf n =>
    rcases advance_spec r h n with ⟨_, r', e, eff, _⟩ | ⟨_, e⟩ <;> simp only [Op.run, advanceWithBuf, e]
    · exact eff.ok
    · exact h
  | setMark => exact ⟨h.inBuf, h.chunkPos, h.errC, h.endC, h.after, h.wf⟩
  | setMarkTo p => exact ⟨h.inBuf, h.chunkPos, h.errC, h.endC, h.after, h.wf⟩
  | setChunk c => exact ⟨h.inBuf, hv, h.errC, h.endC, h.after, h.wf⟩
  | checkIoError =>
    exact ⟨h.inBuf, h.chunkPos, fun hf => absurd hf (by simp [Op.run, checkIoError]), h.endC, h.after, h.wf⟩

/-- The same over whole histories: no sequence of safe calls, caught panics included, breaks the
invariant — so `buf()` always has the buffered length and lies inside the buffer. -/
theorem history_preserves_ok (ops : List Op) (r : Reader) (h : r.Ok) (hv : ∀ op ∈ ops, op.Valid) :
    (runAll ops r).2.Ok := by
  induction ops generalizing r with
  | nil => exact h
  | cons op ops ih =>
    simp only [runAll]
    exact ih _ (op_preserves_ok r op h (hv op (by simp))) (fun o ho => hv o (by simp [ho]))

/-- **A panicking `advance` / `advance_with_buf` leaves the reader untouched** (this is the
statement defect F14 falsified: `valid_len` used to be overwritten before the panic). -/
theorem advance_panic_is_noop (r : Reader) (n : Nat) (hn : r.bufLen < n) :
    (Op.advance n).run r = (.panic, r) ∧ (Op.advanceWithBuf n).run r = (.panic, r) := by
  simp only [bufLen] at hn
  simp [Op.run, advance, advanceWithBuf, hn]

/-- **A lying source is caught before the window changes**: when `request_more` panics on the
load-bearing `assert!(n <= chunk_size)`, the exposed window, buffered length, position, mark and
flags are exactly what they were. -/
theorem lying_read_leaves_window (r : Reader) (h : r.Ok) (hp : (r.requestMore).1 = none) :
    (r.requestMore).2.window = r.window ∧ (r.requestMore).2.bufLen = r.bufLen ∧
    (r.requestMore).2.position = r.position ∧ (r.requestMore).2.mark = r.mark ∧
    (r.requestMore).2.isComplete = r.isComplete := by
  rcases requestMore_spec r h with ⟨_, e⟩ | ⟨_, r', bs, e, _⟩ | ⟨_, r', e, l, _⟩
  · rw [e] at hp; simp at hp
  · rw [e] at hp; simp at hp
  · rw [e]; exact ⟨l.window, l.validLen, l.position, l.mark, l.complete⟩

/-- **Every exposed byte was read from the source**: with an honest source the window is a prefix
of the source stream in front of the cursor (never stale or zero-fill bytes). -/
theorem window_was_read (ops : List Op) (src : Source) (hfresh : src.ended = false)
    (hafter : src.afterEnd = 0) (hh : src.Honest) (hv : ∀ op ∈ ops, op.Valid) :
    ∃ consumed, (runAll ops (mk' src)).2.window <+: (src.pre ++ src.data).drop consumed := by
  have ok0 : (mk' src).Ok := ⟨by simp [mk'], by simp [mk'], by simp [mk'], by simp [mk', hfresh],
    by simp [mk', hafter], by simp [mk', hfresh]⟩
  have hrest0 : (mk' src).rest = src.pre ++ src.data := by simp [mk', rest, window]
  -- history_preserves_stream, restated locally to avoid importing the C02 file
  suffices hs : ∀ (ops : List Op) (r : Reader), r.Ok → r.src.Honest → (∀ op ∈ ops, op.Valid) →
      ∃ n, (runAll ops r).2.rest = r.rest.drop n by
    obtain ⟨n, hn⟩ := hs ops (mk' src) ok0 hh hv
    exact ⟨n, by rw [← hrest0, ← hn]; exact window_le_rest _⟩
  intro ops
  induction ops with
  | nil => intro r _ _ _; exact ⟨0, by simp [runAll]⟩
  | cons op ops ih =>
    intro r hr hhr hvr
    have s := op_stepped r op hr hhr (hvr op (by simp))
    obtain ⟨n, hn⟩ := ih (op.run r).2 s.ok s.honest (fun o ho => hvr o (by simp [ho]))
    exact ⟨op.adv r + n, by simp only [runAll]; rw [hn, s.rest, List.drop_drop]⟩

/-- Non-vacuity: a lying source, a caught over-long advance and a refill, on a concrete reader. -/
example :
    let src : Source := { data := [1, 2, 3, 4, 5, 6], fault := false, sched := [.give 2, .lie 0, .give 1] }
    let r := (mk' src).setChunkSize 2
    r.Ok ∧ (runAll [.request 2, .advance 5, .requestMore, .request 3] r).1 =
      [.bytes [1, 2], .panic, .panic, .bytes [1, 2, 5]] := by
  exact ⟨⟨by decide, by decide, by decide, by decide, by decide, by decide⟩, by decide⟩

/-! ### the writer half -/

/-- **`len ≤ capacity` after every call of the writer's safe API, for every sink** — also when the
sink panics and the panic unwinds through the writer.  This is the bound the `unsafe` blocks of
`write_all_defer_err` (`copy_from_nonoverlapping` into `old_len..new_len`, `set_len`) and of
`write::text::ascii_digits` (`buf_write_ptr(MAX_LEN)` + `advance_unchecked(len)`) rely on; for the
latter the op is valid when the text of the value is at most `MAX_LEN` bytes long, which
`Flussab.C11.digits_fit` proves for every value of the integer type. -/
theorem writer_len_le_capacity (w : Writer) (op : Writer.Op) (hv : op.Valid) (h : w.buf.length ≤ w.cap) :
    (op.run w).2.buf.length ≤ (op.run w).2.cap ∧ (op.run w).2.cap = w.cap :=
  Writer.op_len w op hv h

theorem writer_history_len_le_capacity (ops : List Writer.Op) (w : Writer) (hv : ∀ op ∈ ops, op.Valid)
    (h : w.buf.length ≤ w.cap) :
    (ops.foldl (fun w op => (op.run w).2) w).buf.length ≤ w.cap ∧
    (ops.foldl (fun w op => (op.run w).2) w).cap = w.cap := by
  induction ops generalizing w with
  | nil => exact ⟨h, rfl⟩
  | cons op ops ih =>
    obtain ⟨h1, c1⟩ := Writer.op_len w op (hv op (by simp)) h
    obtain ⟨h2, c2⟩ := ih (op.run w).2 (fun o ho => hv o (by simp [ho])) h1
    simp only [List.foldl]
    exact ⟨by rw [c1] at h2; exact h2, by rw [c2, c1]⟩

/-- Non-vacuity: a panicking sink in the middle of a flush; the buffer is kept, bounded. -/
example :
    let w : Writer := { sink := { sched := [.accept 1, .panic] }, cap := 4 }
    let w' := [Writer.Op.write [1, 2, 3], .write [4, 5, 6]].foldl (fun w op => (op.run w).2) w
    w'.panicked = true ∧ w'.buf.length ≤ 4 := by decide

end Flussab.C14
